#!/bin/sh
# scripts/seeded_adopt.sh <name>  : verify /tmp/mut/<name>-out independently and keep it as seeded/<PROP>-<name>/
set -e
N="$1"; SRC=/tmp/mut/$N-out
cd /verif
scripts/seeded_verify.sh "$SRC" > /tmp/adopt.$$ 2>&1 || { tail -15 /tmp/adopt.$$; echo "NOT ADOPTED: $N"; exit 1; }
PROP=$(python3 -c "import json; print(json.load(open('$SRC/meta.json'))['property'])")
D=seeded/$PROP-$N
rm -rf "$D"; mkdir -p "$D"
cp "$SRC/patch.diff" "$D/"; cp -r "$SRC/demo" "$D/demo"
python3 - "$SRC/meta.json" "$D/meta.json" <<'PY'
import json,sys,subprocess
m=json.load(open(sys.argv[1]))
m["confirmed_by"]="scripts/seeded_verify.sh: patch applies to /repo HEAD %s; go build ./... ok; existing suite (go test -vet=off -count=1 ./...) passes with the change; demo passes without the change and fails with it" % subprocess.run(["git","-C","/repo","rev-parse","--short","HEAD"],stdout=subprocess.PIPE).stdout.decode().strip()
m["origin"]="written by a fresh sub-agent that saw only the property text and a scratch worktree of the library"
json.dump(m,open(sys.argv[2],"w"),indent=1)
PY
rm -f /tmp/adopt.$$
echo "adopted $D"
