#!/bin/sh
# scripts/seeded_verify.sh <dir-with patch.diff and demo/>   (dir may be outside /verif)
# Confirms independently that a proposed seeded change (1) applies to /repo HEAD, (2) compiles,
# (3) passes the existing test suite, and that its demonstration (4) fails with the change and
# (5) passes without it. Demonstration layout: <dir>/demo/<relative path inside the repo>/*_test.go
# (copied into the worktree) and <dir>/demo/RUN containing the `go test ...` command line.
set -e
S="$(cd "$1" && pwd)"
W=/tmp/seedverify-$$
export GOFLAGS=-mod=mod GOPROXY=off GOSUMDB=off GOTOOLCHAIN=local
trap 'git -C /repo worktree remove --force "$W" >/dev/null 2>&1 || true; rm -rf "$W"' EXIT
git -C /repo worktree add --detach "$W" HEAD >/dev/null 2>&1
cd "$W"
rsync -a --exclude RUN "$S/demo/" "$W/"
RUN=$(cat "$S/demo/RUN")
echo "== demo WITHOUT the change (must pass)"; if sh -c "$RUN" >/tmp/sv.$$ 2>&1; then echo PASS; else tail -20 /tmp/sv.$$; echo "UNEXPECTED: demo fails without the change"; exit 3; fi
git apply "$S/patch.diff"
echo "== build + existing tests WITH the change (must pass)"
go build ./... && go vet ./... >/dev/null 2>&1 || true
# remove the demo before running the existing suite
( cd "$S/demo" && find . -type f ! -name RUN ) | while read f; do mv "$W/$f" "$W/$f.hold"; done
if go test -vet=off -count=1 ./... >/tmp/sv.$$ 2>&1; then echo PASS; else grep -v "^ok\|no test files" /tmp/sv.$$ | tail -20; echo "UNEXPECTED: existing suite fails with the change"; exit 4; fi
( cd "$S/demo" && find . -type f ! -name RUN ) | while read f; do mv "$W/$f.hold" "$W/$f"; done
echo "== demo WITH the change (must fail)"; if sh -c "$RUN" >/tmp/sv.$$ 2>&1; then echo "UNEXPECTED: demo passes with the change"; exit 5; else tail -8 /tmp/sv.$$; echo "FAILS as expected"; fi
rm -f /tmp/sv.$$
echo "seeded_verify: OK"
