#!/bin/sh
# scripts/seeded_take.sh <name> : adopt /tmp/mut/<name>-out (independent verification), drop the sub-agent's
# scratch worktree, and run the property's quick check against the change in a scratch worktree.
N="$1"
cd /verif
scripts/seeded_adopt.sh "$N" 2>&1 | tail -4 || exit 1
[ -f /tmp/mut/$N-out/meta.json ] && git -C /repo worktree remove --force /tmp/mut/$N >/dev/null 2>&1
D=$(ls -d seeded/*-$N 2>/dev/null | head -1)
[ -n "$D" ] || { echo "not adopted"; exit 1; }
scripts/seeded_run.sh "$D" quick 2>&1 | grep -v '^\[C[0-9]* .*\(generated\|built\)' | tail -7
