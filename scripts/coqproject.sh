#!/bin/sh
# scripts/coqproject.sh [prop]
# Regenerates coq/_CoqProject[.prop] and coq/Makefile[.prop] from the .v files present.
# With a property directory name (e.g. c13) the project holds coq/lib, coq/<prop> and every other
# property directory that <prop>'s files import (From V.<dir> Require ...), so that independent
# properties can be built concurrently without sharing a Makefile or dependency file.
# *Extract.v files are compiled separately by the checks, into build/.
set -e
cd "$(dirname "$0")/../coq"
prop="$1"
if [ -z "$prop" ]; then
  suffix=""
  dirs="."
else
  suffix=".$prop"
  dirs="lib $prop"
  # transitive closure of imported property directories
  changed=1
  while [ $changed = 1 ]; do
    changed=0
    for d in $dirs; do
      for i in $(grep -ho 'From V\.[A-Za-z0-9_]*' "$d"/*.v 2>/dev/null | sed 's/From V\.//' | sort -u); do
        case " $dirs " in *" $i "*) ;; *) if [ -d "$i" ]; then dirs="$dirs $i"; changed=1; fi;; esac
      done
    done
  done
fi
{
  echo "-Q . V"
  echo "-arg -w -arg -notation-overridden,-deprecated-hint-without-locality,-deprecated-instance-without-locality"
  find $dirs -name '*.v' ! -name '*Extract.v' ! -name 'cases*.v' | sed 's|^\./||' | LC_ALL=C sort
} > "_CoqProject$suffix.new.$$"
if ! cmp -s "_CoqProject$suffix.new.$$" "_CoqProject$suffix" 2>/dev/null || [ ! -f "Makefile$suffix" ]; then
  mv "_CoqProject$suffix.new.$$" "_CoqProject$suffix"
  coq_makefile -f "_CoqProject$suffix" -o "Makefile$suffix" >/dev/null
else
  rm -f "_CoqProject$suffix.new.$$"
fi
