#!/bin/sh
# Regenerates coq/_CoqProject and coq/Makefile from the .v files present (Extract files are
# compiled separately by the checks, into build/).
set -e
cd "$(dirname "$0")/../coq"
{
  echo "-Q . V"
  echo "-arg -w -arg -notation-overridden,-deprecated-hint-without-locality,-deprecated-instance-without-locality"
  find . -name '*.v' ! -name '*Extract.v' ! -name 'cases*.v' | sed 's|^\./||' | LC_ALL=C sort
} > _CoqProject.new
if ! cmp -s _CoqProject.new _CoqProject 2>/dev/null || [ ! -f Makefile ]; then
  mv _CoqProject.new _CoqProject
  coq_makefile -f _CoqProject -o Makefile >/dev/null
else
  rm -f _CoqProject.new
fi
