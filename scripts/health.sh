#!/bin/sh
# scripts/health.sh [seed] : regenerate MANIFEST + status, validate them, run every quick check on the current
# trees (4 at a time) and print one line per check; non-zero exit if any check alarms.
cd /verif
SEED="${1:-0}"
python3 scripts/gen_manifest.py >/dev/null || exit 2
python3 scripts/gen_status.py >/dev/null
python3-vt - <<'PY' || exit 2
import json,jsonschema
jsonschema.validate(json.load(open('MANIFEST.json')), json.load(open('/root/.vp/MANIFEST.schema.json')))
print("MANIFEST valid")
PY
mkdir -p /tmp/q
for i in 01 02 03 04 05 06 07 08 09 10 11 12 13 14 15 16 17 18 19 20; do echo C$i; done | \
  xargs -P 4 -I{} sh -c 'VERIF_SEED='$SEED' /usr/bin/time -f "wall=%e" ./check {} --tier quick > /tmp/q/{}.log 2>&1; echo "{} exit=$? $(tail -1 /tmp/q/{}.log) $(grep -c "^VIOLATION" /tmp/q/{}.log) violations"'
python3-vt - <<'PY'
import json,jsonschema,glob
es=json.load(open('/root/.vp/EVIDENCE.schema.json'))
bad=0
for f in sorted(glob.glob('/verif/evidence/*.json')):
    try: jsonschema.validate(json.load(open(f)),es)
    except Exception as e: print(f,'INVALID',str(e)[:200]); bad=1
print("evidence files valid" if not bad else "EVIDENCE INVALID")
PY
grep -l "^VIOLATION" /tmp/q/C??.log >/dev/null 2>&1 && { grep -h "^VIOLATION" /tmp/q/C??.log | cut -c1-300; exit 1; }
exit 0
