#!/usr/bin/env python3
"""Regenerates MANIFEST.json from the MANIFEST dicts of checks/cXX.py (one per claimed property);
properties without a check module are listed under not_applicable with the reason in
scripts/not_claimed.json."""
import glob, importlib, json, os, subprocess, sys
ROOT = os.path.dirname(os.path.dirname(os.path.abspath(__file__)))
sys.path.insert(0, os.path.join(ROOT, "checks"))
props = [json.loads(l)["id"] for l in open(os.path.join(ROOT, "properties.jsonl"))]
not_claimed = json.load(open(os.path.join(ROOT, "scripts", "not_claimed.json")))
checks, na, engines = [], [], []
for pid in props:
    f = os.path.join(ROOT, "checks", pid.lower() + ".py")
    mod = None
    if os.path.exists(f):
        mod = importlib.import_module(pid.lower())
    if mod is None or not hasattr(mod, "MANIFEST"):
        na.append({"property_id": pid, "reason": not_claimed.get(pid, "no check has been built for this property yet")})
        continue
    m = mod.MANIFEST
    checks.append({
        "property_id": pid,
        "quick_cmd": "./check %s --tier quick" % pid,
        "thorough_cmd": "./check %s --tier thorough" % pid,
        "evidence_file": "/verif/evidence/%s.json" % pid,
        "replay_cmd_template": "./check %s --replay {path}" % pid,
        "engine": "coq-proof+correspondence",
        "level_claimed": {"category": getattr(mod, "LEVEL", "proof"), "text": m["level_text"],
                          "design_ref": m.get("design_ref", "DESIGN.md section 4, " + pid)},
        "level_note": m["level_note"],
        "technique": m["technique"],
    })
try:
    hooks = subprocess.run(["git", "-C", "/repo", "log", "--format=%H %s"], stdout=subprocess.PIPE).stdout.decode().splitlines()
    hook_commits = [l.split()[0] for l in hooks if l.split(" ", 1)[1].startswith("verif:")]
except Exception:
    hook_commits = []
man = {
    "version": 1,
    "setup_cmd": "./setup.sh",
    "hooks": {
        "guard": "verif",
        "enable": "go build -tags verif / go test -tags verif (add-only files with //go:build verif in /repo)",
        "baseline_off_cmd": "cd /repo && GOFLAGS=-mod=mod GOPROXY=off go test -vet=off -count=1 ./...",
        "source_commits": hook_commits,
        "add_only": True,
    },
    "engines": [{"name": "coq-proof+correspondence", "path": "/verif/check",
                 "serves_properties": [c["property_id"] for c in checks],
                 "kind_free_text": "Coq 8.16.1 theorems over hand-written executable Gallina models (coq/), tied to /repo on every "
                                   "run by a differential correspondence check: extracted OCaml model vs the Go code built from the "
                                   "working tree; plus a failing-input search on the implementation"}],
    "checks": checks,
    "not_applicable": na,
    "notes": "See DESIGN.md (section 0 = as built). known_findings/CXX.json (one file per property, read by the checks; aggregate generated into known_findings.json) list recorded genuine defects (status known -> KNOWN-FINDING lines) and repaired ones (status fixed, with the fix: commit).",
}
json.dump(man, open(os.path.join(ROOT, "MANIFEST.json"), "w"), indent=1)
print("claimed:", [c["property_id"] for c in checks], "not claimed:", [n["property_id"] for n in na])
