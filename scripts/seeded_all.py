#!/usr/bin/env python3
"""Runs every seeded change in seeded/ against the check of the property it breaks (scratch worktree +
scratch copy of /verif, see seeded_run.sh) and writes seeded/RESULTS.json + seeded/RESULTS.md.
usage: scripts/seeded_all.py [tier] [name-filter ...]"""
import json, os, re, subprocess, sys, time
from concurrent.futures import ThreadPoolExecutor
ROOT = os.path.dirname(os.path.dirname(os.path.abspath(__file__)))
tier = sys.argv[1] if len(sys.argv) > 1 else "quick"
filt = sys.argv[2:]
seeds = sorted(d for d in os.listdir(os.path.join(ROOT, "seeded")) if os.path.isdir(os.path.join(ROOT, "seeded", d)))
if filt:
    seeds = [s for s in seeds if any(f in s for f in filt)]
resf = os.path.join(ROOT, "seeded", "RESULTS.json")
results = json.load(open(resf)) if os.path.exists(resf) else {}

def run(s):
    prop = s.split("-")[0]
    if not os.path.exists(os.path.join(ROOT, "checks", prop.lower() + ".py")):
        return s, {"property": prop, "status": "no-check-yet"}
    t0 = time.time()
    p = subprocess.run([os.path.join(ROOT, "scripts", "seeded_run.sh"), os.path.join(ROOT, "seeded", s), tier],
                       stdout=subprocess.PIPE, stderr=subprocess.STDOUT, timeout=7200)
    out = p.stdout.decode("utf-8", "replace")
    viol = [l for l in out.splitlines() if l.startswith("VIOLATION")]
    m = re.search(r"seeded_run: .* exit=(\d+)", out)
    rc = int(m.group(1)) if m else -1
    kinds = sorted(set("no-failing-input-found" if v.rstrip().endswith("no-failing-input-found") else "failing-input" for v in viol))
    return s, {"property": prop, "tier": tier, "exit": rc, "caught": rc == 1 and bool(viol), "violations": len(viol),
               "kinds": kinds, "first": (viol[0][:240] if viol else out[-400:]), "wall_s": round(time.time() - t0, 1),
               "repo_head": subprocess.run(["git", "-C", "/repo", "rev-parse", "--short", "HEAD"], stdout=subprocess.PIPE).stdout.decode().strip()}

with ThreadPoolExecutor(max_workers=3) as ex:
    for s, r in ex.map(run, seeds):
        results[s] = r
        print(s, r.get("status") or ("CAUGHT" if r["caught"] else "MISSED"), r.get("kinds", ""), r.get("wall_s", ""), flush=True)
json.dump(results, open(resf, "w"), indent=1, sort_keys=True)
with open(os.path.join(ROOT, "seeded", "RESULTS.md"), "w") as f:
    f.write("| seeded change | property | what it needs | caught by `./check` | how |\n|---|---|---|---|---|\n")
    for s in sorted(results):
        r = results[s]
        meta = json.load(open(os.path.join(ROOT, "seeded", s, "meta.json")))
        f.write("| %s | %s | %s | %s | %s |\n" % (s, r["property"], meta.get("needs", "").replace("|", "/").replace("\n", " ")[:220],
                r.get("status") or ("yes (%s, %ss)" % (r.get("tier"), r.get("wall_s")) if r["caught"] else "NO"),
                ", ".join(r.get("kinds", []))))
