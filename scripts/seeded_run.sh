#!/bin/sh
# scripts/seeded_run.sh <seeded-dir> [tier]
# Runs the check of the property a seeded change breaks against a SCRATCH worktree of /repo with the
# change applied and a scratch copy of /verif (so neither /repo nor /verif's build is disturbed while
# other work is going on). Equivalent to: git -C /repo apply patch; ./check; git -C /repo checkout -- .
# Prints the check's output; exit code is the check's.
set -e
S="$(cd "$1" && pwd)"; TIER="${2:-quick}"
PROP=$(python3 -c "import json,sys; print(json.load(open('$S/meta.json'))['property'])")
[ -n "$3" ] && PROP="$3"   # optional: run ANOTHER property's check against this change
NAME=$(basename "$S")
W=/tmp/seedrun-$NAME-$$
mkdir -p "$W"
trap 'git -C /repo worktree remove --force "$W/repo" >/dev/null 2>&1 || true; rm -rf "$W"' EXIT
git -C /repo worktree add --detach "$W/repo" HEAD >/dev/null 2>&1
git -C "$W/repo" apply "$S/patch.diff"
rsync -a --exclude .git --exclude replays --exclude evidence --exclude "build/*tmp" /verif/ "$W/verif/" || [ $? = 24 ]
mkdir -p "$W/verif/evidence" "$W/verif/replays"
cd "$W/verif"
set +e
VERIF_REPO="$W/repo" ./check "$PROP" --tier "$TIER"
rc=$?
echo "seeded_run: property=$PROP seeded=$NAME exit=$rc"
exit $rc
