#!/usr/bin/env python3
"""scripts/mut_prep.py <name> <PID> : scratch worktree /tmp/mut/<name> of /repo HEAD and the prompt
/tmp/mut/<name>.prompt for a fresh sub-agent (property text only; summaries of the changes already kept for this
property as 'avoid these kinds')."""
import json, os, subprocess, sys, glob
name, pid = sys.argv[1], sys.argv[2]
root = os.path.dirname(os.path.dirname(os.path.abspath(__file__)))
props = {json.loads(l)["id"]: json.loads(l) for l in open(os.path.join(root, "properties.jsonl"))}
p = props[pid]
avoid = []
for d in sorted(glob.glob(os.path.join(root, "seeded", pid + "-*"))):
    try:
        s = json.load(open(os.path.join(d, "meta.json")))["summary"]
        avoid.append("- " + s[:260].replace("\n", " "))
    except Exception:
        pass
t = open(os.path.join(root, "scripts", "mutation_prompt.txt")).read()
def anch(p):
    a = p.get("anchors") or p.get("code_anchors") or []
    return "; ".join(x if isinstance(x, str) else json.dumps(x) for x in a)
wt = "/tmp/mut/" + name
out = wt + "-out"
os.makedirs("/tmp/mut", exist_ok=True)
subprocess.run(["git", "-C", "/repo", "worktree", "remove", "--force", wt], capture_output=True)
subprocess.run(["rm", "-rf", wt, out])
subprocess.run(["git", "-C", "/repo", "worktree", "add", "--detach", wt, "HEAD"], check=True, capture_output=True)
t = (t.replace("%WT%", wt).replace("%OUT%", out).replace("%PID%", pid).replace("%TITLE%", p.get("title", ""))
      .replace("%STATEMENT%", p.get("statement", "")).replace("%QUANT%", str(p.get("quantified_over", p.get("quantifies_over", ""))))
      .replace("%ANCHORS%", anch(p)).replace("%AVOID%", "\n" + "\n".join(avoid) if avoid else "(none yet)"))
open(wt + ".prompt", "w").write(t)
print(wt + ".prompt", len(t))
