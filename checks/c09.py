"""C09 — sample-table queries agree with the ISO 14496-12 table semantics."""
import os
import common
from common import sh2

LEVEL = "proof"
MANIFEST = {
    "technique": "Coq proof over a hand-written Gallina model of the mp4 sample-table query functions AND of the table builder methods "
                 "(state machines over the box state incl. the cache fields), proved equal to a naive per-sample expansion by induction "
                 "over all tables / all call histories + differential correspondence (extracted OCaml vs the real Go boxes, cache fields "
                 "compared after every builder call) + search against an independent reference expansion in the harness",
    "level_text": "Theorems (coq/c09/C09Theorems.v): for ALL tables satisfying the boolean predicate `consistent` (no size bound) and "
                  "every sample number / chunk number / interval / time in range, the model of each query function returns what the naive "
                  "per-sample expansion (coq/c09/C09Spec.v) gives. For ALL histories of builder calls (fold over an unbounded list of "
                  "calls, from an empty or a decoded box): CttsBox.AddSampleCountsAndOffset leaves exactly the box DecodeCttsSR builds from "
                  "the concatenated table, EndSampleNr[i] = sum of the first i counts mod 2^32 (C09_builder_ctts, C09_ctts_cache, "
                  "C09_builder_ctts_query); StscBox.AddEntry / SetSingleSampleDescriptionID leave the closed form of the table the history "
                  "describes = what DecodeStscSR builds, FirstSampleNr[i] = 1 + samples of the earlier runs (C09_builder_stsc, "
                  "C09_stsc_cache); boxes built by any histories from consistent file-level tables satisfy `consistent`, so every query "
                  "theorem applies to API-built tables (C09_builder_consistent; C09_builder_consistent_rows: the same WITHOUT the hypothesis "
                  "raw_ok - every arithmetic clause of raw_ok follows from the shape of the table, N+1 < 2^32 and C+1 < 2^32 "
                  "(C09_raw_ok_from_shape); what is left is ids_ok: description ids are non-zero uint32, weaker by C09_raw_ok_ids). "
                  "The hypotheses of C09_builder_consistent_rows and of C09_time_code are EVALUATED by the model driver on the valid "
                  "cases of every run (evidence: coverage.theorem_hypotheses_evaluated). Arithmetic hypotheses stated exactly on the bare stts columns: "
                  "GetDecodeTime needs none (C09_decode_time_exact: any uint32 columns, counts may sum past 2^32, every uint32 sample number "
                  "1..N; C09_decode_time_past_end: Panic for every table past N), GetSampleNrAtTime needs exactly sum(counts)+1 < 2^32 "
                  "(C09_sample_at_time_exact; refuted just above by C09_sample_at_time_wrap_refuted, known finding C09-F6), the FirstSampleNr "
                  "cache needs raw_ok (C09_stsc_cache_wrap_refuted just above). Every query as a state transformer on the File / table-box "
                  "state (composite ones thread the state through every call) returns the state it was given: C09_queries_pure, "
                  "C09_copy_pure, C09_composite_answers (same answers as the functions of the query theorems), "
                  "C09_queries_order_independent (any sequence of queries: each answer is the answer on the initial state). "
                  "SttsBox.GetTimeCode (decode time as a time.Duration in a given timescale; repaired text 423d4e5, finding C09-F7): for ALL "
                  "consistent tables, every sample number and every non-zero uint32 timescale it returns floor(10^9 * decode time / "
                  "timescale) ns whenever that value is an int64 (C09_time_code; C09_time_code_exact on the bare columns with no more "
                  "hypotheses than C09_decode_time_exact; int64 wrap-around, Go's truncated division and the divide-by-zero panic are in "
                  "the model); the pinned uint32 accumulator is refuted from 2^32 units on (C09_time_code_pinned_refuted, witness "
                  "reproduced on the code); for sample number 0 and every number past the last sample it returns the time code of the END "
                  "of the track for every table with < 2^32 samples (C09_time_code_past_end; outside the property's range). The model is tied to /repo on every run: the real ctts and "
                  "stsc boxes are built by a random history (empty box or DECODED PREFIX + the remaining rows split into 1-4 builder calls, "
                  "empty calls, SetSingleSampleDescriptionID over scrambled ids, refused calls in the malformed stream), the plain boxes by "
                  "struct literal / decoder / CreateSdtpBox; cache fields are compared after every call and EVERY query is run on EVERY "
                  "sample number 0..N+2, every chunk, every interval (small N) and every time; outcome class and value are compared with the "
                  "extracted model, also on malformed tables; a snapshot of every field (unexported ones included) of every real table box "
                  "is compared before/after the queries of each case and the model driver runs the same queries as one run_all sequence "
                  "(token pu). Explored only (search, not proved): the Go code itself; the (offset, size) pieces of copy_loop_st are not "
                  "compared with the code (CopySampleData's bytes are checked by the search, its File/Mdat state by a snapshot).",
    "level_note": "Trusted: Coq kernel, extraction, OCaml/Go glue, hand transcription checked only differentially. "
                  "Only ctts and stsc have builder methods or cached state in the pinned library (stts, stsz, stss, sdtp, stco, co64 are "
                  "public slices: their state IS the table). The unexported singleSampleDescriptionID is observed through "
                  "GetSampleDescriptionID(0). The builder theorems carry NO hypothesis on the description ids passed (finding C09-F5 fixed in "
                  "cb02a8f: AddEntry refuses id 0, SetSingleSampleDescriptionID ignores it; the pinned behaviour is kept as stsc_run_pinned "
                  "for C09_builder_stsc_zero_id_refuted). "
                  "File.CopySampleData (the 'copied sample data' clause) is modelled and proved under C08. Here it is evaluated by the search only: in-memory and lazy mode with work buffers 0/1/2/3/7/32/4096 over an mdat with position-dependent bytes, against the concatenation of the expansion's sample bytes. "
                  "GetSampleNrAtTime is proved under the extra hypothesis that only a final single sample may have zero duration "
                  "(known finding C09-F3 otherwise).",
}

REAL_FILES = ["mp4/testdata/prog_8s.mp4", "mp4/testdata/bbb_prog_10s.mp4"]


def build(ctx):
    exe, err = common.go_build("c09")
    if exe is None:
        raise common.CheckError("harness does not build against /repo with -tags verif:\n" + err[-2000:])
    model, err = common.build_model("c09", "C09Extract.v", "c09_driver.ml")
    if model is None:
        raise common.CheckError(err)
    return exe, model


def _corr(ctx, exe, model, args, label):
    rc, cases, e = sh2([exe] + args, timeout=3000)
    if rc != 0:
        raise common.CheckError("harness %s failed: %s" % (label, e[-1000:]))
    lines = cases.splitlines()
    res = common.run_model(model, cases, timeout=3000)
    mism = [l for l in res if not l.startswith("OK ")]
    nq = sum(l.count("=") - 1 for l in lines)
    # hypotheses of C09_builder_consistent_rows / C09_time_code evaluated by the driver on the valid cases of this run
    for l in res:
        if l.startswith("OK #hyp "):
            hyp = ctx.notes.setdefault("theorem_hypotheses_evaluated", {})
            for kv in l.split()[2:]:
                k, v = kv.split("=")
                a, b = v.split("/")
                name = {"rows": "C09_builder_consistent_rows (valid tables whose history satisfies the hypotheses / valid tables)",
                        "tc": "C09_time_code + C09_time_code_past_end (GetTimeCode queries within the hypotheses of one of them, conclusion true / GetTimeCode queries on valid tables)"}[k]
                old = hyp.get(name, "0/0").split("/")
                hyp[name] = "%d/%d" % (int(old[0]) + int(a), int(old[1]) + int(b))
    return lines, mism, nq


def run(ctx):
    ctx.cov["trusted_base"] = common.TRUSTED_BASE_COMMON + [
        "model: coq/c09/C09Model.v is a hand transcription of the query functions of mp4/stts.go, ctts.go, stsc.go, stsz.go, "
        "stco.go, co64.go, stss.go and TrakBox.GetSampleData / GetRangesForSampleInterval (mp4/trak.go)",
        "model: coq/c09/C09BuildModel.v folds the transcriptions of CttsBox.AddSampleCountsAndOffset, StscBox.AddEntry and "
        "SetSingleSampleDescriptionID over a call history; the table a history describes (ctts_table / stsc_table) is checked "
        "against the generator's table on every valid case",
        "spec: coq/c09/C09Spec.v naive run-length expansion (durs, starts, ctos, sizes, chunk_counts, sample_chunks) and `consistent`",
        "search oracle: harness/c09/tbl Expand (independent per-sample expansion in Go); built stsc box must Encode to the table the "
        "accepted calls describe; fmt %+v snapshot of all table boxes / sha256 + fields of the mdat unchanged by queries and CopySampleData",
        "model: coq/c09/C09TimeCodeModel.v is a hand transcription of SttsBox.GetTimeCode (mp4/stts.go) incl. int64 conversions; the "
        "search compares it with math/big floor(10^9*start/timescale) where that is an int64",
        "model: coq/c09/C09PureModel.v states which Go methods write no receiver field (read in the code, checked by the snapshot only)",
    ]
    ctx.assumptions += [
        "tables satisfy C09Spec.consistent (u32 fields, totals of stts/ctts/stsz/stsc agree, stsc first chunks strictly increasing "
        "from 1 with samples-per-chunk >= 1, stss strictly increasing in 1..N, sdtp length N, chunk offsets + data size < 2^64)",
        "GetSampleNrAtTime additionally: stts deltas positive except a final single zero-duration sample; on bare columns "
        "(C09_sample_at_time_exact) the only arithmetic hypothesis is sum(counts)+1 < 2^32; GetDecodeTime (C09_decode_time_exact) has none",
        "sample numbers 1..N, chunk numbers 1..C, intervals 1<=a<=b<=N (behaviour outside is only compared model vs code, not specified)",
        "builder histories: ANY list of calls on a box DecodeStscSR returned or on an empty box (a call with description id 0 or a "
        "first AddEntry with firstChunk != 1 is refused: box and table untouched); C09_builder_consistent_rows additionally asks the "
        "file-level stsc table for ids_ok (description ids non-zero uint32) and rows_ok (samples/chunk >= 1, first chunks strictly "
        "increasing, <= C); raw_ok (no uint32 wrap), still a hypothesis of C09_builder_consistent, is derived (C09_raw_ok_from_shape)",
        "GetTimeCode (C09_time_code): timescale a non-zero uint32 and floor(10^9 * decode time / timescale) < 2^63 (a time.Duration)",
    ]
    exe, model = build(ctx)
    pr = ctx.proofs("c09", "C09Theorems.v")
    # correspondence on generated tables (valid + malformed)
    n = ctx.n(250, 12000)
    lines, mism, nq = _corr(ctx, exe, model, ["corr", "-seed", str(ctx.seed), "-n", str(n)], "corr")
    distinct = len(set(l.split("\t", 3)[3] for l in lines if l.count("\t") >= 3))
    ctx.cov["evaluations"] += nq
    ctx.cov["distinct_nontrivial"] += distinct
    ctx.notes["correspondence"] = {
        "tables": len(lines), "valid": sum(1 for l in lines if "\tV\t" in l[:40]),
        "malformed": sum(1 for l in lines if "\tM\t" in l[:60]), "queries": nq, "mismatches": len(mism),
        "distinct_tables": distinct,
        "distribution": "stsc 1-5 entries x 1-3 chunks x 1-4 samples/chunk (30% varying description ids); "
                        "stts/ctts 1-6 runs (ctts v0/v1 60%); stsz uniform 25%; stco/co64; "
                        "stss 70% (density 0/10/30/100%); sdtp 40%; 10% near-2^32 values; 4% zero deltas; 14 single-fault mutations (incl. uint32-wrapping EndSampleNr / FirstSampleNr caches); "
                        "build history per table: ctts and stsc each 40% empty box + calls, 20% decoder only, 40% decoded prefix (0..n rows) "
                        "+ calls; ctts rows split into 1-4 AddSampleCountsAndOffset calls (12% empty calls); stsc one AddEntry per row, 30% a "
                        "SetSingleSampleDescriptionID after a constant-id prefix whose ids were scrambled before (2/3); malformed stream: 50% "
                        "a refused call (unequal lengths / firstChunk != 1 on an empty box) in the history; plain boxes 50% literal, 50% "
                        "decoder (sdtp also CreateSdtpBox); 3 fixed boundary cases on the real code: 2^32-1 samples in one stts run "
                        "(sample number wraps to 0), counts summing to 2^33-2 (decode time of sample 2^32-1 exact), FirstSampleNr wrapping to 1; "
                        "35% of the stsc histories contain 1-2 calls with description id 0 "
                        "(AddEntry / SetSingleSampleDescriptionID, any position); 2 fixed cases: the histories of C09Theorems.v; "
                        "GetTimeCode: one query per sample number (0..N+2, 2^31, 2^32-1 in the out-of-range stream) with timescale "
                        "1 / 1000 / 90000 / 10^7 / 2^32-1 / small / any uint32 (0 only out of range), 2 fixed cases with decode times "
                        ">= 2^32 units and the last uint32 sample number of a 2^33-2-sample stts",
        "builder_calls": sum(l.count(" bc") + l.count(" bs") for l in lines),
    }
    ctx.cov["samples"] += [l[:300] for l in lines[:2]] + [l[:300] for l in lines[-2:]]
    ctx.log("correspondence: %d tables, %d queries, %d mismatches" % (len(lines), nq, len(mism)))
    first_case = {}
    for l in lines:
        p = l.split("\t")
        if len(p) > 1:
            first_case[p[1]] = l
    # the two real progressive files of the repository (thorough)
    if ctx.tier == "thorough":
        paths = [os.path.join(common.REPO, p) for p in REAL_FILES]
        flines, fmism, fq = _corr(ctx, exe, model, ["files"] + paths, "files")
        ctx.cov["evaluations"] += fq
        ctx.cov["distinct_nontrivial"] += len(flines)
        ctx.notes["real_files"] = {"tracks": len(flines), "queries": fq, "mismatches": len(fmism)}
        ctx.log("real files: %d tracks, %d queries, %d mismatches" % (len(flines), fq, len(fmism)))
        for l in flines:
            p = l.split("\t")
            first_case[p[1]] = l
        mism += fmism
    # search: the property itself on the implementation
    ns = ctx.n(300, 20000)
    rc, so, e = sh2([exe, "search", "-seed", str(ctx.seed), "-n", str(ns)], timeout=3000)
    if rc != 0:
        raise common.CheckError("harness search failed: " + e[-1000:])
    if ctx.tier == "thorough":
        rc, so2, e = sh2([exe, "searchfiles"] + [os.path.join(common.REPO, p) for p in REAL_FILES], timeout=3000)
        if rc != 0:
            raise common.CheckError("harness searchfiles failed: " + e[-1000:])
        so += so2
    fails = []
    evals = 0
    for l in so.splitlines():
        f = l.split("\t")
        if f[0] == "FAIL":
            fails.append(f)
        elif f[0] == "EVALS":
            evals += int(f[1])
    ctx.cov["evaluations"] += evals
    ctx.notes["search_evaluations"] = evals
    for f in fails:
        ctx.failing_input(f[1], f[2], f[3], f[4])
    ctx.log("search: %d evaluations, %d failing inputs (known ones included)" % (evals, len(fails)))
    if mism and not ctx.violations:
        first = mism[0].split(" ")
        ctx.violation({"kind": "correspondence-mismatch", "correspondence": "C09Model vs mp4 table boxes (harness c09 corr)",
                       "mismatches": len(mism), "first_case": first_case.get(first[1], "")[:3000],
                       "model_says": mism[0][:2000]},
                      "model/implementation disagree on %d tables, first: %s" % (len(mism), mism[0][:160]), no_input=True)
    ctx.proof_violation_if_broken(pr, "c09 search: %d evaluations, no failing input" % evals)
    ctx.cov["rule"] = ("corr: %d generated tables (valid) + %d single-fault malformed ones, each built by a random builder history (cache "
                       "fields compared after every call), every query on every sample number 0..N+2, "
                       "2^31, 2^32-1, every chunk 0..C+2, every interval (N<=16, else all prefixes/suffixes/singletons + 200 random) and "
                       "every time (T<=64, else every sample start +-1); distinct = distinct table encodings; search: same enumeration "
                       "in range against the harness's own expansion, boxes built by a random history (thorough: the real files' tables also "
                       "rebuilt through the builders)" % (n, n // 2))


def replay(ctx, path):
    import json
    r = json.load(open(path))
    print(json.dumps(r, indent=1))
    return 0
