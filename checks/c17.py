"""C17 — SEI messages survive write/parse round trips."""
import json
import common
from common import sh2

LEVEL = "proof"
MANIFEST = {
    "technique": "Coq proof over a hand-written Gallina model of sei.WriteSEIMessages / sei.ExtractSEIData (on top of the C13 "
                 "EBSP writer/reader models) + differential correspondence (extracted OCaml vs Go) + round-trip search on the real code",
    "level_text": "Theorems (coq/c17/C17Theorems.v), all closed under the global context: C17_sei_value_rt (0xFF-run code decodes to the "
                  "written value for every value of the Go accumulator type), C17_writer_is_escape (the writer model's bytes are the "
                  "emulation-prevented plain serialisation + 80), C17_list_roundtrip: for every NON-EMPTY message list (any types < 2^64, "
                  "any sizes < 2^32 equal to the payload length, any payload bytes) extract_sei_data (write_sei_messages msgs) returns the "
                  "(type, payload) list with no trailing-bits error, ON THE REAL ESCAPED BYTE STREAM through the C13 EBSP writer/reader "
                  "models (composed with the C13 lemmas writer=escape, reader=bits of the unescaped input, MoreRbspData spec); the same at "
                  "the rbsp level (C17_list_roundtrip_rbsp). The empty list is outside the statement (writer emits 80, extractor rejects "
                  "it) and is proved to behave so. Typed messages: C17_timecode, C17_pic_timing_avc, C17_mdcv, C17_cll: canonical m -> "
                  "decode (payload m) = Ok m /\\ |payload m| = size m for ALL flag combinations, 0..3 clocks, time-offset lengths 0..31, "
                  "with/without HRD delays (incl. the time code whose coded length is a multiple of 8, where the final 1 bit overflows "
                  "the exactly-sized buffer and is dropped); C17_passthrough: sei4/sei5/CEA-608/HEVC pic timing return the payload unchanged "
                  "whenever they return a message. ANY message value, however obtained (coq/c17/C17HistModel.v: a typed value is its exported "
                  "field record; histories = build | decode, then any steps SEdit f (ANY function on the record) | SCopy | SRedecode): "
                  "C17_payload_depends_on_fields (equal final field records -> equal Payload()/Size()/written NAL unit/decode result, whatever "
                  "the histories; definitional in the model, it is the statement the H-line correspondence ties to the code), "
                  "C17_history_roundtrip (the final value of any history, if canonical: decode(payload) = itself, |payload| = Size(), "
                  "ExtractSEIData(WriteSEIMessages [m]) = [(type, payload)]), C17_canonical_history (canonical-preserving edits: every "
                  "intermediate value canonical, re-decodes are no-ops), C17_typed_in_nalu (all four typed messages between arbitrary messages). "
                  "C17_size_any_value: Size() = len(Payload()) (and executable payload = bit-list form) for EVERY time code / AVC picture timing / mdcv / cll "
                  "value, canonical or not (any clock count, pict_struct, field values wider than their code, junk in absent fields); only hypothesis: "
                  "the widths handed to FixedSliceWriter.Write (time-offset lengths, HRD lengths + 1) are <= 56, evaluated on every typed case of the "
                  "run (typed_values_by_theorem_domain in the evidence). "
                  "The written NAL unit read back through the codec entry points (coq/c17/C17NaluModel.v: sei.DecodeSEIMessage, avc.ParseSEINalu, "
                  "hevc.ParseSEINalu + fillHEVCPicTimingParams): C17_nalu_written (every non-empty written list, every valid header, every SPS "
                  "parameter set: the wrappers run their decoders on exactly the written (type, payload) pairs in order and report no trailing-bits "
                  "error), C17_nalu_roundtrip (mixed lists of canonical typed messages of the path (AVC picture timing with the SPS' Vcl-else-Nal HRD "
                  "lengths cut to a byte, or none; HEVC time code / mdcv / cll), pass-through messages (any value a pass-through decoder returned, "
                  "incl. HEVC picture timing under a VUI) and general data: ParseSEINalu(header + WriteSEIMessages ms) = ms, value for value). "
                  "Explored, not proved: that the Go values carry no state besides their exported fields (H lines of the correspondence + the "
                  "payload-depends-on-history oracle of the search, over generated histories).",
    "level_note": "Every link of the list round trip is proved inside Coq (writer = escape of the plain serialisation, reader over the "
                  "escaped stream, MoreRbspData): nothing of it is left to the correspondence alone. Trusted: Coq kernel, "
                  "extraction (ExtrOcamlBasic), OCaml/Go glue; the model/code correspondence is differential testing. io.Writer failures "
                  "and non-seekable readers are not modelled. The model's ReadBytes takes a shortcut when the announced size exceeds the "
                  "whole input (error without looping). Typed messages: writers are op lists run through the C13 model of "
                  "bits.FixedSliceWriter; that this equals the bit-list form (coded bits, zero padding, cut at the capacity Size()) is PROVED for "
                  "canonical messages (C17_timecode_exec, C17_pic_timing_avc_exec) and additionally compared on every correspondence case; "
                  "C17_typed_msgs_ok / C17_timecode_in_nalu compose the typed results with the list round trip. bits.Reader: the typed decoders "
                  "are stated on reads of the payload's bit list (first failed read = error outcome); C17_decoders_tie PROVES that the same Go "
                  "functions transcribed over the C13 model of the bits.Reader machine (value/n/pos accumulator, accumulated error: reads after "
                  "a failure return 0 and the decoder runs on, AccError() checked last, byte()/uint16()/uint32() conversions written out; "
                  "coq/c17/C17TieModel.v) return the same value-or-error on EVERY byte string for all 5-bit external length parameters, and "
                  "C17_roundtrip_machine restates the round trips for them; both forms are run against the Go decoders on every T/D/H "
                  "correspondence case. What remains trusted there is the C13 transcription of bits.Reader.Read itself (C13's correspondence). "
                  "C17_decoded_is_canonical: every value a typed decoder returns is canonical, so decode -> canonical-preserving edits stays in "
                  "the theorems' domain (C17_decoded_history_roundtrip). Out-of-domain values (more than 3 clocks, pict_struct > 8, clock/external time-offset "
                  "length mismatch, fields wider than their code) are not canonical: modelled and compared; of the theorems only C17_size_any_value (Size() = len(Payload())) "
                  "covers them (decoders cannot return them: C17_decoded_is_canonical). Writer widths above 56 bits (byte fields 57..255) are "
                  "outside every theorem and not generated. ParseSEINalu: the SPS is modelled as the few VUI/HRD fields the wrappers read; "
                  "C17_nalu_roundtrip asks of a pass-through message only that some pass-through decoder returned it. "
                  "Crash safety of the decoders on hostile payloads belongs to C16.",
}


def build(ctx):
    exe, err = common.go_build("c17")
    if exe is None:
        raise common.CheckError("harness does not build against /repo with -tags verif:\n" + err[-2000:])
    model, err = common.build_model("c17", "C17Extract.v", "c17_driver.ml")
    if model is None:
        raise common.CheckError(err)
    return exe, model


def run(ctx):
    ctx.cov["trusted_base"] = common.TRUSTED_BASE_COMMON + [
        "model: coq/c17/C17Model.v is a hand transcription of sei.WriteSEIMessages / sei.ExtractSEIData over coq/c13/C13Model.v "
        "(bits.EBSPWriter / bits.EBSPReader); io errors and the Seek of MoreRbspData are not modelled",
        "spec: coq/c17/C17Spec.v (0xFF-run code, plain serialisation, rbsp-level extractor), coq/c13/C13Spec.v (escape/unescape)",
        "model: coq/c17/C17TypedModel.v is a hand transcription of sei136.go, sei1_avc.go, sei137.go, sei144.go, sei4.go, sei5.go, "
        "sei1_hevc.go (outcome class only for the HEVC picture timing); coq/c17/C17HistModel.v: a typed message value is its exported "
        "field record (histories: build|decode, edit/copy/observe/re-decode steps); coq/c17/C17TieModel.v: DecodeTimeCodeSEI / "
        "DecodePicTimingAvcSEIHRD over the C13 bits.Reader machine (proved equal to the bit-list decoders); coq/c17/C17NaluModel.v: "
        "sei.DecodeSEIMessage, avc.ParseSEINalu, hevc.ParseSEINalu + fillHEVCPicTimingParams (the SPS is the few VUI/HRD fields the wrappers read)",
        "imported C13 lemmas (coq/c13/C13WriterProofs.v, C13ReaderProofs.v, C13MarkProofs.v): part of the proof, checked by the same build",
    ]
    ctx.assumptions += ["Type() < 2^64 (Go uint), Size() = len(Payload()) < 2^32 (the extractor accumulates the size in a uint32)",
                        "the underlying io.Writer never fails; the reader is a bytes.Reader",
                        "the message list is non-empty (an SEI NAL unit carries at least one message)",
                        "typed messages are canonical (fields fit their coded widths, absent fields are zero, <= 3 clocks, pict_struct <= 8 with "
                        "the matching clock count, per-clock TimeOffsetLength = the external one, lengths-minus-1 < 32)"]
    exe, model = build(ctx)
    pr = ctx.proofs("c17", "C17Theorems.v")
    # ---- correspondence
    n = ctx.n(4000, 40000)
    exh = ctx.n(3, 4)
    nt = ctx.n(5000, 200000)
    nh = ctx.n(6000, 200000)
    nn = ctx.n(3000, 100000)
    rc, cases, e = sh2([exe, "corr", "-seed", str(ctx.seed), "-n", str(n), "-nt", str(nt), "-nh", str(nh), "-nn", str(nn), "-exh", str(exh)], timeout=3000)
    if rc != 0:
        raise common.CheckError("harness corr failed: " + e[-1000:])
    lines = cases.splitlines()
    res = common.run_model(model, cases)
    mism = [l for l in res if not l.startswith("OK ")]
    # which theorems speak about the typed values of this run (hypotheses evaluated by the model driver on the real inputs)
    dom = {}
    for l, c in zip(res, lines):
        if l.startswith("OK ") and " dom=" in l:
            k = c.split("\t", 1)[0] + ":" + l.rsplit("dom=", 1)[1]
            dom[k] = dom.get(k, 0) + 1
    if len(res) != len(lines):
        raise common.CheckError("model driver answered %d lines for %d cases" % (len(res), len(lines)))
    distinct = len(set(l.split("\t", 2)[2] for l in lines if "\t" in l))
    ctx.cov["evaluations"] += len(lines)
    ctx.cov["distinct_nontrivial"] += distinct
    kinds = {}
    nalu_msgs = {}
    hist_steps = set()
    for l in lines:
        f = l.split("\t")
        k = f[0] + ":" + (f[5] if f[0] == "L" else f[3] if f[0] in ("X", "T136", "T1", "T137", "T144", "D136", "D137", "D144", "P4", "P5")
                          else f[4] if f[0] == "P1H" else f[5] if f[0] == "D1" else "?")
        if f[0] in ("T136", "T1", "T137", "T144"):
            k += "/decode:" + f[6]
        if f[0] in ("H136", "H1", "H137", "H144"):   # history lines: origin, number of steps, outcome classes
            st = f[2].split(">")
            k = "%s:%s+%d:%s/decode:%s" % (f[0], st[0], min(len([x for x in st[1:] if x != "copy"]), 3), f[4], f[8])
            hist_steps.update(x.split(".")[-1].split("[")[0] for x in st)
        if f[0] == "HP":
            k = "HP:%s:%s:%s" % (f[2], "edited" if ">" in f[3] else "unedited", f[6])
        if f[0] in ("NA", "NH"):   # ParseSEINalu: SPS parameters, outcome class
            k = "%s:%s:%s" % (f[0], f[2].split(":")[0], f[4])
            if f[4] in ("ok", "missing") and f[5] != "-":
                for m in f[5].split("&"):
                    mf = m.split("~")
                    mk = mf[0] + (":" + mf[1].split(":")[0] if mf[0] == "P" else (":hrd" if mf[1][0] != "-" else ":nohrd") if mf[0] == "T1" else "")
                    nalu_msgs[f[0] + ":" + mk] = nalu_msgs.get(f[0] + ":" + mk, 0) + 1
        kinds[k] = kinds.get(k, 0) + 1
    ctx.notes["correspondence"] = {
        "cases": len(lines), "mismatches": len(mism), "distinct_cases": distinct,
        "exhaustive_payload_len": exh, "kinds_by_outcome": kinds, "history_step_kinds_seen": sorted(hist_steps),
        "nalu_messages_returned_by_kind": nalu_msgs,
        "typed_values_by_theorem_domain": dom,
        "typed_values_by_theorem_domain_note": "canon = canonical value (hypothesis of all typed theorems), widths = NOT canonical but writer widths "
                                               "<= 56 (hypothesis of C17_size_any_value: Size() = len(Payload()) also compared there), out = neither",
        "input_distribution": "L: message lists written by Go and by the model (bytes compared), then extracted by both: every "
                              "single message with type in {0,3,128,255} and payload over {00,01,03,80,ff} up to the exhaustive length; "
                              "all pairs over boundary types with payloads up to 1 byte; random lists of 0-6 messages, types from "
                              "{0,1,3,4,5,6,128,136,137,144,254,255,256,509,510,511,765,1000,70000,random<3000}, sizes from "
                              "{0,1,2,3,4,16,24,254,255,256,509,510,511,765,1000,random<40}, payload bytes random / all zero / "
                              "escape alphabet {00,01,02,03,80,ff}; 1 in 5 lists with Size() != len(Payload()). "
                              "X: extractor inputs: every string over {00,01,03,80,ff} up to the exhaustive length + 1; written "
                              "streams truncated / mutated / extended; random short strings. "
                              "T136/T1/T137/T144: typed message values (3 in 4 canonical with boundary field values and all flag shapes, 1 in 4 "
                              "non-canonical: too-wide fields, junk in absent fields, 4-6 clocks, wrong clock count, pict_struct > 8, mismatching "
                              "time-offset lengths): Size(), Payload() bytes and decode result compared. D*: the typed decoders on arbitrary short "
                              "payloads. P4/P5/P1H: pass-through decoders (class ok/err/panic, kind, CEA-608 fields, payload, size). "
                              "H136/H1/H137/H144: typed message values reached through a HISTORY (tied to C17_payload_depends_on_fields / "
                              "C17_history_roundtrip): origin build (struct literal) | dec (DecodeXxx on the payload of a generated message) | decmsg "
                              "(sei.DecodeSEIMessage) | nalu (avc.ParseSEINalu with/without an SPS carrying HRD lengths, hevc.ParseSEINalu; the message "
                              "between other messages) | decraw (decoder on random bytes); then 0-3 steps: edit of exported fields to other canonical "
                              "values (scalar fields of a clock in place, hh:mm:ss group, whole clock, new Clocks slice, append/truncate, pict_struct "
                              "with/without clock-count change, HRD delays through the shared pointer, new CbpDbpDelay, nil<->non-nil, time-offset length "
                              "of message and clocks), struct copy then edit of the copy, edit then serialise + decode again (any of the decode paths), "
                              "1 step in 8 an out-of-domain edit; the final EXPORTED field values, Size(), Payload(), the bytes of WriteSEIMessages([m]) and "
                              "decode(Payload()) are compared with typed_observe of the final field record. HP: pass-through decoders, then edits of the "
                              "decoded message's exported fields (CEA-608 fields, UUID, ITU-T data, HEVC pic timing fields; in place and on a copy): "
                              "Payload()/Size() still the decoder input. "
                              "NA/NH: avc.ParseSEINalu / hevc.ParseSEINalu vs parse_sei_nalu_avc / parse_sei_nalu_hevc (tied to C17_nalu_written / "
                              "C17_nalu_roundtrip): NAL units = header (valid ones with other nal_ref_idc / layer bits, 1 in 12 another NAL type) + "
                              "WriteSEIMessages of 1-4 messages: AVC picture timing built for the external lengths of the SPS (1 in 6 for other lengths), "
                              "typed messages of the other codec, registered / CEA-608 / unregistered user data (accepted and refused payloads), HEVC picture "
                              "timing payloads, general data, types 1/136/137/144 with arbitrary payloads; 1 in 8 mutated behind the header, 1 in 8 with the "
                              "last byte dropped, a few 0-3 byte units. SPS: nil | no VUI | VUI without HRD | Vcl | Nal | both (different lengths; 1 in 6 "
                              "a uint field above 255); HEVC: nil | no VUI | VUI with/without HrdParameters (all flags and length fields). Compared: "
                              "class ok|missing|notsei|err|panic and, per returned message, the Go type, exported fields, Type(), Size(), Payload()",
    }
    ctx.cov["samples"] += [l[:300] for l in lines[200:203]] + [l[:300] for l in lines[-3:]]
    ctx.log("correspondence: %d cases, %d mismatches" % (len(lines), len(mism)))
    # ---- search: the property itself on the implementation
    ns = ctx.n(5000, 200000)
    nst = ctx.n(20000, 1000000)
    nsh = ctx.n(40000, 2000000)
    nsn = ctx.n(20000, 1000000)
    rc, so, e = sh2([exe, "search", "-seed", str(ctx.seed), "-n", str(ns), "-nt", str(nst), "-nh", str(nsh), "-nn", str(nsn), "-exh", str(exh)], timeout=3000)
    if rc != 0:
        raise common.CheckError("harness search failed: " + e[-1000:])
    fails = []
    for l in so.splitlines():
        f = l.split("\t")
        if f[0] == "FAIL":
            fails.append(f)
        elif f[0] == "EVALS":
            ctx.cov["evaluations"] += int(f[1])
            ctx.notes["search_evaluations"] = int(f[1])
    for f in fails:
        ctx.failing_input(f[1], f[2], f[3][:4000], f[4][:1000])
    ctx.log("search: %d failing inputs" % len(fails))
    ctx.notes["hygiene_oracles"] = (
        "harness/c17/hygiene.go: every written stream and every typed / pass-through payload of the search is also read from a "
        "sub-slice with 24 guard bytes (writes-beyond-len, depends-on-capacity, modifies-input), the caller then overwrites its "
        "buffer (keeps-callers-buffer; not demanded of SEIData / pass-through messages, which hold the payload they were given), "
        "a malformed relative is read in between (depends-on-earlier-calls, result-changed-by-later-calls); WriteSEIMessages with "
        "guarded payload slices: payloads, guards and the rendering of every message unchanged by writing, second write and a "
        "write into a plain one-byte-at-a-time io.Writer give the same bytes")
    if mism and not fails:
        by_id = {}
        for l in lines:
            p = l.split("\t")
            if len(p) > 1:
                by_id[p[1]] = l
        first = mism[0].split(" ")
        ctx.violation({"kind": "correspondence-mismatch", "correspondence": "C17Model vs sei package (harness c17 corr)",
                       "mismatches": len(mism), "first_case": by_id.get(first[1], "")[:2000], "model_says": mism[0][:2000]},
                      "model/implementation disagree on %d cases" % len(mism), no_input=True)
    ctx.proof_violation_if_broken(pr, "c17 search: %d evaluations, no failing input" % ctx.notes.get("search_evaluations", 0))
    ctx.cov["rule"] = ("corr: see input_distribution (exhaustive payload length %d, %d random cases); distinct = distinct case lines; "
                       "search: extract(write msgs) = msgs through sei.ExtractSEIData (from a bytes.Reader and from ReadSeekers that are no ByteReaders "
                       "and return the last bytes together with EOF / one byte per Read / short reads: same outcome), avc.ParseSEINalu and hevc.ParseSEINalu, written "
                       "bytes = independent naive emulation prevention of the plain serialisation, no forbidden triple; typed: decode(Payload(m)) "
                       "deep-equals m on canonical values, Size() = len(Payload()) on canonical AND on generated non-canonical values, typed messages through WriteSEIMessages + ParseSEINalu, "
                       "pass-through payload unchanged; histories (canonical edits only): for the final value m of a generated history "
                       "Size() = len(Payload()), a struct literal with m's exported fields has the same Payload()/Size() (payload-depends-on-history), "
                       "decode(Payload()) has the same exported fields AND the same Payload() bytes, Payload() does not change the fields, "
                       "WriteSEIMessages([m]) = naive serialisation of the literal, avc/hevc.ParseSEINalu of it returns the same fields; "
                       "pass-through messages keep payload and size after edits of their exported fields; mixed lists in the domain of "
                       "C17_nalu_roundtrip through avc/hevc.ParseSEINalu with generated SPS parameters: no error, as many messages as written, each of "
                       "the Go type its (codec, type, SPS) calls for, written Type()/Payload() bytes, Size() = len, typed fields equal" % (exh, n))


def replay(ctx, path):
    r = json.load(open(path))
    print(json.dumps(r, indent=1))
    return 0
