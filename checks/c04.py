"""C04 — untrusted container input never crashes, hangs or balloons memory."""
import os
import common
from common import sh2

LEVEL = "proof"
MANIFEST = {
    "technique": "Coq proof over hand-written Gallina models with explicit panic / cost semantics (FixedSliceReader, box headers, "
                 "both container child loops, the file-assembly state machine over box shapes incl. the mfro -> mfra -> tfra look-back, the count-guard-then-allocate prologues "
                 "of 29 table-box decoders, 17 of them composed as leaves of the box-tree decoders (14 size-guarded; sidx subs pssh with end-position models), the cross-box references of the second senc pass "
                 "(moov track lookup, saio position, seig group lookup sbgp -> sgpd), the Info loops of 17 table boxes with getInfoLevel) + differential correspondence (extracted OCaml vs Go: outcome class, grouping, decoded entry "
                 "count, allocation bucket, senc state after the second pass, Info line counts at 16 level strings) + structured mutation fuzzing, count/length-field inflation and a cross-reference stream "
                 "(every index / reference field set to values around the referenced table's length in global and fragment-local numbering) in an isolated worker process",
    "level_text": "PROVED for all inputs (coq/c04/C04Theorems.v): every bits.FixedSliceReader method keeps 0 <= pos <= len and never "
                  "panics under the stated caller guards (with machine-checked refutations for negative lengths, SkipBytes overflow, "
                  "ReadPossiblyZeroTerminatedString and LookAhead); DecodeHeader/DecodeHeaderSR and DecodeBox/DecodeBoxSR with both "
                  "container child loops return a box, EOF or an error for every byte string, never panic, terminate within fuel len+1 "
                  "with ticks+alloc <= 2*len+29 (SliceReader path) / 6*len+29 (io.Reader path) (leaf bodies opaque: any leaf decoder satisfying the stated contract, instantiated for mdat/free/skip/unknown); "
                  "C04_tree_alloc_partial: the same loops under a refactored two-tier leaf contract (a leaf costs 6*consumed+20700 when it returns a box, 6*remaining+20700 when it returns an error) with the "
                  "modelled prologues of trun stts ctts stsc stsz stco co64 stss sdtp saiz saio sbgp elst tfra as leaves (every other leaf: any decoder under the old contract): for EVERY byte string below 32 GiB the "
                  "decode of the whole tree returns, bytes requested and iterations each <= 2600*len+20740 (SliceReader) / 2601*len+20771 (io.Reader); the file "
                  "assembly (DecodeFile/DecodeFileSR loops, AddChild, startSegmentIfNeeded, findAndReadMfra, senc second pass), "
                  "File.Encode/EncodeSW in both modes and File.Info never panic on any list of top-level box shapes under any decode "
                  "options, for the REPAIRED text; the pinned text is refuted at 9 sites by concrete shape lists; findAndReadMfra over EXTENDED shapes (C04_mfra_lookback_total / C04_assembly_x_total: mfro absent, "
                  "stand-alone or with ANY ParentSize - too small, too large, pointing at a non-mfra box or inside a box -, an mfra at top level or inside an mdat payload, any number of tfra boxes with any entry "
                  "counts / track ids / moof offsets) never panics, the offset loop stays in range because of the length comparison before it (C04_mfra_offset_loop_in_range) and panics without it as soon as a later tfra is longer (C04_mfra_length_check_needed); the prologues (size guard "
                  "expectedSize / remaining bytes, per-entry size as a function of version and flags, make([]T, n) with its element size, "
                  "entry loop with the accumulated-error reader) of trun stts ctts stsc stsz stco co64 stss sdtp saiz saio senc sbgp subs elst tfra "
                  "sidx pssh ssix tref-type leva uuid(tfxd/tfrf/piff-senc/other) ftyp styp hvcC avcC (array / NALU loops) tlou/alou, both phases of senc (DecodeSenc/SR guard, then ParseReadBox/parseAndFillSamples: <= 72*len+360 bytes) and the whole sgpd entry loop (seig/roll/rap/alst/other) return for EVERY header and body, request at most a*size+b bytes and loop at "
                  "most size/entry+c times (C04_alloc_<box>; box level on both paths (the senc second phase has its own theorem): <= 172*len+1048560 bytes (sgpd's factor; <= 12*len for the others), <= 6*len+65536 iterations for "
                  "every byte string below 32 GiB), with machine-checked refutations for the pinned sgpd/alst text (4 GiB from 28 bytes, "
                  "repaired) and for ctts at exactly 32 GiB (uint32 wrap of entryCount+1, not reproducible). "
                  "C04_senc_group_lookup_total / C04_senc_pass_x_total (C04XrefModel.v: the moof case of DecodeFile / DecodeFileSR over EXTENDED trafs: tfhd.track_ID looked up in the moov's traks as IsEncrypted / GetSinf do, "
                  "saio.Offset[0] + moof start against the position of the LAST senc / PIFF senc, the seig lookup of TrafBox.ParseReadSenc - one sbgp entry, index 65536+1, non-empty sgpd, entry is a seig entry -, then ParseReadBox): for every moov context, "
                  "moof position, saio offsets, sbgp / sgpd contents with any indices, any number of senc children the pass returns or is an error, never an out-of-range access (hypothesis: the two sbgp slices have equal length, "
                  "which DecodeSbgpSR establishes: C04_sbgp_decoded_wf; without it an API-built box panics); the GENERALISED lookup (any fragment-local index) with `idx > len` as range check is refuted "
                  "(C04_senc_group_lookup_off_by_one_refuted: one-entry sgpd referenced as 65538) and panics EXACTLY when the index is one past the last entry (C04_senc_group_lookup_off_by_one_exact); with `>=` it is total and extends the pinned text; "
                  "C04_info_total / C04_info_decoded_total (C04InfoModel.v: getInfoLevel over token lists and the Info bodies of stsc trun senc tfra sidx saiz ctts stts sbgp saio stsz stss stco co64 elst sdtp subs as the Go loops with partial index "
                  "expressions over states that keep parallel slices as separate lengths): for EVERY state whose lengths are related as the decoders relate them (C04_info_decoded_wf: the state DecodeBox / DecodeBoxSR leave, through the prologue models) "
                  "and EVERY level (any int from any specificBoxLevels token list) Info returns and writes at most Size()+1030 lines; without the relations the loops index out of range at level >= 1 (C04_info_wf_needed; stts exactly when "
                  "SampleTimeDelta is the shorter slice); C04_info_senc_parsed_total: the state ParseReadBox / parseAndFillSamples leave after the second pass (IV size given, inferred or tried as 0 / 8 / 16) satisfies those relations - "
                  "derived from the fill loop by induction - so a parsed senc prints at every level; C04_tree_alloc_unguarded: sidx, subs and pssh as leaves of the tree theorem with END-POSITION and Size() models (no size guard: on the SliceReader path they read beyond the box and report a Size() "
                  "computed from the content): an accepted box costs <= 6 per byte consumed, a rejected one <= 6 per byte seen + 1114095 (a 32-byte sidx announcing 65535 references appends 1 MiB before it returns the error; paid once, the error ends the "
                  "decode), so for EVERY byte string below 32 GiB the decode over trees with all 17 table leaves returns with bytes requested and iterations each <= 2600*len+1200040 (SliceReader) / 2601*len+1200071 (io.Reader): two-constant leaf contract, both child loops re-proved. "
                  "EXPLORED only: the other ~100 leaf decoder bodies, all encoder bodies, the Info bodies of the other box types (sgpd pssh ssix leva and the non-table boxes) and the Info traversal of containers, "
                  "sgpd and the other unguarded table boxes as leaves of a tree (their prologues are proved per box only), the value-dependent tails of ssix/leva, "
                  "real wall-clock time and real heap (the model's ticks are "
                  "not seconds): structured mutation fuzzing of all testdata files and boxes, and count/length-field inflation (0, 1, exact, "
                  "exact+1, 1024, 1025, 2^16, 2^22, 2^31-1, 2^31, 2^32-4, 2^32-1 clipped to the field width, the guard-boundary values (payload-d)/e and +1, all fields of a box jointly) of every count or length field of "
                  "34 box types under every version/flags combination that changes the per-entry size (incl. size 0), compact and "
                  "large-size header, trailing bytes, both decode paths, box level and nested in a file (also lazy-mdat / ISM / start-on-moof options where the parent is moof, traf or mfra), plus a catch-all (every registered "
                  "box type, 32-bit word at each of the first offsets inflated), a cross-reference stream (synthesized encrypted fragments with / without an init segment: group_description_index in 0 1 N-1 N N+1 N+2 65535 65536 65537 65536+N 65536+N+1 65536+N+2 2^31 2^32-1 "
                  "for sgpd tables of 0..3 entries, sbgp entry counts, grouping types, duplicate sbgp / sgpd, saio offsets vs plain / PIFF / several senc boxes, track ids vs trak sets and entry kinds; and every index / reference / cross-checked count field of every "
                  "testdata file and init+fragment pair - sbgp stsc tfhd trex tkhd saio saiz senc trun stts ctts stss stco co64 dref tref sidx prft hdlr tfra mfro subs stsh ... - set to those values relative to the referenced table's length, decoded as FILES under all options), "
                  "Info at levels 0..2 through `all` and through the box's own type for every one of the 134 registered box types (measured), with per-input time and allocation budgets.",
    "level_note": "Trusted: Coq kernel, extraction, OCaml/Go glue, the shape renderer. The models are hand transcriptions tied to /repo "
                  "by the correspondence on generated inputs only; the prologue models count the bytes REQUESTED with make/append (Go's append "
                  "growth factor and allocator rounding are trusted: measured bytes must lie between model/2 (tables >= 128 KiB) and "
                  "8*model + 64*len + 1 MiB). As leaves of a tree the 14 guarded table decoders leave the reader hdr.Size-8 bytes after the header and report Size() = hdr.Size (what their size guard implies; sdtp: the payload): "
                  "modelled, tied by the G correspondence stream. The extended shapes say where an mfro / mfra starts; the renderer's promise (the name mfra appears exactly there) is asserted on every rendered file. "
                  "io.Reader is a bytes.Reader (no I/O errors). The shapes of the assembly theorems (C04AsmModel) carry clear "
                  "(unencrypted) tracks and no sbgp/sgpd; encrypted tracks, sbgp/sgpd and track ids live in the extended trafs of C04XrefModel (one moof decoded after an optional init segment; not composed with the segment grouping). "
                  "specificBoxLevels is modelled after tokenisation (strings.Split / strings.Index / strconv.Atoi trusted). The X stream's traf contents are the generator's intent, rendered by the harness (not re-derived from the bytes).",
}

ULIMIT_KB = 6 * 1024 * 1024


def build(ctx):
    exe, err = common.go_build("c04")
    if exe is None:
        raise common.CheckError("harness does not build against /repo with -tags verif:\n" + err[-2000:])
    model, err = common.build_model("c04", "C04Extract.v", "c04_driver.ml")
    if model is None:
        raise common.CheckError(err)
    return exe, model


def harness(exe, args, timeout):
    """The harness spawns worker subprocesses; the address-space limit is inherited by them."""
    cmd = "ulimit -v %d; exec '%s' %s" % (ULIMIT_KB, exe, " ".join(str(a) for a in args))
    return sh2(["sh", "-c", cmd], timeout=timeout)


def run(ctx):
    ctx.cov["trusted_base"] = common.TRUSTED_BASE_COMMON + [
        "model: coq/c04/C04Model.v (bits/fixedslicereader.go, mp4/box.go DecodeHeader/DecodeBox/readBoxBody, mp4/boxsr.go "
        "DecodeHeaderSR/DecodeBoxSR, mp4/container.go both child loops) and coq/c04/C04AsmModel.v (mp4/file.go, boxsr.go file loops, "
        "traf.go ParseReadSenc, moof.go/fragment.go/mediasegment.go/initsegment.go Encode, Info traversal) are hand transcriptions",
        "model: coq/c04/C04MfraModel.v (mp4/file.go findAndReadMfra, mfro.go TryDecodeMfro over extended shapes) and coq/c04/C04TreeModel.v (table decoders as leaves) are hand transcriptions",
        "model: coq/c04/C04XrefModel.v (mp4/traf.go ParseReadSenc / ContainsSencBox, the moof case of file.go / boxsr.go, moov.go IsEncrypted / GetSinf), coq/c04/C04InfoModel.v (mp4/infodumper.go getInfoLevel, the Info methods of 17 table boxes) and "
        "coq/c04/C04TreeXModel.v (sidx / subs / pssh with final reader position and Size()) are hand transcriptions",
        "model: coq/c04/C04AllocModel.v (prologues of mp4/trun.go stts.go ctts.go stsc.go stsz.go stco.go co64.go stss.go sdtp.go saiz.go "
        "saio.go senc.go sbgp.go subs.go elst.go tfra.go sidx.go pssh.go ssix.go tref.go leva.go uuid.go ftyp.go styp.go sgpd.go samplegroupentries.go hvcc.go avcc.go lou.go, hevc/hevcdecoderconfigurationrecord.go avc/avcdecoderconfigurationrecord.go) hand transcription; "
        "element sizes are Go 64-bit struct layouts",
        "harness/c04: shape renderer (minimal valid boxes with chosen pointers absent / counts zero), worker isolation, budgets",
    ]
    ctx.assumptions += [
        "io.Reader is a bytes.Reader over the whole input (EOF is the only read error); Go int is 64 bit",
        "time budget per operation 1.5 s + 2 us/byte, allocation budget per operation 64*len + 16 MiB (runtime/metrics heap allocs: a "
        "64 MiB request from a 24-byte box is an overalloc), "
        "address space of harness and workers limited to %d KiB; a worker ends an operation at twice the allocation budget + 128 MiB or four times the time budget "
        "(classified overalloc / hang by the parent, hang re-measured alone)" % ULIMIT_KB,
        "leaf decoder bodies are opaque in the container proofs (contract: no panic, reader invariant kept, cost <= bytes consumed + 1); "
        "14 exact-size-guard table prologues and the unguarded sidx subs pssh are composed with the container loops (C04TreeModel.v, C04TreeXModel.v); the other unguarded ones (sgpd ...) are modelled per box only",
    ]
    exe, model = build(ctx)
    pr = ctx.proofs("c04", "C04Theorems.v")
    # ---- correspondence
    n = ctx.n(3000, 100000)
    exh = ctx.n(3, 3)
    rc, cases, e = harness(exe, ["corr", "-seed", ctx.seed, "-n", n, "-exh", exh], 3000)
    if rc != 0:
        raise common.CheckError("harness corr failed rc=%s: %s" % (rc, e[-1000:]))
    lines = [l for l in cases.splitlines() if l[:2] in ("R\t", "B\t", "G\t", "A\t", "T\t", "C\t", "Q\t", "X\t", "I\t")]
    fails = [l.split("\t") for l in cases.splitlines() if l.startswith("FAIL\t")]
    stats = [l.split("\t") for l in cases.splitlines() if l.startswith("STATS\t")]
    res = common.run_model(model, "\n".join(lines) + "\n")
    mism = [l for l in res if not l.startswith("OK ")]
    distinct = len(set(l.split("\t", 2)[2] for l in lines))
    ctx.cov["evaluations"] += len(lines)
    ctx.cov["distinct_nontrivial"] += distinct
    kinds = {k: sum(1 for l in lines if l.startswith(k + "\t")) for k in ("R", "B", "G", "A", "T", "C", "Q", "X", "I")}
    ctx.notes["correspondence"] = {
        "cases": len(lines), "mismatches": len(mism), "distinct_cases": distinct, "kinds": kinds,
        "exhaustive_shape_list_length": exh, "shape_alphabet": 29,
        "trailing_index": "T: every combination of entry counts 0..3 for 0..3 tfra boxes after 1 and after 3 fragments; 14 tfra sets (first shorter/longer than later ones, duplicate ids with the first / among later ones, "
                          "differing / zero / non-moof offsets, up to 4 boxes, tfra version 0/1 and all length-size fields) x 18 mfro variants (correct, absent, ParentSize -1 -4 -8 +1 0 1 16 huge L L+1, previous box, "
                          "stand-alone mfro, mfra inside an mdat) x 6 contexts x {RN1 RL1 RN3 RL3 RN0 SN1} + random ones; G: random box trees whose leaves include the 14 guarded table boxes (0..5 entries, inflated / "
                          "deflated counts, trailing byte, 16-byte header) with the B mutations, both paths: tree dump with every Size(), end position",
        "cross_references": "X: synthesized encrypted fragments (moof{mfhd, traf{tfhd, tfdt, sgpd*, sbgp*, saio, trun, senc|uuid-senc*}} + mdat, optionally after ftyp + moov with chosen traks): group_description_index x sgpd of 0..3 entries "
                            "(14 values each), sbgp entry lists / versions, grouping types seig/roll/absent (27 combinations), duplicates, seig entries with IV size 8 / 16 / 0 / constant IV and per-entry lengths vs senc data built for IV 0 / 8 / 16 "
                            "with / without sub-samples, 9 saio modes x versions x plain / PIFF / several senc boxes x moved moof, 12 senc sets, damaged senc data, 20 trak sets x 9 tfhd track ids, two trafs, random combinations; 3 configurations each; "
                            "observables: decode class, per traf readButNotParsed / len(IVs) / len(SubSamples) of the senc the pass picks, Info line counts of that senc at 4 level strings; "
                            "I: the 17 modelled table boxes (all count-inflation variants, 300-entry tables, stsc id patterns, all 64 trun flag sets x 0..2 samples, 1024 / 1025 empty samples) + random corruption, both paths: decode class and the number of "
                            "lines at 16 specificBoxLevels strings (empty, all:N, type:N, both orders, invalid numbers, empty type, negative level); G now also has sidx / subs / pssh leaves whose counts say more or less than the bytes present",
        "input_distribution": "R: every reader op x small/hostile argument x every position of 6 buffers + random histories (half with hostile "
                              "ints); B: random box trees over {moov,moof,traf,mfra,udta,dinf | free,skip,mdat,unknown} (large-size headers 1/8) "
                              "with truncation / size-field / large-size corruption, both decode paths; A: all shape lists up to the given length "
                              "over 29 letters x decode options (reader/SR x normal/lazy x flags none/ISM/start-on-moof) + random longer lists, "
                              "observables: outcome class, grouping, StartPos, Info x3, Encode/EncodeSW x2 modes; C: count/length-field inflation of "
                              "the 29 modelled table boxes (every version/flags variant x field x 12 values + the counts that SOLVE the size guard modulo 2^16 / 2^31 / 2^32 "
                              "for box sizes L, L+-4, L+8 with the per-entry size measured on the variant, and for the other 16/32-bit fields the values that keep h + v*e "
                              "unchanged modulo 2^K for e of 2-adic valuation 0..4; compact/large header, trailing "
                              "bytes, 0..3 and 16384 real entries) + random corruption of those, each on both paths; observables: outcome class, "
                              "decoded entry count, log2 bucket of the bytes allocated; Q: every senc case x perSampleIVSize 0/8/16/1 x both paths "
                              "through decode then ParseReadBox: both classes, len(IVs), len(SubSamples), allocation bucket",
    }
    if stats:
        ctx.notes["corr_worker_stats"] = {"worst_op_ns": int(stats[0][1]), "on_bytes": int(stats[0][2]),
                                          "max_alloc_one_op": int(stats[0][3]), "worker_restarts": int(stats[0][4])}
    ctx.cov["samples"] += [l[:300] for l in lines[:2]] + [l[:300] for l in lines[len(lines) // 2:len(lines) // 2 + 2]] + [l[:300] for l in lines[-2:]]
    ctx.log("correspondence: %d cases (%s), %d mismatches, %d direct failures" % (len(lines), kinds, len(mism), len(fails)))
    # ---- search: mutation fuzzing of the testdata
    ns = ctx.n(12000, 1000000)
    rc, so, e = harness(exe, ["search", "-seed", ctx.seed, "-n", ns], 6000)
    if rc != 0:
        raise common.CheckError("harness search failed rc=%s: %s" % (rc, e[-1000:]))
    for l in so.splitlines():
        f = l.split("\t")
        if f[0] == "FAIL":
            fails.append(f)
        elif f[0] == "EVALS":
            ctx.cov["evaluations"] += int(f[1])
            ctx.notes["search_evaluations"] = int(f[1])
        elif f[0] == "XREF_FIELDS":
            ctx.notes["xref_fields_mutated_on_real_files"] = f[1] if len(f) > 1 else ""
        elif f[0] == "INFO_REACHED":
            ctx.notes["info_levels_0_2_reached"] = {"registered_types_decoded_and_printed_at_levels_0_1_2": int(f[1]), "registered_types": int(f[2]),
                                                    "not_reached": f[3] if len(f) > 3 else ""}
        elif f[0] == "STATS":
            ctx.notes["search_worker_stats"] = {"worst_op_ns": int(f[1]), "on_bytes": int(f[2]),
                                                "max_alloc_one_op": int(f[3]), "worker_restarts": int(f[4])}
    sigs = {}
    for f in fails:
        sigs.setdefault((f[1], f[2]), []).append(f)
    for (site, klass), fl in sorted(sigs.items()):
        f = min(fl, key=lambda x: len(x[3]))
        ctx.failing_input(site, klass, f[3][:20000], f[4][:500], extra={"count": len(fl)})
    ctx.notes["failing_signatures"] = ["%s/%s x%d" % (s, k, len(v)) for (s, k), v in sorted(sigs.items())]
    ctx.log("search: %d evaluations, %d failing inputs, %d signatures" % (ctx.notes.get("search_evaluations", 0), len(fails), len(sigs)))
    if mism and not fails:
        by_id = {}
        for l in lines:
            p = l.split("\t")
            by_id[p[1]] = l
        first = mism[0].split(" ")
        ctx.violation({"kind": "correspondence-mismatch", "correspondence": "C04Model/C04AsmModel vs bits+mp4 (harness c04 corr)",
                       "mismatches": len(mism), "first_case": by_id.get(first[1], "")[:4000], "model_says": mism[0][:4000]},
                      "model/implementation disagree on %d cases" % len(mism), no_input=True)
    ctx.proof_violation_if_broken(pr, "c04 search: %d evaluations" % ctx.notes.get("search_evaluations", 0))
    ctx.cov["rule"] = ("corr: reader op histories, mutated box trees on both paths, all shape lists up to length %d x options; "
                       "distinct = distinct case lines (input + observables); search: structured mutants of every testdata file "
                       "(truncation at box boundaries +-1, 32/64-bit size corruption, count inflation on harvested boxes, structured count/length-field inflation of 34 box types x version/flags variants at box level and nested in a file, catch-all word inflation of every registered box type, version/flags, removal, "
                       "duplication, swap, byte corruption, type confusion = the same bytes under every other registered box type, splice = boxes harvested from all testdata files inserted into containers) through decode x options, Info x3, both encoders x2 modes, and of every "
                       "harvested box through DecodeBox/DecodeBoxSR/Info/Encode; classes ok|err|panic|hang|overalloc" % exh)


def replay(ctx, path):
    import json
    r = json.load(open(path))
    print(json.dumps(r, indent=1)[:6000])
    w = r.get("witness", "")
    if "hex:" in w:
        exe, _ = build(ctx)
        hexs = w.split("hex:")[1].split()[0]
        cfg = "RN0"
        if "cfg:" in w:
            cfg = w.split("cfg:")[1].split()[0]
        kind = "P" if r.get("site") != "box" else "X"
        rc, o, e = sh2(["sh", "-c", "ulimit -v %d; echo '%s %s %s' | timeout 60 '%s' worker" % (ULIMIT_KB, kind, cfg, hexs, exe)])
        print("replayed on the current tree:", o.strip()[:2000], e.strip()[-500:])
    return 0
