"""Shared machinery for the per-property checks (see DESIGN.md section 2).

Every check follows the same pipeline:
  1 build the Go harness for the property from /repo's CURRENT working tree (-tags verif)
  2 (re)check the property's Coq theorems (full .vo build + Print Assumptions audit)
  3 correspondence: Go harness emits cases + implementation observables; the extracted
    OCaml model recomputes the observables; differences are mismatches
  4 search: the harness evaluates the property itself on the implementation
  5 verdict + evidence file
"""
import hashlib
import json
import os
import re
import subprocess
import sys
import time

ROOT = os.path.dirname(os.path.dirname(os.path.abspath(__file__)))
REPO = os.environ.get("VERIF_REPO", "/repo")
COQ = os.path.join(ROOT, "coq")
BUILD = os.path.join(ROOT, "build")
HARNESS = os.path.join(ROOT, "harness")
EVID = os.path.join(ROOT, "evidence")
REPLAYS = os.path.join(ROOT, "replays")
NCPU = os.cpu_count() or 4

GOENV = dict(os.environ)
GOENV.update({
    "GOFLAGS": "-mod=mod", "GOPROXY": "off", "GOSUMDB": "off", "GOTOOLCHAIN": "local",
    "CGO_ENABLED": GOENV.get("CGO_ENABLED", "0"),
})

COQ_MEM_GB = float(os.environ.get("VERIF_COQ_MEM_GB", "24"))   # address-space cap per coqc / coqchk process

ALLOWED_AXIOMS = set()   # target: every property theorem is closed under the global context


class CheckError(Exception):
    pass


class locked:
    """Advisory file lock (flock) under build/locks: checks may be run concurrently, and several of them build the
    same Coq files, extracted models or harness binaries (C02 uses C01's model, C07/C16/C19 import C15, ...)."""
    def __init__(self, name):
        d = os.path.join(BUILD, "locks")
        os.makedirs(d, exist_ok=True)
        self.path = os.path.join(d, name.replace("/", "_") + ".lock")

    def __enter__(self):
        import fcntl
        self.f = open(self.path, "w")
        fcntl.flock(self.f, fcntl.LOCK_EX)
        return self

    def __exit__(self, *a):
        import fcntl
        fcntl.flock(self.f, fcntl.LOCK_UN)
        self.f.close()


def _limit_as(gb):
    """preexec_fn: cap the address space of a Coq process so that a runaway proof search dies instead of
    taking the machine down (never used for the Go toolchain, which needs a large virtual address space)."""
    def f():
        import resource
        lim = int(gb * (1 << 30))
        resource.setrlimit(resource.RLIMIT_AS, (lim, lim))
    return f


def sh(cmd, cwd=None, env=None, timeout=1800, stdin=None, mem_gb=None):
    """Run a command, return (rc, stdout+stderr). rc=124 on timeout."""
    try:
        p = subprocess.run(cmd, cwd=cwd, env=env, input=stdin, stdout=subprocess.PIPE,
                           stderr=subprocess.STDOUT, timeout=timeout,
                           shell=isinstance(cmd, str), preexec_fn=_limit_as(mem_gb) if mem_gb else None)
        return p.returncode, p.stdout.decode("utf-8", "replace")
    except subprocess.TimeoutExpired as e:
        out = e.stdout.decode("utf-8", "replace") if e.stdout else ""
        return 124, out + "\n[timeout after %ss]" % timeout


def sh2(cmd, cwd=None, env=None, timeout=1800, stdin=None):
    """Run a command keeping stdout and stderr apart: (rc, stdout, stderr)."""
    try:
        p = subprocess.run(cmd, cwd=cwd, env=env, input=stdin, stdout=subprocess.PIPE,
                           stderr=subprocess.PIPE, timeout=timeout, shell=isinstance(cmd, str))
        return p.returncode, p.stdout.decode("utf-8", "replace"), p.stderr.decode("utf-8", "replace")
    except subprocess.TimeoutExpired as e:
        out = e.stdout.decode("utf-8", "replace") if e.stdout else ""
        err = e.stderr.decode("utf-8", "replace") if e.stderr else ""
        return 124, out, err + "\n[timeout after %ss]" % timeout


# --------------------------------------------------------------------------- Go harness
def ensure_harness_module():
    """harness/go.mod pins the module under test to /repo's working tree."""
    if REPO != "/repo" and os.path.realpath(ROOT) == "/verif":
        # harness/go.mod is shared by every property's harness build: pointing it at another tree from inside the real
        # /verif would make concurrently running checks build against that tree (happened once: see DESIGN 0.5)
        raise CheckError("VERIF_REPO=%s inside the real /verif: run checks against another tree from a scratch copy "
                         "of /verif (scripts/seeded_run.sh shows how)" % REPO)
    gomod = os.path.join(HARNESS, "go.mod")
    want = ("module verifharness\n\ngo 1.16\n\nrequire github.com/Eyevinn/mp4ff v0.0.0\n\n"
            "replace github.com/Eyevinn/mp4ff => %s\n" % REPO)
    cur = open(gomod).read() if os.path.exists(gomod) else ""
    if not cur.startswith("module verifharness") or ("=> %s\n" % REPO) not in cur:
        with open(gomod, "w") as f:
            f.write(want)
    # go.sum copied from the repo so that nothing is fetched
    src = os.path.join(REPO, "go.sum")
    dst = os.path.join(HARNESS, "go.sum")
    if os.path.exists(src):
        data = open(src).read()
        if not os.path.exists(dst) or open(dst).read() != data:
            open(dst, "w").write(data)


def go_build(pkg, out_name=None, race=False, timeout=1200):
    """Build harness/<pkg> against /repo's working tree with -tags verif.
    Returns (binary_path, None) or (None, compiler_output)."""
    ensure_harness_module()
    os.makedirs(os.path.join(BUILD, "bin"), exist_ok=True)
    out = os.path.join(BUILD, "bin", out_name or pkg.replace("/", "_"))
    cmd = ["go", "build", "-tags", "verif"]
    env = dict(GOENV)
    if race:
        cmd.append("-race")
        env["CGO_ENABLED"] = "1"
    cmd += ["-o", out, "./" + pkg]
    with locked("go_" + os.path.basename(out)):
        rc, o = sh(cmd, cwd=HARNESS, env=env, timeout=timeout)
    if rc != 0:
        return None, o
    return out, None


def go_test_build(repo_pkg, out_name, timeout=1200):
    """Compile a test binary of a /repo package (for package-main code reached through
    add-only *_verif_test.go files): go test -tags verif -c."""
    os.makedirs(os.path.join(BUILD, "bin"), exist_ok=True)
    out = os.path.join(BUILD, "bin", out_name)
    rc, o = sh(["go", "test", "-tags", "verif", "-vet=off", "-c", "-o", out, "./" + repo_pkg],
               cwd=REPO, env=GOENV, timeout=timeout)
    if rc != 0:
        return None, o
    return out, None


def go_build_repo_cmd(repo_pkg, out_name, timeout=1200):
    """Build one of the repository's own binaries (cmd/..., examples/...) from the working tree."""
    os.makedirs(os.path.join(BUILD, "bin"), exist_ok=True)
    out = os.path.join(BUILD, "bin", out_name)
    rc, o = sh(["go", "build", "-o", out, "./" + repo_pkg], cwd=REPO, env=GOENV, timeout=timeout)
    if rc != 0:
        return None, o
    return out, None


# --------------------------------------------------------------------------- Coq
def coq_prepare(prop):
    rc, o = sh([os.path.join(ROOT, "scripts", "coqproject.sh"), prop], timeout=1200)
    if rc != 0:
        raise CheckError("coqproject.sh failed:\n" + o)


def coq_make(targets, prop, timeout=3000):
    """Full .vo build of the given targets (paths relative to coq/, .vo) with the property's own
    Makefile (coq/Makefile.<prop>: lib + the property's directory + imported ones). Incremental."""
    with locked("coq"):
        coq_prepare(prop)
        rc, o = sh(["make", "-f", "Makefile." + prop, "-j%d" % NCPU, "COQC=timeout 2400 coqc"] + list(targets), cwd=COQ,
                   timeout=timeout, mem_gb=COQ_MEM_GB)
    return rc == 0, o


THEOREM_RE = re.compile(r"^\s*(Theorem|Lemma|Corollary)\s+([A-Za-z0-9_']+)", re.M)


def coq_check_theorems(prop_dir, thm_file, timeout=1800):
    """Builds the dependencies, then re-runs coqc on the property's Theorems file itself so that
    (a) every theorem is re-checked on every run and (b) the Print Assumptions output is audited.
    Returns dict(obligations, discharged, names, failed, axioms, log)."""
    rel = os.path.join(prop_dir, thm_file)
    src = open(os.path.join(COQ, rel)).read()
    names = [m.group(2) for m in THEOREM_RE.finditer(src)]
    n_print = len(re.findall(r"^\s*Print Assumptions\s", src, re.M))
    res = {"obligations": len(names), "discharged": 0, "names": names, "failed": [],
           "axioms": [], "log": "", "file": "coq/" + rel}
    # forbidden words anywhere in the development of this property and the shared library
    bad = forbidden_words([os.path.join(COQ, prop_dir), os.path.join(COQ, "lib")])
    if bad:
        res["failed"] = names
        res["log"] = "forbidden constructs: " + "; ".join(bad)
        return res
    ok, o = coq_make([rel[:-2] + ".vo"], prop_dir, timeout=timeout)
    if not ok:
        res["log"] = o[-4000:]
        res["failed"] = names
        m = re.search(r'File "\./([^"]+)", line (\d+)', o)
        if m:
            res["broken_at"] = "%s:%s" % (m.group(1), m.group(2))
        return res
    t0 = time.time()
    rc, o = sh(["coqc", "-Q", ".", "V", "-w", "-notation-overridden,-deprecated-hint-without-locality",
                rel], cwd=COQ, timeout=timeout, mem_gb=COQ_MEM_GB)
    res["coqc_s"] = round(time.time() - t0, 2)
    if rc != 0:
        res["log"] = o[-4000:]
        res["failed"] = names
        return res
    closed = len(re.findall(r"Closed under the global context", o))
    axioms = []
    for m in re.finditer(r"^Axioms:\n((?:.+\n?)+?)(?=\n|\Z)", o, re.M):
        for line in m.group(1).splitlines():
            mm = re.match(r"^([A-Za-z0-9_.']+)\s*:", line)
            if mm:
                axioms.append(mm.group(1))
    res["axioms"] = sorted(set(axioms))
    not_allowed = [a for a in res["axioms"] if a not in ALLOWED_AXIOMS]
    if not_allowed:
        res["failed"] = names
        res["log"] = "theorems depend on axioms outside the allow-list: %s" % not_allowed
        return res
    if n_print < len(names):
        res["log"] = "only %d Print Assumptions for %d theorems" % (n_print, len(names))
        res["failed"] = names[n_print:]
    res["discharged"] = min(len(names), closed + sum(1 for _ in re.finditer(r"^Axioms:", o, re.M)))
    return res


FORBIDDEN = re.compile(r"\b(Admitted|admit|Axiom|Axioms|Parameter|Parameters|Conjecture|Conjectures|"
                       r"Unset\s+Guard|bypass_check|Admit\s+Obligations|Unset\s+Positivity|"
                       r"Unset\s+Universe\s+Checking)\b")


def strip_coq_comments(s):
    out, depth, i = [], 0, 0
    while i < len(s):
        if s.startswith("(*", i):
            depth += 1
            i += 2
        elif s.startswith("*)", i) and depth > 0:
            depth -= 1
            i += 2
        else:
            if depth == 0:
                out.append(s[i])
            i += 1
    return "".join(out)


def forbidden_words(dirs):
    bad = []
    for d in dirs:
        for dp, _, fs in os.walk(d):
            for f in fs:
                if f.endswith(".v"):
                    p = os.path.join(dp, f)
                    txt = strip_coq_comments(open(p).read())
                    for m in FORBIDDEN.finditer(txt):
                        bad.append("%s: %s" % (os.path.relpath(p, ROOT), m.group(0)))
                    if re.search(r"^\s*(Variable|Hypothesis|Variables|Hypotheses)\b", txt, re.M) and \
                            not re.search(r"^\s*Section\b", txt, re.M):
                        bad.append("%s: Variable/Hypothesis outside a section" % os.path.relpath(p, ROOT))
    return bad


# --------------------------------------------------------------------------- extraction + OCaml
def build_model(prop, extract_v, driver_ml, timeout=1800):
    with locked("ocaml_" + prop):
        return _build_model(prop, extract_v, driver_ml, timeout)


def _build_model(prop, extract_v, driver_ml, timeout=1800):
    """Runs coq/<prop>/<extract_v> (Separate Extraction, ExtrOcamlBasic only) in
    build/ocaml/<prop>/, compiles the extracted modules with ocaml/vx.ml and the driver.
    Returns (exe, None) or (None, log).  Rebuilt only when an input changed."""
    d = os.path.join(BUILD, "ocaml", prop)
    os.makedirs(d, exist_ok=True)
    exe = os.path.join(d, "modeld")
    ex_src = os.path.join(COQ, prop, extract_v)
    drv = os.path.join(ROOT, "ocaml", driver_ml)
    vx = os.path.join(ROOT, "ocaml", "vx.ml")
    # stamp = hash of every .v under coq/ that could matter + driver + vx
    h = hashlib.sha256()
    for base in (os.path.join(COQ, "lib"), os.path.join(COQ, prop)):
        for dp, _, fs in sorted(os.walk(base)):
            for f in sorted(fs):
                if f.endswith(".v"):
                    h.update(open(os.path.join(dp, f), "rb").read())
    # models of other properties imported by this one
    src_txt = open(ex_src).read()
    for m in re.finditer(r"From\s+V\.(\w+)\s+Require", src_txt):
        od = os.path.join(COQ, m.group(1))
        if os.path.isdir(od) and m.group(1) not in ("lib", prop):
            for f in sorted(os.listdir(od)):
                if f.endswith(".v"):
                    h.update(open(os.path.join(od, f), "rb").read())
    for p in (drv, vx):
        h.update(open(p, "rb").read())
    stamp = h.hexdigest()
    stamp_f = os.path.join(d, "stamp")
    if os.path.exists(exe) and os.path.exists(stamp_f) and open(stamp_f).read() == stamp:
        return exe, None
    for f in os.listdir(d):
        if f.endswith((".ml", ".mli", ".cmi", ".cmx", ".o", ".cmo")) or f == "modeld":
            try:
                os.remove(os.path.join(d, f))
            except FileNotFoundError:
                pass
    deps = []
    for m in re.finditer(r"From\s+V\.(\w+)\s+Require\s+(?:Import|Export)\s+([^.]+)\.", src_txt):
        for nm in m.group(2).split():
            deps.append("%s/%s.vo" % (m.group(1), nm))
    ok, o = coq_make(deps, prop, timeout=timeout)
    if not ok:
        return None, "building the model's .vo files failed:\n" + o[-3000:]
    rc, o = sh(["coqc", "-Q", COQ, "V", "-o", os.path.join(d, os.path.basename(ex_src)[:-2] + ".vo"), ex_src],
               cwd=d, timeout=timeout)
    if rc != 0:
        return None, "extraction failed:\n" + o[-3000:]
    import shutil
    shutil.copy(vx, os.path.join(d, "vx.ml"))
    shutil.copy(drv, os.path.join(d, "driver.ml"))
    mls = [f for f in os.listdir(d) if f.endswith(".ml") or f.endswith(".mli")]
    rc, order = sh(["ocamlfind", "ocamldep", "-sort"] + mls, cwd=d, timeout=120)
    if rc != 0:
        return None, "ocamldep failed:\n" + order
    files = order.split()
    rc, o = sh(["ocamlfind", "ocamlopt", "-w", "-a", "-o", "modeld"] + files,
               cwd=d, timeout=600)
    if rc != 0:
        return None, "ocamlopt failed:\n" + o[-3000:]
    open(stamp_f, "w").write(stamp)
    return exe, None


def run_model(exe, cases_text, timeout=1800):
    """Feeds case lines to the extracted model driver (unlimited stack), returns output lines."""
    rc, out, err = sh2("ulimit -s unlimited 2>/dev/null; exec '%s'" % exe, stdin=cases_text.encode(),
                       timeout=timeout)
    if rc != 0:
        raise CheckError("model driver failed rc=%s: %s" % (rc, err[-2000:]))
    return out.splitlines()


# --------------------------------------------------------------------------- known findings
def load_known():
    """known_findings.json plus known_findings/<ID>.json (one file per property so that they can be
    maintained independently). Entries: {property, id, status: known|fixed, site, class, witness,
    description, commit?}. Never written at run time."""
    out = []
    d = os.path.join(ROOT, "known_findings")
    if os.path.isdir(d):
        for f in sorted(os.listdir(d)):
            if f.endswith(".json"):
                out += json.load(open(os.path.join(d, f))).get("findings", [])
        return out
    # known_findings.json is the aggregate generated from the per-property files (scripts/gen_status.py)
    p = os.path.join(ROOT, "known_findings.json")
    if os.path.exists(p):
        out += json.load(open(p)).get("findings", [])
    return out


# --------------------------------------------------------------------------- the check context
class Ctx:
    def __init__(self, prop, tier, seed, level="proof"):
        self.prop = prop
        self.tier = tier
        self.seed = seed
        self.level = level
        self.t0 = time.time()
        self.violations = []     # (replay_path, description, no_input_found)
        self.known_hits = []
        self.cov = {"evaluations": 0, "distinct_nontrivial": 0, "rule": "", "samples": [],
                    "obligations": 0, "discharged": 0, "checker_cmd": "", "trusted_base": []}
        self.assumptions = []
        self.notes = {}
        os.makedirs(EVID, exist_ok=True)
        os.makedirs(REPLAYS, exist_ok=True)

    # ---- scale helper: quick vs thorough
    def n(self, quick, thorough):
        return thorough if self.tier == "thorough" else quick

    def log(self, *a):
        print("[%s %6.1fs]" % (self.prop, time.time() - self.t0), *a, flush=True)

    # ---- proofs
    def proofs(self, prop_dir, thm_file):
        r = coq_check_theorems(prop_dir, thm_file)
        self.cov["obligations"] += r["obligations"]
        self.cov["discharged"] += r["discharged"] if not r["failed"] else \
            max(0, r["obligations"] - len(r["failed"]))
        self.cov["checker_cmd"] = ("make -C coq %s/%s.vo && coqc -Q coq V coq/%s/%s "
                                   "(full .vo build, Print Assumptions audited)"
                                   % (prop_dir, thm_file[:-2], prop_dir, thm_file))
        self.cov.setdefault("theorems", []).extend(r["names"])
        self.cov["axioms_reported"] = sorted(set(self.cov.get("axioms_reported", []) + r["axioms"]))
        self.log("proofs: %d/%d theorems of %s checked%s" % (
            r["obligations"] - len(r["failed"]), r["obligations"], r["file"],
            "" if not r["failed"] else " -- FAILED: " + r["log"][-1500:]))
        self.proof_result = r
        if self.tier == "thorough" and not r["failed"]:
            self.coqchk(prop_dir, thm_file[:-2])
        return r

    def coqchk(self, prop_dir, module):
        """Thorough tier: re-check the compiled theorems file and everything it depends on with the
        independent checker, and record the axioms it reports.  coqchk needs several GB and many minutes; when
        the process is killed (signal, out of memory) or times out it is retried once, and if it still cannot
        complete that is recorded in the evidence (`coqchk.completed: false`) WITHOUT raising an alarm: the
        theorems have been checked by coqc's kernel on this run, coqchk is the second, independent opinion.
        A coqchk that completes and reports an error or an axiom does fail the obligations."""
        cmd = ["coqchk", "-silent", "-o", "-Q", ".", "V", "V.%s.%s" % (prop_dir, module)]
        t0 = time.time()
        rc, o = sh(cmd, cwd=COQ, timeout=5400, mem_gb=2 * COQ_MEM_GB)
        attempts = 1
        if rc < 0 or rc in (124, 137) or "Out of memory" in o or "Stack overflow" in o:
            attempts = 2
            rc, o = sh(cmd, cwd=COQ, timeout=5400, mem_gb=2 * COQ_MEM_GB)
        ax = ""
        m = re.search(r"\* Axioms:(.*?)\n\s*\n\* Constants", o, re.S)
        if m:
            ax = " ".join(m.group(1).split())
        completed = not (rc < 0 or rc in (124, 137) or "Out of memory" in o or "Stack overflow" in o)
        key = "coqchk" if "coqchk" not in self.notes else "coqchk_" + module
        self.notes[key] = {"rc": rc, "axioms": ax, "wall_s": round(time.time() - t0, 1), "attempts": attempts,
                           "completed": completed,
                           "cmd": "coqchk -silent -o -Q coq V V.%s.%s" % (prop_dir, module)}
        self.log("coqchk %s: rc=%d axioms=%s completed=%s (%.0fs)" % (module, rc, ax, completed, time.time() - t0))
        if completed and (rc != 0 or (ax and ax != "<none>")):
            self.proof_result["failed"] = self.proof_result["names"]
            self.proof_result["log"] = "coqchk failed or reported axioms: rc=%d %s\n%s" % (rc, ax, o[-1500:])

    def proof_violation_if_broken(self, r, searched_desc):
        """Call AFTER the failing-input search: a broken theorem with no failing input found."""
        if r["failed"]:
            self.violation(
                {"kind": "theorem-no-longer-checks", "theorems": r["failed"][:20], "file": r["file"],
                 "broken_at": r.get("broken_at"), "log_tail": r["log"][-2000:],
                 "searched": searched_desc},
                "theorem(s) %s no longer check" % ",".join(r["failed"][:3]), no_input=True)

    # ---- findings / violations
    def violation(self, replay_obj, desc, no_input=False, name=None):
        replay_obj = dict(replay_obj)
        replay_obj.setdefault("property", self.prop)
        replay_obj.setdefault("seed", self.seed)
        replay_obj["no_failing_input_found"] = bool(no_input)
        name = name or "%s_%s_%d.json" % (self.prop, "nofail" if no_input else "fail", len(self.violations))
        path = os.path.join(REPLAYS, name)
        with open(path, "w") as f:
            json.dump(replay_obj, f, indent=1, sort_keys=True)
        self.violations.append((path, desc, no_input))

    def failing_input(self, site, klass, witness, desc, extra=None):
        """A concrete input on which the property fails on the implementation.
        Suppressed (KNOWN-FINDING) only if (property, site, class) is listed as known."""
        for k in load_known():
            if k.get("property") == self.prop and k.get("status") == "known" and \
                    k.get("site") == site and k.get("class") == klass:
                key = (site, klass)
                if key not in [(a, b) for a, b, _ in self.known_hits]:
                    self.known_hits.append((site, klass, k.get("description", desc)))
                return False
        obj = {"kind": "failing-input", "site": site, "class": klass, "witness": witness,
               "description": desc}
        if extra:
            obj.update(extra)
        # one violation per signature is enough
        for p, d, _ in self.violations:
            if d.startswith("%s/%s:" % (site, klass)):
                return True
        self.violation(obj, "%s/%s: %s" % (site, klass, desc))
        return True

    # ---- evidence + exit
    def finish(self):
        wall = round(time.time() - self.t0, 2)
        cov = dict(self.cov)
        cov["samples"] = cov["samples"][:12] or ["(none)"]
        ev = {"property_id": self.prop, "tier": self.tier, "seed": self.seed, "level": self.level,
              "coverage": cov, "assumptions": self.assumptions, "wall_s": wall,
              "violations": len(self.violations)}
        ev["coverage"].update(self.notes)
        with open(os.path.join(EVID, "%s.json" % self.prop), "w") as f:
            json.dump(ev, f, indent=1, sort_keys=True)
        for site, klass, desc in self.known_hits:
            print("KNOWN-FINDING: property=%s %s/%s %s" % (self.prop, site, klass, desc))
        for path, desc, no_input in self.violations:
            print("VIOLATION property=%s replay=%s %s%s" % (
                self.prop, path, desc.replace("\n", " ")[:300], " no-failing-input-found" if no_input else ""))
        self.log("done in %.1fs: %d violation(s), %d known finding(s)" % (wall, len(self.violations), len(self.known_hits)))
        return 1 if self.violations else 0


TRUSTED_BASE_COMMON = [
    "Coq 8.16.1 kernel (coqc, full .vo build; vm_compute where a theorem says so; no native_compute)",
    "no axioms: Print Assumptions under every property theorem must say 'Closed under the global context'",
    "extraction: ExtrOcamlBasic only (bool/option/unit/list/prod/sumbool/sumor mapped; andb/orb/fst/snd inlined); N/Z/positive/nat stay Coq datatypes; OCaml 4.13.1",
    "hand-written glue: ocaml/vx.ml + the property's OCaml driver, checks/*.py, the Go harness (generators, canonicalisation)",
    "correspondence is differential testing: agreement on the generated inputs only",
]
