"""C19 — init segments built through the API are consistent and self-describing."""
import json
import os
import common
from common import sh2

LEVEL = "proof"
MANIFEST = {
    "technique": "Coq proof over a hand-written Gallina model of the init-segment building API (state machine over "
                 "CreateEmptyInit / AddEmptyTrack / Set...Descriptor), of the avcC/hvcC decoder configuration record codecs "
                 "(byte level) and of the whole init-segment tree in the C01 box model, composed with C05's fragment theorems "
                 "(fragments decode against the decoded init), C15's SPS parser theorems (dimensions = cropped picture size) and "
                 "C18's AudioSpecificConfig codec (typed esds) + differential correspondence "
                 "(extracted OCaml vs Go: states, records, the bytes of InitSegment.Encode, GetTrex on the decoded init, the parser "
                 "models) + property search on the real API "
                 "(invariant, every configuration field vs the values the parameter sets were generated from, encode/decode round "
                 "trip, generated fragment histories per track decoded against the init) with parameter sets generated over the "
                 "whole SPS/PPS syntax by C15's extracted serialisers",
    "level_text": "Theorems (coq/c19/C19Theorems.v), for every op sequence of fewer than 2^32-1 calls and every SPS parser: "
                  "moov children are mvhd, mvex and the contiguous traks in Traks order, track ids are exactly 1..n, one trex per "
                  "track with the same id in the same order, next-track id above every id (C19_inv, also after errors and a panic), "
                  "ids unique and a trex found for every track (C19_trex_lookup), every sample entry has data reference index 1 "
                  "(C19_dref); for in-scope arguments no panic, next-track id = n+1, handler type / media header / language / "
                  "timescale / volume of every track equal to the specification table (C19_tracks); each successful "
                  "Set...Descriptor call adds exactly one sample entry carrying the supplied parameter sets / configuration "
                  "(C19_descriptor_*); DIMENSIONS stated without reference to a parser's answer: with C15's models of "
                  "avc/hevc.ParseSPSNALUnit as the parsers, for EVERY valid SPS field assignment (all profiles, chroma formats, field "
                  "coding, cropping, any VUI incl. any sample aspect ratio) the entry's width/height are the CROPPED picture size of the "
                  "field values mod 2^16 and tkhd holds it in 16.16 (C19_descriptor_avc_dims, C19_descriptor_hevc_dims: a descriptor "
                  "scaling the width by the SAR falsifies them); AAC: C19_descriptor_aac_typed, general in the frequency (f < 2^23): "
                  "the entry is mp4a{esds} with the whole descriptor tree TYPED, it prints and parses back in the box model, and the "
                  "DecConfig bytes inside its DecSpecificInfo are what C18's AudioSpecificConfig encoder writes for, and C18's decoder "
                  "reads back as, the configuration supplied (object type, frequency, channels, extension frequency, SBR/PS); "
                  "C19_decoded_init_aac: over whole histories (AAC frequencies < 2^23) every esds entry of the final state is the entry of "
                  "some SetAACDescriptor(o, f) call, its typed box occurs inside the tree C01's decoder returns for the encoded init, and "
                  "C18's decoder reads its DecSpecificInfo bytes back as that call's configuration; "
                  "C19_box_roundtrip_esds for any configuration of <= 100 bytes; elng "
                  "round trip with the exact two-byte boundary. Codec configuration at byte level, ALL profile values: avc.DecConfRec "
                  "and hevc.DecConfRec write exactly Size() bytes (C19_avcrec_size, C19_hvcrec_size, every record) and decode after "
                  "encoding to the canonical record / to themselves for every in-range record (C19_avcrec_roundtrip, "
                  "C19_avcrec_roundtrip_exact, C19_hvcrec_roundtrip); the record put into the sample entry by a successful "
                  "Set{AVC,HEVC}Descriptor is the one derived from the SPS and survives encode -> decode (C19_descriptor_avc_record, "
                  "C19_descriptor_hevc_record). "
                  "Whole init in the C01 box model (a frozen copy, coq/c19/C19BoxCodec.v + C19BoxModel.v = C01Codec/C01Model at /verif commit "
                  "88f92e5 -- second snapshot: typed esds/hvcC/uuid/sgpd, hdlr Size and senc as repaired in /repo -- so that concurrent "
                  "extensions of C01 cannot turn C19 red): C19_roundtrip is PROVED there for every "
                  "op sequence and every SPS parser: if the final state's values fit their fields (args_okb; by C19_args_ok / "
                  "C19_roundtrip_inputs this follows from hypotheses on the call arguments: 32-bit timescales, language tags of 3 bytes or "
                  ">= 2 non-NUL bytes, parameter-set lists fitting the records, non-negative int AAC frequencies, parsers answering in "
                  "the ranges of their Go types) and the "
                  "sizes fit 32 bits (enc_fits), C01's decoder applied to C01's encoding returns a tree EQUAL to the one encoded, the decoded file passes "
                  "File.AddChild's fragmented-init test as soon as there is a track and GetTrex finds a trex for every track id. "
                  "FRAGMENTS (composition with C05, coq/c05 read-only): C19_init_trex (the decoded init holds for every track id the trex "
                  "CreateTrex built: that id, description index 1, default duration/size/flags 0; ids pairwise different), "
                  "C19_fragments_decode (every history, every track id T of the built init, CreateFragment(seq, T) + ANY history of "
                  "AddFullSample/AddFullSampleToTrack: the encoded fragment, decoded, read through the trex GetTrex(T) finds in the DECODED "
                  "init returns exactly the samples added; nothing through another track's trex), C19_fragments_decode_modes (all six add "
                  "operations, one data mode per fragment), C19_fragments_decode_multi (CreateMultiTrackFragment over any duplicate-free id "
                  "list, every track of the init through its own trex) -- at C05's structure level (wire view of trun/tfhd, sizes and "
                  "positions of the other boxes), below 2 GiB. "
                  "C19_print_then_parse is the general converse of C01_tree for constructed trees, with print-then-parse lemmas for all "
                  "in-range values of every leaf kind of an init (C19_box_roundtrip_* and C19LeafPPProofs); C19_built_fragmented_trex, "
                  "C19_roundtrip_checker_sound and C19_roundtrip_partial (271 histories decided by computation) remain as independent "
                  "confirmations, and roundtrip_ok + the hypotheses of C19_roundtrip are evaluated, extracted, on every correspondence "
                  "case. AC-3 / E-AC-3 (round 4, coq/c19/C19Ac3Model.v = decodeDac3FromData / decodeDec3FromData over C13's bits.Reader model): "
                  "C19_dac3_roundtrip (EVERY dac3 whose six fields fit their bits: the 3 bytes written decode to the fields supplied, Reserved 0, no "
                  "initial zeroes), C19_dec3_roundtrip (EVERY dec3 with a 13-bit data rate and 1..8 substreams whose fields fit their bits, "
                  "chan_loc present iff num_dep_sub > 0: the bytes written decode to the same substream list, nothing left as Reserved; "
                  "C19_dec3_chanloc_refuted: the chan_loc guard is exact), C19_descriptor_ac3_decoded / C19_descriptor_ec3_decoded (a "
                  "successful Set{AC3,EC3}Descriptor with such a configuration adds one entry whose box is the audio sample entry with a "
                  "dac3/dec3 child whose payload decodes to exactly the configuration supplied; by C19_roundtrip that payload is what the "
                  "decoded init holds). Still only explored (search on the real code): typed decoding of wvtt/vttC (opaque payload in the "
                  "snapshot of C01's model; stpp and the records have their own theorems; dac3/dec3 are typed by C19's own decoders, the "
                  "tree decoder of the snapshot still returns them as unknown boxes) and the byte level of moof/mdat (C05's box "
                  "codecs are proved for trun/tfhd only). Refutations: mp4a sample rate for "
                  "96000 Hz (known finding), one-byte elng tag, AddEmptyTrack on decoded inits (outside the quantifier).",
    "level_note": "Trusted: Coq kernel, extraction (ExtrOcamlBasic), OCaml/Go glue; in C19_inv/_tracks/_descriptor_*/_roundtrip the SPS "
                  "parsers are arguments of the model (their answers are taken from the real parsers in the correspondence); "
                  "C19_descriptor_*_dims instantiate them with C15's parser models (coq/c15, live import; compared here with the real "
                  "parser's answer on every AVC/HEVC call of every case); C19_fragments_* rest on C05's fragment model (coq/c05, live "
                  "import, tied to the code by C05's own correspondence) and C19_descriptor_aac_typed on C18's AudioSpecificConfig model "
                  "(coq/c18, live import); the box codec used for the tree is a frozen copy of C01's model (C19BoxModel.v, snapshot of "
                  "88f92e5), boxes it has no leaf for (dac3, dec3, wvtt, stpp) are opaque byte payloads written by C19's models; the dac3/dec3 "
                  "decoders of C19Ac3Model.v are hand transcriptions tied to the code by the Y/D correspondence lines (both decoder entry "
                  "points, encoded / cut-short / extended / random payloads), the bit level under them is C13's reader/writer model "
                  "(coq/c13, live import of C13PlainProofs); "
                  "C15Spec/C15HevcSpec serialisers + validity predicates generate the parameter sets (expected values come from "
                  "the generating field values); in-memory chroma/bit-depth values of an avcC with profile 66/77/88 are not part "
                  "of the box and compared modulo that; the correspondence is only as good as its generated histories.",
}


def build(ctx):
    exe, err = common.go_build("c19")
    if exe is None:
        raise common.CheckError("harness does not build against /repo with -tags verif:\n" + err[-2000:])
    model, err = common.build_model("c19", "C19Extract.v", "c19_driver.ml")
    if model is None:
        raise common.CheckError(err)
    return exe, model


def run_model_par(model, cases, workers=4):
    """The model driver is stateless between case lines: the lines are dealt to `workers` driver processes (round robin, so
    that the expensive I lines are spread) and the verdicts are put back in case order."""
    from concurrent.futures import ThreadPoolExecutor
    lines = cases.splitlines()
    if len(lines) < 4 * workers:
        return common.run_model(model, cases)
    parts = [lines[i::workers] for i in range(workers)]
    with ThreadPoolExecutor(max_workers=workers) as ex:
        outs = list(ex.map(lambda p: common.run_model(model, "\n".join(p) + "\n"), parts))
    for p, o in zip(parts, outs):
        if len(p) != len(o):
            raise common.CheckError("model driver answered %d lines for %d cases" % (len(o), len(p)))
    res = [None] * len(lines)
    for w in range(workers):
        res[w::workers] = outs[w]
    return res


def run(ctx):
    ctx.cov["trusted_base"] = common.TRUSTED_BASE_COMMON + [
        "model: coq/c19/C19Model.v is a hand transcription of mp4/initsegment.go (CreateEmptyInit, AddEmptyTrack, "
        "CreateEmptyTrak, Set{AVC,HEVC,AAC,AC3,EC3,Wvtt,Stpp}Descriptor), MoovBox.AddChild, MvexBox.AddChild, CreateHdlr, "
        "MdhdBox.SetLanguage/GetLanguage, StsdBox.AddChild, CreateAvcC/CreateHvcC (decoder configuration records), "
        "aac.AudioSpecificConfig.Encode (through the C13 bit-writer model), Dac3Box/Dec3Box.ChannelInfo",
        "model: coq/c19/C19RecModel.v is a hand transcription of avc.DecConfRec / hevc.DecConfRec Size, EncodeSW, Decode...DecConfRec",
        "model: coq/c19/C19TreeModel.v builds the init's box tree with the leaf/container constructors of coq/c01/C01Model.v "
        "(coq/c19/C19BoxModel.v is a verbatim snapshot of C01's model at 88f92e5; its encoder is tied to the Go code by C19's byte "
        "comparison of InitSegment.Encode on every case, its decoder by C01's correspondence at that commit and by the search's "
        "real-code round trip); esds is the typed leaf (CreateESDescriptor's values); "
        "dac3/dec3/wvtt/stpp payloads are written by C19's own transcriptions",
        "model: coq/c19/C19Ac3Model.v is a hand transcription of mp4/dac3.go decodeDac3FromData and mp4/dec3.go decodeDec3FromData "
        "(+ bits.Reader.ReadRemainingBytes) over coq/c13/C13Model.v read_plain; the payload encoders are C19TreeModel.dac3_payload / dec3_payload",
        "model: coq/c19/C19FragModel.v get_trex = MvexBox.GetTrex on a box tree, as the trex record of coq/c05/C05Model.v; the fragment "
        "side of C19_fragments_* is C05's model (coq/c05/C05FragModel.v: Fragment building, Encode layout, GetFullSamples)",
        "model: coq/c19/C19DimsProofs.v c15_avc_parser / c15_hevc_parser = C15's models of avc.ParseSPSNALUnit(sps,false) / "
        "hevc.ParseSPSNALUnit + ImageSize projected to what Set{AVC,HEVC}Descriptor reads (coq/c15/C15Model.v, C15HevcModel.v)",
        "model: coq/c18/C18Model.v encode_asc / decode_asc (AudioSpecificConfig), tied to C19Model.asc_encode through C18_writer_tie_asc",
        "generator: coq/c15/C15Spec.v (nalu_sps, nalu_pps, sps_valid, pps_valid) and coq/c15/C15HevcSpec.v (hnalu_sps, hnalu_pps, "
        "hsps_valid, hpps_valid), through the frozen copies coq/c19/C19Gen*.v, extracted into the C19 driver; the random choice "
        "of field values is a copy of ocaml/c15_driver.ml's",
        "spec: coq/c19/C19Spec.v media-type table, language packing formula, op validity (written by hand)",
        "avc.ParseSPSNALUnit / hevc.ParseSPSNALUnit are abstract function arguments of the model",
    ]
    ctx.assumptions += [
        "fewer than 2^32-1 calls in a history (track ids are uint32)",
        "language tags and media types are ASCII byte strings",
        "in-scope media types: video audio subtitle subtitles text wvtt stpp (the ones CreateEmptyTrak names); "
        "handler-style arguments (vide, soun, meta, clcp, any 4 characters) and unsupported ones are covered by the "
        "model and the correspondence but not by the property search",
        "a history without AddEmptyTrack is not an init segment for any track: DecodeFile rejects a moov without trak; "
        "its round trip is evaluated at box level",
        "AAC sampling frequencies are non-negative ints (C19_roundtrip_inputs), below 2^23 in C19_descriptor_aac_typed (the doubled "
        "extension frequency of the HE types must fit the 24-bit escape), below 2^24 in the generated histories",
        "fragments (C05's hypotheses): Sample.Size = len(Data), decode times consistent with the durations, fragment below 2 GiB, "
        "fewer than 2^32 add operations",
        "generated parameter sets: picture sizes below 2^16 (16-bit fields of the sample entry), bit depths 8..14 (an HEVC SPS "
        "with 16-bit samples, bit_depth_minus8 = 8, does not fit the 3-bit hvcC field: outside the scope), fewer than 32 SPS / "
        "256 PPS per call, NAL units shorter than 2^16 bytes",
    ]
    exe, model = build(ctx)
    pr = ctx.proofs("c19", "C19Theorems.v")
    # generated parameter sets: the model driver's GEN mode (C15's extracted serialisers on generated field values)
    npool = ctx.n(150, 2500)
    pool_lines = common.run_model(model, "GEN\t%d\t%d\n" % (ctx.seed, npool))
    pool_path = os.path.join(common.BUILD, "c19_pool_%d_%s.txt" % (ctx.seed, ctx.tier))
    with open(pool_path, "w") as f:
        f.write("\n".join(pool_lines) + "\n")
    npsa = sum(1 for l in pool_lines if l.startswith("PSA\t"))
    npsh = sum(1 for l in pool_lines if l.startswith("PSH\t"))
    if npsa != npool or npsh != npool:
        raise common.CheckError("GEN produced %d AVC / %d HEVC parameter sets instead of %d" % (npsa, npsh, npool))
    profiles = sorted(set(int(l.split("\t")[4].split(".")[2]) for l in pool_lines if l.startswith("PSA\t")))
    gi = [l.split("\t") for l in pool_lines if l.startswith("GI\t")]
    def gcount(kind, key):
        return sum(1 for g in gi if g[1] == kind and (key + "=1") in g)
    ctx.notes["generated_parameter_sets"] = {
        "avc_sets": npsa, "hevc_sets": npsh, "avc_profile_idc_values": profiles,
        "avc_first_sps_with_nonsquare_sample_aspect_ratio": gcount("A", "nonsquare_sar"),
        "avc_first_sps_cropped": gcount("A", "cropped"), "avc_first_sps_field_coded": gcount("A", "field_coded"),
        "hevc_first_sps_with_nonsquare_sample_aspect_ratio": gcount("H", "nonsquare_sar"),
        "hevc_first_sps_with_conformance_window": gcount("H", "cropped"),
        "avc_chroma_formats": sorted(set(int(l.split("\t")[4].split(".")[5]) for l in pool_lines if l.startswith("PSA\t"))),
        "hevc_profile_idc_values": sorted(set(int(l.split("\t")[4].split(".")[4]) for l in pool_lines if l.startswith("PSH\t"))),
        "hevc_chroma_formats": sorted(set(int(l.split("\t")[4].split(".")[8]) for l in pool_lines if l.startswith("PSH\t"))),
        "how": "field values generated over the whole SPS/PPS syntax (profiles, chroma formats, bit depths, cropping, VUI/HRD, scaling "
               "lists, POC types, 1-3 SPS and 0-3 PPS per call, an SPS extension NAL unit in 15% of the AVC sets), serialised by the "
               "extracted C15Spec.nalu_sps/nalu_pps and C15HevcSpec.hnalu_sps/hnalu_pps; kept iff sps_valid/pps_valid/hsps_valid/hpps_valid",
    }
    # correspondence
    n = ctx.n(2000, 60000)
    rc, cases, e = sh2([exe, "corr", "-seed", str(ctx.seed), "-n", str(n), "-pool", pool_path], timeout=3000)
    if rc != 0:
        raise common.CheckError("harness corr failed: " + e[-1000:])
    lines = cases.splitlines()
    res = run_model_par(model, cases)
    mism = [l for l in res if not l.startswith("OK ")]
    ac3hyp = sum(1 for l in res if l.endswith(" ac3hyp"))
    ac3nohyp = sum(1 for l in res if l.endswith(" ac3nohyp"))
    hyp = sum(1 for l in res if l.endswith(" hyp"))
    nohyp = sum(1 for l in res if l.endswith(" nohyp"))
    distinct = len(set(l.split("\t", 2)[2] for l in lines if l.count("\t") >= 2))
    outcomes = {"all_ok": 0, "with_error": 0, "with_panic": 0}
    kinds = {k: sum(1 for l in lines if l.startswith(k + "\t")) for k in ("S", "I", "M", "L", "P", "RA", "DA", "RH", "DH", "Y", "D")}
    for l in lines:
        if not l.startswith("S\t"):
            continue
        oc = l.split("\t")[3].split("|", 1)[0][3:]
        if "p" in oc:
            outcomes["with_panic"] += 1
        elif "e" in oc:
            outcomes["with_error"] += 1
        else:
            outcomes["all_ok"] += 1
    ctx.cov["evaluations"] += len(lines)
    ctx.cov["distinct_nontrivial"] += distinct
    ctx.notes["correspondence"] = {
        "cases": len(lines), "mismatches": len(mism),
        "init_trees_satisfying_the_hypotheses_of_C19_roundtrip": hyp, "init_trees_outside_them": nohyp,
        "encoded_dac3_dec3_boxes_satisfying_the_hypotheses_of_C19_dac3_roundtrip_or_C19_dec3_roundtrip": ac3hyp,
        "encoded_dac3_dec3_boxes_outside_them": ac3nohyp, "distinct_cases": distinct, "histories_by_outcome": outcomes, "kinds": kinds,
        "distribution": "exhaustive: every media type (7 supported, 6 handler-style, 4 unsupported) x 20 language tags (length 2,3,5,6,8,10,27,35,36,39,300 "
                        "incl. en-US, zh-Hant, upper case, tags with variants / extensions / private use) one track; every ordered pair of media types; every AAC object type x "
                        "standard frequency; every acmod x lfeon x fscod. Random: %d in-scope histories (0-5 tracks, 0-2 descriptors "
                        "per track, parameter sets from the repository's tests) + %d out-of-scope histories (bad media types, "
                        "out-of-range track index, truncated/foreign SPS, empty SPS list, invalid object types, fscod 3, no EC-3 "
                        "substream, descriptors not fitting the track). M: MoovBox.AddChild(trak) on every moov child pattern over "
                        "{mvhd, mvex, trak} up to length 6 (1093 patterns; covers the insertion branch that in-scope histories never reach). "
                        "L: elng encode/decode for fixed tags of length 0..26, 27, 35, 36, 39, 300 (incl. NUL bytes) + %d random tags (one in 8 of length up to 300). P: stpp sample entry "
                        "encode/decode for 216 fixed + %d random NUL-free string triples. Generated parameter sets: every one of the %d AVC and %d HEVC "
                        "sets x {avc1+PS, avc3+PS, avc3 without PS} / {hvc1, hev1+PS, hev1 without PS} (SEI on a third), and 3 of 4 AVC/HEVC "
                        "descriptor calls of the random histories. I: the bytes of InitSegment.Encode for the exhaustive, the generated-set and "
                        "%d random histories vs C01's encoder on the model's tree, + roundtrip_ok on the model side. RA/RH: %d random avcC and "
                        "%d hvcC records (every profile_idc of avc/sps.go x NoTrailingInfo exhaustively; counts 0..33/257, lengths up to 65540, "
                        "out-of-range field values) -> Size, Encode, Decode; DA/DH: two mutated/truncated/random byte strings per record "
                        "-> Decode (+ re-encoding). Y/D (dac3/dec3): every acmod x lfeon x fscod, every acmod x lfeon x single chan_loc bit, "
                        "n/4 random boxes each (1-8 substreams, num_dep_sub 0-15; one in three with Reserved bytes / InitialZeroes / a ChanLoc "
                        "next to num_dep_sub 0) -> Encode vs the payload encoders, then both decoder entry points (DecodeBoxSR, DecodeBox) vs "
                        "dac3_decode / dec3_decode on the encoded payload, on every cut of one in eight, with bytes appended / zero bytes in "
                        "front; malformed stream: n/4 random payloads of 0-39 bytes and dac3 payloads of 255-600 bytes around the "
                        "byte(len-3) wrap of InitialZeroes. On every Y line whose fields satisfy dac3_okb / dec3_okb (hypotheses of "
                        "C19_dac3_roundtrip / C19_dec3_roundtrip) the theorem's conclusion is evaluated by the extracted model" % (n, n, n // 4, n // 4, npool, npool, n // 4 + n // 8, n // 2, n // 2),
    }
    ctx.cov["samples"] += [l[:300] for l in lines[5:7]] + [l[:400] for l in lines[-2:]]
    ctx.log("correspondence: %d cases, %d mismatches" % (len(lines), len(mism)))
    # search
    ns = ctx.n(2000, 60000)
    rc, so, e = sh2([exe, "search", "-seed", str(ctx.seed), "-n", str(ns), "-pool", pool_path], timeout=3000)
    if rc != 0:
        raise common.CheckError("harness search failed: " + e[-1000:])
    fails = []
    for l in so.splitlines():
        f = l.split("\t")
        if f[0] == "FAIL":
            fails.append(f)
        elif f[0] == "OBS":
            ctx.notes.setdefault("observations_outside_the_quantifier", {})[f[1]] = f[2]
        elif f[0] == "EVALS":
            ctx.cov["evaluations"] += int(f[1])
            ctx.notes["search_evaluations"] = int(f[1])
    ctx.notes["hygiene_oracles"] = (
        "harness/c19/hygiene.go (corr and search): parameter-set lists reach Set{AVC,HEVC}Descriptor as private copies with 8 guard "
        "bytes behind every NAL unit; guards checked, then bytes + spare capacity + outer list entries overwritten before anything is "
        "read back (aliasing of arguments / writes beyond len); every 4th random history is also built interleaved with another "
        "history (every 8th: an out-of-scope one with failing calls) on a second InitSegment and twice in a row: same bytes and state "
        "as built alone (hidden state between calls); a second Encode gives the same bytes and EncodeSW into a writer with 24 spare "
        "bytes writes exactly Size() bytes. Not demanded: Dac3Box/Dec3Box pointers (a Box handed over becomes a child by contract).")
    # a failing input that is a recorded known finding must not hide a model/implementation mismatch
    new_fails = [f for f in fails if ctx.failing_input(f[1], f[2], f[3], f[4])]
    ctx.log("search: %d failing-input signatures (%d not known)" % (len(fails), len(new_fails)))
    if mism and not new_fails:
        by_id = {}
        for l in lines:
            p = l.split("\t")
            if len(p) > 1:
                by_id[p[1]] = l
        first = mism[0].split(" ")
        ctx.violation({"kind": "correspondence-mismatch", "correspondence": "C19Model vs mp4 init-segment API (harness c19 corr)",
                       "mismatches": len(mism), "first_case": by_id.get(first[1], "")[:4000], "model_says": mism[0][:4000]},
                      "model/implementation disagree on %d cases" % len(mism), no_input=True)
    elif mism:
        ctx.notes["correspondence"]["first_mismatch"] = mism[0][:1000]
    ctx.proof_violation_if_broken(pr, "c19 search: %d histories, no failing input" % ctx.notes.get("search_evaluations", 0))
    ctx.cov["rule"] = ("corr: exhaustive small scopes + %d in-scope + %d out-of-scope random histories executed on the real API, "
                       "state projection (outcomes, moov child order, next id, trex ids, per trak: tkhd id/volume/dims, mdhd timescale/"
                       "language, hdlr type/name, elng, mdia child order, media header, every sample entry with its configuration, the trak's box-tree shape) "
                       "compared with the extracted model; avcC/hvcC records: Size/Encode/Decode observables; init bytes vs C01 encoder on the model tree; "
                       "distinct = distinct case lines. search: independent oracle on in-scope "
                       "histories: ids/trex/next id/contiguity, handler+media header table, language rule, data reference index, trak tree shape, "
                       "descriptor contents vs supplied (dimensions, every avcC/hvcC field and the codec string vs the field values the SPS was generated from, "
                       "parameter sets byte for byte, ASC decoded back + the esds tree values, every dac3 field and every dec3 substream (1-8) vs the values recorded before the call; on the built AND on the decoded init), Encode = EncodeSW, encode -> DecodeFile / DecodeFileSR -> equal "
                       "Info dump + equal re-encoding + IsFragmented; for EVERY track of every init: trex of the decoded init = (id, 1, 0, 0, 0), a fragment "
                       "CreateFragment(seq, id) with a generated add-history (1-5 samples, uniform runs that OptimizeTfhdTrun folds into tfhd defaults "
                       "and non-uniform ones, AddFullSample / AddFullSampleToTrack incl. refused foreign ids / AddSample + AddSampleToTrack / "
                       "AddSamples with the data written by the caller, 64-bit decode times) encoded after the init, DecodeFile, GetFullSamples "
                       "through the DECODED init's trex = the samples handed in, nothing through another track's trex; one multi-track "
                       "fragment over all ids with interleaved additions" % (n, n))


def replay(ctx, path):
    """Re-runs a failing history on the current /repo tree: the witness is the ops string of a harness case."""
    r = json.load(open(path))
    print(json.dumps(r, indent=1)[:3000])
    wit = r.get("witness")
    if r.get("kind") == "correspondence-mismatch":
        exe, model = build(ctx)
        case = r.get("first_case", "")
        res = common.run_model(model, case + "\n")
        print("model driver on the recorded case:", res)
        f = case.split("\t")
        if len(f) >= 3 and f[0] == "S":
            rc, so, e = sh2([exe, "replay", f[2]], timeout=600)
            print(so)
            now = [l for l in so.splitlines() if l.startswith("STATE\t")]
            same = bool(now) and now[0].split("\t", 1)[1] == f[3]
            print("implementation state unchanged since the recording:", same)
        return 1 if any(not l.startswith("OK ") for l in res) else 0
    if not wit:
        return 0
    exe, _ = build(ctx)
    rc, so, e = sh2([exe, "replay", wit], timeout=600)
    print(so + e)
    return 1 if rc != 0 else 0
