"""C20 — independent objects can be used from concurrent goroutines.

Three parts (see DESIGN.md, section C20):
 (a) Coq: schedule independence from footprints (all interleavings), the footprint table of the API
     operations and its refutation for in-place operations on SliceReader-decoded data;
 (b) source facts re-extracted from /repo on EVERY run (package-level variables and their writers),
     written to coq/c20/C20PkgVars.v and checked by C20_pkg_vars_ok (vm_compute);
 (c) dynamic validation (NOT a proof): race detector + SHA-256 of the shared inputs + result equality
     with the sequential run, on the real library.
"""
import json
import os
import shutil
import common
from common import sh2

LEVEL = "other"
MANIFEST = {
    "technique": "Coq proof of schedule independence from operation footprints + footprint table of the API ops (19 kinds incl. the lazy-mdat path) tied to the code by "
                 "(i) go/types source-fact extractors re-run on every check and fed to vm_compute theorems: package-level variables and "
                 "every function that can change them; a call graph (static, class-hierarchy, func-value-by-signature, callback edges) "
                 "giving for every table operation and every exported function the package-level variables reachable from it; an "
                 "interprocedural aliasing summary (who keeps views of a SliceReader buffer / of a []byte argument, who writes bytes "
                 "reachable from an argument), (ii) a differential check of the table's aliasing/mutation predictions against "
                 "pointer-range and SHA-256 observations on the real objects, (iii) a -race / input-hash / result-equality / "
                 "independent-reference / history harness running random op programs in 2-16 goroutines with distinct keys",
    "level_text": "Proved for all interleavings (coq/c20/C20Theorems.v): if every op of a goroutine writes only its own cells and reads "
                  "only its own cells or shared read-only locations, every schedule is race-free, gives each goroutine its sequential "
                  "result (also at every prefix) and leaves globals and inputs unchanged (C20_schedule_independence, "
                  "C20_prefix_independence); the API footprint table satisfies that hypothesis for Reader-path programs and for "
                  "SliceReader programs that apply in-place operations only to payloads they own (C20_api_footprints, "
                  "C20_api_schedule_independence); C20_inplace_guard_exact: for all arguments/goroutines/aliasing states an in-place "
                  "operation writes its operand's payload location and the guard is exactly ownership of it; C20_sr_inplace_refuted / "
                  "C20_sr_inplace_all_mutators: DecodeFileSR followed by DecryptSegment / EncryptFragment / ConvertSampleToByteStream "
                  "writes the caller's shared input; C20_lazy_path_private (no hypothesis: after every program prefix, for every source, goroutine and "
                  "object ids, DecodeFile with DecModeLazyMdat followed by MdatBox.ReadData is local without any guard, writes no shared "
                  "input, yields bytes the goroutine owns, and every in-place operation of the table on them is allowed, local and "
                  "writes no input) and C20_read_data_in_memory_view (the other branch of ReadData: after DecodeFileSR of a shared input "
                  "the bytes read are a view of that input and every in-place operation on them fails the guard and writes it). "
                  "On facts REGENERATED from the sources on every run: C20_pkg_vars_ok (every writer "
                  "of a package-level variable of bits/avc/hevc/sei/aac/av1/mp4 is an initialiser, init, SetBoxDecoder or "
                  "RemoveBoxDecoder; no sync/atomic/math-rand import); C20_api_reach_ok + C20_api_reach_covers (for every operation of "
                  "the table, with all arguments: every package-level variable reachable through the call graph from the library "
                  "functions behind it lies inside the Global cells the table gives the operation, is only ever changed by the allowed "
                  "writers, and nothing is changed unless the operation is a registry mutator; the only exported functions from which "
                  "any change of a package-level variable is reachable are SetBoxDecoder/RemoveBoxDecoder; every reachable "
                  "package-level value of reference type - map, slice, pointer, chan, interface, struct holding one such as sync.Pool "
                  "- is one of 14 audited ones); C20_alias_facts_ok (the 2 view-returning SliceReader methods, 61 decoders keeping "
                  "views of the input, 28 exported view-returning functions and 20 (function, argument) in-place writers found in the "
                  "sources are exactly inside the audited lists, each audited in-place writer is an in-place op of the table). "
                  "Only explored, not proved: that the extractors' classification is complete (reflection, unsafe, assembly are outside "
                  "it) and that the real functions stay inside the tabulated footprints for cells other than package-level variables "
                  "(correspondence on generated programs; race detector, input hashes, result equality, independent AC-3 reference and "
                  "history oracle on generated concurrent rounds).",
    "level_note": "A data race is a fact about the Go memory model and runtime; no Gallina model exhibits one, so the level is 'other', "
                  "not 'proof'. Trusted: Coq kernel; the hand-written footprint table (coq/c20/C20Model.v part 2; its Global cells are now "
                  "checked against the call graph) and its granularity (one cell per object structure / payload / input buffer); the "
                  "extractors (harness/c20/facts.go use classification, reach.go call graph - an over-approximation except for "
                  "reflection/unsafe/assembly -, alias.go flow- and field-insensitive summaries; closures' captured variables are not "
                  "tracked) and the hand-audited lists they are compared with (nine escapes of the uuid constants, audited_shared, "
                  "coq/c20/C20AliasAudit.v); the Go race detector (it does not see writes made by assembly such as AES-CTR/CBC, which "
                  "is why the input-hash and result oracles exist); files with //go:build verif are not part of the analysed library.",
}

PKGVARS = os.path.join(common.COQ, "c20", "C20PkgVars.v")
REACH = os.path.join(common.COQ, "c20", "C20Reach.v")
ALIAS = os.path.join(common.COQ, "c20", "C20Alias.v")
FACTS_V = os.path.join(common.COQ, "c20", "C20Facts.v")
AUDIT_V = os.path.join(common.COQ, "c20", "C20AliasAudit.v")


def coq_strings(path, name):
    """The string literals of `Definition <name> ... := [ ... ].` (first component of tuples for the mutator list: pairs)."""
    import re
    m = re.search(r"Definition %s\b.*?:=\s*\[(.*?)\n\s*\]\s*\." % name, open(path).read(), re.S)
    return re.findall(r'"([^"]*)"', m.group(1)) if m else []
REGISTRY_VARS = {"mp4.decoders", "mp4.decodersSR"}
REGISTRY_MUTATORS = {"SetBoxDecoder", "RemoveBoxDecoder"}
# mirrors kind_globals_r / global_idx of coq/c20/C20ReachProofs.v (only used to NAME the offender; the theorem decides)
KIND_GLOBALS = {"KDecode": {0, 1, 2, 3}, "KDecodeLazy": {0, 1, 2, 3}, "KDecodeSR": {1, 2, 3}, "KToByteStream": set(), "KToNaluSample": set(),
                "KSetBoxDecoder": {0, 1}, "KRemoveBoxDecoder": {0, 1}}
GLOBAL_IDX = {"mp4.decoders": 0, "mp4.decodersSR": 1, "mp4.sgeDecoders": 2}


def coq_list(path, name):
    """The ("a", "b") pairs of `Definition <name> ... := [ ... ].` in a hand-written .v file (single source for the audit lists)."""
    import re
    m = re.search(r"Definition %s\b.*?:=\s*\[(.*?)\]\s*\." % name, open(path).read(), re.S)
    return set("%s.%s" % (a, b) for a, b in re.findall(r'\(\s*"([^"]*)"\s*,\s*"([^"]*)"\s*\)', m.group(1))) if m else set()
ALLOWED_WRITERS = {"init", "<pkg-initializer>", "SetBoxDecoder", "RemoveBoxDecoder"}
AUDITED_ESCAPES = {("mp4", v, f) for v in ("uuidTfxd", "uuidTfrf", "uuidPiffSenc")
                   for f in ("UUIDBox.Size", "UUIDBox.EncodeSW", "UUIDBox.SubType")}
DENIED_IMPORTS = {"sync", "sync/atomic", "math/rand", "math/rand/v2"}


def build(ctx):
    notes = {}
    plain, err = common.go_build("c20", out_name="c20_norace")
    if plain is None:
        raise common.CheckError("harness does not build against /repo with -tags verif:\n" + err[-2000:])
    race_ok = shutil.which("gcc") is not None or shutil.which("cc") is not None
    exe = None
    if race_ok:
        exe, err = common.go_build("c20", race=True)
        if exe is None:
            notes["race_build_error"] = err[-600:]
    if exe is None:
        race_ok = False
        exe = plain
    notes["race_detector"] = bool(race_ok)
    model, err = common.build_model("c20", "C20Extract.v", "c20_driver.ml")
    if model is None:
        raise common.CheckError(err)
    return plain, exe, race_ok, model, notes


def extract_facts(ctx, plain):
    """Runs the extractor (it rewrites C20PkgVars.v only when the table differs) and re-evaluates the policy on the
    TSV listing so that a violation can name the variable, the function and the source line."""
    rc, so, se = sh2([plain, "facts", "-repo", common.REPO, "-out", PKGVARS, "-reach", REACH, "-alias", ALIAS], timeout=600)
    if rc != 0:
        raise common.CheckError("source-fact extractor failed: " + (se or so)[-1500:])
    nvars, offenders, uses, skipped, stats = 0, [], 0, [], ""
    audited_shared = coq_list(FACTS_V, "audited_shared")
    a_src = set(coq_strings(AUDIT_V, "audited_view_sources"))
    a_keep = set(coq_strings(AUDIT_V, "audited_sr_keepers"))
    a_view = set(coq_strings(AUDIT_V, "audited_byte_views"))
    am = coq_strings(AUDIT_V, "audited_mutators")
    a_mut = set(zip(am[0::2], am[1::2]))
    alias = {"view_sources": 0, "sr_keepers": 0, "byte_views": 0, "mutators": []}
    reach = {"api_ops": 0, "reachable_reads": 0, "exported_writers": [], "shared_reference_typed": [], "stats": ""}
    for l in so.splitlines():
        f = l.split("\t")
        if f[0] == "VAR":
            nvars += 1
        elif f[0] == "USE":
            uses += 1
            pkg, name, fn, kind, pos = f[1:6]
            if kind == "escape":
                ok = fn in ALLOWED_WRITERS or (pkg, name, fn) in AUDITED_ESCAPES
            else:
                ok = fn in ALLOWED_WRITERS
            if not ok:
                offenders.append({"variable": "%s.%s" % (pkg, name), "function": fn, "use": kind, "at": pos})
        elif f[0] == "IMPORTS":
            for ip in f[2].split(","):
                if ip in DENIED_IMPORTS:
                    offenders.append({"variable": "(import)", "function": "package " + f[1], "use": "imports " + ip, "at": f[1]})
        elif f[0] == "SKIPPED":
            skipped.append(f[1])
        elif f[0] == "STATS":
            stats = " ".join(f[1:])
        elif f[0] == "WROTE":
            ctx.log("source facts changed: %s rewritten" % os.path.relpath(f[1], common.ROOT))
        elif f[0] == "RSTATS":
            reach["stats"] = " ".join(f[1:])
        elif f[0] == "RMISSING":
            offenders.append({"variable": "(api)", "function": f[1], "use": "function named by the footprint table no longer exists", "at": f[1]})
        elif f[0] == "REACH":
            kind, fns, rd, wr = f[1], f[2], [x for x in f[3].split(",") if x], [x for x in f[4].split(",") if x]
            reach["api_ops"] += 1
            reach["reachable_reads"] += len(rd)
            allowed = KIND_GLOBALS.get(kind, {3})
            for v in rd:
                if GLOBAL_IDX.get(v, 3) not in allowed:
                    offenders.append({"variable": v, "function": fns, "use": "reachable read not covered by the footprint table entry %s" % kind, "at": fns})
            for v in wr:
                if not (kind in ("KSetBoxDecoder", "KRemoveBoxDecoder") and v in REGISTRY_VARS):
                    offenders.append({"variable": v, "function": fns, "use": "reachable change from table operation %s" % kind, "at": fns})
        elif f[0] == "VIEWSRC":
            alias["view_sources"] += 1
            if f[1] not in a_src:
                offenders.append({"variable": "(aliasing)", "function": f[1], "use": "NEW SliceReader method returning a view of the reader's buffer", "at": f[1]})
        elif f[0] == "SRKEEP":
            alias["sr_keepers"] += 1
            if f[1] not in a_keep:
                offenders.append({"variable": "(aliasing) " + (f[2] or "result"), "function": f[1],
                                  "use": "NEW decoder keeping sub-slices of the SliceReader's buffer (fields: %s); not in audited_sr_keepers" % (f[2] or "-"), "at": f[1]})
        elif f[0] == "BYTEVIEW":
            alias["byte_views"] += 1
            if f[1] not in a_view:
                offenders.append({"variable": "(aliasing)", "function": f[1], "use": "NEW exported function keeping a view of a []byte argument; not in audited_byte_views", "at": f[1]})
        elif f[0] == "MUTATOR":
            alias["mutators"].append("%s(%s)" % (f[1], f[2]))
            if (f[1], f[2]) not in a_mut:
                offenders.append({"variable": "(aliasing) argument " + f[2], "function": f[1],
                                  "use": "NEW exported function writing in place into bytes reachable from its argument %s (%s); not in audited_mutators" % (f[2], f[3]), "at": f[1]})
        elif f[0] == "XWRITER":
            pkg, fn, vs, kind, path = f[1:6]
            reach["exported_writers"].append("%s.%s" % (pkg, fn))
            if not (pkg == "mp4" and fn in REGISTRY_MUTATORS and set(vs.split(",")) <= REGISTRY_VARS):
                offenders.append({"variable": vs.split(",")[0], "function": "%s.%s" % (pkg, fn),
                                  "use": "%s reachable from the exported function via %s" % (kind, path), "at": path.split(" -> ")[-1]})
        elif f[0] == "SHARED":
            pkg, name, tk, us, wit, nf = f[1:7]
            reach["shared_reference_typed"].append("%s.%s:%s:%s" % (pkg, name, tk, us))
            if "%s.%s" % (pkg, name) not in audited_shared:
                offenders.append({"variable": "%s.%s" % (pkg, name), "function": wit,
                                  "use": "NEW package-level variable of reference type (%s; uses %s) reachable from %s exported function(s); not in audited_shared"
                                         % (tk, us, nf), "at": wit})
    ctx.notes["reach_facts"] = reach
    ctx.notes["alias_facts"] = alias
    ctx.notes["source_facts"] = {"package_level_vars": nvars, "non_read_uses": uses, "offending_uses": len(offenders),
                                 "stats": stats, "files_skipped_by_build_tag": skipped}
    return offenders


def run(ctx):
    ctx.cov["trusted_base"] = common.TRUSTED_BASE_COMMON + [
        "footprint table: coq/c20/C20Model.v part 2 is a hand-written table (one cell per object structure, per object payload, "
        "per shared input, per group of package-level variables); its aliasing and input-mutation predictions are compared with "
        "pointer-range / SHA-256 observations on generated programs only",
        "source facts: harness/c20/facts.go (go/parser + go/types, standard library only) classifies every use of every "
        "package-level variable; nine escapes (uuid constants passed to UUID.Equal) are audited by hand in coq/c20/C20Facts.v",
        "call graph: harness/c20/reach.go (static calls, interface calls by class hierarchy over the library's named types, calls through "
        "func values by identical signature, function values, callbacks from the standard library by method name); reflection, unsafe and "
        "assembly are not followed; audited_shared in coq/c20/C20Facts.v lists the 14 reachable package-level values of reference type",
        "aliasing facts: harness/c20/alias.go (flow- and field-insensitive, closures' captured variables not tracked) compared with the "
        "hand-audited lists of coq/c20/C20AliasAudit.v (61 SliceReader keepers, 28 views, 20 writers of argument bytes with their class)",
        "independent AC-3 / E-AC-3 channel reference written from ETSI TS 102 366 tables in harness/c20/zoo.go",
        "Go race detector (ThreadSanitizer runtime), which does not instrument assembly; SHA-256 and digest comparison in the harness",
        "the Go memory model itself: 'footprint-disjoint implies race-free' is the standard DRF reading, not derived from the language spec",
    ]
    ctx.assumptions += [
        "SetBoxDecoder / RemoveBoxDecoder are not called while other goroutines use the library (stated in the property)",
        "goroutines share only input byte slices and do not write them themselves",
        "dynamic validation is not a proof: rounds are generated, schedules are whatever the Go scheduler produced under "
        "random start skew and Gosched injection",
    ]
    # 1 harness (plain + race) from the current /repo tree, extracted footprint table
    plain, exe, race_ok, model, bnotes = build(ctx)
    ctx.notes.update(bnotes)
    if not race_ok:
        ctx.log("NOTE: -race build not available; running with the input-hash and result-equality oracles only")
    # 2 source facts (regenerated on every run) and proofs over them
    offenders = extract_facts(ctx, plain)
    pr = ctx.proofs("c20", "C20Theorems.v")
    # 3 correspondence: footprint table vs observed aliasing / input mutation (sequential programs)
    n = ctx.n(3000, 40000)
    rc, cases, e = sh2([plain, "corr", "-repo", common.REPO, "-seed", str(ctx.seed), "-n", str(n)], timeout=3000)
    if rc != 0:
        raise common.CheckError("harness corr failed: " + e[-1000:])
    lines = cases.splitlines()
    res = common.run_model(model, cases)
    mism = [l for l in res if not l.startswith("OK ")]
    effective = sum(1 for l in res if l.startswith("OK ") and not l.endswith("eff=0"))
    over = sum(1 for l in res if l.startswith("OK ") and " over=0 " not in l)
    import re
    hyp = sum(1 for l in res if l.startswith("OK ") and " hyp=1 " in l)
    lazy_reads = sum(int(m.group(1)) for m in (re.search(r" lazy=(\d+) ", l) for l in res if l.startswith("OK ")) if m)
    lazy_progs = sum(1 for l in lines if "\tL:" in l or ";L:" in l)
    distinct = len(set(l.split("\t", 3)[3] for l in lines if l.count("\t") >= 3))
    nops = sum(l.split("\t")[3].count(";") + 1 for l in lines if l.count("\t") >= 3)
    ctx.cov["evaluations"] += nops
    ctx.cov["distinct_nontrivial"] += distinct
    ctx.notes["correspondence"] = {"programs": len(lines), "ops": nops, "mismatches": len(mism), "distinct_programs": distinct,
                                   "programs_in_which_a_shared_input_was_observed_to_change": effective,
                                   "programs_with_a_lazy_mdat_decode": lazy_progs,
                                   "programs_where_the_table_over_approximates_aliasing_of_a_payload_free_input": over}
    ctx.cov["theorem_hypotheses_evaluated"] = {
        "C20_api_footprints / C20_api_schedule_independence (reader_only p || prog_safe t [] p, evaluated by the extracted model on "
        "every generated sequential program; on those the observed set of changed inputs must be empty)": "%d/%d" % (hyp, len(lines)),
        "C20_lazy_path_private (ReadData ops that ran ok on a lazily decoded object; observed aliasing must be 'own')": lazy_reads,
    }
    ctx.cov["samples"] += [l[:300] for l in lines[5:8]]
    ctx.log("correspondence: %d sequential programs (%d ops), %d mismatches, %d programs mutate a shared input"
            % (len(lines), nops, len(mism), effective))
    # 4 search: concurrent rounds on the real library
    nr = ctx.n(220, 2400)
    nk = ctx.n(16, 60)
    workers = max(2, min(8, common.NCPU // 2))
    cmd = [exe, "search", "-repo", common.REPO, "-seed", str(ctx.seed), "-n", str(nr), "-known", str(nk), "-workers", str(workers)]
    if not race_ok:
        cmd.append("-norace")
    rc, so, e = sh2(cmd, timeout=6000)
    if rc != 0:
        raise common.CheckError("harness search failed: " + e[-1500:])
    fails, rlines, stats = [], [], {}
    for l in so.splitlines():
        f = l.split("\t")
        if f[0] == "FAIL" and len(f) >= 5:
            fails.append(f)
        elif f[0] == "EVALS":
            ctx.cov["evaluations"] += int(f[1])
            ctx.notes["search_op_executions"] = int(f[1])
        elif f[0] == "STAT":
            stats[f[1]] = int(f[2])
        elif f[0] == "R":
            rlines.append(l)
    ctx.notes["search"] = stats
    goroutines = sum(l.split("\t")[3].count("|") + 1 for l in rlines)
    ctx.notes["search"]["goroutine_programs"] = goroutines
    ctx.cov["distinct_nontrivial"] += len(set(l.split("\t", 3)[3] for l in rlines))
    ctx.cov["samples"] += [l[:300] for l in rlines[:2]] + [l[:300] for l in rlines[-1:]]
    # the rounds must be what the table says they are (independent rounds safe, recorded scenario unsafe)
    rres = common.run_model(model, "\n".join(rlines) + "\n") if rlines else []
    rmism = [l for l in rres if not l.startswith("OK ")]
    mism += rmism
    unknown = 0
    off_txt = ""
    if offenders:
        off_txt = " [source facts: %s %s in %s at %s]" % (offenders[0]["variable"], offenders[0]["use"],
                                                        offenders[0]["function"], offenders[0]["at"])
    for f in fails:
        if ctx.failing_input(f[1], f[2], f[3], f[4][:220] + off_txt,
                             extra={"replay_cmd": "./check C20 --replay <this file>", "report": f[4], "offending_source_facts": offenders[:20]}):
            unknown += 1
    ctx.log("search: %d rounds, %d goroutine programs, %d race reports, %d FAIL lines (%d outside the recorded finding), "
            "recorded scenario reproduced in %d/%d rounds"
            % (stats.get("rounds", 0), goroutines, stats.get("race_reports", 0), len(fails), unknown,
               stats.get("known_rounds_reproduced", 0), stats.get("known_rounds", 0)))
    # 5 verdict
    if offenders:
        o = offenders[0]
        thm = "C20_alias_facts_ok" if o["variable"].startswith("(aliasing)") else \
              "C20_api_reach_ok" if ("reachable" in o["use"] or "NEW package-level" in o["use"] or o["variable"] == "(api)") else "C20_pkg_vars_ok"
        what = "aliasing facts" if thm == "C20_alias_facts_ok" else "package-level state"
        desc = ("%s: %s in %s (%s at %s); %d offending fact(s); %s does not hold"
                % (what, o["variable"], o["function"], o["use"], o["at"], len(offenders), thm))
        if unknown:
            ctx.log(desc + " -- exhibited dynamically, see the failing input(s)")
            ctx.notes["source_facts"]["offenders"] = offenders[:20]
        else:
            ctx.violation({"kind": "package-level-writer", "offenders": offenders[:50],
                           "theorem": thm, "facts_files": ["coq/c20/C20PkgVars.v", "coq/c20/C20Reach.v", "coq/c20/C20Alias.v"],
                           "searched": "%d concurrent rounds, no race / result difference / input mutation exhibited" % stats.get("rounds", 0)},
                          desc, no_input=True)
    if mism and not unknown:
        by_id = {}
        for l in lines + rlines:
            p = l.split("\t")
            if len(p) > 1:
                by_id[p[0] + p[1]] = l
        first = mism[0].split(" ")
        kind = "R" if mism[0] in rmism else "S"
        ctx.violation({"kind": "correspondence-mismatch",
                       "correspondence": "footprint table (C20Model.api_fp / pl) vs aliasing + input mutation observed on the real objects (harness c20 corr)",
                       "mismatches": len(mism), "first_case": by_id.get(kind + first[1], "")[:2000], "model_says": mism[0][:2000]},
                      "footprint table and implementation disagree on %d cases: %s" % (len(mism), mism[0][:160]), no_input=True)
    if pr["failed"] and offenders:
        # the facts explain the broken build; make sure nothing else is broken
        ok, o = common.coq_make(["c20/C20ApiProofs.vo"], "c20")
        if not ok:
            ctx.proof_violation_if_broken(pr, "c20 search: %d rounds" % stats.get("rounds", 0))
    else:
        ctx.proof_violation_if_broken(pr, "c20 search: %d rounds, %d unknown failing inputs" % (stats.get("rounds", 0), unknown))
    if stats.get("known_rounds", 0) and not stats.get("known_rounds_reproduced", 0):
        ctx.notes["recorded_finding_not_reproduced"] = True
        ctx.log("NOTE: the recorded finding (in-place op on SliceReader-decoded shared input) was not reproduced in this run")
    ctx.cov["rule"] = ("corr: %d generated sequential op programs (decode via Reader / SliceReader of ~50 shared inputs (clear and cenc/cbcs-protected init, media and init+media buffers for avc/hevc/aac; 8/16-byte per-sample IVs, 8/16-byte constant IVs, seig sample groups) or of own buffers, Info, "
                       "Encode, EncodeSW, GetFullSamples, lazy decode (DecModeLazyMdat) + MdatBox.ReadData/CopyData through an own ReadSeeker over the shared bytes (both branches of ReadData: lazy -> fresh buffer, in memory -> view), InitProtect+EncryptFragment cenc/cbcs, DecryptInit+DecryptSegment (init and media in one or in separate objects, any decode path for either; DecryptInfo own or shared between goroutines), NAL conversions, AddCompatibleBrands/AddSampleData appends; inputs also 38 dac3/dec3/ac-3/ec-3 configurations and a greedy box-type cover of the repository's sample files), "
                       "after every op: aliasing of the target object by pointer range over every reachable []byte, byte comparison of every shared input with its pristine copy; "
                       "search: %d independent rounds of 2-16 goroutines (random start skew, Gosched injection) + %d rounds of the recorded "
                       "scenario; every 4th round: each goroutine decodes and inspects (Info, ChannelInfo, Encode) DIFFERENT AC-3/E-AC-3 boxes or zoo files; goroutine t uses key t%%3 and an 8- or 16-byte IV ((t/2)%%2); every key / IV / KID argument is a sub-slice tab[a:b] (cap > len) of one key table per world whose neighbouring ranges belong to the other goroutines (64 guard bytes at the end), every shared input has 32 guard bytes of spare capacity behind it: the library must not write behind len(arg) or into the table (table / guard compared after every corr op, after every run-alone program and after every round); oracles: race detector (%s), per-op and final digests vs the sequential run on private copies, input hashes, ChannelInfo vs tables written from the standard, first-seen result of every program prefix (history); "
                       "distinct = distinct program texts" % (n, nr, nk, "on" if race_ok else "NOT AVAILABLE"))


def replay(ctx, path):
    r = json.load(open(path))
    print(json.dumps(r, indent=1)[:6000])
    if r.get("kind") != "failing-input":
        return 0
    plain, exe, race_ok, model, _ = build(ctx)
    rc, so, e = sh2([exe, "replay", "-repo", common.REPO, "-w", r["witness"]], timeout=1200)
    print(so[-6000:])
    if e.strip():
        print(e[-2000:])
    print("replay: %s" % ("failure reproduced" if rc == 1 else "not reproduced in 25 runs" if rc == 0 else "error"))
    return rc
