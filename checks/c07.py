"""C07 — encrypted output is well-formed Common Encryption and matches a reference cipher."""
import common
from common import sh2

LEVEL = "proof"
MANIFEST = {
    "technique": "Coq proof over a hand-written Gallina model of mp4/crypto.go (protect ranges incl. the 64-bit bounds check, getAVC/HEVCPSMaps + prot funcs, IV increment, "
                 "CTR/CBC-pattern sample crypt, EncryptFragment loop and EncryptFragment over the bytes of a fragment, saiz/senc/saio) "
                 "composed with the C15 Gallina models of avc/hevc.ParseSliceHeader on the C13 EBSP reader model, the C06 byte model of "
                 "senc/saiz/saio and C05's SetTrunDataOffsets (read-only imports) + differential correspondence (extracted OCaml, "
                 "instantiated with an AES-128 written in Gallina from FIPS-197, vs the Go code incl. the encrypted bytes and the encoded "
                 "boxes) + failing-input search on real EncryptFragment output",
    "level_text": "Theorems (coq/c07/C07Theorems.v, 36, all closed), for all NALU layouts, sizes, keys, IVs and EVERY block cipher E: for EVERY "
                  "BYTE STRING Get(AVC|HEVC)ProtectRanges accept (no hypothesis that it is a concatenation of NAL units; any scheme; both "
                  "codecs over the C15 slice-header parsers) the sub-sample entries add up to the size of the sample, clear counts fit 16 "
                  "bits and there is at least one entry (C07_ranges_cover_any_bytes: the prot_in_sample / covered-r hypotheses of the "
                  "fragment theorems for the functions EncryptFragment really calls: C07_fragment_video_closed / "
                  "C07_no_counter_reuse_closed state them with NO hypothesis on the protection function and for any sample bytes), "
                  "and the loop ends within |sample| iterations "
                  "(C07_ranges_terminate); both false of the text before /repo fix 2ef93b3 (uint32 sum pos+naluLength wrapped: the loop "
                  "never ended / panicked / returned entries adding up to 2^32+size; C07_wrap_pinned_refuted, finding C07-F6); the "
                  "current text returns what the old text returned or refuses, and equals it on every concatenation of NAL units below "
                  "2^32 bytes (C07_ranges_current_text), so the theorems below stated for protect_ranges_r hold of it "
                  "(C07_partition_shape_current restates partition + shape); the "
                  "sub-sample entries partition the sample with every clear count < 2^16 for EVERY non-empty list of NAL units of any "
                  "sizes, 0 (bare length field), 1, 2 included (C07_partition / C07_cenc_shape; text since /repo fix 401deba, the text "
                  "before it refuted: C07_partition_pinned_refuted); every accepted video sample has at least one entry "
                  "(C07_subsamples_nonempty) so no fragment mixes samples with and without entries and the auxiliary information "
                  "describes the written senc entries for EVERY video fragment (C07_aux_traf_video; the mixed fragment of the old text "
                  "refuted: C07_aux_mixed_pinned_refuted); the per-byte clear/protected classification equals the one the property "
                  "prescribes (cenc 96..111-byte clear lead and whole 16-byte blocks; cbcs for BOTH codecs with the slice-header size "
                  "computed by the C15 model of avc/hevc.ParseSliceHeader: C07_cbcs_shape_avc / _hevc - every video NAL unit whose header "
                  "parses is protected exactly from byte sh_size to its end, a final empty NAL unit allowed; NO hypothesis on the size any "
                  "more: C07_slice_header_size_bounded proves sh.Size <= |NAL unit| for every byte string over the parser models; a header "
                  "that does not parse makes the sample refused: C07_cbcs_unparsable_refused); incrementIV is big-endian addition modulo "
                  "2^(8|iv|); no counter block is reused inside a fragment without a bound hypothesis; 8-byte IV layout; CryptSampleCenc / "
                  "cryptSampleCbcs equal the reference CTR keystream / CBC pattern; over the BYTES of a fragment EncryptFragment keeps "
                  "every other box, appends exactly saiz, saio, senc and changes the mdat at most at protected positions "
                  "(C07_fragment_only_protected); the moof grows by exactly |saiz|+|saio|+|senc|, so does the data offset Fragment.Encode "
                  "writes, and every sample of the encrypted file read through the grown offset is the encrypted sample, clear outside its "
                  "protected ranges (C07_offsets_after_encrypt; on C05's fragment structure for every trun: C07_offsets_grow_struct); "
                  "saio.offset[0] bytes into the written moof stands the first senc entry and the saiz sizes cut exactly the entries "
                  "(C07_aux_traf, entries < 256 bytes; beyond: refuted, known finding C07-F1). Explored, not proved: that the Go code "
                  "behaves like the model (correspondence on generated inputs incl. empty NAL units, 4-byte samples, truncated / unknown-PPS "
                  "slices, mixed fragments, encoded saiz/saio/senc boxes) and the property predicates evaluated on real EncryptFragment "
                  "output after an encode/decode cycle (incl. reading every sample from the raw file through trun.data_offset). "
                  "Partial: an empty NAL unit IN FRONT of another NAL unit is inside the partition/shape theorems for cenc only; for cbcs "
                  "the code hands it to the slice header parser: proved refused for AVC (C07_cbcs_empty_inside_refused_avc), HEVC by "
                  "correspondence only (what hevc.ParseSliceHeader makes of an empty NAL unit depends on the PPS); moof/traf size fields "
                  "are C05/C02's.",
    "level_note": "Trusted: Coq kernel, extraction, OCaml/Go glue. The AVC and HEVC slice-header sizes are computed by the C15 Gallina parsers "
                  "(coq/c15/C15Model.v, C15HevcModel.v, read-only imports) from the avcC / hvcC parameter sets in the Q/H/G/T cases; the R/F "
                  "cases still feed observed sizes. Modelled, not verified: crypto/aes, cipher.NewCTR / NewCBCEncrypter "
                  "(CTR = 128-bit big-endian counter, byte-wise keystream continuation), GetFullSamples, the box encoders of the boxes "
                  "EncryptFragment does not touch (taken as bytes), the size fields of moof/traf (recomputed by Fragment.Encode; C05/C06); "
                  "trun.data_offset is modelled as moof size + 8 (C05 set_offsets, composed in C07_offsets_grow_struct). "
                  "C07Model.protect_ranges / senc_add keep the text before the fixes 401deba / ecf1460 and protect_ranges_r the text before "
                  "2ef93b3 because coq/c06 imports C07Model; the driver runs C07WrapModel.protect_ranges_w (current text), related to "
                  "protect_ranges_r by C07_ranges_current_text; on the uniform fragments EncryptFragment can now only "
                  "build, senc_add and C06's senc_add_r agree (C06_senc_repaired_agrees). "
                  "The Gallina AES is only the independent comparison cipher (validated against the FIPS-197 vectors inside Coq).",
}


def build(ctx):
    exe, err = common.go_build("c07")
    if exe is None:
        raise common.CheckError("harness does not build against /repo with -tags verif:\n" + err[-2000:])
    model, err = common.build_model("c07", "C07Extract.v", "c07_driver.ml")
    if model is None:
        raise common.CheckError(err)
    return exe, model


def run(ctx):
    ctx.cov["trusted_base"] = common.TRUSTED_BASE_COMMON + [
        "model: coq/c07/C07Model.v is a hand transcription of mp4/crypto.go (GetAVC/HEVCProtectRanges, AppendProtectRange, "
        "CryptSampleCenc, cryptSampleCbcs, cbcsCrypt, incrementIV, EncryptFragment loop + saio offset), SaizBox.AddSampleInfo, "
        "SencBox.AddSample/EncodeSWNoHdr; C07CodecModel.v: getAVCPSMaps/getHEVCPSMaps/get*ProtFunc over the C15 parser models; "
        "C07TrafModel.v: EncryptFragment over the bytes of a fragment with the C06 encoders of senc/saiz/saio; C07WrapModel.v: "
        "Get(AVC|HEVC)ProtectRanges as they read since /repo 2ef93b3 (the text the driver runs)",
        "imported models (read-only): coq/c15/C15Model.v, C15HevcModel.v (parameter sets, slice headers), coq/c13/C13Model.v (EBSP reader), "
        "coq/c06/C06SencModel.v, coq/c05/C05FragModel.v + C05OffProofs.v (SetTrunDataOffsets)",
        "spec: coq/c07/C07Spec.v (per-byte mask of the property, reference CTR keystream, reference walk), written by hand",
        "coq/c07/C07Aes.v: AES-128 from FIPS-197, checked against the FIPS-197 / SP 800-38A vectors by vm_compute; used only as the "
        "independent cipher of the correspondence",
        "crypto/aes, crypto/cipher (CTR, CBC) of the Go standard library: modelled from their documentation",
    ]
    ctx.assumptions += ["samples are concatenations of 4-byte-length-prefixed NAL units (empty ones included), total size < 2^32",
                        "the block cipher maps 16-byte blocks to 16-byte blocks (nothing else is assumed about it)",
                        "one traf / one trun per fragment (EncryptFragment rejects anything else)",
                        "sample sizes and the number of samples of a fragment are below 2^32 (trun fields)",
                        "mp4ff-encrypt restarts from the same IV in every fragment: counter blocks repeat ACROSS the fragments of a "
                        "file encrypted with one key (the property speaks about one fragment; C07_cross_fragment_restart)"]
    exe, model = build(ctx)
    pr = ctx.proofs("c07", "C07Theorems.v")
    # correspondence
    n = ctx.n(400, 6000)
    big = ctx.n(2, 40)
    rc, cases, e = sh2([exe, "corr", "-seed", str(ctx.seed), "-n", str(n), "-big", str(big)], timeout=3000)
    if rc != 0:
        raise common.CheckError("harness corr failed: " + e[-1000:])
    lines = cases.splitlines()
    res = common.run_model(model, cases, timeout=3000)
    mism = [l for l in res if not l.startswith("OK ")]
    ctx.notes["model_out_of_fuel_skipped"] = sum(1 for l in res if l.endswith("skipped-outoffuel"))
    if len(res) != len(lines):
        raise common.CheckError("model driver answered %d of %d cases" % (len(res), len(lines)))
    distinct = len(set(l.split("\t", 2)[2] for l in lines if l.count("\t") >= 2))
    kinds = {}
    classes = {}
    for l in lines:
        f = l.split("\t")
        kinds[f[0]] = kinds.get(f[0], 0) + 1
        oc = f[-1].split(":")[0].split("|")[0][:8]
        c = f[0] + ":" + (oc if oc in ("ok", "err", "panic") else "value")
        classes[c] = classes.get(c, 0) + 1
    ctx.cov["evaluations"] += len(lines)
    ctx.cov["distinct_nontrivial"] += distinct
    # the model driver evaluates the conclusion of C07_ranges_cover_any_bytes on every R/Q/H sample the model accepts (a
    # violated conclusion is a MISMATCH line); accepted = the code accepted it too (no mismatch) or the case is reported
    acc = [l for l in lines if l[:2] in ("R\t", "Q\t", "H\t") and l.rsplit("\t", 1)[-1].startswith("ok:")]
    ctx.notes["cover_theorem_applied"] = {
        "theorem": "C07_ranges_cover_any_bytes (entries add up to the sample size, clear counts < 2^16, >= 1 entry)",
        "accepted_samples_checked": len(acc), "of_range_cases": sum(kinds.get(k, 0) for k in ("R", "Q", "H")),
        "from_the_malformed_and_wrap_streams_R": sum(1 for l in acc if l.startswith("R\t"))}
    ctx.notes["correspondence"] = {
        "cases": len(lines), "mismatches": len(mism), "distinct_cases": distinct, "kinds": kinds, "outcome_classes": classes,
        "bytes_of_cases": len(cases),
        "distribution": "A AppendProtectRange at the 65535/65536 boundaries; I/J incrementIV(InPlace) with 0/1/4/8/16-byte IVs, ff-carries, "
                        "steps up to 2^62; R protect ranges AVC+HEVC cenc/cbcs on NALU size mixes around 1,15-17,91-141,255-257, 65531-131071 "
                        "(+ a malformed stream: truncations, trailing bytes, bad/empty length fields; + length fields whose uint32 sum with the "
                        "position wraps: non-video / video NAL unit ending at any position of the sample, wrap back INTO a protected NAL unit, "
                        "exact-end controls, 0xffffffff / 0x80000000 / 2^32-pos-4: calls under a 3 s budget, outcome class hang); "
                        "C CryptSampleCenc on arbitrary maps incl. maps beyond the sample, bad key/IV sizes; B/K cbcs both directions, "
                        "patterns 1:9, 0:0 and others; F EncryptFragment (AVC/HEVC/audio, cenc/cbcs, 8/16-byte IVs, extra boxes): senc state, "
                        "IVs, sub-sample maps, saiz, encoded senc entries, saio offset, encrypted bytes; Q/H protect ranges where the model "
                        "builds nothing from observations: AVC/HEVC slice header sizes from the C15 Gallina parsers (real slices cut/extended, "
                        "mutated headers, synthetic HEVC access units from the harness' own bit writer: dependent and non-first slice segments, "
                        "dims off the CTB grid, RPS in slice/SPS, long-term pics, list modification, entry points, header extension, emulation "
                        "prevention in the header; AUD/SEI/filler/EOS/EOB placements, trailing non-video NALUs, zero-length NALUs, 1-3-byte "
                        "NALUs, slices shorter than their header / cut inside it in front of further NAL units, slices naming an unknown PPS id, "
                        "4-byte samples, several trailing empty NALUs, in-band parameter sets, samples without video NALU); G EncryptFragment "
                        "with model-built parameter-set maps; T EncryptFragment over the bytes of the fragment (encoded traf children incl. the "
                        "written saiz/saio/senc; one fragment in three mixes normal samples with a 4-byte sample / a trailing empty NAL unit)",
    }
    ctx.cov["samples"] += [l[:300] for l in lines[60:63]] + [l[:300] for l in lines[-2:]]
    ctx.log("correspondence: %d cases, %d mismatches" % (len(lines), len(mism)))
    # search
    ns = ctx.n(600, 20000)
    rc, so, e = sh2([exe, "search", "-seed", str(ctx.seed), "-n", str(ns)], timeout=3000)
    if rc != 0:
        raise common.CheckError("harness search failed: " + e[-1000:])
    fails = []
    for l in so.splitlines():
        f = l.split("\t")
        if f[0] == "FAIL" and len(f) >= 5:
            fails.append(f)
        elif f[0] == "EVALS":
            ctx.cov["evaluations"] += int(f[1])
            ctx.notes["search_evaluations"] = int(f[1])
        elif f[0] == "NOTE" and len(f) >= 3:
            ctx.notes.setdefault("search_notes", {})[f[1]] = f[2]
    ctx.notes["hygiene_oracles"] = (
        "harness/c07/hygiene.go: key / iv / kid reach InitProtect and EncryptFragment as private copies with 32 guard bytes behind them "
        "(EncryptFragment's in one buffer refilled in place for every call), must come back unchanged and are overwritten before any "
        "observable is read (aliasing of arguments; the tenc KID / constant IV of the DECODED init are compared with the supplied ones: "
        "checkTenc); the mdat payload stands between guard bytes during EncryptFragment; search also calls CryptSampleCenc / "
        "EncryptSampleCbcs / DecryptSampleCbcs directly on an exact copy and on a guarded sub-slice (same result, guards intact, vs "
        "reference AES-CTR / cbcs round trip) for maps that fit the sample and maps that run over its end (writes beyond len / "
        "dependence on cap). Not demanded: PsshBox pointers, the Fragment / InitSegment (documented as modified).")
    unknown = 0
    for f in fails:
        if ctx.failing_input(f[1], f[2], f[3], f[4]):
            unknown += 1
    ctx.log("search: %d failing inputs (%d signatures, %d not known findings)" % (len(fails), len(set((f[1], f[2]) for f in fails)), unknown))
    if mism and not unknown:   # failing inputs that are KNOWN findings do not explain a model/implementation mismatch
        by_id = {}
        for l in lines:
            p = l.split("\t")
            if len(p) > 1:
                by_id[p[1]] = l
        first = mism[0].split(" ")
        ctx.violation({"kind": "correspondence-mismatch", "correspondence": "C07Model vs mp4/crypto.go (harness c07 corr)",
                       "mismatches": len(mism), "first_case": by_id.get(first[1], "")[:3000], "model_says": mism[0][:2000]},
                      "model/implementation disagree on %d cases" % len(mism), no_input=True)
    ctx.proof_violation_if_broken(pr, "c07 search: %d fragments, no failing input" % ctx.notes.get("search_evaluations", 0))
    ctx.cov["rule"] = ("corr: %d case lines (kinds %s); distinct = distinct case lines; search: %d random fragments through InitProtect/"
                       "EncryptFragment/encode/decode with the clauses of the property evaluated in the harness (partition, per-byte shape, "
                       "saiz/saio vs the encoded senc, IV sequence, Go crypto/aes driven by the harness' own CTR / CBC-pattern loops, "
                       "trun/tfdt unchanged, box-by-box diff of the encoded clear and encrypted files (same boxes + saiz/saio/senc, trun data offset shifted by the added bytes, mdat equal outside the senc maps), every sample read from the RAW encoded file at moof start + trun.data_offset + sizes before = reference cipher output; 1/5 of the video fragments carry empty NAL units (trailing / inside for cenc / the 4-byte sample), 1/12 a clear run of exactly 65534..65537 / 131070..131072 bytes; 1/3 of the video fragments use a synthetic HEVC configuration whose slice header sizes are known from the harness' bit writer; unusual-but-valid NALU placements in every second video fragment; 0-2 other encrypted fragments in front (non-zero moof start), InitProtectData via ExtractInitProtectData on the re-decoded init in 1/4 of the runs, AES-192/256 keys in 1/9; n/10+20 samples with a NAL unit length field near 2^32 straight through Get(AVC|HEVC)ProtectRanges under a 3 s budget (refused or partitioned; never hang / panic); 2/5 of the runs without OptimizeTrun are read against an init whose trex has non-trivial defaults (built before InitProtect; the same init is protected, encoded, decoded and used by every oracle step) and signal sample size / duration / flags per sample in trun, as tfhd defaults or ONLY through that trex (constant-size samples, first-sample-flags), with decoy trex values where the fragment signals the field itself: counts in notes.search_notes.fragments_with_*)" % (len(lines), kinds, ns))


def replay(ctx, path):
    import json
    r = json.load(open(path))
    print(json.dumps(r, indent=1))
    return 0
