"""C18 — audio configuration codecs are exact over their whole domain."""
import json
import os
from concurrent.futures import ThreadPoolExecutor
import common
from common import sh2

LEVEL = "proof"
MANIFEST = {
    "technique": "Coq proof over a hand-written Gallina model of aac.AudioSpecificConfig / aac.ADTSHeader codecs (bit lists) "
                 "+ complete enumeration of the finite domain on both sides + differential correspondence (extracted OCaml vs Go)",
    "level_text": "Theorems (coq/c18/C18Theorems.v, 45, all closed under the global context): DecodeAudioSpecificConfig(Encode(c)) = c for every canonical configuration "
                  "(object types 2/5/29, 16 channel configurations, every frequency 0..2^24-1 incl. the 13 table values; general "
                  "bit-level proof) and again by complete enumeration of the table part inside Coq; the two frequency tables are "
                  "mutually inverse; DecodeADTSHeader(Encode(h)) = (h, 0) for all profiles 1..4, 16 frequency indices, 8 channel "
                  "configurations, payload lengths 0..8184, fullness 0..2047 (general proof) and with <= 187 junk bytes without an "
                  "earlier sync word the reported offset is the junk length (induction on the junk, incl. ff runs and the sync2 "
                  "re-use path); SetAACDescriptor -> encoded mp4a entry -> DecodeBox -> esds -> DecSpecificInfo -> "
                  "DecodeAudioSpecificConfig returns the configuration built (entry round trip general in the DecConfig bytes); "
                  "two uint16 accessors/fields are exact only below 65536 and refuted above (known findings F1, F2); the bit-list "
                  "reading of bits.Reader/bits.Writer is tied by proof to the Go-level machines of C13Model (same decoders instantiated "
                  "with read_plain agree on every byte string; write_plain/flush_plain emit the model's bytes). HISTORIES (unbounded, "
                  "by induction over the list of operations): for every interleaving of SetAACDescriptor builds on any tracks of any init "
                  "segments, entry encodes and init-segment encodes, the i-th entry is the one its own build made, decodes (both decoder "
                  "paths) to the configuration of that build, is never changed by later operations, and every encode observed in the middle "
                  "shows its final bytes (C18_entries_independent, C18_history_entry_stable, C18_history_encode_obs); k configurations / "
                  "k junk+ADTS headers written back to back into one writer and read back by k calls on one reader come back each as "
                  "itself, each call consuming exactly its own bytes (C18_asc_stream_independent, C18_adts_stream_independent). In the "
                  "model an entry is a pure value, so these are immediate; whether the Go objects behave like values (an entry keeps a "
                  "[]byte that CreateEsdsBox does not copy) is EXPLORED: correspondence over generated histories (k = 1..4 builds over "
                  "1..3 init segments, all ordered pairs of the 39 table configurations in the thorough tier) and a history search that "
                  "reads every entry four ways after the whole history and compares every encode of an entry over time. ESDS DESCRIPTOR LAYER "
                  "(mp4/descriptors.go, modelled completely in coq/c18/C18DescModel.v: FixedSliceReader with accumulated error, size fields "
                  "of any width incl. the byte/uint64 wraps, optional ES fields, further descriptors of any tag, nested "
                  "DecoderConfigDescriptors, UnknownData recovery): DecodeDescriptor / DecodeESDescriptor / DecodeEsds invert the encoders on "
                  "EVERY well-formed value - any nesting depth, any number of descriptors, size fields of 1..255 bytes on every level, one "
                  "trailing unknown byte (C18_descriptor_roundtrip, C18_es_descriptor_roundtrip, C18_esds_body_roundtrip; induction on "
                  "depth and on the descriptor lists); the configuration carried as DecoderSpecificInfo by any such esds is read back "
                  "(C18_esds_config_roundtrip) and the esds SetAACDescriptor builds is one of them (C18_set_aac_esds_general). Explored "
                  "only: the decoders on malformed descriptors (correspondence: mutated/truncated/random inputs, 0 skipped at descriptor "
                  "level) and decode -> re-encode = identity on generated well-formed esds shapes (search). DECODER RANGE (round 4, coq/c18/C18RangeProofs.v): the "
                  "well-formedness hypotheses of the round-trip theorems are proved to be invariants of the decoders instead of being assumed: "
                  "every configuration DecodeAudioSpecificConfig returns, on ANY input, is canonical (C18_decode_asc_canonical), hence is "
                  "encoded by Encode and read back as itself (C18_decode_asc_reencode: decode;encode;decode = decode, no hypothesis), and "
                  "canonical is exactly the decoder's range (C18_canonical_is_decoder_range); every header DecodeADTSHeader returns that is "
                  "MPEG-4, CRC-less and announces a frame >= 7 bytes is adts_canonical and re-encodes to bytes read back as itself at offset "
                  "0 (C18_decode_adts_canonical, C18_decode_adts_reencode); the frame-length guard is sharp (C18_decode_adts_short_frame_wraps: "
                  "frame length 0 is accepted as PayloadLength 65529; malformed input, outside the property). The hypotheses are also "
                  "EVALUATED on what the real decoders returned for the inputs of the run (AR/HR correspondence lines: decode -> Encode -> "
                  "decode on the real code against the model; evidence: hypotheses_on_run_inputs) and the search demands the round trip "
                  "of every decoder result on the real code (all 2-byte inputs + field-wise generated foreign encodings). "
                  "On the implementation the complete domain is enumerated on every run "
                  "(exhaustive: true): all table configurations, all 16 x 8 x 8185 ADTS headers, every junk length 0..187.",
    "level_note": "Trusted: Coq kernel, extraction (ExtrOcamlBasic), the OCaml/Go glue, the C13Model transcription of bits.Reader/bits.Writer "
                  "(the bit-list reading used here is proved equivalent to it; C13Model itself is tied to the code by correspondence, here and in C13). Explicit 24-bit frequencies are covered by the general proof and "
                  "sampled (quick) / enumerated completely (thorough) on the implementation. io.Writer/io.Reader failures are not modelled.",
}

NPROC = max(2, min(12, common.NCPU - 2))


def build(ctx):
    exe, err = common.go_build("c18")
    if exe is None:
        raise common.CheckError("harness does not build against /repo with -tags verif:\n" + err[-2000:])
    model, err = common.build_model("c18", "C18Extract.v", "c18_driver.ml")
    if model is None:
        raise common.CheckError(err)
    return exe, model


def run_model_parallel(model, lines):
    """The model driver is a pure line filter: split the case lines over several processes
    (the HX lines carry 8185 headers each, so they are dealt round-robin)."""
    heavy = [l for l in lines if l.startswith("HX\t")]
    light = [l for l in lines if not l.startswith("HX\t")]
    chunks = [[] for _ in range(NPROC)]
    for i, l in enumerate(heavy):
        chunks[i % NPROC].append(l)
    for i, l in enumerate(light):
        chunks[i % NPROC].append(l)
    chunks = [c for c in chunks if c]
    with ThreadPoolExecutor(max_workers=NPROC) as ex:
        outs = list(ex.map(lambda c: common.run_model(model, "\n".join(c) + "\n"), chunks))
    return [l for o in outs for l in o]


def run(ctx):
    thorough = ctx.tier == "thorough"
    ctx.cov["trusted_base"] = common.TRUSTED_BASE_COMMON + [
        "model: coq/c18/C18Model.v is a hand transcription of aac/aac.go (Encode, DecodeAudioSpecificConfig, getFrequency, the two "
        "frequency maps as association lists) and aac/adts.go (NewADTSHeader, Encode, DecodeADTSHeader incl. the 188-iteration sync "
        "search); bits.Reader/bits.Writer are read as operations on bit lists (EOF = fewer bits than requested), proved equivalent to "
        "the C13Model machines read_plain / write_plain / flush_plain (coq/c18/C18TieProofs.v)",
        "model of the sample-entry path: coq/c18/C18EntryModel.v (SetAACDescriptor, mp4a entry and esds encoders, the decoder path for "
        "one esds child with DecoderConfig+DecSpecificInfo+SLConfig incl. every size/tag check on that path; anything else is "
        "EUnmodelled and skipped (counted) by the correspondence)",
        "model of the descriptor layer: coq/c18/C18DescModel.v, a hand transcription of mp4/descriptors.go (all decoders, Size/SizeSize/"
        "EncodeSW, readSizeSize, writeDescriptorSize) over a model of bits.FixedSliceReader (ReadUint8/16/32, ReadBytes, "
        "ReadFixedLengthString, SetPos, GetPos, AccError); recursion on fuel = input length + 1, the out-of-fuel outcome is reported "
        "as a mismatch by the driver; box level of the esds box through decode_box_header (64-bit sizes / empty bodies skipped)",
    ]
    ctx.assumptions += ["the underlying io.Writer never fails; the io.Reader is a bytes.Reader (EOF is the only error)",
                        "Go int is 64 bit (uint(freq) wrap written as mod 2^64)"]
    exe, model = build(ctx)
    pr = ctx.proofs("c18", "C18Theorems.v")

    # ---- correspondence
    n = ctx.n(300, 6000)
    rc, cases, e = sh2([exe, "corr", "-seed", str(ctx.seed), "-n", str(n), "-tier", ctx.tier], timeout=3000)
    if rc != 0:
        raise common.CheckError("harness corr failed: " + e[-1000:])
    lines = [l for l in cases.splitlines() if l]
    res = run_model_parallel(model, lines)
    skipped = [l for l in res if l.startswith("SKIP ")]
    mism = [l for l in res if not l.startswith("OK ") and not l.startswith("SKIP ")]
    if len(res) != len(lines):
        raise common.CheckError("model driver answered %d lines for %d cases" % (len(res), len(lines)))
    kinds = {}
    hx_headers = 0
    for l in lines:
        f = l.split("\t")
        kinds[f[0]] = kinds.get(f[0], 0) + 1
        if f[0] == "HX":
            hx_headers += int(f[7]) - int(f[6]) + 1
    distinct = len(set(l.split("\t", 2)[2] for l in lines if l.count("\t") >= 2 and not l.startswith("HX\t")))
    ctx.cov["evaluations"] += len(lines) - kinds.get("HX", 0) + hx_headers
    ctx.cov["distinct_nontrivial"] += distinct + hx_headers
    ctx.notes["correspondence"] = {
        "cases": len(lines), "mismatches": len(mism), "distinct_case_lines": distinct, "kinds": kinds,
        "adts_headers_in_range_lines": hx_headers,
        "entry_cases_outside_modelled_decoder_path_skipped": len(skipped),
        "complete_domains": ["AudioSpecificConfig: 3 object types x 16 channel configurations x 13 x 13 table frequencies",
                             "DecodeAudioSpecificConfig: every 1-byte input" + (", every 2-byte input" if thorough else ""),
                             "ADTS: %s x 16 frequency indices x 8 channel configurations x payload lengths 0..8184"
                             % ("profiles 1..4 x 3 fullness values" if thorough else "profile AAC-LC, fullness 0x7ff"),
                             "DecodeADTSHeader: every junk length 0..200 x 8 patterns",
                             "SetAACDescriptor: 6 object types (3 supported) x 13 table frequencies + explicit values; "
                             "DecodeBox on each produced entry, truncations and byte mutations",
                             "bits.Writer / bits.Reader against the bit-list reading: %d random op sequences each" % (10 * n),
                             "histories: %s ordered pairs of the 3 x 13 table configurations as two-build histories + %d generated "
                             "histories (1..4 builds incl. failing ones, 1..3 init segments, second entries on a track, interleaved "
                             "entry / init-segment encodes), every observation and the final state of every entry against hrun"
                             % ("all 1521" if thorough else "a stride of the 1521", n),
                             "esds descriptors: %d generated ES descriptors (size-field widths 1..4, 5..11 and > 256 bytes, optional "
                             "fields, 0..3 further / nested descriptors, reserved tags, unknown trailing bytes, inconsistent size "
                             "fields) through DecodeESDescriptor, DecodeBox(esds) and DecodeBoxSR(esds), each with 3 mutations and "
                             "all truncations of every fourth; %d descriptors through DecodeDescriptor with varying maxNrBytes; "
                             "every first / second / flag byte 0..255 on fixed skeletons; %d random strings: decoded value, GetPos, "
                             "AccError and the re-encoded bytes compared" % (2 * n, 4 * n, n),
                             "decoder range (AR/HR): DecodeAudioSpecificConfig on every 1-byte input, %s 2-byte input, %d configurations laid "
                             "out field by field as a foreign encoder may (reserved indices, table values through the 24-bit escape, wrong inner "
                             "object type, trailing bits, truncated), a stride of the table encodings; DecodeADTSHeader on frame lengths 0..10/16/"
                             "4096/8190/8191 x 4 sync variants, %d junk+sync+steered header strings, %d junk+encoded headers: result, Encode of "
                             "the result, decoder again" % ("every" if thorough else "a stride of the", 4 * n, 4 * n, n),
                             "streams: %d x (1..4 configurations into one writer, k DecodeAudioSpecificConfig calls on one reader with "
                             "bytes-left after each), %d malformed streams; the same for junk+ADTS headers" % (n, n)],
    }
    # hypotheses of the round-trip theorems evaluated on what the real decoders returned in this run (AR / HR lines:
    # the driver answers "OK <id> hyp=1|0|-"; an accepted result outside the theorem's domain where the theorem says
    # it cannot be is a MISMATCH)
    hyp = {"AR": {"1": 0, "0": 0, "-": 0}, "HR": {"1": 0, "0": 0, "-": 0}}
    for l in res:
        p = l.split(" ")
        if len(p) == 3 and p[0] == "OK" and p[2].startswith("hyp="):
            hyp["AR" if p[1].startswith("ar") else "HR"][p[2][4:]] += 1
    ctx.notes["hypotheses_on_run_inputs"] = {
        "C18_asc_roundtrip / C18_decode_asc_canonical (canonical holds of the configuration the real decoder returned)":
            {"decoder_accepted_and_hypothesis_holds": hyp["AR"]["1"], "decoder_rejected": hyp["AR"]["-"],
             "decoder_accepted_hypothesis_fails (would be a mismatch)": hyp["AR"]["0"]},
        "C18_adts_roundtrip / C18_decode_adts_canonical (id 0, header length 7, payload <= 8184 => adts_canonical)":
            {"decoder_accepted_and_hypothesis_holds": hyp["HR"]["1"],
             "decoder_accepted_outside_guard (MPEG-2 id / CRC / frame length < 7: theorem does not apply)": hyp["HR"]["0"],
             "decoder_rejected": hyp["HR"]["-"]},
    }
    ctx.cov["samples"] += [l[:300] for l in lines if l.startswith("AR\t") and "|" in l][:1] \
        + [l[:300] for l in lines if l.startswith("HR\t") and "|" in l][:1]
    ctx.cov["samples"] += [l[:300] for l in lines[5000:5002]] + [l[:300] for l in lines if l.startswith("HX\t")][:1] \
        + [l[:300] for l in lines if l.startswith("HD\t")][700:702] + [l[:300] for l in lines[-2:]]
    ctx.log("correspondence: %d case lines (+%d headers in range lines), %d mismatches" % (len(lines), hx_headers, len(mism)))

    # ---- search: the property itself on the implementation
    ns = ctx.n(300, 20000)
    rc, so, e = sh2([exe, "search", "-seed", str(ctx.seed), "-n", str(ns), "-tier", ctx.tier], timeout=3000)
    if rc != 0:
        raise common.CheckError("harness search failed: " + e[-1000:])
    fails = []
    parts = {}
    for l in so.splitlines():
        f = l.split("\t")
        if f[0] == "FAIL":
            fails.append(f)
        elif f[0] == "PART":
            parts[f[1]] = int(f[2])
        elif f[0] == "EVALS":
            ctx.cov["evaluations"] += int(f[1])
            ctx.notes["search_evaluations"] = int(f[1])
        elif f[0] == "RANGE":
            ctx.notes["search_decoder_range"] = {"configurations_accepted_by_the_real_decoder_and_round_tripped": int(f[1]),
                                                 "headers_accepted_within_guard_and_round_tripped": int(f[2])}
        elif f[0] == "DISTINCT":
            ctx.cov["distinct_nontrivial"] += int(f[1])
            ctx.notes["search_distinct_inputs"] = int(f[1])
    ctx.notes["search_parts_cumulative"] = parts
    # one report per (site, class) signature: the first witness, with the number of failing inputs
    by_sig = {}
    for f in fails:
        by_sig.setdefault((f[1], f[2]), []).append(f)
    new_failing = 0   # failing inputs that are not recorded known findings
    for (site, klass), fl in sorted(by_sig.items()):
        if ctx.failing_input(site, klass, fl[0][3], fl[0][4], extra={"failing_inputs_with_this_signature": len(fl),
                                                                      "more_witnesses": [x[3] for x in fl[1:6]]}):
            new_failing += 1
    ctx.notes["failing_inputs_by_signature"] = {"%s/%s" % k: len(v) for k, v in by_sig.items()}
    ctx.log("search: %d evaluations, %d failing inputs" % (ctx.notes.get("search_evaluations", 0), len(fails)))
    ctx.notes["hygiene_oracles"] = (
        "harness/c18/hygiene.go: the ASC / ADTS decoders also read every configuration of the enumerations (ADTS: one in 16) and "
        "arbitrary bytes through a bytes.Reader over a sub-slice with guard bytes, a one-byte-per-Read reader and a reader "
        "returning data together with io.EOF (reader-dependent, modifies-input), with a malformed relative decoded in between "
        "(depends-on-earlier-calls); aac.FrequencyTable / ReverseFrequencies compared before/after every search part "
        "(package-table-modified); ADTSHeader.Encode results re-read after the next Encode (result-changed-by-later-calls); "
        "AudioSpecificConfig.Encode repeatable into a plain io.Writer and leaves the configuration alone; ES descriptors decoded "
        "from guarded sub-slices and EncodeSW into SizeSize()+{1,9} writers (encode-sw-spare-room). Not demanded: decoded "
        "descriptors / CreateESDescriptor / CreateEsdsBox hold the slices they are given (C20 audited lists)")
    # exhaustive: the finite domain of the property was enumerated completely on both sides
    ctx.notes["exhaustive"] = True
    ctx.notes["exhaustive_scope"] = (
        "implementation (search): all 3x16x13(x13) table configurations; all 16x8x8185 ADTS headers (13 table frequencies through "
        "NewADTSHeader); junk lengths 0..187 x 8 patterns; all 3x13 SetAACDescriptor calls" +
        ("; all 2^24 explicit sampling and extension frequencies; profiles 1..4 x 4 fullness values" if thorough
         else "; explicit 24-bit frequencies are sampled in the quick tier (complete in the thorough tier)") +
        ". model (Coq): general theorems over the whole domain + vm_compute enumeration of the table configurations and of the "
        "ADTS index x channel x profile grid. correspondence: the same complete ADTS domain through range hashes.")
    # a model/implementation disagreement is reported unless a NEW failing input already explains the alarm (the recorded
    # known findings F1/F2 fail on every run: they must not hide a mismatch - they did, until round 4)
    if mism and not new_failing:
        by_id = {}
        for l in lines:
            p = l.split("\t")
            if len(p) > 1:
                by_id[p[1]] = l
        first = mism[0].split(" ")
        ctx.violation({"kind": "correspondence-mismatch", "correspondence": "C18Model vs aac package (harness c18 corr)",
                       "mismatches": len(mism), "first_case": by_id.get(first[1], "")[:2000], "model_says": mism[0][:2000]},
                      "model/implementation disagree on %d cases" % len(mism), no_input=True)
    ctx.proof_violation_if_broken(pr, "c18 search: %d evaluations, no failing input" % ctx.notes.get("search_evaluations", 0))
    ctx.cov["rule"] = ("corr: complete table domain of AudioSpecificConfig.Encode, sampled explicit/out-of-domain values, the decoder on every "
                       "produced encoding + truncations + all short inputs + %d random strings; ADTS Encode/Decode over the complete "
                       "index x channel x length domain (range hashes), junk 0..200 x 8 patterns, malformed headers. distinct = distinct case "
                       "lines + enumerated headers. search: Decode(Encode(x)) = x and offset = |junk| on the real code over the complete "
                       "domain, SetAACDescriptor -> file encode -> both decoders -> DecodeAudioSpecificConfig; histories: every entry read from memory / "
                       "DecodeBox / DecodeBoxSR / the decoded init segment after the whole history gives its own configuration and every "
                       "encode of an entry over time gives the same bytes; configurations and headers streamed through one writer/reader; "
                       "any generated well-formed esds shape around a configuration: DecodeESDescriptor / DecodeBox / DecodeBoxSR / the mp4a "
                       "entry around it give the configuration back and re-encode to the same bytes; decoder range: every configuration / guarded header the "
                       "real decoders return on all 2-byte inputs and on generated foreign encodings must round-trip through Encode and the "
                       "decoder, offsets must be the first sync word" % n)


def replay(ctx, path):
    """Re-runs a recorded failing input on the current /repo tree (search witnesses are re-evaluated by the
    harness's replay sub-command when they are SetAACDescriptor / header witnesses); prints the record."""
    r = json.load(open(path))
    print(json.dumps(r, indent=1))
    if r.get("kind") != "failing-input":
        return 0
    exe, _ = build(ctx)
    rc, so, e = sh2([exe, "replay", "-site", r.get("site", ""), "-witness", r.get("witness", "")], timeout=600)
    print(so.strip() or e.strip())
    return 1 if "FAIL\t" in so else 0
