"""C11 — segmenting, resegmenting and multiplexing conserve every sample."""
import os
import shutil
import common
from common import sh2

LEVEL = "proof"
MANIFEST = {
    "technique": "Coq proof over hand-written Gallina models of examples/segmenter (segment-start selection, interval "
                 "computation, the per-sample fetch GetFullSamplesForInterval / GetSamplesForInterval / copyMediaData and "
                 "the three writers), examples/resegmenter Resegment, MediaSegment.Fragmentify and combine-segs' multiplexing, "
                 "composed with the theorems of C09 (sample-table queries = naive expansion) and C05 (fragment add-history -> "
                 "encode -> decode -> GetFullSamples round trip), both imported read-only; differential correspondence "
                 "(extracted OCaml vs the Go functions through a tagged test driver and vs the built tools, incl. the decoded "
                 "segments the built segmenter writes in its four modes, combine-segs through a tagged driver on k files / any ids "
                 "and as built tool, the init segments all three tools write); failing-input search running the built tools on "
                 "synthesized (and truncated) files, outputs decoded against their OWN init segments",
    "level_text": "Theorems (coq/c11/C11Theorems.v), for all inputs. Segmenter (text after fixes 34ef7ec, 8eb6c19): for every file, "
                  "track and target duration, whenever the tool gets to writing, the per-track sample intervals tile 1..N "
                  "(pinned text refuted) and all tracks get the same number >= 1 of intervals; the reference track's segments "
                  "start at the chosen sync samples (guard: non-zero duration; unguarded refuted). End to end: for every "
                  "track whose tables are consistent (C09Spec.consistent) and point into the file (data_ok), mdat in memory or "
                  "lazy: the per-sample fetch (stsc chunk lookup, stco/co64 offset + sizes of the chunk's earlier samples, "
                  "stsz, stts, ctts, stss/sdtp flag translation, bytes from mdat.Data or the ReadSeeker) returns sample n of "
                  "the naive expansion (C11_fetch_full_sample/_interval/_meta_interval); copyMediaData writes exactly the bytes "
                  "of samples a..b (C11_copy_media_data, one chunk-offset box); and for the in-memory writer "
                  "(C11_segmenter_end_to_end), the -lazy writer (C11_segmenter_lazy_end_to_end: metadata-only samples + "
                  "copied bytes, tfdt shown to be the first sample's decode time) and the multiplexed writer "
                  "(C11_segmenter_mux_end_to_end, any number of tracks): whenever the writer returns without error and every "
                  "fragment stays below 2 GiB, concatenating over all output segments GetFullSamples(decode(encode(fragment "
                  "built from interval i))) equals the expansion of the input track: bytes, size, duration, flags, composition "
                  "offset and decode time, trun optimisation on or off, any file position, any trex defaults (C05's round-trip "
                  "theorems supply the fragment step; its hypotheses Size = len(Data) and decode times consistent with the "
                  "durations are PROVED for runs of the expansion: C11_expansion_roundtrip_hyps). For every file at all "
                  "(inconsistent, truncated) a writer that returns without error has fetched every interval completely "
                  "(C11_segmenter_fetches_all, C11_segmenter_mux_fetches_all; the pinned text is refuted: "
                  "C11_fetch_error_swallowed_refuted, fixed in 8eb6c19). Resegment / Fragmentify: output pieces concatenate "
                  "to the input for every duration, later segments start with a sync sample with pts >= d*seq, Fragmentify "
                  "never fails and makes no empty fragment; the DECODED output pieces (CreateFragment + "
                  "AddFullSampleToTrack + Encode + decode + GetFullSamples) concatenate to the input samples when the input's "
                  "decode times are contiguous and fit uint64 (C11_resegment_end_to_end, C11_fragmentify_end_to_end; with a "
                  "decode-time gap refuted). TOTAL forms with hypotheses on the input only (consistent, data_ok, a plan exists, "
                  "every planned segment resp. the whole input below 2 GiB): the in-memory and the -lazy writer DO return "
                  "without error and read back the expansion (C11_segmenter_total, C11_segmenter_lazy_total, "
                  "C11_write_segment_total), so does the multiplexed writer without trun optimisation, as the tool runs it "
                  "(C11_segmenter_mux_total; C11_plan_ordered), Resegment / Fragmentify DO write every piece - Resegment's possibly empty first "
                  "segment included, as the tool runs it without trun optimisation - and the decoded pieces concatenate to "
                  "the input (C11_resegment_total, C11_resegment_total_all, C11_write_segment_empty, C11_fragmentify_total). combine-segs end to end at the decoded level "
                  "(C11_combine_end_to_end, total: hypotheses on the input only): k >= 1 decoded single-track media files (what "
                  "the tool accepts: one segment / fragment / traf; any number of truns, any trun / tfhd flag usage, any "
                  "base-data-offset mode), pairwise different output ids, sizes uint32 / tfdt uint64, readable with their init, below "
                  "2 GiB, and the guard of the property text as a boolean predicate no_trex_reliance (proved EXACT: "
                  "C11_combine_guard_exact): combineMediaSegments + Encode DO return and every track read from the decoded output "
                  "with the combined init's trex (any defaults) equals what a reader of input i saw: bytes, size, duration, flags, "
                  "composition offset, decode time; C05's hypotheses (Size = len(Data), consistent decode times) are PROVED of "
                  "every decoded input (C11_combine_read_hyps); without the guard refuted (C11_combine_unguarded_refuted, "
                  "replayed on the built tool: search class comb:outside-guard:differs). Init segments (C11InitModel: per "
                  "track id, handler, media timescale, sample entries, trex): whenever the segmenter writes, every init (one per "
                  "track, text after fix 0e3bed8) resp. the multiplexed init carries handler, timescale and ONE sample entry of its "
                  "input track under the id the media segments use, with a trex for it (C11_segmenter_inits_never_drop, "
                  "C11_segmenter_inits_total, C11_segmenter_mux_init_same_tracks; pinned text refuted: "
                  "C11_segmenter_init_entry_dropped_refuted); the resegmenter passes the init through; combineInitSegments "
                  "(C11_combine_init_same_tracks, total) holds under id ids[i] the handler, timescale, sample entries and trex "
                  "defaults of input i. TOTAL forms WITH trun optimisation: one multi-track segment, EncOptimize on or off, any "
                  "tracks (also all) without a sample, is written and every track reads back what was added "
                  "(C11_mux_segment_total_opt, C11_mux_segment_empty), the multiplexed writer over all segments with optimisation "
                  "and empty intervals (C11_segmenter_mux_total_opt); an empty single-track fragment cannot be encoded with "
                  "optimisation (C11_write_segment_empty_opt_fails). The sync-start clause at the DECODED level (round 4): for the "
                  "reference track (first video track; all tracks consistent, it points into the file and lists sample 1 in stss, "
                  "segment starts found, guard nonzero_dur_syncs, planned segments below 2 GiB) the in-memory writer and the "
                  "-lazy writer (one chunk-offset box) DO write its segments, they read back as the expansion and EVERY written "
                  "file's first sample has sample_is_non_sync_sample = 0 in the flags a reader gets, with or without sdtp, trun "
                  "optimisation on or off (C11_segmenter_segments_start_sync, C11_segmenter_lazy_segments_start_sync; per-segment "
                  "form of the write/read-back pipeline + C11_video_starts_sync + C09Spec.S_flags); the same under ONE boolean "
                  "hypothesis C11Spec.ref_sync_hyps (C11_segmenter_segments_start_sync_applies, "
                  "C11_segmenter_lazy_segments_start_sync_applies), which the W correspondence evaluates on every built-tool run "
                  "(evidence coverage.correspondence.sync_theorem_applies: on how many runs the theorems applied; there the files the "
                  "tool wrote are checked against the conclusion). For the multiplexed writer the decoded-level sync clause is "
                  "evaluated the same way but not proved. Only explored by correspondence/search, not proved: the byte-level box codecs of moof/mdat/styp and "
                  "DecodeFile's regrouping of a box stream into segments and fragments (C05 proves the tfhd/trun codecs and is "
                  "adding the segment level); a track carrying both stco and co64 in the -lazy writer; of the init segments everything but (id, handler, "
                  "timescale, sample entries as opaque bytes, trex): ftyp, mvhd, tkhd fields, language, edit lists, mehd (combine-segs "
                  "adds a second mehd), the sample entries' contents (C19's territory); combine-segs' input files are modelled from "
                  "DecodeFile's result on (C05 owns the byte codecs).",
    "level_note": "Trusted: Coq kernel, extraction (ExtrOcamlBasic), the OCaml/Go glue, the file synthesizer and reader in the "
                  "harness (they use mp4ff's own box encoders/decoders and GetFullSamples). The models are hand transcriptions "
                  "tied to the code by differential runs on generated inputs only; C11FetchModel runs on C09Model's table "
                  "structs and C05FragModel's fragments, whose own correspondence is checked by C09 and C05. The two views of a "
                  "trak (C11Model.track for the plan, C09Model.tables for the fetch) are related by the definition itrack_of; the "
                  "queries of the two models are PROVED equal on consistent tables (C11_itrack_decode_time, C11_itrack_cto, "
                  "C11_itrack_sample_nr_at_time) and the composition is exercised by the W correspondence. uint64 time accumulators are not wrapped in C11Model (assumption: total "
                  "duration < 2^63 ticks; C09Spec.consistent implies it for the fetch). The writers are modelled per track "
                  "(the tool interleaves tracks and stops at the first error of any track). C11CombModel runs on C05FragModel.dfrag "
                  "(decoded fragments) and C11InitModel on track records; both are tied to the code by the C / I / X correspondence "
                  "lines (tagged driver in /repo/examples/combine-segs for any k and ids, built tools otherwise).",
}


TMP = os.path.join(common.BUILD, "c11-tmp-%d" % os.getpid())


def build(ctx):
    exe, err = common.go_build("c11")
    if exe is None:
        raise common.CheckError("harness does not build against /repo with -tags verif:\n" + err[-2000:])
    drv, err = common.go_test_build("examples/segmenter", "c11_segmenter.test")
    if drv is None:
        raise common.CheckError("tagged test driver examples/segmenter does not build:\n" + err[-2000:])
    cdrv, err = common.go_test_build("examples/combine-segs", "c11_combine_segs.test")
    if cdrv is None:
        raise common.CheckError("tagged test driver examples/combine-segs does not build:\n" + err[-2000:])
    bins = {"c11_combine_segs.test": cdrv}
    for pkg, name in (("examples/segmenter", "c11_segmenter"), ("examples/resegmenter", "c11_resegmenter"),
                      ("examples/combine-segs", "c11_combine_segs")):
        b, err = common.go_build_repo_cmd(pkg, name)
        if b is None:
            raise common.CheckError("%s does not build:\n%s" % (pkg, err[-2000:]))
        bins[name] = b
    model, err = common.build_model("c11", "C11Extract.v", "c11_driver.ml")
    if model is None:
        raise common.CheckError(err)
    return exe, drv, bins, model


def _tool_args(bins):
    return ["-segmenter", bins["c11_segmenter"], "-reseg", bins["c11_resegmenter"],
            "-combine", bins["c11_combine_segs"], "-combdrv", bins["c11_combine_segs.test"], "-tmp", TMP]


def run(ctx):
    ctx.cov["trusted_base"] = common.TRUSTED_BASE_COMMON + [
        "model: coq/c11/C11Model.v is a hand transcription of examples/segmenter/segment.go "
        "(getSegmentStartsFromVideo, getSegmentIntervals), segmenter.go (SetTargetSegmentation), mp4/stts.go "
        "(GetDecodeTime, GetSampleNrAtTime), mp4/ctts.go (GetCompositionTimeOffset as a linear scan), "
        "examples/resegmenter/resegment.go (Resegment), mp4/mediasegment.go (Fragmentify), "
        "examples/combine-segs/main.go + Fragment.AddSampleToTrack + TrunBox.AddSampleDefaultValues",
        "model: coq/c11/C11FetchModel.v is a hand transcription of examples/segmenter/segmenter.go (GetFullSamplesForInterval, "
        "GetSamplesForInterval; TranslateSampleFlagsForFragment = C09Model.create_sample_flags) and segment.go "
        "(copyMediaData, the bodies of makeSingleTrackSegments / makeSingleTrackSegmentsLazyWrite / makeMultiTrackSegments) "
        "on top of coq/c09/C09Model.v (table structs and queries) and coq/c05/C05Model.v + C05FragModel.v (fragment "
        "operations, Encode, decoded view, GetFullSamples), both imported read-only; spec: coq/c11/C11Spec.v over C09Spec.v",
        "model: coq/c11/C11CombModel.v is a hand transcription of examples/combine-segs/main.go combineMediaSegments + writeSeg "
        "on C05FragModel (decoded fragments in, CreateMultiTrackFragment / AddFullSampleToTrack / Encode out); "
        "coq/c11/C11InitModel.v of segmenter.go MakeInitSegments / MakeMuxedInitSegment (text after fix 0e3bed8), the "
        "resegmenter's pass-through and combine-segs' combineInitSegments on (id, handler, timescale, sample entries, trex) records",
        "harness/c11: synthesizer of progressive/fragmented files and reader of produced segments (mp4ff's own "
        "encoders, decoders and Fragment.GetFullSamples are used to write inputs and read outputs)",
    ]
    ctx.assumptions += [
        "uint64 decode-time accumulators do not wrap (total duration < 2^63 ticks); sample counts < 2^32",
        "segmenter: at most one video and one audio track (documented in the tool's usage text); a video track exists",
        "end-to-end theorems: tables consistent (C09Spec.consistent), every sample's byte range inside the mdat payload resp. "
        "the file (data_ok), every written fragment below 2 GiB (seg_guard / lazy_guard: int32 trun data offsets, C05-F5), "
        "fewer than 2^32 samples; -lazy writer: one chunk-offset box per track; Resegment/Fragmentify decoded output: "
        "contiguous decode times that fit uint64",
        "combine-segs: inputs do not rely on trex defaults (limitation documented in its source; boolean guard "
        "no_trex_reliance, exact), one segment / fragment / traf per input file, pairwise different output ids, whole input below "
        "2 GiB; init theorems: the first trex of every input init names its only trak",
    ]
    os.makedirs(TMP, exist_ok=True)
    exe, drv, bins, model = build(ctx)
    pr = ctx.proofs("c11", "C11Theorems.v")

    # ---- correspondence 1: unexported segmenter functions through the tagged test driver
    n = ctx.n(1500, 40000)
    rc, gen, e = sh2([exe, "gen", "-seed", str(ctx.seed), "-n", str(n)], timeout=3000)
    if rc != 0:
        raise common.CheckError("harness gen failed: " + e[-1000:])
    cases_p, out_p = os.path.join(TMP, "cases.txt"), os.path.join(TMP, "cases.out")
    open(cases_p, "w").write(gen)
    if os.path.exists(out_p):
        os.remove(out_p)
    env = dict(common.GOENV)
    env.update({"C11_CASES": cases_p, "C11_OUT": out_p})
    rc, o, e = sh2([drv, "-test.run", "^TestVerifDriver$"], env=env, timeout=3000)
    if rc != 0 or not os.path.exists(out_p):
        raise common.CheckError("tagged test driver failed rc=%s: %s" % (rc, (o + e)[-1500:]))
    cases = open(out_p).read()
    if len(cases.splitlines()) != len(gen.splitlines()):
        raise common.CheckError("test driver answered %d of %d cases" % (len(cases.splitlines()), len(gen.splitlines())))
    # ---- correspondence 2: built tools / library calls
    nt = ctx.n(150, 3000)
    rc, cases2, e = sh2([exe, "corr", "-seed", str(ctx.seed), "-n", str(nt)] + _tool_args(bins), timeout=6000)
    if rc != 0:
        raise common.CheckError("harness corr failed: " + e[-1000:])
    cases += cases2
    lines = cases.splitlines()
    res = common.run_model(model, cases)
    mism = [l for l in res if not l.startswith("OK ")]
    distinct = len(set(l.split("\t", 2)[2] for l in lines if l.count("\t") >= 2))
    kinds = {}
    classes = {}
    multi = {}
    for l in lines:
        f = l.split("\t")
        kinds[f[0]] = kinds.get(f[0], 0) + 1
        if f[0] in ("S", "T"):
            k = f[0] + ":" + f[4].split(":")[0]
            classes[k] = classes.get(k, 0) + 1
        elif f[0] == "G" and len(f) == 19:
            k = "G:%s:full=%s,copy=%s" % (f[2], f[15].split(":")[0], f[17].split(":")[0])
            classes[k] = classes.get(k, 0) + 1
        elif f[0] == "W":
            k = "W:%s:%s" % (f[2], f[-1].split(":")[0])
            classes[k] = classes.get(k, 0) + 1
            if f[-1].startswith("ok:") and "+" in f[-1]:
                multi["W"] = multi.get("W", 0) + 1
        elif f[0] == "C":
            k = "C:%s:k=%d:%s" % (f[1][1], f[4].count("#") + 1, f[-1].split("|")[0])
            classes[k] = classes.get(k, 0) + 1
            if f[-1].startswith("ok|") and f[-1].count("=") >= 2 and "=-" not in f[-1]:
                multi["C"] = multi.get("C", 0) + 1
        elif f[0] == "I":
            k = "I:%s:%s" % (f[2], f[-1].split("|")[0])
            classes[k] = classes.get(k, 0) + 1
        elif f[0] in ("V", "Y"):
            if "+" in f[-1]:
                multi[f[0]] = multi.get(f[0], 0) + 1
            if f[0] == "V" and f[-1].startswith("e"):
                classes["V:empty-first-segment"] = classes.get("V:empty-first-segment", 0) + 1
    for l in lines:
        f = l.split("\t")
        if f[0] in ("R", "F") and f[-1].startswith("ok:") and "," in f[-1]:
            multi[f[0]] = multi.get(f[0], 0) + 1
        elif f[0] == "T" and f[-1].startswith("ok:") and "," in f[-1]:
            multi["T"] = multi.get("T", 0) + 1
        elif f[0] == "S" and "," in f[-1]:
            multi["S"] = multi.get("S", 0) + 1
    # W lines on which the extracted C11Spec.ref_sync_hyps (the hypothesis of C11_segmenter_segments_start_sync_applies /
    # C11_segmenter_lazy_segments_start_sync_applies) evaluated to true, per tool mode; the driver has then checked the
    # theorem's conclusion on the files the tool wrote (a failure is a MISMATCH line)
    sync_applies = {}
    for l in res:
        if l.startswith("OK ") and " synchyp=" in l:
            k = l.split(" synchyp=", 1)[1].strip()
            sync_applies[k] = sync_applies.get(k, 0) + 1
    ctx.cov["evaluations"] += len(lines)
    ctx.cov["distinct_nontrivial"] += distinct
    ctx.notes["correspondence"] = {"cases": len(lines), "mismatches": len(mism), "distinct_cases": distinct,
                                   "kinds": kinds, "outcome_classes": classes,
                                   "cases_with_two_or_more_output_pieces": multi,
                                   "sync_theorem_applies": {
                                       "W_cases": kinds.get("W", 0), "hypotheses_true_by_mode": sync_applies,
                                       "meaning": "ref_sync_hyps = true on the tables DecodeFile saw; single / lazy: instances "
                                                  "of the two _applies theorems, conclusion checked on the files the built tool "
                                                  "wrote; mux / muxlazy: same evaluation, clause explored only; "
                                                  "<mode>:tool-refused = hypotheses true for the reference track but the tool "
                                                  "stopped on another track"}}
    pick = [l for l in lines if l.startswith("S\tg")][:2] + [l for l in lines if l.startswith("S\tm")][:1] + \
           [l for l in lines if l.startswith("T\t")][:2] + [l for l in lines if l[:1] in "RFM"][:3] + \
           [l for l in lines if l.startswith("G\tfv")][:1] + [l for l in lines if l.startswith("G\tfm")][:1] + \
           [l[:120] + " ... " + l[-260:] for l in lines if l.startswith("W\t") and "+" in l][:1]
    ctx.cov["samples"] += [l[:400] for l in pick]
    ctx.log("correspondence: %d cases (%s), %d mismatches; sync theorem hypotheses true on %s of %d W cases" % (
        len(lines), kinds, len(mism), sync_applies, kinds.get("W", 0)))

    # ---- search: the property itself on the built tools
    ns = ctx.n(250, 6000)
    rc, so, e = sh2([exe, "search", "-seed", str(ctx.seed), "-n", str(ns)] + _tool_args(bins), timeout=6000)
    if rc != 0:
        raise common.CheckError("harness search failed: " + e[-1000:])
    fails = []
    for l in so.splitlines():
        f = l.split("\t")
        if f[0] == "FAIL":
            fails.append(f)
        elif f[0] == "EVALS":
            ctx.cov["evaluations"] += int(f[1])
            ctx.notes["search_evaluations"] = int(f[1])
        elif f[0] == "OUTCOMES":
            ctx.notes["search_outcomes"] = f[1]
    # hygiene (hidden state between calls): the tagged driver asks every S / G case a second time on the same boxes (other
    # order) and runs every second case on boxes whose lookup helpers were queried up to the LAST sample before; a second
    # answer that differs is a failing input (the case line), a first answer that differs a model mismatch
    for l in cases.splitlines():
        if "\thidden-state:" in l:
            kind = "getSegmentStartsFromVideo/getSegmentIntervals" if l.startswith("S\t") else "GetFullSamplesForInterval/GetSamplesForInterval"
            fails.append(["FAIL", "examples/segmenter." + kind, "second-call-differs", l[:6000],
                          "asked a second time on the same sample tables the function answers differently"])
    ctx.notes["hygiene_oracles"] = (
        "hidden state between calls: /repo/examples/segmenter/c11_verif_test.go + c11fetch_verif_test.go ask every plan (S) and "
        "fetch (G) case twice on the same boxes (starts, intervals, then starts and intervals again; full, meta, copy, flags, then "
        "meta and full again) and run every second case on boxes whose lookup helpers (stts, stsc, ctts, stss, stsz) were first asked "
        "about the first, middle and LAST sample; the model expects the fresh-box answers. Aliasing / cap classes: the samples the "
        "tools hand to fragments are library-internal (not applicable).")
    new_fails = [f for f in fails if ctx.failing_input(
        f[1], f[2], f[3], f[4], extra={"replay_cmd": "./check C11 --replay <this file>"})]
    ctx.log("search: %d evaluations, %d failing inputs (%d not recorded as known); outcomes %s" % (
        ctx.notes.get("search_evaluations", 0), len(fails), len(new_fails), ctx.notes.get("search_outcomes", "")))
    for k in common.load_known():
        if k.get("property") == "C11" and k.get("status") == "fixed":
            ctx.log("fixed: property=C11 %s %s" % (k.get("commit", ""), k.get("description", "")[:120]))
    if mism and not new_fails:
        by_id = {}
        for l in lines:
            p = l.split("\t")
            if len(p) > 1:
                by_id[p[1]] = l
        first = mism[0].split(" ")
        ctx.violation({"kind": "correspondence-mismatch",
                       "correspondence": "C11Model / C11FetchModel vs examples/segmenter (tagged driver: plan S, fetch G; "
                                         "built tool: plan T, written segments W), resegmenter, Fragmentify, combine-segs "
                                         "(harness c11 gen/corr)",
                       "mismatches": len(mism), "first_case": by_id.get(first[1], "")[:3000] if len(first) > 1 else "",
                       "model_says": mism[0][:3000]},
                      "model/implementation disagree on %d cases" % len(mism), no_input=True)
    ctx.proof_violation_if_broken(pr, "c11 search: %d evaluations, no failing input" % ctx.notes.get("search_evaluations", 0))
    ctx.cov["rule"] = ("corr W also evaluates the extracted C11Spec.ref_sync_hyps (hypothesis of the two _applies theorems) on "
                       "the tables DecodeFile saw and, where true, checks that every file the built tool wrote for the reference "
                       "track starts with a sample whose flags have bit 16 clear (count per mode in coverage.correspondence."
                       "sync_theorem_applies); corr C: combine-segs at the decoded level through the tagged driver (k = 1-4 files, ids distinct / duplicate / "
                       "too few / too many; inputs with 1-6 truns, per-sample fields vs tfhd defaults vs first-sample-flags vs values "
                       "LIFTED TO THE TREX (outside the guard), 4 base-data-offset modes, styp or not, no sample; negative: two "
                       "fragments, two segments, a second traf) and through the built tool (k = 2): the model gets DecodeFile's "
                       "view of every input and must reproduce the class and every track read from the output with the combined "
                       "init's trex, the reference reading of every input, and - when the hypotheses of C11_combine_end_to_end hold - "
                       "output = input; corr I: init segments of the built segmenter (single / -m; sample entries avc1, avc3, hvc1, "
                       "hev1, av01, mp4a, ac-3, ec-3, enca, two entries), resegmenter and combine-segs (driver + tool) vs C11InitModel; "
                       "corr X: CreateMultiTrackFragment + AddFullSampleToTrack per track + Encode with / without OptimizeTrun, 1-3 "
                       "tracks, tracks (also all) without samples, read back with an adversarial trex; search imux: the same "
                       "through INTERLEAVED runs (V A V A: several truns per track, each run with its own common duration / "
                       "size / flags), Encode and EncodeSW, optimisation on / off: every track reads back what was added; "
                       "corr G: per-sample fetch through the tagged driver (GetFullSamplesForInterval, GetSamplesForInterval, "
                       "copyMediaData, TranslateSampleFlagsForFragment on Go structs set from text): %d consistent table sets (1-14 "
                       "samples, stts runs incl. zero-count entries, ctts runs incl. zero-count, explicit/uniform sizes incl. 0, 1-n "
                       "chunks in file order or shuffled with gaps, stco/co64, stss, sdtp; mdat in memory / lazy) x 3 intervals, the "
                       "model's result is also compared with the naive expansion and the theorems' hypotheses are evaluated; %d "
                       "malformed sets (offsets outside the file / >= 2^63, missing boxes, both offset boxes, samples-per-chunk 0, "
                       "wrong cached first sample, count mismatches, short ctts/sdtp/sizes, unsorted stss, truncated file, intervals "
                       "with start 0 / end > N / empty); corr W: the built segmenter in modes single/lazy/mux/muxlazy on "
                       "synthesized files: per track and written file the decoded samples (dts,dur,size,cto,flags,md5 of data) vs "
                       "plan -> seg_track / seg_track_lazy / mux_segments -> read_back of the extracted model on the tables as "
                       "DecodeFile sees them; corr V/Y: the DECODED output segments of the built resegmenter / of Fragmentify (per piece: "
                       "dts,dur,size,cto,flags,md5 of data; decode-time gaps and empty first segments included) vs resegment / "
                       "fragmentify -> write_segment -> read_back of the extracted model; corr S: tagged driver on tables: exhaustive (1-2 stts runs over counts {1,2,3} x deltas {0,1,3}, every stss "
                       "subset, d in {1,2,5} ms) + %d tables of synthesized files (1/3 with split runs / zero-count entries) + %d "
                       "malformed table sets (missing boxes, unsorted stss, zero timescales, count mismatches); corr T: the built "
                       "segmenter's printed plan on %d synthesized files; corr R/F/M: resegmenter tool, Fragmentify, combine-segs "
                       "split points, AddFullSampleToTrack interleavings (incl. unknown and duplicate ids), AddSampleDefaultValues on "
                       "all flag combinations; distinct = distinct case lines; search: deterministic grid (sync spacing x frame count x "
                       "5 target durations x {v, v+a, a+v} x {single, lazy, mux, muxlazy}) + random built-tool runs on synthesized files (1-2 tracks, 1-36 "
                       "video samples, sync spacing 1..12/irregular, ctts none/zero/positive/negative, durations constant/variable/"
                       "zero, sdtp, 6 target-duration rules, modes single/lazy/mux/muxlazy (-m -lazy), moov-first/mdat-first, stco/co64); resegmenter tool and "
                       "Fragmentify on fragmented inputs (1-40 samples, 1-3 fragments per segment, 1-4 truns per traf in half of the "
                       "inputs, a second traf in 1/7, styp/no styp, init/no init, per-sample fields vs tfhd defaults vs "
                       "first-sample-flags (library OptimizeTrun and by hand), tfhd default-base-is-moof / no base flag / absolute "
                       "base-data-offset / base-data-offset with trun data-offset absent, edit list in the init, non-zero first "
                       "decode time, decode-time gaps in 1/12); combine-segs tool on pairs of single-fragment inputs; oracle = "
                       "concatenated per-track (bytes,dur,flags,cto,dts) of all outputs equals the input's + first video sample "
                       "of each segment is sync; truncated inputs (end of the mdat missing) in all modes: the tool has to refuse "
                       "them or conserve every sample; every output is decoded against its OWN init segment, which must describe "
                       "the track like the input (handler, timescale, sample entry, trex: init-differs / init-without-sample-entry); "
                       "segmenter on inputs with other sample entries (seginit); fragmented inputs whose common values live in the "
                       "trex (defaults=3) for resegmenter / Fragmentify; combine-segs outside its guard (outcome only)" % (n // 3, n // 3, n, n, nt))
    shutil.rmtree(TMP, ignore_errors=True)


def replay(ctx, path):
    import json
    r = json.load(open(path))
    print(json.dumps(r, indent=1)[:6000])
    w = r.get("witness")
    if not w:
        return 0
    os.makedirs(TMP, exist_ok=True)
    exe, drv, bins, model = build(ctx)
    rc, so, e = sh2([exe, "one", "-w", w] + _tool_args(bins), timeout=600)
    shutil.rmtree(TMP, ignore_errors=True)
    print(so)
    print(e[-3000:])
    return 1 if "FAIL\t" in so else 0
