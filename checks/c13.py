"""C13 — bit, Exp-Golomb and emulation-prevention coding are exact inverses."""
import os
import common
from common import sh2

LEVEL = "proof"
MANIFEST = {
    "technique": "Coq proof over a hand-written Gallina model of the bits package + differential correspondence (extracted OCaml vs Go)",
    "level_text": "Theorems (coq/c13/C13Theorems.v) for all byte strings and all write/read op sequences: the writer state machine equals "
                  "the one-shot escape spec, escape output has no forbidden triple, every 00 00 03 is an inserted escape and every "
                  "inserted byte is required, unescape inverts escape, the reader returns the written values with counters in the "
                  "escaped stream. The model is tied to /repo on every run by running it (extracted) against the real bits package "
                  "on exhaustive small byte strings and random op sequences.",
    "level_note": "Trusted: Coq kernel, extraction (ExtrOcamlBasic), the OCaml/Go glue, and the correspondence being only as good as "
                  "its generated inputs. io.Writer/io.Reader failures are not modelled.",
}


def build(ctx):
    exe, err = common.go_build("c13")
    if exe is None:
        raise common.CheckError("harness does not build against /repo with -tags verif:\n" + err[-2000:])
    model, err = common.build_model("c13", "C13Extract.v", "c13_driver.ml")
    if model is None:
        raise common.CheckError(err)
    return exe, model


def run(ctx):
    ctx.cov["trusted_base"] = common.TRUSTED_BASE_COMMON + [
        "model: coq/c13/C13Model.v is a hand transcription of bits/ebspwriter.go, bits/ebspreader.go, "
        "bits/writer.go, bits/reader.go, FixedSliceWriter.WriteBits/FlushBits (io errors not modelled)",
        "spec: coq/c13/C13Spec.v escape/unescape/forbidden (H.264 7.4.1 rule, written by hand)",
    ]
    ctx.assumptions += ["the underlying io.Writer never fails; the io.Reader is a bytes.Reader (EOF is the only error)",
                        "values are Go uint (64 bit); widths 0..32 are exercised"]
    # 1 harness from the current /repo tree + extracted model
    exe, model = build(ctx)
    # 2 proofs
    pr = ctx.proofs("c13", "C13Theorems.v")
    # 3 correspondence
    n = ctx.n(2000, 60000)
    exh = ctx.n(6, 9)
    rc, cases, e = sh2([exe, "corr", "-seed", str(ctx.seed), "-n", str(n), "-exh", str(exh)], timeout=3000)
    if rc != 0:
        raise common.CheckError("harness corr failed: " + e[-1000:])
    lines = cases.splitlines()
    res = common.run_model(model, cases)
    mism = [l for l in res if not l.startswith("OK ")]
    distinct = len(set(l.split("\t", 2)[2] for l in lines if "\t" in l))
    ctx.cov["evaluations"] += len(lines)
    ctx.cov["distinct_nontrivial"] += distinct
    ctx.notes["correspondence"] = {
        "cases": len(lines), "mismatches": len(mism), "distinct_cases": distinct,
        "exhaustive_alphabet_len": exh,
        "kinds": {k: sum(1 for l in lines if l.startswith(k + "\t")) for k in ("W", "R", "F", "B")},
    }
    ctx.cov["samples"] += [l[:300] for l in lines[1000:1003]] + [l[:300] for l in lines[-3:]]
    ctx.log("correspondence: %d cases, %d mismatches" % (len(lines), len(mism)))
    # 4 search: the property itself on the implementation
    ns = ctx.n(3000, 100000)
    rc, so, e = sh2([exe, "search", "-seed", str(ctx.seed), "-n", str(ns), "-exh", str(exh)], timeout=3000)
    if rc != 0:
        raise common.CheckError("harness search failed: " + e[-1000:])
    fails = []
    for l in so.splitlines():
        f = l.split("\t")
        if f[0] == "FAIL":
            fails.append(f)
        elif f[0] == "EVALS":
            ctx.cov["evaluations"] += int(f[1])
            ctx.notes["search_evaluations"] = int(f[1])
    for f in fails:
        ctx.failing_input(f[1], f[2], f[3], f[4])
    ctx.log("search: %d failing inputs" % len(fails))
    if mism and not fails:
        by_id = {}
        for l in lines:
            p = l.split("\t")
            if len(p) > 1:
                by_id[p[1]] = l
        first = mism[0].split(" ")
        ctx.violation({"kind": "correspondence-mismatch", "correspondence": "C13Model vs bits package (harness c13 corr)",
                       "mismatches": len(mism), "first_case": by_id.get(first[1], "")[:2000], "model_says": mism[0][:2000]},
                      "model/implementation disagree on %d cases" % len(mism), no_input=True)
    ctx.proof_violation_if_broken(pr, "c13 search: %d evaluations, no failing input" % ctx.notes.get("search_evaluations", 0))
    ctx.cov["rule"] = ("corr: every byte string over {00,01,02,03,ff} up to length %d through Write(b,8) and the reader, plus "
                       "%d random op sequences (EBSP/plain/fixed writers, readers on writer output and on arbitrary bytes); "
                       "distinct = distinct case lines; search: round trip, forbidden-pattern scan, independent naive escape, counters" % (exh, n))


def replay(ctx, path):
    import json
    r = json.load(open(path))
    print(json.dumps(r, indent=1))
    return 0
