"""C13 — bit, Exp-Golomb and emulation-prevention coding are exact inverses."""
import os
import common
from common import sh2

LEVEL = "proof"
MANIFEST = {
    "technique": "Coq proof over a hand-written Gallina model of the bits package + differential correspondence (extracted OCaml vs Go)",
    "level_text": "Theorems (coq/c13/C13Theorems.v), for all byte strings and all write/read op sequences (no length bound): the "
                  "EBSP writer state machine equals the one-shot escape spec, escape output has no forbidden triple, every 00 00 03 is "
                  "an inserted escape and every inserted byte is required, unescape inverts escape; fixed-width (<= 32 bit, value fits), "
                  "flag, ue (< 2^32) and se values written with the EBSP writer + rbsp_trailing_bits are read back identically, "
                  "MoreRbspData is then false without moving and ReadRbspTrailingBits accepts the trailing bits (and rejects a leading 0 or "
                  "a second 1); counters report positions in the escaped stream; Writer / FixedSliceWriter.WriteBits+FlushBits round-trip "
                  "through Reader; FixedSliceWriter never exceeds its capacity, its bit methods write nothing after the first error and "
                  "equal the plain Writer when there is room; the byte-level Write* methods and ByteWriter emit big-endian encodings, "
                  "ByteWriter cut exactly at the underlying writer's limit with the error set exactly then. "
                  "Only explored (correspondence + search on the real code, not proved): ue values 2^32..2^48, Reader.ReadSigned, "
                  "reads of width 0, behaviour after a read error. The model is tied to /repo on every run by running it "
                  "(extracted) against the real bits package on exhaustive small byte strings and random op sequences.",
    "level_note": "Trusted: Coq kernel, extraction (ExtrOcamlBasic), the OCaml/Go glue, and the correspondence being only as good as "
                  "its generated inputs. io.Reader failures other than EOF are not modelled; the only failing io.Writer modelled is one "
                  "that accepts a fixed number of bytes (under ByteWriter; EBSPWriter/Writer over a failing io.Writer are not modelled). "
                  "FixedSliceWriter.WriteString, Reader.ReadRemainingBytes and the slice readers are not modelled.",
}


def build(ctx):
    exe, err = common.go_build("c13")
    if exe is None:
        raise common.CheckError("harness does not build against /repo with -tags verif:\n" + err[-2000:])
    model, err = common.build_model("c13", "C13Extract.v", "c13_driver.ml")
    if model is None:
        raise common.CheckError(err)
    return exe, model


def run(ctx):
    ctx.cov["trusted_base"] = common.TRUSTED_BASE_COMMON + [
        "model: coq/c13/C13Model.v + C13ModelExt.v are a hand transcription of bits/ebspwriter.go, bits/ebspreader.go, "
        "bits/writer.go, bits/reader.go, bits/fixedslicewriter.go (all methods but WriteString), bits/bytewriter.go",
        "harness/c13/ext.go limitedWriter (the io.Writer under ByteWriter: accepts N bytes, then fails after a partial write)",
        "spec: coq/c13/C13Spec.v escape/unescape/forbidden (H.264 7.4.1 rule, written by hand)",
    ]
    ctx.assumptions += ["the io.Writer under EBSPWriter/Writer never fails; under ByteWriter it accepts a fixed number of bytes; "
                        "the io.Reader is a bytes.Reader (EOF is the only error)",
                        "values are Go uint (64 bit); widths 0..32 are exercised"]
    # 1 harness from the current /repo tree + extracted model
    exe, model = build(ctx)
    # 2 proofs
    pr = ctx.proofs("c13", "C13Theorems.v")
    # 3 correspondence
    n = ctx.n(2000, 60000)
    exh = ctx.n(6, 9)
    rc, cases, e = sh2([exe, "corr", "-seed", str(ctx.seed), "-n", str(n), "-exh", str(exh)], timeout=3000)
    if rc != 0:
        raise common.CheckError("harness corr failed: " + e[-1000:])
    lines = cases.splitlines()
    res = common.run_model(model, cases)
    mism = [l for l in res if not l.startswith("OK ")]
    distinct = len(set(l.split("\t", 2)[2] for l in lines if "\t" in l))
    ctx.cov["evaluations"] += len(lines)
    ctx.cov["distinct_nontrivial"] += distinct
    ctx.notes["correspondence"] = {
        "cases": len(lines), "mismatches": len(mism), "distinct_cases": distinct,
        "exhaustive_alphabet_len": exh,
        "kinds": {k: sum(1 for l in lines if l.startswith(k + "\t")) for k in ("W", "R", "F", "B", "X")},
    }
    ctx.cov["samples"] += [l[:300] for l in lines[1000:1003]] + [l[:300] for l in lines[-3:]]
    ctx.log("correspondence: %d cases, %d mismatches" % (len(lines), len(mism)))
    # 4 search: the property itself on the implementation
    ns = ctx.n(3000, 100000)
    rc, so, e = sh2([exe, "search", "-seed", str(ctx.seed), "-n", str(ns), "-exh", str(exh)], timeout=3000)
    if rc != 0:
        raise common.CheckError("harness search failed: " + e[-1000:])
    fails = []
    for l in so.splitlines():
        f = l.split("\t")
        if f[0] == "FAIL":
            fails.append(f)
        elif f[0] == "EVALS":
            ctx.cov["evaluations"] += int(f[1])
            ctx.notes["search_evaluations"] = int(f[1])
    for f in fails:
        ctx.failing_input(f[1], f[2], f[3], f[4])
    ctx.log("search: %d failing inputs" % len(fails))
    if mism and not fails:
        by_id = {}
        for l in lines:
            p = l.split("\t")
            if len(p) > 1:
                by_id[p[1]] = l
        first = mism[0].split(" ")
        ctx.violation({"kind": "correspondence-mismatch", "correspondence": "C13Model vs bits package (harness c13 corr)",
                       "mismatches": len(mism), "first_case": by_id.get(first[1], "")[:2000], "model_says": mism[0][:2000]},
                      "model/implementation disagree on %d cases" % len(mism), no_input=True)
    ctx.proof_violation_if_broken(pr, "c13 search: %d evaluations, no failing input" % ctx.notes.get("search_evaluations", 0))
    ctx.cov["rule"] = ("corr: every byte string over {00,01,02,03,ff} up to length %d through Write(b,8) and the reader, plus "
                       "%d random op sequences (EBSP/plain/fixed writers incl. Flush mid-stream and none at the end, readers on writer "
                       "output and on arbitrary bytes incl. MoreRbspData/ReadRbspTrailingBits/ReadSigned), %d FixedSliceWriter cases "
                       "(all Write* methods, capacity 0..200) and %d ByteWriter cases (limit 0..120); distinct = distinct case lines; "
                       "search: round trip against an independent bit packer + naive escape, forbidden-pattern scan, byte AND bit counters "
                       "after every value, MoreRbspData true before / false at the trailing bits and position-neutral, trailing bits "
                       "accepted / malformed ones rejected, two's complement through ReadSigned, whole bytes out without Flush, "
                       "FixedSliceWriter/ByteWriter prefix-at-capacity, stickiness and big-endian oracles" % (exh, n, n, n))


def replay(ctx, path):
    import json
    r = json.load(open(path))
    print(json.dumps(r, indent=1))
    return 0
