"""C13 — bit, Exp-Golomb and emulation-prevention coding are exact inverses."""
import os
import common
from common import sh2

LEVEL = "proof"
MANIFEST = {
    "technique": "Coq proof over a hand-written Gallina model of the bits package + differential correspondence (extracted OCaml vs Go)",
    "level_text": "Theorems (coq/c13/C13Theorems.v, 48 - the C13b and round-4 ones group related statements -, no length bound on byte strings or op sequences): the EBSP writer state machine "
                  "equals the one-shot escape spec, escape output has no forbidden triple, every 00 00 03 is an inserted escape and every "
                  "inserted byte is required, unescape inverts escape. Exact domain of the 64-bit accumulators: Write(v, n) appends exactly "
                  "the n low bits whenever pending + n <= 64 (every n <= 57 at any alignment, n = 0 appends nothing, up to 64 at a byte "
                  "boundary), a wider value is masked, never spilled, and for every n whatsoever the only loss is that the topmost "
                  "pending + n - 64 pending bits become zeros; EBSPReader.Read(n) for every n returns the true value modulo 2^(64 - k), "
                  "k = bits left pending, with the stream position always right, hence exact whenever n + k <= 64 (every n <= 57); "
                  "witnesses show both bounds tight (7 pending bits + Write(1, 58) corrupts the previous value, Read(58) after 7 bits "
                  "loses its top bit). EBSPReader.ReadBytes(k) at ANY bit alignment returns the next k bytes of the unescaped stream, k "
                  "unbounded (C13_reader_bytes_unaligned). Reader.ReadSigned's 64-bit sign extension is two's complement for every width 1..64 and inverts "
                  "the writer's masking of a signed value; ReadSignedGolomb's conversions never overflow int. Exp-Golomb: the "
                  "repaired WriteExpGolomb (repo commit 9ec0951) codes every value <= 2^57 - 2 exactly and refuses every larger one with the "
                  "error set and nothing written (before the repair 2^57 - 1 after 7 pending bits silently corrupted the value written "
                  "before it - theorem C13_ue_bound_refuted on the old model - and the maximal uint looped forever: the prefix loop in "
                  "wrapping uint arithmetic equals the model's loop for every other value and provably never returns for that one); the reader decodes "
                  "every code up to 2^58 - 2; the signed mapping is exact below the bound and differs from the standard's only at "
                  "codeNum 2^64 - 1 (uint wrap, Go returns 0). Round trip over that exact domain (widths <= 57, ue <= 2^57 - 2, se) "
                  "through the error-aware writer + rbsp_trailing_bits, MoreRbspData false there without moving, ReadRbspTrailingBits "
                  "accepts / rejects exactly; counters report positions in the escaped stream. EBSPWriter and Writer over an io.Writer "
                  "that fails after k bytes deliver exactly the first k bytes of the fault-free output, AccError is set exactly when the "
                  "output was cut, the first error is kept and every later call is a no-op on the whole state. Readers: after the first "
                  "error every read (Read, ReadFlag, ReadExpGolomb, ReadSignedGolomb, ReadBytes, MoreRbspData, ReadRbspTrailingBits, "
                  "Reader.Read/ReadFlag/ReadSigned) returns the zero value and leaves error, accumulator and counters untouched; the read "
                  "that fails returns 0 having consumed every input byte, and fails exactly when fewer than n bits are left. Writer / "
                  "FixedSliceWriter.WriteBits+FlushBits round-trip through Reader; FixedSliceWriter capacity / stickiness / byte methods, "
                  "ByteWriter prefix-at-limit; the same for the plain Reader.Read, and Reader.ReadSigned(n) returns the next n bits as a "
                  "two's-complement number whenever n + k <= 64. Reader.ReadRemainingBytes (C13_read_remaining_bytes, "
                  "C13_remaining_roundtrip): on every error-free reader state it returns exactly the unread bytes when no bits are "
                  "pending (no error, byte counter not moved, reader drained: every later read of >= 1 bit fails with 0) and nil + error "
                  "with 1..7 bits pending, nil and no change after an error; values written with Writer + Flush followed by ANY bytes "
                  "are read back and the call returns exactly those bytes iff the values fill whole bytes. "
                  "FixedSliceWriter.WriteString (C13_fsw_write_string) is WriteBytes of the string's bytes plus the terminator under ONE "
                  "capacity check - all or nothing, pending bits untouched, never beyond the capacity -, so every FixedSliceWriter "
                  "theorem holds for op sequences containing it. ReadExpGolomb / ReadSignedGolomb on a code with ANY number q of leading zero bits whose q suffix bits are "
                  "present (C13_read_golomb_any, malformed streams included, q unbounded): the value is ((2^q - 1) mod 2^64 + suffix mod "
                  "2^(64 - k)) mod 2^64 with k = bits left pending, no error, exactly 2q + 1 bits consumed. Only explored (correspondence "
                  "+ search on the real code, not proved): codes of more than 56 leading zeros whose suffix is cut short by the end of "
                  "the stream. The model "
                  "is tied to /repo on every run by running it (extracted) against the real bits package on exhaustive small byte "
                  "strings, every width 0..70 after every number of pending bits, and random op sequences.",
    "level_note": "Trusted: Coq kernel, extraction (ExtrOcamlBasic), the OCaml/Go glue, and the correspondence being only as good as "
                  "its generated inputs. The failing io.Writer is modelled as 'accepts k one-byte writes, then fails' (harness type failAt, "
                  "also in a transient variant that a writer keeping its first error cannot tell apart); short writes without an error and "
                  "io.Reader failures other than EOF are not modelled. C13Model.write_ue / read_se (imported by C15..C19) are kept as they "
                  "were: they mirror the code for values <= 2^57 - 2 resp. codeNum < 2^64 - 1 (theorems C13_faultfree_is_writer, "
                  "C13_se_uint_boundary); the repaired / wrapping behaviour lives in C13ModelExt (write_ue_x, read_se64). Go uint is taken "
                  "to be 64 bits. ReadRemainingBytes: io.ReadAll on the bytes.Reader cannot fail (that error path is not modelled); the "
                  "exhausted underlying reader is modelled by cutting the input at the read position (C13ModelTail.read_remaining). "
                  "The slice readers (bits/fixedslicereader.go, not an anchored file) are not modelled.",
}


import re
_LONG = re.compile(r"^R\t\d+\tE\t[0-9a-f]*\t(b:\d;)?([uS];)+b:8;b:1\t")


def build(ctx):
    exe, err = common.go_build("c13")
    if exe is None:
        raise common.CheckError("harness does not build against /repo with -tags verif:\n" + err[-2000:])
    model, err = common.build_model("c13", "C13Extract.v", "c13_driver.ml")
    if model is None:
        raise common.CheckError(err)
    return exe, model


def run(ctx):
    ctx.cov["trusted_base"] = common.TRUSTED_BASE_COMMON + [
        "model: coq/c13/C13Model.v + C13ModelExt.v are a hand transcription of bits/ebspwriter.go, bits/ebspreader.go, "
        "bits/writer.go, bits/reader.go, bits/fixedslicewriter.go, bits/bytewriter.go; C13ModelTail.v: Reader.ReadRemainingBytes, "
        "FixedSliceWriter.WriteString",
        "harness/c13/ext2.go failAt (the io.Writer under EBSPWriter/Writer: accepts k bytes, then fails - permanently or once)",
        "harness/c13/ext.go limitedWriter (the io.Writer under ByteWriter: accepts N bytes, then fails after a partial write)",
        "spec: coq/c13/C13Spec.v escape/unescape/forbidden (H.264 7.4.1 rule, written by hand)",
    ]
    ctx.assumptions += ["the io.Writer under EBSPWriter/Writer either never fails or fails from the k-th one-byte write on (no short "
                        "writes without error); under ByteWriter it accepts a fixed number of bytes; the io.Reader is a bytes.Reader "
                        "(EOF is the only error)",
                        "values are Go uint (64 bit); widths 0..70 are exercised"]
    # 1 harness from the current /repo tree + extracted model
    exe, model = build(ctx)
    # 2 proofs
    pr = ctx.proofs("c13", "C13Theorems.v")
    # 3 correspondence
    n = ctx.n(2000, 60000)
    exh = ctx.n(6, 9)
    rc, cases, e = sh2([exe, "corr", "-seed", str(ctx.seed), "-n", str(n), "-exh", str(exh)], timeout=3000)
    if rc != 0:
        raise common.CheckError("harness corr failed: " + e[-1000:])
    lines = cases.splitlines()
    res = common.run_model(model, cases)
    mism = [l for l in res if not l.startswith("OK ")]
    distinct = len(set(l.split("\t", 2)[2] for l in lines if "\t" in l))
    ctx.cov["evaluations"] += len(lines)
    ctx.cov["distinct_nontrivial"] += distinct
    ctx.notes["correspondence"] = {
        "cases": len(lines), "mismatches": len(mism), "distinct_cases": distinct,
        "exhaustive_alphabet_len": exh,
        "kinds": {k: sum(1 for l in lines if l.startswith(k + "\t")) for k in ("W", "R", "F", "B", "X")},
        # round 4: cases that exercise the two methods added in C13ModelTail.v (field 4 = the ops of R / F lines)
        "read_remaining_cases": sum(1 for l in lines if l.startswith("R\t") and
                                    any(o == "r" for o in l.split("\t")[4].split(";"))),
        "read_remaining_returned_bytes": sum(1 for l in lines if l.startswith("R\t") and
                                             any(o.startswith("h") for o in l.split("\t")[5].split(","))),
        # R lines of harness/c13/tail.go genLongCodes (mode E, ops [b:p;] u|S ... ;b:8;b:1): the hypotheses of
        # C13_read_golomb_any hold by construction; counted: those where the real reader then read the marker byte a5 back
        "golomb_any_cases": sum(1 for l in lines if _LONG.match(l)),
        "golomb_any_marker_read_back": sum(1 for l in lines if _LONG.match(l) and l.split("\t")[5].split(",")[-2].startswith("a5/0/")),
        "write_string_cases": sum(1 for l in lines if l.startswith("F\t") and
                                  any(o.startswith("s:") for o in l.split("\t")[3].split(";"))),
    }
    ctx.cov["samples"] += [l[:300] for l in lines[1000:1003]] + [l[:300] for l in lines[-3:]]
    ctx.log("correspondence: %d cases, %d mismatches" % (len(lines), len(mism)))
    # 4 search: the property itself on the implementation
    ns = ctx.n(3000, 100000)
    rc, so, e = sh2([exe, "search", "-seed", str(ctx.seed), "-n", str(ns), "-exh", str(exh)], timeout=3000)
    if rc != 0:
        raise common.CheckError("harness search failed: " + e[-1000:])
    fails = []
    for l in so.splitlines():
        f = l.split("\t")
        if f[0] == "FAIL":
            fails.append(f)
        elif f[0] == "EVALS":
            ctx.cov["evaluations"] += int(f[1])
            ctx.notes["search_evaluations"] = int(f[1])
    for f in fails:
        ctx.failing_input(f[1], f[2], f[3], f[4])
    ctx.log("search: %d failing inputs" % len(fails))
    ctx.notes["alignment_sweep"] = (
        "harness/c13/sweep.go, in corr AND search on every run: every reader / writer method (Read, ReadFlag, ReadExpGolomb, "
        "ReadSignedGolomb, ReadBytes, MoreRbspData, ReadRbspTrailingBits, Reader.Read / ReadSigned; EBSPWriter Write / "
        "WriteExpGolomb / WriteSEIValue / StuffByteWithZeros / WriteRbspTrailingBits, Writer.Write / Flush, FixedSliceWriter "
        "WriteBits / FlushBits / WriteBytes / WriteZeroBytes / WriteUintN / WriteIntN / WriteUnityMatrix) at every bit alignment "
        "0..7 with every size class (0, 1, 7, 8, 9, 16, 17, 64, 65, 71 bytes; widths 0..64 at the byte and word boundaries; "
        "Exp-Golomb codes of 1..63 bits), on high-bit data and on escape-rich data, counters observed after every op; search "
        "oracle = independent bit packer + naiveEscape (values where width + pending bits <= 64, positions in the escaped "
        "stream); theorem C13_reader_bytes_unaligned states ReadBytes for any alignment. Closes the miss 'ReadBytes fetching "
        "eight bytes per Read(64)' (wrong only unaligned with n >= 8): 77 failing inputs + 77 model mismatches on that change")
    ctx.notes["hygiene_oracles"] = (
        "harness/c13/hygiene.go: reader op sequences (written streams with look-aheads mixed in, arbitrary zero-heavy data) also on a "
        "bytes.Reader over a guarded sub-slice, on ReadSeekers handing out one byte per Read / data together with io.EOF "
        "(reader-dependent), on a ReadSeeker NOT starting at offset 0 (depends-on-reader-offset: finding C13-F3, fixed 823b82c), "
        "with a second reader object stepped in between (depends-on-other-objects); ReadBytes / ReadRemainingBytes results re-read "
        "after later reads and after the caller overwrote its buffer; EBSPWriter / Writer / ByteWriter into a plain io.Writer and "
        "interleaved with a second writer object; NewFixedSliceWriterFromSlice(buf[:n]) with spare capacity vs NewFixedSliceWriter(n) "
        "op by op incl. overflowing ops (writes-beyond-len, depends-on-capacity), WriteBytes / WriteSlice arguments re-used by the "
        "caller. Not demanded: NewFixedSliceWriterFromSlice writes INTO the slice it is given (documented)")
    if mism and not fails:
        by_id = {}
        for l in lines:
            p = l.split("\t")
            if len(p) > 1:
                by_id[p[1]] = l
        first = mism[0].split(" ")
        ctx.violation({"kind": "correspondence-mismatch", "correspondence": "C13Model vs bits package (harness c13 corr)",
                       "mismatches": len(mism), "first_case": by_id.get(first[1], "")[:2000], "model_says": mism[0][:2000]},
                      "model/implementation disagree on %d cases" % len(mism), no_input=True)
    ctx.proof_violation_if_broken(pr, "c13 search: %d evaluations, no failing input" % ctx.notes.get("search_evaluations", 0))
    ctx.cov["rule"] = ("corr: every byte string over {00,01,02,03,ff} up to length %d through Write(b,8) and the reader, plus "
                       "%d random op sequences (EBSP/plain/fixed writers incl. Flush mid-stream and none at the end, readers on writer "
                       "output and on arbitrary bytes incl. MoreRbspData/ReadRbspTrailingBits/ReadSigned), %d FixedSliceWriter cases "
                       "(all Write* methods, capacity 0..200) and %d ByteWriter cases (limit 0..120); distinct = distinct case lines; "
                       "search: round trip against an independent bit packer + naive escape, forbidden-pattern scan, byte AND bit counters "
                       "after every value, MoreRbspData true before / false at the trailing bits and position-neutral, trailing bits "
                       "accepted / malformed ones rejected, two's complement through ReadSigned, whole bytes out without Flush, "
                       "FixedSliceWriter/ByteWriter prefix-at-capacity, stickiness and big-endian oracles; C13b: every width 0..70 after "
                       "0..7 pending bits (writers and readers, exhaustive), %d op sequences with widths 0..70 / junk above the width / ue "
                       "and se over the whole uint range over a sink failing at byte k, readers on zero-heavy streams (prefixes of 50..72 "
                       "zero bits) and after EOF; search: round trip for widths <= 57 and ue <= 2^57-2 against the packer with junk above the "
                       "width, every ue value coded exactly or refused cleanly (hang probe for the maximal uint), delivered bytes = prefix "
                       "of the fault-free output under a permanently or transiently failing sink, sticky read errors with frozen counters; "
                       "round 4 (harness/c13/tail.go): plain reader cases with ReadRemainingBytes after 0..25 bits of 0..3 bytes (exhaustive) "
                       "and after random aligned / unaligned reads, followed by further reads and calls; WriteString (any bytes, with / "
                       "without terminator) is one of the FixedSliceWriter ops of every F case and FixedSliceWriter oracle; search: values + "
                       "Flush + arbitrary tail -> values back and ReadRemainingBytes = the tail iff byte aligned, nil + sticky error "
                       "otherwise, nil after a failed read, nothing left afterwards; WriteString = bytes (+00) at exact / roomy capacity, "
                       "error and nothing beyond the capacity when too small; Exp-Golomb codes with 0..80 leading zeros (boundaries 56..65 "
                       "preferred) after 0..7 bits, escaped, marker byte behind them: corr on every case, search = no error, marker read "
                       "back (position), codeNum for q <= 57"
                       % (exh, n, n, n, n))


def replay(ctx, path):
    import json
    r = json.load(open(path))
    print(json.dumps(r, indent=1))
    return 0
