"""C03 — the two decoders and the two encoders are interchangeable."""
import os
import re
import shutil
import common
from common import sh2

LEVEL = "proof"
MANIFEST = {
    "technique": "Coq proof over Gallina models of the separately written pairs (framing AND the leaf decoder pairs trun, senc, mdat, "
                 "stsd, visual sample entry, each decoder transcribed from its own Go text) + a generic delegation theorem instantiated for "
                 "every pair that a go/ast + go/types source-fact extractor, re-run on every check, classifies as delegating with a "
                 "position-relative SR decoder (facts written to coq/c03/C03Facts.v and decided by vm_compute theorems; the extractor is "
                 "re-tested on every run against a hand-checked table, 17 hand rewrites of a scratch copy of the sources and the reader "
                 "methods observed at run time) + generated registry facts + differential "
                 "correspondence (extracted OCaml vs Go: decoded fields, sizes, positions, outcome classes) + the property itself "
                 "evaluated on testdata files, harvested and generated boxes and mutants (structural comparison of the two decodings)",
    "level_text": "PROVED for all inputs (coq/c03/C03Theorems.v): EncodeContainer = EncodeContainerSW on every container tree and "
                  "File.Encode = File.EncodeSW (init, sidx, segments, fragments, mfra; segment and box-tree mode) given leaves that encode "
                  "identically through their two methods (C03_encode_agree, C03_box_encode_agree; the pinned EncodeSW without mfra is refuted); "
                  "the same as STATE TRANSFORMERS over encode HISTORIES (C03EncHistModel.v: MoofBox, MdatBox, Fragment, MediaSegment, File "
                  "Encode and EncodeSW, one model function per Go text, over the C02 aggregate states - trun data offsets, tfhd / trun flags and "
                  "defaults after OptimizeTfhdTrun, mdat LargeSize, EncOptimize): state and output after Encode = state and output after EncodeSW "
                  "(C03_encode_state_agree); two histories that differ only in which encoder runs at each encoding step - with Size, Info and "
                  "ARBITRARY state changes (additions, optimisation on/off) in between - give the same outcomes and the same final state "
                  "(C03_encode_history_agree); the C02 history theorems hold for the two-text model (C03_encode_history_c02); an EncodeSW that keeps "
                  "an already-set data offset is refuted by EncodeSW, add a sample, EncodeSW (C03_encode_stale_offset_refuted); "
                  "the DecodeFile and DecodeFileSR loops build the same File (grouping and StartPos) for every list of top-level box shapes "
                  "under the options both support (C03_file_agree), and with the per-moof SECOND SENC PASS inside both loops, each transcribed from its own Go text "
                  "(C03_file_agree_senc over boxes that carry the moov's tracks - tkhd id, clear / encrypted entry, tenc IV size - and the moof's trafs - "
                  "tfhd id, saio, sbgp / sgpd, senc-like children: the same File AND the same state of the picked senc of every traf of every moof; "
                  "C03_senc_pass_agree: the pass visits EVERY traf, each judged on its own, and fails exactly at the first failing one; "
                  "C03_senc_pass_break_differs: a `break` for `continue` on one path falsifies it); every canonical byte string - compact headers OR the 16-byte largesize "
                  "header that MdatBox.Encode keeps (CLarge), any nesting of container kinds - is accepted by DecodeBox and DecodeBoxSR with "
                  "the same tree, i.e. the same Size() of every box and the same start position of everything after it "
                  "(C03_decode_agree_canonical, C03_std_canon_large), and a canonical file yields the same box sequence from both "
                  "byte-level file loops (C03_file_boxes_agree). LEAF PAIRS, both decoders modelled separately: trun (C03_trun_pair_agree: "
                  "for EVERY body behind a header with Size = 8 + len(body) the two decoders both fail or return the same fields, the SR "
                  "decoder consuming exactly the body wherever it sits in the caller's buffer), senc (C03_senc_pair_agree, compact and "
                  "16-byte header, text of /repo b8f1424), mdat (C03_mdat_pair_agree, both header lengths, LargeSize carried on both "
                  "paths); whole boxes through DecodeBox/DecodeBoxSR followed by arbitrary bytes (C03_leaf_boxes_agree); the leaf "
                  "hypotheses of the framing theorems are discharged for these pairs (C03_pair_leaves_ok, C03_pair_canon_trun/senc/mdat/"
                  "large_mdat, C03_pair_decode_agree_canonical, C03_pair_file_boxes_agree); stsd (C03_stsd_pair_agree_canonical) and the "
                  "visual sample entry (C03_vse_pair_agree_canonical): on every canonical payload (entry count = entries / 78 fixed bytes "
                  "with name length <= 31; canonical children over ANY leaf pair satisfying the leaf contract) both decoders accept with "
                  "the same value. The compact-header guard of the trun theorem is exact (C03_trun_large_header_differs, witness "
                  "replayed on the Go code; not a canonical string, so not a property violation); a compact header announcing more body bytes "
                  "than present is rejected by both paths except mdat on the SR path (empty box, AccError set; C03_leaf_boxes_truncated). "
                  "ENCODER pairs written twice: MdatBox, StsdBox, VisualSampleEntryBox Encode = EncodeSW given agreeing children "
                  "(C03_mdat_enc_agree, C03_stsd_enc_agree, C03_vse_enc_agree: the hypothesis `agree` is discharged for them; TrunBox and "
                  "SencBox Encode call their own EncodeSW). The delegation pattern of the remaining reader-path decoders (read the body, run the SR "
                  "decoder on a private reader) is sound for EVERY SR decoder that is a decision tree of position-relative reader operations "
                  "(C03_delegate_sound, C03_prog_pair_agree over the C04 FixedSliceReader model); instantiated for mfhd, tfdt (both written twice in "
                  "Go) and tfhd (C03_fragment_progs_local, C03_mfhd_pair_agree), whose programs are tied to the Go code by the P lines; for the "
                  "other delegating decoders see ALL PAIRS below. "
                  "The key sets of decoders and decodersSR "
                  "are equal (C03_registry, regenerated from the hook on every run). "
                  "ALL PAIRS, from the sources on every run (C03_all_pairs_classified, C03_facts_cover_registry, C03_kinds_match over the "
                  "generated coq/c03/C03Facts.v): each of the 134 registered box types has a reader-path decoder that is (i) DELEGATING - "
                  "exactly [guards on the header alone, repeated at the start of the SR decoder;] data, err := readBoxBody(r, hdr); if err != "
                  "nil { return nil, err }; sr := bits.NewFixedSliceReader(data); return S(hdr, startPos, sr) with S the decoder registered in "
                  "decodersSR under the same key - and S uses its reader only through position-relative operations (74 types: "
                  "C03_delegate_sound_ext / C03_delegating_pair_agree, proved once for all extended reader programs: ReadUintN/IntN, ReadBytes, "
                  "ReadFixedLengthString with any count, zero-terminated strings with a count below 2^62, SkipBytes, AccError, positions relative "
                  "to the entry; buffers below 2^61 bytes), or delegating and named: the visual sample entries (C03_vse_pair_agree_canonical), "
                  "trep (C03_counted_pairs_agree_canonical), wvtt (C03_entry_pairs_agree_canonical), evte and stpp (C03_xentry_pairs_agree_canonical: a prefix "
                  "that is a local reader program, then children while payload bytes remain), meta (C03_meta_pair_agree_canonical: ISO and QuickTime form, "
                  "LookAhead sees the same bytes on both readers), sgpd with every grouping type but alst (C03_sgpd_pair_agree: DecodeSgpdSR with the entry "
                  "decoders seig / roll / 'rap ' / unknown behind the table sgeDecoders written as ONE reader program, coq/c03/C03SgpdModel.v, tied to the code by the G lines; "
                  "it is local for EVERY entry count, so whatever the reader path accepts the SR path accepts with the same value, anywhere in the caller's buffer, "
                  "ending where the private run ended, without error), or EXPLORED: esds, and sgpd with alst entries (DecodeAlstSampleGroupEntry asks "
                  "sr.NrRemainingBytes(), which differs between the private and the caller's reader); "
                  "(ii) a CONTAINER TWIN - the same text around DecodeContainerChildren / ...SR (20 types: the container kind of "
                  "C03_decode_agree_canonical; for edts sinf stbl, whose SR decoder returns sr.AccError() instead of nil, C03_twin_accerr_canonical: "
                  "on a canonical box at any position of the buffer the test never fires) or moov/moof (reader path reads the body and runs the "
                  "SR text on it: KContBody with the extracted flag); (iii) a BODY-FUNCTION pair - readBoxBody then REST(data) against "
                  "REST(sr.ReadBytes(hdr.payloadLen())), bound first (with or without a test of the accumulated error) or in place, REST the same "
                  "text not touching the reader: avcC hvcC av1C dac3 dec3 mdat (C03_bodyfn_pair_agree: the same pure function of the body, the SR "
                  "decoder standing at the end of the body without error; C03_bodyfn_short for a missing body); free skip cdat styp are RAW-BODY pairs "
                  "(readBoxBody vs ReadBytes(payloadLen)+AccError into the same box, len(data) = hdr.payloadLen(): the opaque leaf of "
                  "C03_std_canon_leaf), emeb vtte PURE TWINS (same text, reader untouched); (iv) SEPARATELY WRITTEN and named in the theorem, with "
                  "BOTH decoders modelled: trun senc stsd mfhd tfdt, dref (C03_counted_pairs_agree_canonical), the audio sample entries mp4a enca "
                  "ac-3 ec-3 (C03_entry_pairs_agree_canonical: the reader path runs the READER-path box decoder on the rest of the body), or "
                  "vttc, whose SR decoder only initialises Children with an empty slice where the reader path leaves it nil, is a container twin (nil == empty). Explored-only decoder keys: 2 (were 22): esds (descriptor parsing with absolute positions), sgpd - now only its alst entries (the other "
                  "entry decoders behind the function table are modelled and proved, see above; the policy list still names sgpd as explored because of alst). "
                  "A reader-path decoder rewritten by hand, an SR decoder that "
                  "starts using GetPos / RemainingBytes / LookAhead ..., a guard present on one path only, or a type registered with another "
                  "SR decoder leaves its class: the theorem fails and the check names the box type, the function and the reason. ENCODERS "
                  "(C03_all_encoders_classified): of the 112 types with Encode and EncodeSW, 76 Encode methods are exactly `sw := "
                  "NewFixedSliceWriter(int(b.Size())); err := b.EncodeSW(sw); ...; w.Write(sw.Bytes())` (C03_enc_delegate_agree: equal bytes "
                  "provided Size() covers what EncodeSW writes; C03_enc_delegate_size_needed: the proviso is needed), SencBox.Encode is that behind "
                  "`s.setSubSamplesUsedFlag()`, which EncodeSW repeats (C03_enc_prelude_agree: equal for every idempotent prelude; idempotence from "
                  "C02), 18 are EncodeContainer / EncodeContainerSW and 2 EncodeHeader / EncodeHeaderSW alone (C03_box_encode_agree), File "
                  "MediaSegment Fragment InitSegment MoofBox are the same text twice and modelled (C03_encode_agree, C03_encode_state_agree); "
                  "MdatBox StsdBox VisualSampleEntryBox and DrefBox TrepBox WvttBox AudioSampleEntryBox (header, fixed bytes, children: "
                  "C03_pfx_enc_agree) are modelled pairs; MetaBox is that layout too (fixed bytes: the version/flags word, "
                  "none for a QuickTime atom); Av1CBox HvcCBox are the same text twice around ONE inner Encode / EncodeSW of the codec configuration "
                  "record, whose Encode is the delegation pattern (C03_confrec_enc_agree); explored-only encoder types: 0 (were 9). "
                  "NOT PROVED: that a Go SR decoder classified position-relative IS one of the reader programs the theorem quantifies over "
                  "(the extractor's claim: every use of the reader parameter, transitively through callees, is a listed method; counts bounded "
                  "as stated in harness/c03/srcfacts.go) - tested by the table, the rewrites and the run-time probe, and for tfhd by the P lines. "
                  "EXPLORED only: the named pairs above, i.e. part of the hypothesis `leaves agree` of the encode theorems: both paths are run on "
                  "every testdata file, every harvested box, generated trun/senc/mdat/stsd/sample-entry boxes, every box kind and every "
                  "file with 16-byte-header boxes before/between/after fragments, and their structured mutants; whenever one path accepts "
                  "and reproduces the input exactly the other must accept with an equal Info dump, field-by-field equal structure "
                  "(nil == empty, unexported fields included), equal Size of every box, LargeSize/StartPos of mdat, StartPos of "
                  "moof/fragments/segments, the same re-encoding, and Encode/EncodeSW must give equal bytes or both fail.",
    "level_note": "Trusted: Coq kernel, extraction, OCaml/Go glue, the hooks mp4.VerifDecoderKeys / mp4.VerifC03SencRaw, the source-fact extractor "
                  "harness/c03/srcfacts.go (go/parser + go/types, standard library only; shapes and the position-relative class are defined at its "
                  "top; files with //go:build verif are not analysed; termination of the decoders is assumed) and the hand-maintained lists of "
                  "coq/c03/C03FactsDefs.v. Models tied to /repo by "
                  "correspondence on generated inputs only: shape lists (incl. largesize mdat / unknown boxes) through both file loops; "
                  "decoded File structures with per-box encodings against File.Encode/EncodeSW bytes; box trees and byte-level files with "
                  "16-byte headers through both decoders (B, L); decoded fields, Size, bytes consumed and AccError of both decoders of "
                  "trun/senc/mdat (T) and stsd/visual sample entry (V) on valid and malformed boxes (every trun flag combination, lying "
                  "sizes, truncations, inflated counts, trailing bytes, 16-byte headers); model encoders of mdat/stsd/sample entry against the Go "
                  "bytes from decoded fields and the children's own encodings (M). stsd and the sample entry are modelled at "
                  "startPos 0 (only position differences are used; no uint64 wrap below 2^63). The leaf-pair theorems are about the "
                  "models; children of sample entries in the correspondence are the standard leaves (free/skip/mdat/unknown/udta/trun/senc).",
}

ULIMIT_KB = 6 * 1024 * 1024


def gen_registry(exe):
    """coq/c03/C03Registry.v is regenerated on every run from the hook-exported key sets."""
    rc, o, e = sh2([exe, "facts"], timeout=120)
    if rc != 0:
        raise common.CheckError("harness facts failed: " + e[-500:])
    keys = {"R": [], "S": []}
    for l in o.splitlines():
        k, h = l.split("\t")
        keys[k].append(bytes.fromhex(h))

    def coq_list(ks):
        return "[" + ";\n   ".join("[" + ";".join(str(b) for b in k) + "]" for k in ks) + "]"
    txt = ("(* C03Registry.v — GENERATED by checks/c03.py from mp4.VerifDecoderKeys() (hook /repo/mp4/verif_c03.go); do not edit.\n"
           "   Box types registered in `decoders` (io.Reader path) and `decodersSR` (SliceReader path), sorted, as byte lists. *)\n"
           "From V.lib Require Import Base.\nOpen Scope N_scope.\n\n"
           "Definition keys_decoders : list (list N) :=\n  %s.\n\n"
           "Definition keys_decoders_sr : list (list N) :=\n  %s.\n\n"
           "(* a box type registered in one table only breaks this obligation *)\n"
           "Lemma registry_equal : keys_decoders = keys_decoders_sr.\nProof. vm_compute. reflexivity. Qed.\n"
           % (coq_list(keys["R"]), coq_list(keys["S"])))
    p = os.path.join(common.COQ, "c03", "C03Registry.v")
    if not os.path.exists(p) or open(p).read() != txt:
        open(p, "w").write(txt)
    return len(keys["R"]), len(keys["S"]), sorted(set(keys["R"]) ^ set(keys["S"]))


FACTS_V = os.path.join(common.COQ, "c03", "C03Facts.v")
DEFS_V = os.path.join(common.COQ, "c03", "C03FactsDefs.v")

# Hand-checked expectations for the extractor (read off the Go text of the pinned tree): box type -> (reader-path decoder, class,
# SR decoder position-relative).  A deviation means the source changed class or the extractor is wrong: either way the
# classification theorem's lists need a second look, so it is reported.
EXPECT_DEC = {
    # delegating, relative
    "btrt": ("DecodeBtrt", "delegating", True), "tfhd": ("DecodeTfhd", "delegating", True), "colr": ("DecodeColr", "delegating", True),
    "stts": ("DecodeStts", "delegating", True), "ftyp": ("DecodeFtyp", "delegating", True), "mvhd": ("DecodeMvhd", "delegating", True),
    "sidx": ("DecodeSidx", "delegating", True), "kind": ("DecodeKind", "delegating", True), "url ": ("DecodeURLBox", "delegating", True),
    "ctim": ("DecodeCtim", "delegating", True), "CoLL": ("DecodeCoLL", "delegating", True), "vpcC": ("DecodeVppC", "delegating", True),
    "emib": ("DecodeEmib", "delegating", True), "hdlr": ("DecodeHdlr", "delegating", True),
    # delegating, SR decoder position-dependent
    "emsg": ("DecodeEmsg", "delegating", True), "meta": ("DecodeMeta", "delegating", False), "esds": ("DecodeEsds", "delegating", False),
    "avc1": ("DecodeVisualSampleEntry", "delegating", False), "sgpd": ("DecodeSgpd", "delegating", False),
    "trep": ("DecodeTrep", "delegating", False), "stpp": ("DecodeStpp", "delegating", False), "wvtt": ("DecodeWvtt", "delegating", False),
    "evte": ("DecodeEvte", "delegating", False),
    # container twins / body containers
    "dinf": ("DecodeDinf", "container-twin", False), "traf": ("DecodeTraf", "container-twin", False), "trak": ("DecodeTrak", "container-twin", False),
    "mdia": ("DecodeMdia", "container-twin", False), "minf": ("DecodeMinf", "container-twin", False), "udta": ("DecodeUdta", "container-twin", False),
    "mfra": ("DecodeMfra", "container-twin", False), "stbl": ("DecodeStbl", "container-twin+accerr", False),
    "edts": ("DecodeEdts", "container-twin+accerr", False), "sinf": ("DecodeSinf", "container-twin+accerr", False),
    "moov": ("DecodeMoov", "container-body", False), "moof": ("DecodeMoof", "container-body+accerr", False),
    # separately written
    "trun": ("DecodeTrun", "separate", True), "senc": ("DecodeSenc", "separate", True), "mdat": ("DecodeMdat", "body-fn", True),
    "stsd": ("DecodeStsd", "separate", False), "ac-3": ("DecodeAudioSampleEntry", "separate", False), "mfhd": ("DecodeMfhd", "separate", True), "tfdt": ("DecodeTfdt", "separate", True),
    "free": ("DecodeFree", "raw-body", True), "skip": ("DecodeFree", "raw-body", True), "cdat": ("DecodeCdat", "raw-body", True),
    "vtte": ("DecodeVtte", "pure-twin", True), "emeb": ("DecodeEmeb", "pure-twin", True), "avcC": ("DecodeAvcC", "body-fn", True), "dref": ("DecodeDref", "separate", False),
    "mp4a": ("DecodeAudioSampleEntry", "separate", False), "vttc": ("DecodeVttc", "container-twin", False), "styp": ("DecodeStyp", "raw-body", True),
    "dac3": ("DecodeDac3", "body-fn+accerr", True), "hvcC": ("DecodeHvcC", "body-fn", True), "dec3": ("DecodeDec3", "body-fn+accerr", True),
    "av1C": ("DecodeAv1C", "body-fn", True),
}
EXPECT_ENC = {
    "BtrtBox": "delegating", "TrunBox": "delegating", "TfhdBox": "delegating", "FtypBox": "delegating", "MvhdBox": "delegating",
    "SttsBox": "delegating", "EmsgBox": "delegating", "SidxBox": "delegating", "URLBox": "delegating", "ColrBox": "delegating",
    "DinfBox": "container", "TrafBox": "container", "MoovBox": "container", "StblBox": "container", "UdtaBox": "container",
    "VtteBox": "header", "EmebBox": "header",
    "File": "twin", "Fragment": "twin", "MediaSegment": "twin", "InitSegment": "twin", "MoofBox": "twin", "Av1CBox": "twin-deleg", "HvcCBox": "twin-deleg",
    "MdatBox": "separate", "StsdBox": "separate", "VisualSampleEntryBox": "separate", "AudioSampleEntryBox": "separate",
    "SencBox": "prelude", "DrefBox": "separate", "MetaBox": "separate", "TrepBox": "separate", "WvttBox": "separate",
}

# prelude-delegating encoders: type -> the prelude method (idempotent: C03_enc_prelude_agree)
ENC_PRELUDES = {"SencBox": "setSubSamplesUsedFlag"}

# Mutations of a scratch copy of the sources: (file, old text, new text, box type, what the extractor must then say).
# Each rewrites one decoder / encoder by hand with a subtle difference; run on EVERY check (the extractor is re-tested on
# every run; a mutation whose anchor text is no longer in the file is skipped and noted).
DELEG = "\tsr := bits.NewFixedSliceReader(data)\n\treturn Decode%sSR(hdr, startPos, sr)\n"
MUTATIONS = [
    ("btrt-own-body", "mp4/btrt.go", DELEG % "Btrt",
     "\tsr := bits.NewFixedSliceReader(data)\n\tb := &BtrtBox{BufferSizeDB: sr.ReadUint32(), MaxBitrate: sr.ReadUint32(), AvgBitrate: sr.ReadUint32()}\n\treturn b, nil\n",
     "dec", "btrt", ("separate", None)),
    ("tfhd-extra-statement", "mp4/tfhd.go", DELEG % "Tfhd",
     "\tsr := bits.NewFixedSliceReader(data)\n\tif len(data) < 8 {\n\t\treturn nil, io.ErrUnexpectedEOF\n\t}\n\treturn DecodeTfhdSR(hdr, startPos, sr)\n",
     "dec", "tfhd", ("separate", None)),
    ("stts-other-callee", "mp4/stts.go", DELEG % "Stts",
     "\tsr := bits.NewFixedSliceReader(data)\n\treturn DecodeCttsSR(hdr, startPos, sr)\n",
     "dec", "stts", ("separate", None)),
    ("mvhd-truncated-body", "mp4/mvhd.go", DELEG % "Mvhd",
     "\tsr := bits.NewFixedSliceReader(data[:len(data)-0])\n\treturn DecodeMvhdSR(hdr, startPos, sr)\n",
     "dec", "mvhd", ("separate", None)),
    ("ftyp-startpos-shifted", "mp4/ftyp.go", DELEG % "Ftyp",
     "\tsr := bits.NewFixedSliceReader(data)\n\treturn DecodeFtypSR(hdr, startPos+0, sr)\n",
     "dec", "ftyp", ("separate", None)),
    ("coll-guard-only-on-reader-path", "mp4/coll.go",
     "func DecodeCoLLSR(hdr BoxHeader, startPos uint64, sr bits.SliceReader) (Box, error) {\n\t// Only allow header size of 8 and correct total box size\n\tif hdr.Hdrlen != boxHeaderSize || hdr.Size != coLLBoxSize {",
     "func DecodeCoLLSR(hdr BoxHeader, startPos uint64, sr bits.SliceReader) (Box, error) {\n\t// Only allow header size of 8 and correct total box size\n\tif hdr.Hdrlen != boxHeaderSize || hdr.Size < coLLBoxSize {",
     "dec", "CoLL", ("separate", None)),
    ("btrt-sr-uses-remaining-bytes", "mp4/btrt.go", "\t\tAvgBitrate:   sr.ReadUint32(),\n\t}\n\treturn b, sr.AccError()",
     "\t\tAvgBitrate:   sr.ReadUint32(),\n\t}\n\t_ = sr.RemainingBytes()\n\treturn b, sr.AccError()",
     "dec", "btrt", ("delegating", False)),
    ("colr-sr-absolute-position", "mp4/colr.go", "\t\tc.ICCProfile = sr.ReadBytes(hdr.payloadLen() - 4)",
     "\t\tc.ICCProfile = sr.ReadBytes(hdr.payloadLen() - sr.GetPos())",
     "dec", "colr", ("delegating", False)),
    ("emsg-sr-absolute-position", "mp4/emsg.go", "\tnrBytesRead := currPos - initPos + boxHeaderSize\n", "\tnrBytesRead := currPos + boxHeaderSize\n",
     "dec", "emsg", ("delegating", False)),
    ("kind-sr-unbounded-string", "mp4/kind.go", "\tmaxLen := hdr.payloadLen() - 4 - 1\n",
     "\tmaxLen := int(hdr.Size)\n",
     "dec", "kind", ("delegating", False)),
    ("free-sr-reads-less", "mp4/free.go", "notDecoded: sr.ReadBytes(hdr.payloadLen())}", "notDecoded: sr.ReadBytes(hdr.payloadLen() - 0)}",
     "dec", "free", ("separate", None)),
    ("emeb-guard-differs", "mp4/eventmessage.go",
     "func DecodeEmebSR(hdr BoxHeader, startPos uint64, sr bits.SliceReader) (Box, error) {\n\tif hdr.Size != 8 {",
     "func DecodeEmebSR(hdr BoxHeader, startPos uint64, sr bits.SliceReader) (Box, error) {\n\tif hdr.Size < 8 {",
     "dec", "emeb", ("separate", None)),
    ("dinf-twin-skips-a-child", "mp4/dinf.go", "\tfor _, b := range l {\n\t\td.AddChild(b)\n\t}",
     "\tfor _, b := range l[:len(l)-0] {\n\t\td.AddChild(b)\n\t}",
     "dec", "dinf", ("separate", None)),
    ("moov-body-other-end", "mp4/moov.go",
     "\tsr := bits.NewFixedSliceReader(data)\n\tchildren, err := DecodeContainerChildrenSR(hdr, startPos+8, startPos+hdr.Size, sr)",
     "\tsr := bits.NewFixedSliceReader(data)\n\tchildren, err := DecodeContainerChildrenSR(hdr, startPos+8, startPos+hdr.Size-0, sr)",
     "dec", "moov", ("separate", None)),
    ("dac3-sr-reads-less", "mp4/dac3.go", "\tdata := sr.ReadBytes(hdr.payloadLen())\n\tif sr.AccError() != nil {\n\t\treturn nil, sr.AccError()\n\t}\n\treturn decodeDac3FromData(data)",
     "\tdata := sr.ReadBytes(hdr.payloadLen() - 0)\n\tif sr.AccError() != nil {\n\t\treturn nil, sr.AccError()\n\t}\n\treturn decodeDac3FromData(data)",
     "dec", "dac3", ("separate", None)),
    ("dec3-sr-other-function", "mp4/dec3.go", "\tif sr.AccError() != nil {\n\t\treturn nil, sr.AccError()\n\t}\n\treturn decodeDec3FromData(data)",
     "\tif sr.AccError() != nil {\n\t\treturn nil, sr.AccError()\n\t}\n\treturn decodeDec3FromData(data[:len(data)-0])",
     "dec", "dec3", ("separate", None)),
    ("avcc-sr-uses-reader-twice", "mp4/avcc.go", "\tavcDecConfRec, err := avc.DecodeAVCDecConfRec(sr.ReadBytes(hdr.payloadLen()))\n\tif err != nil {\n\t\treturn nil, err\n\t}",
     "\tavcDecConfRec, err := avc.DecodeAVCDecConfRec(sr.ReadBytes(hdr.payloadLen()))\n\tif err != nil {\n\t\treturn nil, err\n\t}\n\t_ = sr.ReadUint8()",
     "dec", "avcC", ("separate", None)),
    ("hvcc-sr-swallows-error", "mp4/hvcc.go", "\thevcDecConfRec, err := hevc.DecodeHEVCDecConfRec(sr.ReadBytes(hdr.payloadLen()))\n\treturn &HvcCBox{hevcDecConfRec}, err",
     "\thevcDecConfRec, _ := hevc.DecodeHEVCDecConfRec(sr.ReadBytes(hdr.payloadLen()))\n\treturn &HvcCBox{hevcDecConfRec}, nil",
     "dec", "hvcC", ("separate", None)),
    ("styp-guard-differs", "mp4/styp.go", "\tif hdr.payloadLen() < 8 {", "\tif hdr.payloadLen() < 4 {",
     "dec", "styp", ("separate", None)),
    ("senc-encode-other-prelude", "mp4/senc.go", "\ts.setSubSamplesUsedFlag()\n\tsw := bits.NewFixedSliceWriter(int(s.Size()))",
     "\ts.readButNotParsed = false\n\tsw := bits.NewFixedSliceWriter(int(s.Size()))",
     "enc", "SencBox", ("separate", None)),
    ("vttc-sr-nonempty-children", "mp4/wvtt.go", "\tb := VttcBox{Children: make([]Box, 0, len(children))}", "\tb := VttcBox{Children: make([]Box, 1, len(children)+1)}",
     "dec", "vttc", ("separate", None)),
    ("hvcc-inner-encode-by-hand", "hevc/hevcdecoderconfigurationrecord.go", "\tsw := bits.NewFixedSliceWriter(int(h.Size()))\n\terr := h.EncodeSW(sw)",
     "\tsw := bits.NewFixedSliceWriter(int(h.Size()) + 0)\n\terr := h.EncodeSW(sw)",
     "enc", "HvcCBox", ("twin", None)),
    ("btrt-encode-by-hand", "mp4/btrt.go", "\tsw := bits.NewFixedSliceWriter(int(b.Size()))\n\terr := b.EncodeSW(sw)",
     "\tsw := bits.NewFixedSliceWriter(int(b.Size()) + 0)\n\terr := b.EncodeSW(sw)",
     "enc", "BtrtBox", ("separate", None)),
    ("dinf-encode-not-container", "mp4/dinf.go", "\treturn EncodeContainer(d, w)", "\terr := EncodeContainer(d, w)\n\treturn err",
     "enc", "DinfBox", ("separate", None)),
    ("moof-encode-twin-broken", "mp4/moof.go", "\tfor _, b := range m.Children {\n\t\terr = b.Encode(w)",
     "\tfor _, b := range m.Children[0:] {\n\t\terr = b.Encode(w)",
     "enc", "MoofBox", ("separate", None)),
]


def policy_lists():
    """The hand-maintained lists of coq/c03/C03FactsDefs.v (single source: the Coq file)."""
    txt = re.sub(r"\(\*.*?\*\)", "", open(DEFS_V).read(), flags=re.S)
    out = {}
    for m in re.finditer(r"Definition\s+(c03_\w+)\s*:\s*list string\s*:=\s*\[(.*?)\]\s*\.", txt, re.S):
        out[m.group(1)] = set(re.findall(r'"([^"]*)"', m.group(2)))
    return out


def parse_facts(so):
    decs, encs, stats = [], [], ""
    for l in so.splitlines():
        f = l.split("\t")
        if f[0] == "DEC":
            decs.append({"key": bytes.fromhex(f[1]).decode("latin1"), "R": f[2], "S": f[3], "class": f[4], "accerr": f[5] == "true",
                         "relative": f[6] == "true", "methods": f[7], "rpos": f[8], "spos": f[9], "why": f[10], "whyrel": f[11] if len(f) > 11 else ""})
        elif f[0] == "ENC":
            encs.append({"type": f[1], "class": f[2], "pos": f[3], "why": f[4] if len(f) > 4 else ""})
        elif f[0] == "STATS":
            stats = " ".join(f[1:])
    return decs, encs, stats


def dec_coverage(d, L):
    """Mirror of C03FactsDefs.dec_ok / dec_coverage: (ok, coverage)."""
    c = d["class"]
    if c == "delegating":
        if d["relative"]:
            return True, "delegate-sound"
        if d["R"] in L["c03_delegating_nonrelative_proved"]:
            return True, "pair-theorem"
        return d["R"] in L["c03_delegating_nonrelative_explored"], "explored"
    if c in ("container-twin", "container-body", "pure-twin", "raw-body"):
        return True, "framing"
    if c == "body-fn":
        return True, "pair-theorem"
    if d["R"] in L["c03_separate_proved"]:
        return True, "pair-theorem"
    return d["R"] in L["c03_separate_explored"], "explored"


def enc_coverage(e, L):
    c = e["class"]
    if c in ("delegating", "container", "header"):
        return True, {"delegating": "enc-delegate", "container": "framing", "header": "framing"}[c]
    if c == "twin-deleg":
        return True, "enc-delegate"
    if c == "prelude":
        # the prelude method must be the one whose idempotence the theorem instantiates
        return e["type"] in L["c03_enc_prelude_proved"] and ENC_PRELUDES.get(e["type"]) == e["why"], "enc-delegate"
    if c == "twin":
        if e["type"] in L["c03_enc_twin_proved"]:
            return True, "framing"
        return e["type"] in L["c03_enc_twin_explored"], "explored"
    if e["type"] in L["c03_enc_separate_proved"]:
        return True, "pair-theorem"
    return e["type"] in L["c03_enc_separate_explored"], "explored"


def class_str(d):
    return d["class"] + ("+accerr" if d.get("accerr") and (d["class"].startswith("container") or d["class"] == "body-fn") else "")


def source_facts(ctx, exe):
    """Regenerates coq/c03/C03Facts.v from the sources, evaluates the classification policy on the listing (so that an
    offender can be named with its reason), compares with the hand-checked expectations and re-tests the extractor on
    mutated scratch copies of the sources."""
    rc, so, se = sh2([exe, "srcfacts", "-repo", common.REPO, "-out", FACTS_V], timeout=600)
    if rc != 0:
        raise common.CheckError("source-fact extractor failed: " + (se or so)[-1500:])
    if "WROTE\t" in so:
        ctx.log("source facts changed: coq/c03/C03Facts.v rewritten")
    decs, encs, stats = parse_facts(so)
    L = policy_lists()
    offenders = []
    cov = {}
    for d in decs:
        ok, c = dec_coverage(d, L)
        cov[c] = cov.get(c, 0) + 1
        if not ok:
            if d["class"] == "delegating":
                why = "its SR decoder %s is not position-relative: %s" % (d["S"], d["whyrel"])
                fn = d["S"] + " (" + d["spos"] + ")"
            else:
                why = "%s is %s, not delegating: %s" % (d["R"], class_str(d), d["why"] or "container twin whose SR decoder also returns sr.AccError()")
                fn = d["R"] + " (" + d["rpos"] + ")"
            offenders.append({"box_type": d["key"], "function": fn, "class": class_str(d), "relative": d["relative"], "reason": why})
    ecov = {}
    for e in encs:
        ok, c = enc_coverage(e, L)
        ecov[c] = ecov.get(c, 0) + 1
        if not ok:
            offenders.append({"box_type": e["type"], "function": "%s.Encode (%s)" % (e["type"], e["pos"]), "class": "enc-" + e["class"],
                              "relative": None, "reason": "Encode is %s, not a call of its own EncodeSW (or its prelude is not a listed idempotent method): %s" % (e["class"], e["why"])})
    # expectations
    by_key = {d["key"]: d for d in decs}
    exp_bad = []
    for k, (r, c, rel) in sorted(EXPECT_DEC.items()):
        d = by_key.get(k)
        got = None if d is None else (d["R"], class_str(d), d["relative"])
        if got != (r, c, rel):
            exp_bad.append({"box_type": k, "expected": [r, c, rel], "extracted": got,
                            "reason": "" if d is None else (d["why"] or d["whyrel"])})
    by_type = {e["type"]: e for e in encs}
    for t, c in sorted(EXPECT_ENC.items()):
        e = by_type.get(t)
        if e is None or e["class"] != c:
            exp_bad.append({"box_type": t, "expected": c, "extracted": None if e is None else e["class"], "reason": "" if e is None else e["why"]})
    # the extractor on mutated copies of the sources
    mut = run_mutations(ctx, exe, decs, encs)
    # dynamic cross-check: reader methods observed while decoding harvested boxes vs the static method sets
    rc, po, pe = sh2([exe, "probe", "-repo", common.REPO], timeout=600)
    pl = [l.split("\t") for l in po.splitlines()]
    probe_fail = [{"box_type": bytes.fromhex(f[1]).decode("latin1"), "method": f[2]} for f in pl if f[0] == "PROBEFAIL"]
    if rc not in (0, 1) or any(f[0] == "PROBEERR" for f in pl):
        raise common.CheckError("harness probe failed: " + (pe or po)[-800:])
    mut["probe"] = {"types_probed": sum(1 for f in pl if f[0] == "PROBE"), "relative_types_probed": sum(1 for f in pl if f[0] == "PROBE" and f[3] == "true"),
                    "decodes": sum(int(f[2]) for f in pl if f[0] == "PROBE"), "unpredicted_methods": probe_fail}
    if probe_fail:
        mut["missed"] = mut["missed"] + ["probe:%s.%s" % (x["box_type"], x["method"]) for x in probe_fail[:5]]
    stale = sorted(n for lst in L.values() for n in lst if n not in {d["R"] for d in decs} | {e["type"] for e in encs})
    ctx.notes["source_facts"] = {"stats": stats, "decoder_pairs": len(decs), "decoder_coverage": cov, "encoder_types": len(encs),
                                 "encoder_coverage": ecov, "offenders": offenders[:20], "expectations_checked": len(EXPECT_DEC) + len(EXPECT_ENC),
                                 "expectation_mismatches": exp_bad[:20], "extractor_mutation_tests": mut, "policy_names_without_fact": stale}
    ctx.cov["evaluations"] += len(decs) + len(encs) + len(mut["results"])
    ctx.log("source facts: %d decoder pairs %s, %d encoder types %s; %d offenders, %d/%d expectations differ, extractor mutation tests %d/%d detected (%d skipped), "
            "probe: %d relative decoders run on harvested boxes, %d unpredicted reader methods"
            % (len(decs), cov, len(encs), ecov, len(offenders), len(exp_bad), len(EXPECT_DEC) + len(EXPECT_ENC),
               mut["detected"], mut["applied"], mut["skipped"], mut["probe"]["relative_types_probed"], len(probe_fail)))
    return offenders, exp_bad, mut


def run_mutations(ctx, exe, decs0, encs0):
    """Copies the library sources to a scratch directory, applies one hand rewrite at a time, and runs the extractor on it.
    A mutation is applicable when its target is in its pinned class on the unmodified tree (decs0 / encs0)."""
    base_dec = {d["key"]: class_str(d) for d in decs0}
    base_enc = {e["type"]: e["class"] for e in encs0}
    pre = {"btrt": "delegating", "tfhd": "delegating", "stts": "delegating", "mvhd": "delegating", "ftyp": "delegating", "CoLL": "delegating",
           "colr": "delegating", "kind": "delegating", "emsg": "delegating", "dac3": "body-fn+accerr", "dec3": "body-fn+accerr", "avcC": "body-fn", "hvcC": "body-fn",
           "styp": "raw-body", "vttc": "container-twin", "SencBox": "prelude", "HvcCBox": "twin-deleg", "free": "raw-body", "emeb": "pure-twin", "dinf": "container-twin", "moov": "container-body",
           "BtrtBox": "delegating", "DinfBox": "container", "MoofBox": "twin"}
    base = os.path.join(common.BUILD, "c03-mut-%d" % os.getpid())
    res = {"applied": 0, "detected": 0, "skipped": 0, "results": [], "missed": []}
    try:
        for pkg in ("bits", "avc", "hevc", "sei", "aac", "av1", "mp4"):
            src, dst = os.path.join(common.REPO, pkg), os.path.join(base, pkg)
            os.makedirs(dst, exist_ok=True)
            for fn in os.listdir(src):
                if fn.endswith(".go") and not fn.endswith("_test.go"):
                    shutil.copyfile(os.path.join(src, fn), os.path.join(dst, fn))
        for name, rel, old, new, kind, key, want in MUTATIONS:
            path = os.path.join(base, rel)
            orig = open(path).read() if os.path.exists(path) else ""
            if (base_dec if kind == "dec" else base_enc).get(key) != pre[key]:
                res["skipped"] += 1
                res["results"].append({"mutation": name, "outcome": "skipped (%s is not %s on this tree)" % (key, pre[key])})
                continue
            if orig.count(old) != 1:
                res["skipped"] += 1
                res["results"].append({"mutation": name, "outcome": "skipped (anchor text not found exactly once)"})
                continue
            open(path, "w").write(orig.replace(old, new))
            rc, so, se = sh2([exe, "srcfacts", "-repo", base], timeout=600)
            open(path, "w").write(orig)
            res["applied"] += 1
            if rc != 0:
                res["results"].append({"mutation": name, "outcome": "extractor failed: " + (se or so)[-300:]})
                res["missed"].append(name)
                continue
            decs, encs, _ = parse_facts(so)
            if kind == "dec":
                d = {x["key"]: x for x in decs}.get(key)
                got = (d["class"], d["relative"]) if d else None
                ok = d is not None and d["class"] == want[0] and (want[1] is None or d["relative"] == want[1])
                reason = "" if d is None else (d["whyrel"] if want[1] is False else d["why"])
            else:
                e = {x["type"]: x for x in encs}.get(key)
                got = e["class"] if e else None
                ok = e is not None and e["class"] == want[0]
                reason = "" if e is None else e["why"]
            res["results"].append({"mutation": name, "target": key, "extracted": got, "detected": ok, "reason": reason[:200]})
            if ok:
                res["detected"] += 1
            else:
                res["missed"].append(name)
    finally:
        shutil.rmtree(base, ignore_errors=True)
    return res


def build(ctx):
    exe, err = common.go_build("c03")
    if exe is None:
        raise common.CheckError("harness does not build against /repo with -tags verif:\n" + err[-2000:])
    nr, ns, diff = gen_registry(exe)
    ctx.notes["registry"] = {"decoders": nr, "decodersSR": ns, "only_in_one_table": [d.decode("latin1") for d in diff]}
    model, err = common.build_model("c03", "C03Extract.v", "c03_driver.ml")
    if model is None:
        raise common.CheckError(err)
    return exe, model


def harness(exe, args, timeout):
    cmd = "ulimit -v %d; exec '%s' %s" % (ULIMIT_KB, exe, " ".join(str(a) for a in args))
    return sh2(["sh", "-c", cmd], timeout=timeout)


def run(ctx):
    ctx.cov["trusted_base"] = common.TRUSTED_BASE_COMMON + [
        "model: coq/c03/C03Model.v (container.go EncodeContainer(SW), file.go File.Encode(SW), mediasegment.go, fragment.go, "
        "initsegment.go Encode(SW), the DecodeFile / DecodeFileSR loops) is a hand transcription; the assembly steps are C04AsmModel.v",
        "model: coq/c03/C03LeafModel.v (trun.go DecodeTrun/DecodeTrunSR, senc.go DecodeSenc/DecodeSencSR, mdat.go DecodeMdat/DecodeMdatSR, "
        "stsd.go DecodeStsd/DecodeStsdSR, visualsampleentry.go DecodeVisualSampleEntry/...SR) is a hand transcription, one Gallina function per Go function",
        "model: coq/c03/C03SencPassModel.v (the case \"moof\" of the DecodeFile and of the DecodeFileSR loop, one Gallina function per Go text; the callees "
        "ContainsSencBox / IsEncrypted / GetSinf / ParseReadSenc / ParseReadBox are coq/c04/C04XrefModel.v + C04AllocModel.v, imported read-only)",
        "model: coq/c03/C03EncHistModel.v (Encode / EncodeSW of MoofBox, MdatBox, Fragment, MediaSegment, File as state transformers, one function per Go "
        "text; the states and the callees OptimizeTfhdTrun / SetTrunDataOffsets / MdatBox.Size are coq/c02/C02AggModel.v + coq/c05, imported read-only; "
        "hooks mp4.VerifC02FirstSampleFlags / VerifC05WriteOrderNr read two unexported trun fields)",
        "model: coq/c03/C03SgpdModel.v (sgpd.go DecodeSgpdSR, samplegroupentries.go decodeSampleGroupEntry and the seig / roll / rap / unknown entry decoders) "
        "is a hand transcription as one extended reader program; that the table sgeDecoders holds exactly seig roll 'rap ' alst is read off the Go text; alst is not modelled",
        "model: coq/c03/C03PfxModel.v (dref.go, trep.go, wvtt.go, audiosamplentry.go decoders and encoders) is a hand transcription, one Gallina function per Go function",
        "hook: /repo/mp4/verif_c03.go VerifDecoderKeys (add-only, build tag verif); coq/c03/C03Registry.v generated from it",
        "source facts: harness/c03/srcfacts.go classifies every registered decoder pair and every Encode/EncodeSW pair from the sources "
        "(coq/c03/C03Facts.v generated from it on every run); the classes it accepts are syntactic shapes, the step from `only listed reader "
        "methods are used` to `is a local reader program` is not machine-checked; policy lists in coq/c03/C03FactsDefs.v are hand-maintained",
    ]
    ctx.assumptions += [
        "leaves encode identically through Encode and EncodeSW (hypothesis of the encode theorems; explored for the real leaves)",
        "leaf decoder pairs named as explored in C03_all_pairs_classified: hypothesis `canonical leaf` of the decode theorems (explored); "
        "delegating pairs: the theorem needs the private run to end without accumulated error and buffers below 2^61 bytes",
        "the slice writer handed to EncodeSW is large enough; io.Writer never fails",
        "file-level decode agreement is stated for default options (DecodeFileSR has no ISM / lazy support)",
    ]
    exe, model = build(ctx)
    offenders, exp_bad, mut = source_facts(ctx, exe)
    pr = ctx.proofs("c03", "C03Theorems.v")
    n = ctx.n(400, 20000)
    exh = ctx.n(2, 2)
    rc, cases, e = harness(exe, ["corr", "-seed", ctx.seed, "-n", n, "-exh", exh], 3000)
    if rc != 0:
        raise common.CheckError("harness corr failed rc=%s: %s" % (rc, e[-1000:]))
    lines = [l for l in cases.splitlines() if l[:2] in ("D\t", "E\t", "B\t", "L\t", "T\t", "V\t", "M\t", "P\t", "Y\t", "H\t", "C\t", "G\t")]
    res = common.run_model(model, "\n".join(lines) + "\n")
    mism = [l for l in res if not l.startswith("OK ")]
    distinct = len(set(l.split("\t", 2)[2] for l in lines))
    ctx.cov["evaluations"] += len(lines)
    ctx.cov["distinct_nontrivial"] += distinct
    ctx.notes["correspondence"] = {
        "cases": len(lines), "mismatches": len(mism), "distinct_cases": distinct,
        "kinds": {k: sum(1 for l in lines if l.startswith(k + "\t")) for k in ("D", "E", "B", "L", "T", "V", "M", "P", "Y", "H", "C", "G")},
        # G lines: the driver also evaluates C03_sgpd_pair_agree on the run's inputs (hypothesis = the reader-path model accepts; then the SR
        # model must return the same value without error): cases satisfying the hypothesis / not satisfying it / alst inputs not compared
        "theorem_hypotheses_evaluated": {"C03_sgpd_pair_agree": {"satisfied": sum(1 for l in res if l.startswith("OK g") and l.endswith(" thm=1")),
                                                                 "not_satisfied": sum(1 for l in res if l.startswith("OK g") and l.endswith(" thm=0")),
                                                                 "alst_not_compared": sum(1 for l in res if l.startswith("OK g") and l.endswith(" skip"))}},
        "input_distribution": "D: all shape lists up to length %d over the 32-letter alphabet (C04's 29 + mdat(0/4) and an unknown box behind a 16-byte "
                              "header) + %d random longer lists, through DecodeFile and "
                              "DecodeFileSR with flags none / start-on-moof: outcome class, grouping, StartPos; E: the same lists (length >= 2) and 6 small "
                              "testdata files decoded (reader/SR, ISM on/off), the File structure dumped with each box's Encode and EncodeSW bytes, "
                              "model composition vs File.Encode / File.EncodeSW bytes in both modes; B: %d box trees (half of the leaves and a quarter of "
                              "the containers behind 16-byte headers; trun/senc leaves; stsd{sample entries}; every second tree mutated) + every std "
                              "kind x {large, nested large mdat, lying 64-bit sizes} through DecodeBox/DecodeBoxSR vs box_r/box_sr top_leaves; L: %d "
                              "byte-level progressive files over free/skip/mdat/unknown/udta/dinf with compact and 16-byte headers (every second one "
                              "mutated) through DecodeFile/DecodeFileSR vs file_r/file_sr: Size of every top-level box, StartPos of mdat; T: every trun "
                              "flag combination x 0..2 samples x {as is, sibling/junk after, 16-byte header, lying size fields, truncations, inflated "
                              "counts}, senc over version/flags/count/raw length, mdat, + %d random truns/sencs each with a mutated copy: fields, Size, "
                              "consumed, AccError of both decoders vs the two model decoders; V: the same for stsd and 8 sample-entry types (name "
                              "lengths 0/4/31/32/255, 0..2 children incl. lying children, boxes shorter than the 78 fixed bytes); M: every V input that decodes "
                              "to an stsd / sample entry and 8 mdat boxes: model encoders vs Encode/EncodeSW bytes; P: mfhd, tfdt (v0/v1), tfhd (all 32 "
                              "combinations of the optional-field flags) with the same variants: fields, Size, consumed, AccError of both decoders vs "
                              "the reader programs; C: dref, trep, wvtt, mp4a/enca/ac-3/ec-3 with 0..3 standard-leaf children x the same variants (lying sizes, "
                              "truncations, 16-byte headers, lying entry counts, boxes shorter than the fixed part) vs dref_r/sr, trep_r/sr, wvtt_r/sr, evte_r/sr, stpp_r/sr, meta_r/sr, ase_r/sr, and "
                              "their encoders (M) vs pfx_enc_w/sw; G: sgpd boxes, grouping types seig / roll / 'rap ' / two unknown names / alst x versions 0,1,2,3,255 x 0..3 entries "
                              "x default or per-entry description lengths (seig entries: per-sample IV, constant IV of 0/3/8/16 bytes, unprotected, IsProtected > 1), "
                              "lying counts (+1, +2..300), lying description / default lengths (+-1, other values, 0), the leafVariants set (16-byte headers, lying "
                              "sizes, truncations, trailing bytes) through DecodeBox / DecodeBoxSR vs sgpd_prog under xprog_body_r / xprog_sr: fields, every entry, "
                              "Size(), consumed, AccError (alst inputs are generated but not compared: not modelled); Y: synthesized files [ftyp moov{traks clear / encrypted with tenc IV 0/8/16 / without tenc / without tkhd / "
                              "without entry}] [free] (moof{1..4 trafs} mdat){1,2}, every traf with a track id or no tfhd and no senc / zero-sample senc / "
                              "unparsed senc that parses (8- or 16-byte IVs, sub-samples) / that does not / PIFF senc / saio matching, mismatching, empty / "
                              "seig sample group: every ordered pair of the 12 traf kinds, clear-encrypted-zero-sample triples in every order under 8 trak "
                              "sets, two moofs, + %d random; through DecodeFile and DecodeFileSR with flags none / start-on-moof vs decode_file_xr / "
                              "decode_file_xsr: outcome class, grouping, StartPos, and per traf (unparsed, len(IVs), len(SubSamples)) of the picked senc; "
                              "H: %d fragments / segments / files built through the public API (every third with hand-made shapes) + small testdata "
                              "files decoded (both modes), each under a fixed and a random history over Encode / EncodeSW / Size / Info / toggle "
                              "OptimizeTrun / add a full sample: after every step the outcome (Size, length + md5 + box lengths of the bytes, error, panic) "
                              "and the mutated fields vs hfrag/hseg/hfile_w for Encode and _sw for EncodeSW, the structure re-serialised after every "
                              "addition / toggle" % (exh, n, n, n, n, n // 4, n),
    }
    ctx.cov["samples"] += [l[:300] for l in lines[:2]] + [l[:300] for l in lines[len(lines) // 2:len(lines) // 2 + 2]]
    ctx.log("correspondence: %d cases, %d mismatches" % (len(lines), len(mism)))
    ns = ctx.n(8000, 800000)
    rc, so, e = harness(exe, ["search", "-seed", ctx.seed, "-n", ns], 6000)
    if rc != 0:
        raise common.CheckError("harness search failed rc=%s: %s" % (rc, e[-1000:]))
    fails = []
    for l in so.splitlines():
        f = l.split("\t")
        if f[0] == "FAIL":
            fails.append(f)
        elif f[0] == "EVALS":
            ctx.cov["evaluations"] += int(f[1])
            ctx.notes["search_evaluations"] = int(f[1])
    sigs = {}
    for f in fails:
        sigs.setdefault((f[1], f[2]), []).append(f)
    for (site, klass), fl in sorted(sigs.items()):
        f = min(fl, key=lambda x: len(x[3]))
        ctx.failing_input(site, klass, f[3][:20000], f[4][:600], extra={"count": len(fl)})
    ctx.notes["failing_signatures"] = ["%s/%s x%d" % (s, k, len(v)) for (s, k), v in sorted(sigs.items())]
    ctx.log("search: %d evaluations, %d failing inputs, %d signatures" % (ctx.notes.get("search_evaluations", 0), len(fails), len(sigs)))
    if mism and not fails:
        by_id = {l.split("\t")[1]: l for l in lines}
        first = mism[0].split(" ")
        ctx.violation({"kind": "correspondence-mismatch", "correspondence": "C03Model vs mp4 (harness c03 corr)",
                       "mismatches": len(mism), "first_case": by_id.get(first[1], "")[:4000], "model_says": mism[0][:2000]},
                      "model/implementation disagree on %d cases" % len(mism), no_input=True)
    # source facts: a pair that left its class without getting a pair model / being named in the policy
    if offenders:
        o = offenders[0]
        ctx.violation({"kind": "pair-left-its-class", "offenders": offenders[:50], "theorem": "C03_all_pairs_classified / C03_all_encoders_classified",
                       "facts_file": "coq/c03/C03Facts.v", "policy": "coq/c03/C03FactsDefs.v",
                       "searched": "%d evaluations of the property, %d failing inputs" % (ctx.notes.get("search_evaluations", 0), len(fails))},
                      "box type %r: %s; %s (%d offending pair(s); C03_all_pairs_classified does not hold)"
                      % (o["box_type"], o["function"], o["reason"], len(offenders)), no_input=not fails)
    elif exp_bad:
        b = exp_bad[0]
        ctx.violation({"kind": "source-facts-differ-from-hand-checked-table", "mismatches": exp_bad[:50]},
                      "source facts for %r changed class: expected %s, extracted %s (%s)" % (b["box_type"], b["expected"], b["extracted"], b["reason"]),
                      no_input=not fails)
    if mut["missed"]:
        ctx.violation({"kind": "extractor-self-test", "missed": mut["missed"], "results": mut["results"]},
                      "source-fact extractor self-test: hand rewrite(s) on a scratch copy of the sources not detected / reader methods observed at run time but not predicted: %s" % ",".join(mut["missed"][:4]),
                      no_input=True)
    if pr["failed"] and offenders:
        # the facts explain the broken classification theorem; make sure nothing else is broken
        ok, o = common.coq_make(["c03/C03DelegateExtProofs.vo", "c03/C03LeafEncProofs.vo", "c03/C03LeafTruncProofs.vo", "c03/C03LeafInstProofs.vo",
                                 "c03/C03Proofs.vo"], "c03")
        if not ok:
            ctx.proof_violation_if_broken(pr, "c03 search: %d evaluations" % ctx.notes.get("search_evaluations", 0))
    else:
        ctx.proof_violation_if_broken(pr, "c03 search: %d evaluations" % ctx.notes.get("search_evaluations", 0))
    ctx.cov["rule"] = ("corr: shape lists through both file decode loops + decoded File structures through both file encoders + box trees / byte-level "
                       "files with 16-byte headers + leaf boxes (trun, senc, mdat, stsd, sample entries) through both decoders; distinct = distinct "
                       "case lines; search: every testdata file, every harvested box (not mdat, <= 64 KiB), the repo fuzz seeds of the container family and "
                       "their structured mutants (C04 mutation set), every harvested box kind behind a 16-byte header / with a largesize mdat child, every "
                       "testdata file and synthesized progressive/fragmented file with largesize mdat boxes before/between/after its boxes, every generated "
                       "leaf-pair box - each self-sized one once more as the first child of a container with a sibling behind it, so that the SR decoder runs on a reader that "
                       "continues behind the box -, through both decode paths and both encoders: accept+reproduce on one path => accept, equal Info(all:1) dump, "
                       "field-by-field equal structure, equal sizes/LargeSize/StartPos/grouping and the same re-encoding on the other; "
                       "Encode vs EncodeSW equal bytes or both fail (both modes, ISM on/off); encode HISTORIES on API-built fragments / segments / files: the same "
                       "structure under a history and under the history with the two encoders exchanged (and Encode only / EncodeSW only), with "
                       "additions and OptimizeTrun toggles in between: equal outcome and equal mutated fields after every step")


def replay(ctx, path):
    import json
    r = json.load(open(path))
    print(json.dumps(r, indent=1)[:6000])
    w = r.get("witness", "")
    if w.startswith("hist:"):
        exe, _ = build(ctx)
        m = re.match(r"hist:kind=(\d+),seed=(\d+),wild=(\w+),([^|]*)\|(.*)", w)
        if m:
            rc, o, e = sh2([exe, "hist", m.group(1), m.group(2), m.group(3), m.group(4), m.group(5)], timeout=120)
            print("replayed on the current tree (one line per history: outcome/mutated fields after every step):\n" + o[:4000], e[-300:])
        return 0
    if "hex:" in w:
        exe, _ = build(ctx)
        hexs = w.split("hex:")[1].split()[0]
        kind = "X3" if "DecodeBox" in r.get("site", "") else "F3"
        rc, o, e = sh2(["sh", "-c", "ulimit -v %d; echo '%s RN0 %s' | timeout 60 '%s' worker" % (ULIMIT_KB, kind, hexs, exe)])
        print("replayed on the current tree:", o.strip()[:2000], e.strip()[-500:])
    return 0
