"""C03 — the two decoders and the two encoders are interchangeable."""
import os
import common
from common import sh2

LEVEL = "proof"
MANIFEST = {
    "technique": "Coq proof over Gallina models of the separately written pairs (framing AND the leaf decoder pairs trun, senc, mdat, "
                 "stsd, visual sample entry, each decoder transcribed from its own Go text) + generated registry facts + differential "
                 "correspondence (extracted OCaml vs Go: decoded fields, sizes, positions, outcome classes) + the property itself "
                 "evaluated on testdata files, harvested and generated boxes and mutants (structural comparison of the two decodings)",
    "level_text": "PROVED for all inputs (coq/c03/C03Theorems.v): EncodeContainer = EncodeContainerSW on every container tree and "
                  "File.Encode = File.EncodeSW (init, sidx, segments, fragments, mfra; segment and box-tree mode) given leaves that encode "
                  "identically through their two methods (C03_encode_agree, C03_box_encode_agree; the pinned EncodeSW without mfra is refuted); "
                  "the DecodeFile and DecodeFileSR loops build the same File (grouping and StartPos) for every list of top-level box shapes "
                  "under the options both support (C03_file_agree); every canonical byte string - compact headers OR the 16-byte largesize "
                  "header that MdatBox.Encode keeps (CLarge), any nesting of container kinds - is accepted by DecodeBox and DecodeBoxSR with "
                  "the same tree, i.e. the same Size() of every box and the same start position of everything after it "
                  "(C03_decode_agree_canonical, C03_std_canon_large), and a canonical file yields the same box sequence from both "
                  "byte-level file loops (C03_file_boxes_agree). LEAF PAIRS, both decoders modelled separately: trun (C03_trun_pair_agree: "
                  "for EVERY body behind a header with Size = 8 + len(body) the two decoders both fail or return the same fields, the SR "
                  "decoder consuming exactly the body wherever it sits in the caller's buffer), senc (C03_senc_pair_agree, compact and "
                  "16-byte header, text of /repo b8f1424), mdat (C03_mdat_pair_agree, both header lengths, LargeSize carried on both "
                  "paths); whole boxes through DecodeBox/DecodeBoxSR followed by arbitrary bytes (C03_leaf_boxes_agree); the leaf "
                  "hypotheses of the framing theorems are discharged for these pairs (C03_pair_leaves_ok, C03_pair_canon_trun/senc/mdat/"
                  "large_mdat, C03_pair_decode_agree_canonical, C03_pair_file_boxes_agree); stsd (C03_stsd_pair_agree_canonical) and the "
                  "visual sample entry (C03_vse_pair_agree_canonical): on every canonical payload (entry count = entries / 78 fixed bytes "
                  "with name length <= 31; canonical children over ANY leaf pair satisfying the leaf contract) both decoders accept with "
                  "the same value. The compact-header guard of the trun theorem is exact (C03_trun_large_header_differs, witness "
                  "replayed on the Go code; not a canonical string, so not a property violation); a compact header announcing more body bytes "
                  "than present is rejected by both paths except mdat on the SR path (empty box, AccError set; C03_leaf_boxes_truncated). "
                  "ENCODER pairs written twice: MdatBox, StsdBox, VisualSampleEntryBox Encode = EncodeSW given agreeing children "
                  "(C03_mdat_enc_agree, C03_stsd_enc_agree, C03_vse_enc_agree: the hypothesis `agree` is discharged for them; TrunBox and "
                  "SencBox Encode call their own EncodeSW). The delegation pattern of the remaining reader-path decoders (read the body, run the SR "
                  "decoder on a private reader) is sound for EVERY SR decoder that is a decision tree of position-relative reader operations "
                  "(C03_delegate_sound, C03_prog_pair_agree over the C04 FixedSliceReader model); instantiated for mfhd, tfdt (both written twice in "
                  "Go) and tfhd (C03_fragment_progs_local, C03_mfhd_pair_agree), whose programs are tied to the Go code by the P lines; for the "
                  "other delegating decoders, that they are such programs is not established by the check. "
                  "The key sets of decoders and decodersSR "
                  "are equal (C03_registry, regenerated from the hook on every run). "
                  "EXPLORED only: the remaining ~125 leaf decoder pairs (most reader-path decoders read the body and delegate to the SR "
                  "decoder) and the remaining leaf ENCODER pairs, i.e. the hypothesis `leaves agree` of the encode theorems: both paths are run on "
                  "every testdata file, every harvested box, generated trun/senc/mdat/stsd/sample-entry boxes, every box kind and every "
                  "file with 16-byte-header boxes before/between/after fragments, and their structured mutants; whenever one path accepts "
                  "and reproduces the input exactly the other must accept with an equal Info dump, field-by-field equal structure "
                  "(nil == empty, unexported fields included), equal Size of every box, LargeSize/StartPos of mdat, StartPos of "
                  "moof/fragments/segments, the same re-encoding, and Encode/EncodeSW must give equal bytes or both fail.",
    "level_note": "Trusted: Coq kernel, extraction, OCaml/Go glue, the hooks mp4.VerifDecoderKeys / mp4.VerifC03SencRaw. Models tied to /repo by "
                  "correspondence on generated inputs only: shape lists (incl. largesize mdat / unknown boxes) through both file loops; "
                  "decoded File structures with per-box encodings against File.Encode/EncodeSW bytes; box trees and byte-level files with "
                  "16-byte headers through both decoders (B, L); decoded fields, Size, bytes consumed and AccError of both decoders of "
                  "trun/senc/mdat (T) and stsd/visual sample entry (V) on valid and malformed boxes (every trun flag combination, lying "
                  "sizes, truncations, inflated counts, trailing bytes, 16-byte headers); model encoders of mdat/stsd/sample entry against the Go "
                  "bytes from decoded fields and the children's own encodings (M). stsd and the sample entry are modelled at "
                  "startPos 0 (only position differences are used; no uint64 wrap below 2^63). The leaf-pair theorems are about the "
                  "models; children of sample entries in the correspondence are the standard leaves (free/skip/mdat/unknown/udta/trun/senc).",
}

ULIMIT_KB = 6 * 1024 * 1024


def gen_registry(exe):
    """coq/c03/C03Registry.v is regenerated on every run from the hook-exported key sets."""
    rc, o, e = sh2([exe, "facts"], timeout=120)
    if rc != 0:
        raise common.CheckError("harness facts failed: " + e[-500:])
    keys = {"R": [], "S": []}
    for l in o.splitlines():
        k, h = l.split("\t")
        keys[k].append(bytes.fromhex(h))

    def coq_list(ks):
        return "[" + ";\n   ".join("[" + ";".join(str(b) for b in k) + "]" for k in ks) + "]"
    txt = ("(* C03Registry.v — GENERATED by checks/c03.py from mp4.VerifDecoderKeys() (hook /repo/mp4/verif_c03.go); do not edit.\n"
           "   Box types registered in `decoders` (io.Reader path) and `decodersSR` (SliceReader path), sorted, as byte lists. *)\n"
           "From V.lib Require Import Base.\nOpen Scope N_scope.\n\n"
           "Definition keys_decoders : list (list N) :=\n  %s.\n\n"
           "Definition keys_decoders_sr : list (list N) :=\n  %s.\n\n"
           "(* a box type registered in one table only breaks this obligation *)\n"
           "Lemma registry_equal : keys_decoders = keys_decoders_sr.\nProof. vm_compute. reflexivity. Qed.\n"
           % (coq_list(keys["R"]), coq_list(keys["S"])))
    p = os.path.join(common.COQ, "c03", "C03Registry.v")
    if not os.path.exists(p) or open(p).read() != txt:
        open(p, "w").write(txt)
    return len(keys["R"]), len(keys["S"]), sorted(set(keys["R"]) ^ set(keys["S"]))


def build(ctx):
    exe, err = common.go_build("c03")
    if exe is None:
        raise common.CheckError("harness does not build against /repo with -tags verif:\n" + err[-2000:])
    nr, ns, diff = gen_registry(exe)
    ctx.notes["registry"] = {"decoders": nr, "decodersSR": ns, "only_in_one_table": [d.decode("latin1") for d in diff]}
    model, err = common.build_model("c03", "C03Extract.v", "c03_driver.ml")
    if model is None:
        raise common.CheckError(err)
    return exe, model


def harness(exe, args, timeout):
    cmd = "ulimit -v %d; exec '%s' %s" % (ULIMIT_KB, exe, " ".join(str(a) for a in args))
    return sh2(["sh", "-c", cmd], timeout=timeout)


def run(ctx):
    ctx.cov["trusted_base"] = common.TRUSTED_BASE_COMMON + [
        "model: coq/c03/C03Model.v (container.go EncodeContainer(SW), file.go File.Encode(SW), mediasegment.go, fragment.go, "
        "initsegment.go Encode(SW), the DecodeFile / DecodeFileSR loops) is a hand transcription; the assembly steps are C04AsmModel.v",
        "model: coq/c03/C03LeafModel.v (trun.go DecodeTrun/DecodeTrunSR, senc.go DecodeSenc/DecodeSencSR, mdat.go DecodeMdat/DecodeMdatSR, "
        "stsd.go DecodeStsd/DecodeStsdSR, visualsampleentry.go DecodeVisualSampleEntry/...SR) is a hand transcription, one Gallina function per Go function",
        "hook: /repo/mp4/verif_c03.go VerifDecoderKeys (add-only, build tag verif); coq/c03/C03Registry.v generated from it",
    ]
    ctx.assumptions += [
        "leaves encode identically through Encode and EncodeSW (hypothesis of the encode theorems; explored for the real leaves)",
        "leaf decoder pairs other than trun, senc, mdat, stsd, visual sample entry: hypothesis `canonical leaf` of the decode theorems (explored)",
        "the slice writer handed to EncodeSW is large enough; io.Writer never fails",
        "file-level decode agreement is stated for default options (DecodeFileSR has no ISM / lazy support)",
    ]
    exe, model = build(ctx)
    pr = ctx.proofs("c03", "C03Theorems.v")
    n = ctx.n(400, 20000)
    exh = ctx.n(2, 2)
    rc, cases, e = harness(exe, ["corr", "-seed", ctx.seed, "-n", n, "-exh", exh], 3000)
    if rc != 0:
        raise common.CheckError("harness corr failed rc=%s: %s" % (rc, e[-1000:]))
    lines = [l for l in cases.splitlines() if l[:2] in ("D\t", "E\t", "B\t", "L\t", "T\t", "V\t", "M\t", "P\t")]
    res = common.run_model(model, "\n".join(lines) + "\n")
    mism = [l for l in res if not l.startswith("OK ")]
    distinct = len(set(l.split("\t", 2)[2] for l in lines))
    ctx.cov["evaluations"] += len(lines)
    ctx.cov["distinct_nontrivial"] += distinct
    ctx.notes["correspondence"] = {
        "cases": len(lines), "mismatches": len(mism), "distinct_cases": distinct,
        "kinds": {k: sum(1 for l in lines if l.startswith(k + "\t")) for k in ("D", "E", "B", "L", "T", "V", "M", "P")},
        "input_distribution": "D: all shape lists up to length %d over the 32-letter alphabet (C04's 29 + mdat(0/4) and an unknown box behind a 16-byte "
                              "header) + %d random longer lists, through DecodeFile and "
                              "DecodeFileSR with flags none / start-on-moof: outcome class, grouping, StartPos; E: the same lists (length >= 2) and 6 small "
                              "testdata files decoded (reader/SR, ISM on/off), the File structure dumped with each box's Encode and EncodeSW bytes, "
                              "model composition vs File.Encode / File.EncodeSW bytes in both modes; B: %d box trees (half of the leaves and a quarter of "
                              "the containers behind 16-byte headers; trun/senc leaves; stsd{sample entries}; every second tree mutated) + every std "
                              "kind x {large, nested large mdat, lying 64-bit sizes} through DecodeBox/DecodeBoxSR vs box_r/box_sr top_leaves; L: %d "
                              "byte-level progressive files over free/skip/mdat/unknown/udta/dinf with compact and 16-byte headers (every second one "
                              "mutated) through DecodeFile/DecodeFileSR vs file_r/file_sr: Size of every top-level box, StartPos of mdat; T: every trun "
                              "flag combination x 0..2 samples x {as is, sibling/junk after, 16-byte header, lying size fields, truncations, inflated "
                              "counts}, senc over version/flags/count/raw length, mdat, + %d random truns/sencs each with a mutated copy: fields, Size, "
                              "consumed, AccError of both decoders vs the two model decoders; V: the same for stsd and 8 sample-entry types (name "
                              "lengths 0/4/31/32/255, 0..2 children incl. lying children, boxes shorter than the 78 fixed bytes); M: every V input that decodes "
                              "to an stsd / sample entry and 8 mdat boxes: model encoders vs Encode/EncodeSW bytes; P: mfhd, tfdt (v0/v1), tfhd (all 32 "
                              "combinations of the optional-field flags) with the same variants: fields, Size, consumed, AccError of both decoders vs "
                              "the reader programs" % (exh, n, n, n, n),
    }
    ctx.cov["samples"] += [l[:300] for l in lines[:2]] + [l[:300] for l in lines[len(lines) // 2:len(lines) // 2 + 2]]
    ctx.log("correspondence: %d cases, %d mismatches" % (len(lines), len(mism)))
    ns = ctx.n(8000, 800000)
    rc, so, e = harness(exe, ["search", "-seed", ctx.seed, "-n", ns], 6000)
    if rc != 0:
        raise common.CheckError("harness search failed rc=%s: %s" % (rc, e[-1000:]))
    fails = []
    for l in so.splitlines():
        f = l.split("\t")
        if f[0] == "FAIL":
            fails.append(f)
        elif f[0] == "EVALS":
            ctx.cov["evaluations"] += int(f[1])
            ctx.notes["search_evaluations"] = int(f[1])
    sigs = {}
    for f in fails:
        sigs.setdefault((f[1], f[2]), []).append(f)
    for (site, klass), fl in sorted(sigs.items()):
        f = min(fl, key=lambda x: len(x[3]))
        ctx.failing_input(site, klass, f[3][:20000], f[4][:600], extra={"count": len(fl)})
    ctx.notes["failing_signatures"] = ["%s/%s x%d" % (s, k, len(v)) for (s, k), v in sorted(sigs.items())]
    ctx.log("search: %d evaluations, %d failing inputs, %d signatures" % (ctx.notes.get("search_evaluations", 0), len(fails), len(sigs)))
    if mism and not fails:
        by_id = {l.split("\t")[1]: l for l in lines}
        first = mism[0].split(" ")
        ctx.violation({"kind": "correspondence-mismatch", "correspondence": "C03Model vs mp4 (harness c03 corr)",
                       "mismatches": len(mism), "first_case": by_id.get(first[1], "")[:4000], "model_says": mism[0][:2000]},
                      "model/implementation disagree on %d cases" % len(mism), no_input=True)
    ctx.proof_violation_if_broken(pr, "c03 search: %d evaluations" % ctx.notes.get("search_evaluations", 0))
    ctx.cov["rule"] = ("corr: shape lists through both file decode loops + decoded File structures through both file encoders + box trees / byte-level "
                       "files with 16-byte headers + leaf boxes (trun, senc, mdat, stsd, sample entries) through both decoders; distinct = distinct "
                       "case lines; search: every testdata file, every harvested box (not mdat, <= 64 KiB), the repo fuzz seeds of the container family and "
                       "their structured mutants (C04 mutation set), every harvested box kind behind a 16-byte header / with a largesize mdat child, every "
                       "testdata file and synthesized progressive/fragmented file with largesize mdat boxes before/between/after its boxes, every generated "
                       "leaf-pair box, through both decode paths and both encoders: accept+reproduce on one path => accept, equal Info(all:1) dump, "
                       "field-by-field equal structure, equal sizes/LargeSize/StartPos/grouping and the same re-encoding on the other; "
                       "Encode vs EncodeSW equal bytes or both fail (both modes, ISM on/off)")


def replay(ctx, path):
    import json
    r = json.load(open(path))
    print(json.dumps(r, indent=1)[:6000])
    w = r.get("witness", "")
    if "hex:" in w:
        exe, _ = build(ctx)
        hexs = w.split("hex:")[1].split()[0]
        kind = "X3" if "DecodeBox" in r.get("site", "") else "F3"
        rc, o, e = sh2(["sh", "-c", "ulimit -v %d; echo '%s RN0 %s' | timeout 60 '%s' worker" % (ULIMIT_KB, kind, hexs, exe)])
        print("replayed on the current tree:", o.strip()[:2000], e.strip()[-500:])
    return 0
