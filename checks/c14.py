"""C14 — NAL unit framing conversions preserve the NAL unit sequence."""
import json
import os
import common
from common import sh2

LEVEL = "proof"
MANIFEST = {
    "technique": "Coq proof over hand-written Gallina transcriptions of avc/annexb.go, avc/nalus.go, avc/avc.go, "
                 "hevc/annexb.go, hevc/hevc.go (the hevc helpers transcribed a second time, from the hevc text alone) "
                 "+ differential correspondence (extracted OCaml vs Go, hook-exported scanner) + failing-input search "
                 "with oracles written over the generating NAL unit list, both on the native build and on a GOARCH=386 "
                 "build of the harness (uintSize = 4, own transcription coq/c14/C14Scan32Model.v); the driver also "
                 "evaluates the hypotheses of the byte-level theorems on every run input and compares the theorems' "
                 "right-hand sides with the Go results; the check itself mutation-tested with 41 code changes "
                 "(reports/C14.md)",
    "level_text": "Theorems (coq/c14/C14Theorems.v), all unbounded and closed under the global context: "
                  "C14_has_zero_byte (the hasZeroByte word trick = 'some byte of the word is zero' for every 8-byte word, "
                  "little- and big-endian load, by a byte-wise borrow-chain induction); C14_scanner_eq_naive (the "
                  "word-at-a-time scanner -- word loop, odd-offset probing, tail loop -- returns exactly the byte-by-byte "
                  "scan: positions, 3/4 lengths, minimum length, for EVERY byte string, no panic, no out-of-slice load); "
                  "C14_naive_scan_structural; C14_scan_stream, C14_to_sample (in-place and copying branch), C14_to_stream, "
                  "C14_roundtrip for every list of well-formed units with any 3/4-byte start-code mix; "
                  "C14_helpers_avc_sample / C14_helpers_hevc_sample (GetNalusFromSample, FindNaluTypes, "
                  "FindNaluTypesUpToFirstVideoNALU, ContainsNaluType, IsIDRSample, IsRAPSample, HasParameterSets, "
                  "GetParameterSets = the obvious list functions of the unit list); C14_byte_stream_loop_events and "
                  "C14_helpers_stream (ExtractNalusFromByteStream, GetFirstAVCVideoNALUFromByteStream, "
                  "GetParameterSetsFromByteStream and ExtractNalusOfTypeFromByteStream for AVC and HEVC, on the text after "
                  "the two fix commits). HEVC, own transcription (coq/c14/C14HevcModel.v, one Fixpoint per Go loop of "
                  "hevc/hevc.go and hevc/annexb.go; this is the model the correspondence runs against the hevc package): "
                  "C14_hevc_transcriptions_agree (on EVERY byte string, malformed included, the nine hevc entry points "
                  "compute what the shared-loop instantiations compute); C14_hevc_header_type (nal_unit_type = bits 14..9 "
                  "of the TWO-byte HEVC NAL header = GetNaluType of the first byte); C14_helpers_hevc_units_sample "
                  "(GetNalusFromSample, FindNaluTypes, FindNaluTypesUpToFirstVideoNalu, ContainsNaluType, IsRAPSample "
                  "16..23, IsIDRSample 19..20, HasParameterSets incl. VPS, GetParameterSets incl. VPS, duplicates kept, "
                  "sets after the first VCL unit ignored) and C14_helpers_hevc_units_stream (ExtractNalusFromByteStream, "
                  "hevc.GetParameterSetsFromByteStream, hevc.ExtractNalusOfTypeFromByteStream with/without stopAtVideo) "
                  "for EVERY list of units carrying a two-byte header, against list functions written over the header's "
                  "type field. Over BYTE STRINGS (the property's own quantifier; coq/c14/C14RecogModel.v): "
                  "C14_stream_recogniser_exact / C14_sample_recogniser_exact (the executable recognisers wf_stream / wf_sample "
                  "accept exactly the streams / samples of non-empty lists of well-formed units and read back the generating "
                  "list, so 'the NAL units between the start codes' are unique), C14_stream_bytes and C14_sample_bytes (every "
                  "clause above -- scanner, both conversions, round trip, every AVC and HEVC helper -- for EVERY accepted byte "
                  "string, in terms of the units read from the bytes), C14_stream_bytes_short (no size hypothesis for streams "
                  "shorter than 4 GiB). 32-bit platforms: C14_has_zero_byte32 and C14_scanner32_eq_naive (the compilation with "
                  "uintSize = 4 -- 4-byte loads, constants 0x01010101 / 0x80808080, two probes per word, tail from "
                  "len - len%4 - 4 -- returns the byte-by-byte scan on every byte string, hence the same start codes and the "
                  "same conversion as the 64-bit compilation). "
                  "Explored only (search, no theorem): units of 64 KiB and 16 MiB through the real code. "
                  "The models are tied to /repo on every run by running them (extracted) against the real functions.",
    "level_note": "Trusted: Coq kernel, extraction (ExtrOcamlBasic), OCaml/Go glue, and the correspondence being only as "
                  "good as its generated inputs (every {00,01,xx} pattern at every offset of word-crossing backgrounds, "
                  "unit-list streams incl. parameter-set-heavy lists and every type-test boundary, mutated streams; the "
                  "extracted scanner is quadratic, so streams above 64 KiB reach only the Go-side search). The uint "
                  "load through unsafe.Pointer is modelled as the little-endian value of 8 (32-bit build: 4) in-range bytes (a load past "
                  "the slice end is a model Panic, proved not to happen); Go int is an unbounded Z (lengths < 2^62); "
                  "slices have cap = len; make([]byte, n) is n zero bytes with cap = n; sub-slices of psData are kept as "
                  "index pairs and read from the final psData (aliasing made explicit). extractSlice (make + copy) is "
                  "the identity on values. The AVC helpers other than GetParameterSetsFromByteStream are instantiations "
                  "of the shared loop transcriptions (which are textually the avc code).",
}


def build(ctx):
    exe, err = common.go_build("c14")
    if exe is None:
        raise common.CheckError("harness does not build against /repo with -tags verif:\n" + err[-2000:])
    model, err = common.build_model("c14", "C14Extract.v", "c14_driver.ml")
    if model is None:
        raise common.CheckError(err)
    return exe, model


def build386(ctx):
    """The same harness compiled for a 32-bit platform (uintSize = 4 in avc/annexb.go); the binary runs on this
    machine.  Built from /repo's current working tree like the 64-bit one."""
    common.ensure_harness_module()
    out = os.path.join(common.BUILD, "bin", "c14_386")
    env = dict(common.GOENV)
    env["GOARCH"] = "386"
    env["CGO_ENABLED"] = "0"
    with common.locked("go_c14_386"):
        rc, o = common.sh(["go", "build", "-tags", "verif", "-o", out, "./c14"], cwd=common.HARNESS, env=env, timeout=1200)
    if rc != 0:
        raise common.CheckError("harness does not build for GOARCH=386 against /repo with -tags verif:\n" + o[-2000:])
    rc, so, e = sh2([out, "call", "hzb", "-", "01020300"], timeout=60)
    if rc != 0 or so.strip() != "ok:1":
        raise common.CheckError("the GOARCH=386 harness does not run on this machine: rc=%s %s %s" % (rc, so[-200:], e[-500:]))
    return out


def _run_model_par(model, cases, workers=4):
    """The model driver is stateless between case lines: the lines are dealt round robin to `workers` driver
    processes and the verdicts are put back in case order."""
    from concurrent.futures import ThreadPoolExecutor
    lines = cases.splitlines()
    if len(lines) < 2000:
        return common.run_model(model, cases)
    parts = [lines[i::workers] for i in range(workers)]
    with ThreadPoolExecutor(max_workers=workers) as ex:
        outs = list(ex.map(lambda p: common.run_model(model, "\n".join(p) + "\n", timeout=3000), parts))
    for p, o in zip(parts, outs):
        if len(p) != len(o):
            raise common.CheckError("model driver answered %d lines for %d cases" % (len(o), len(p)))
    res = [None] * len(lines)
    for w in range(workers):
        res[w::workers] = outs[w]
    return res


def _batches386(ctx):
    """word/tail hand-overs of a 4-byte word loop: lim = len - len%4 - 4"""
    if ctx.tier == "thorough":
        b = [(20000, 5, "8,9,12,14,15,19")]
        for lo in range(8, 21, 3):   # three periods of the 4-byte word/tail hand-over
            b.append((0, 7, "%d-%d" % (lo, min(lo + 2, 20))))
        return b
    return [(400, 5, "8,9,12,14,15")]


def _batches(ctx):
    """(n, plen, backgrounds) per harness invocation; kept apart so that memory stays bounded."""
    if ctx.tier == "thorough":
        b = [(30000, 5, "16,17,24,31,33")]
        # every pattern of length <= 7 at every offset of every background length 16..48
        for lo in range(16, 49, 3):
            b.append((0, 7, "%d-%d" % (lo, min(lo + 2, 48))))
        # length-8 patterns on the word/tail hand-over lengths
        for bg in ("16,17", "23,24", "31,33", "40", "47"):
            b.append((0, 8, bg))
        return b
    return [(1200, 5, "16,17,24,31,33")]


def run(ctx):
    ctx.cov["trusted_base"] = common.TRUSTED_BASE_COMMON + [
        "model: coq/c14/C14Model.v is a hand transcription of getStartCodePositions/hasZeroByte, "
        "ConvertByteStreamToNaluSample, ConvertSampleToByteStream, ExtractNalusFromByteStream, "
        "GetParameterSetsFromByteStream, ExtractNalusOfTypeFromByteStream, GetFirstAVCVideoNALUFromByteStream, "
        "GetNalusFromSample and the avc/hevc length-field walkers (current /repo text)",
        "model: coq/c14/C14HevcModel.v is a second hand transcription of hevc/hevc.go and hevc/annexb.go (GetNaluType, "
        "IsVideoNaluType, FindNaluTypes, FindNaluTypesUpToFirstVideoNalu, ContainsNaluType, IsRAPSample, IsIDRSample, "
        "HasParameterSets, GetParameterSets, GetParameterSetsFromByteStream, ExtractNalusOfTypeFromByteStream); the driver "
        "answers every hevc_* case with it",
        "model: coq/c14/C14AvcModel.v avc.GetParameterSetsFromByteStream with totSize and the psData repacking (answers "
        "every avc_gpsb case)",
        "spec: coq/c14/C14HevcSpec.v two-byte NAL unit header, hevc_unit_type, u_* list functions (written by hand)",
        "spec: coq/c14/C14Spec.v naive_scan / stream / sample / wf_nalu (written by hand)",
        "model: coq/c14/C14Scan32Model.v getStartCodePositions / hasZeroByte / ConvertByteStreamToNaluSample as compiled "
        "for uintSize = 4 (answers the hzb32 / scan32 / b2s32 cases of the GOARCH=386 harness build)",
        "spec: coq/c14/C14RecogModel.v unstream / wf_stream / unsample / wf_sample (recognisers, proved exact)",
        "hook: /repo/avc/verif_c14.go re-exports getStartCodePositions and hasZeroByte (build tag verif)",
    ]
    ctx.assumptions += [
        "little-endian platform with uint = 8 bytes (native build) or 4 bytes (GOARCH=386 build, run on this machine); "
        "the has_zero_byte theorems also cover the big-endian load; Go int is modelled unbounded on both (inputs < 2^31)",
        "input slices have cap == len (the harness passes exact-capacity copies)",
        "well-formed unit: non-empty, last byte non-zero, no 00 00 01 inside, total sample length < 2^32",
        "crash-safety of the walkers on hostile length fields is property C16's subject; C14 feeds them well-formed "
        "samples and mildly mutated ones (length fields < 2^16)",
    ]
    exe, model = build(ctx)
    pr = ctx.proofs("c14", "C14Theorems.v")
    # ---- correspondence
    tot = mism_tot = distinct = 0
    kinds = {}
    thm = {}      # per function: cases on which the hypotheses of C14_stream_bytes / C14_sample_bytes held
    thm_bad = 0   # ... and the theorem's right-hand side differed from what the Go code returned
    first_mism = None
    exe386 = build386(ctx)
    for (xe, n, plen, bgs) in [(exe,) + b for b in _batches(ctx)] + [(exe386,) + b for b in _batches386(ctx)]:
        rc, cases, e = sh2([xe, "corr", "-seed", str(ctx.seed), "-n", str(n), "-plen", str(plen), "-bgs", bgs],
                           timeout=3000)
        if rc != 0:
            raise common.CheckError("harness corr failed: " + e[-1000:])
        lines = cases.splitlines()
        res = _run_model_par(model, cases)
        mism = [l for l in res if not l.startswith("OK ")]
        if len(res) != len(lines):
            raise common.CheckError("model driver answered %d lines for %d cases" % (len(res), len(lines)))
        tot += len(lines)
        mism_tot += len(mism)
        seen = set()
        fn_of = {}
        for l in lines:
            p = l.split("\t")
            kinds[p[2]] = kinds.get(p[2], 0) + 1
            fn_of[p[1]] = p[2]
            # non-trivial: non-empty input
            if p[4] != "-":
                seen.add(hash((p[2], p[3], p[4])))
        distinct += len(seen)
        for l in res:
            w = l.split(" ")
            if w[0] == "OK" and len(w) > 2 and w[2] == "T":
                f = fn_of.get(w[1], "?")
                thm[f] = thm.get(f, 0) + 1
            elif w[0] == "THM-MISMATCH":
                thm_bad += 1
        if mism and first_mism is None:
            by_id = {l.split("\t")[1]: l for l in lines}
            first_mism = (by_id.get(mism[0].split(" ")[1], "")[:2000], mism[0][:2000])
        if not ctx.cov["samples"]:
            ctx.cov["samples"] += [l[:300] for l in lines[7000:7002]] + [l[:300] for l in lines[-4:]]
        del cases, lines, res
    ctx.cov["evaluations"] += tot
    ctx.cov["distinct_nontrivial"] += distinct
    ctx.notes["correspondence"] = {"cases": tot, "mismatches": mism_tot, "distinct_cases": distinct,
                                   "batches": [list(b) for b in _batches(ctx)],
                                   "batches_386": [list(b) for b in _batches386(ctx)], "per_function": kinds}
    ctx.notes["theorem_hypotheses_on_run_inputs"] = {
        "what": "the extracted recognisers wf_stream / wf_sample (+ fit_units, hevc_stream_units, hevc_units) evaluated on "
                "the input of every correspondence case; where they hold, the right-hand side of C14_stream_bytes / "
                "C14_sample_bytes (list functions of the units read from the bytes, not the function's model) was "
                "compared with what the Go code returned",
        "applied_and_confirmed": sum(thm.values()), "contradicted": thm_bad,
        "of_cases": tot - kinds.get("hzb", 0) - kinds.get("hzb32", 0), "per_function": dict(sorted(thm.items()))}
    ctx.log("correspondence: %d cases, %d mismatches; theorem hypotheses held on %d cases (%d contradicted)"
            % (tot, mism_tot, sum(thm.values()), thm_bad))
    if tot and not thm:
        raise common.CheckError("no correspondence case satisfied the hypotheses of C14_stream_bytes / C14_sample_bytes: "
                                "the generators no longer produce well-formed streams / samples")
    # ---- search: the property itself on the implementation
    fails = []
    sev = 0
    sb = [(ctx.n(3000, 150000), 5, "16,17,24,31,33")]
    if ctx.tier == "thorough":
        sb.append((0, 7, "16-48"))
    sb = [(exe,) + b + (1 << 30,) for b in sb]
    # the same search on the 32-bit compilation of the library (quick: units up to 128 KiB)
    sb.append((exe386, ctx.n(1500, 100000), 5, "8,9,12,14,15", ctx.n(1 << 17, 1 << 30)))
    if ctx.tier == "thorough":
        sb.append((exe386, 0, 7, "8-20", 1 << 17))
    sev386 = 0
    for (xe, n, plen, bgs, bigmax) in sb:
        rc, so, e = sh2([xe, "search", "-seed", str(ctx.seed), "-n", str(n), "-plen", str(plen), "-bgs", bgs,
                         "-bigmax", str(bigmax)], timeout=3000)
        if rc != 0:
            raise common.CheckError("harness search failed: " + e[-1000:])
        for l in so.splitlines():
            f = l.split("\t")
            if f[0] == "FAIL":
                if xe == exe386:
                    f[4] += " [on the GOARCH=386 build of the library: uintSize = 4]"
                fails.append(f)
            elif f[0] == "EVALS":
                sev += int(f[1])
                if xe == exe386:
                    sev386 += int(f[1])
    ctx.cov["evaluations"] += sev
    ctx.notes["search_evaluations"] = sev
    ctx.notes["search_evaluations_386"] = sev386
    for f in fails:
        ctx.failing_input(f[1], f[2], f[3], f[4])
    ctx.log("search: %d evaluations, %d failing inputs" % (sev, len(fails)))
    ctx.notes["hygiene_oracles"] = (
        "every checked call runs on an exact-capacity copy and on a sub-slice with 24 guard bytes (harness/c14/main.go call); "
        "hygABA: after every call the previous call (any function) and the previous call of the same function are asked AGAIN on "
        "fresh copies of their inputs (depends-on-earlier-calls) and the slices the library returned for them - and for the "
        "current call after the re-asks - are re-read (result-changed-by-later-calls: scratch storage, cursors, caches)")
    if mism_tot and not fails:
        ctx.violation({"kind": "correspondence-mismatch", "correspondence": "C14Model vs avc/hevc (harness c14 corr)",
                       "mismatches": mism_tot, "first_case": first_mism[0], "model_says": first_mism[1]},
                      "model/implementation disagree on %d cases" % mism_tot, no_input=True)
    ctx.proof_violation_if_broken(pr, "c14 search: %d evaluations, no failing input" % sev)
    ctx.cov["rule"] = ("every family below on the native build AND on a GOARCH=386 build (backgrounds 8..20 there); "
                       "corr: hasZeroByte on random/structured words; scanner+conversions on every {00,01,xx} pattern "
                       "(length <= plen) at every offset of non-zero backgrounds of the listed lengths (all alignments "
                       "mod 8, all word/tail hand-overs), two patterns at once, random small-alphabet strings of length "
                       "0..72; all 24 functions on streams/samples built from 1..6 emulation-free units of 1..120 bytes "
                       "(some 250..262) with any start-code mix, every AVC/HEVC type-test boundary (5/6, 15/16, 18..21, "
                       "23/24, 31/32) and parameter-set-heavy lists (duplicate / absent / late sets), plus mutated inputs; "
                       "sample walkers also on 64 KiB units; distinct = distinct "
                       "(function,args,input) with non-empty input per batch; search: same input families, oracles = "
                       "byte-by-byte scan, generating unit list (HEVC type from the 16-bit header), plus units of 64 KiB and "
                       "16 MiB (witness form gen:<seed>:<hevc>:<size>/<sc>,...)")


def replay(ctx, path):
    r = json.load(open(path))
    print(json.dumps(r, indent=1))
    w = r.get("witness")
    if r.get("kind") == "failing-input" and w:
        exe, _ = build(ctx)
        plat = "amd64"
        if "GOARCH=386" in r.get("description", ""):
            exe, plat = build386(ctx), "GOARCH=386"
        fn, args, hexin = w.split(" ")
        rc, so, e = sh2([exe, "call", fn, args, hexin], timeout=60)
        print("replayed on the current /repo tree (%s build): %s %s %s -> %s" % (plat, fn, args, hexin, so.strip()))
        print("expected: " + r.get("description", ""))
    return 0
