"""C06 — decrypting what was encrypted restores the content."""
import os
import common
from common import sh2

LEVEL = "proof"
MANIFEST = {
    "technique": "Coq proof over a hand-written Gallina model of the decrypt side of mp4/crypto.go (on top of the C07 crypt model) "
                 "+ differential correspondence (extracted OCaml with a Gallina AES vs the Go code) + round-trip search through "
                 "the API and the built mp4ff-encrypt / mp4ff-decrypt binaries",
    "level_text": "Theorems (coq/c06/C06Theorems.v), all for unbounded inputs: CryptSampleCenc applied twice is the identity for EVERY block function, key, IV "
                  "and sub-sample map; DecryptSampleCbcs inverts EncryptSampleCbcs for every crypt:skip pattern and size whenever "
                  "D inverts E on 16-byte blocks, and keeps every sample length (C06_cbcs_keeps_length); RemoveEncryptionBoxes keeps exactly the boxes that are not "
                  "saiz/saio/senc/uuid-senc in order and counts exactly the removed bytes, and (C06_nonprotection_boxes_kept) every box that is not protection "
                  "signalling - the predicate looks at the grouping type of sbgp/sgpd: only seig is protection signalling - comes out unchanged in order "
                  "(C06_drop_all_groups_refuted: a variant removing every sbgp/sgpd breaks it); for every single-traf fragment with arbitrary opaque boxes "
                  "(sample groups, subs, tfxd/tfrf, unknown) encrypt -> encode/decode -> decrypt restores the clear children, data offset, mdat position AND "
                  "every sample byte (both schemes, any protection function). Senc box byte for byte: C06_senc_codec, C06_aux_consistent, C06_saio_points_at_entries, "
                  "C06_senc_transport_cenc/_cbcs; SencBox.AddSample in its repaired text: C06_senc_repaired_agrees (same SencBox as the pinned text on uniform "
                  "fragments), C06_senc_transport_mixed (fragments mixing samples with and without sub-sample maps: tables transported exactly) and "
                  "C06_fragment_roundtrip_repaired_cenc/_cbcs (the fragment round trip for the repaired text, no longer vacuous on mixed fragments); C06_seig_override_refuted. Sample "
                  "location: the trex is a parameter of both sides (C06_fragment_roundtrip_trex_cenc, _trex_cbcs WITHOUT a length hypothesis, C06_trex_mismatch_refuted). "
                  "Durations / flags / composition offsets / decode times: C06_timing_roundtrip (the defaults both sides write into trun.Samples with ANY trex leave no "
                  "trace in the encoded trun; metadata after encrypt and after decrypt = clear, for every combination of trun/tfhd/trex signalling incl. "
                  "first-sample-flags), C06_sizes_agree, and C06_timing_roundtrip_multi for a traf with ANY number of truns (decode times of later truns depend on the durations of all earlier ones). Whole files by induction over the fragment list: C06_file_roundtrip_cenc and C06_file_roundtrip_cbcs. Init: "
                  "DecryptInit(InitProtect init) = init and C06_init_restore_all for every number of tracks and entries with arbitrary entry children - no guard on "
                  "sinf boxes the entry owns (RemoveEncryption repaired: fix bb3f974); in BYTES: C06_sinf_codec (frma/schm/schi/tenc/sinf parse(encode) = id) and "
                  "C06_entry_bytes_roundtrip: with the fixed fields of the Visual / Audio sample entry as TYPED fields (C06_entry_fixed_fields: data_reference_index, "
                  "width, height, resolutions, frame_count, compressor name / channelcount, samplesize, samplerate decode(encode v) = v; C06_entry_fixed_stable: for ANY "
                  "78 / 28 input bytes the re-encoding keeps the typed fields and is a fixed point), children with 8- or 16-byte headers and the sinf at ANY position "
                  "among them (children before AND after it), decode + RemoveEncryption + Encode gives the clear entry and EVERY byte except the size field, the 4cc and "
                  "the sinf child is identical (C06_entry_typed_roundtrip for arbitrary third-party fixed bytes). Multi-track fragments (C06MultiModel.v: k trafs x m "
                  "truns, protected / clear / unknown tracks side by side, pssh boxes anywhere in the moof, int32 data offsets, uint64 mdat position, Box.Size() incl. "
                  "16-byte headers): C06_decrypt_preserves_offsets (ANY fragment on which DecryptFragment succeeds, third-party content included: one number `removed` = "
                  "moof shrink = protection boxes of all protected trafs + all pssh; the box tree is the clear tree; EVERY data offset of EVERY trun of EVERY traf and "
                  "the mdat position move by exactly `removed`, exact within int32 / uint64), C06_pssh_undercount_refuted (not counting the pssh bytes moves the offsets "
                  "by too little), C06_fragment_roundtrip_multi (the protected layout - protection boxes and pssh at any position, truns interleaved in the mdat, cenc "
                  "and cbcs per track - decrypts to the clear layout: same payload positions, every sample byte of every traf restored), C06_clear_tree_clean. "
                  "Explored, not proved: that the Go code behaves like the model (correspondence), sidx (known finding C06-F3), absolute tfhd base_data_offset (C06-F2), "
                  "children of sample entries other than sinf (opaque bytes assumed to re-encode to themselves: property C01), EncryptFragment itself on more than one "
                  "traf / trun (it refuses them: multi-track inputs are packaged third-party style from per-track EncryptFragment output).",
    "level_note": "Trusted: Coq kernel, extraction, OCaml/Go glue. Modelled, not verified: crypto/aes, cipher CTR/CBC, box "
                  "(de)serialisation other than senc/saiz/saio, the trun sample table and sinf/frma/schm/schi/tenc (other boxes are opaque kind/size/identity triples or opaque bytes), "
                  "16-byte headers on box types the library knows (it re-encodes them with an 8-byte header: only unknown boxes keep theirs, and those are modelled), "
                  "multi-track model: x_data of a traf is its sample data as the decoder resolves it (sizes through trun / tfhd / trex: C06TrexModel), "
                  "the laxness of the io.Reader container decoder (a child larger than its parent is read to EOF: the model rejects it). "
                  "A clear input that already carries a seig sample group is protection-signalled input outside the property's 'clear track' (a seig that "
                  "contradicts the tenc InitProtect writes makes ParseReadSenc misread the senc: witness in reports/C06.md); the search feeds seig groups that agree "
                  "with the tenc and lets decrypt keep or drop them.",
}


def build(ctx):
    exe, err = common.go_build("c06")
    if exe is None:
        raise common.CheckError("harness does not build against /repo with -tags verif:\n" + err[-2000:])
    model, err = common.build_model("c06", "C06Extract.v", "c06_driver.ml")
    if model is None:
        raise common.CheckError(err)
    return exe, model


def run(ctx):
    ctx.cov["trusted_base"] = common.TRUSTED_BASE_COMMON + [
        "model: coq/c06/C06SencModel.v (SencBox.Encode/calcSize, DecodeSenc, ParseReadBox, parseAndFillSamples, ParseReadSenc, saiz/saio encode), "
        "C06TrexModel.v (GetFullSamples size resolution trun/tfhd/trex, files), C06TimingModel.v (AddSampleDefaultValues, trun sample table encode/decode, decode times), "
        "C06SinfModel.v (frma/schm/schi/tenc/sinf bytes, sample entry bytes, container walk), C06EntryModel.v + C06InitModel.v (InitProtect/DecryptInit), "
        "C06MultiModel.v (DecryptFragment on k trafs x m truns: findTrackInfo, ContainsSencBox, RemovePsshs, int32 / uint64 shifts), C06FixedModel.v (typed fixed fields of the "
        "Visual / Audio sample entry, children with 16-byte headers, RemoveEncryption's name check), "
        "coq/c06/C06Model.v (decryptSamplesInPlace, TrafBox.RemoveEncryptionBoxes after the fix commit, MoofBox.RemovePsshs, "
        "DecryptFragment offset arithmetic, EncryptFragment's box additions, SetTrunDataOffsets) + coq/c07/C07Model.v (sample crypt)",
        "coq/c07/C07Aes.v AES-128 (encrypt + decrypt) validated against FIPS-197 vectors, used only in the correspondence",
    ]
    ctx.assumptions += ["one traf / one trun per fragment on the encrypt side (EncryptFragment rejects anything else); multi-track / multi-trun theorems: any packager that runs "
                        "EncryptFragment's per-sample loop per traf (enc_children), several trafs per track allowed (DecryptFragment after fix fc9ee41), data offsets within int32, positions within uint64",
                        "cbcs inverse: E, D map to 16-byte blocks and D k (E k b) = b for 16-byte b; sub-sample map fits the sample (< 2^32 bytes)",
                        "clear input fragments carry no pssh/saiz/saio/senc boxes of their own",
                        "fragment theorems: default-base-is-moof addressing (an absolute tfhd base_data_offset is known finding C06-F2)",
                        "senc theorems: every sample of a fragment has a sub-sample map or none has (mixed fragments: known finding C06-F4); senc box < 2^32 bytes, "
                        "aux_consistent: entries < 256 bytes (C07-F1 beyond); saio: box sizes unchanged between EncryptFragment and Encode (C07-F2)",
                        "trex / file theorems: the decrypt side resolves sample sizes with the same trex as the encrypt side; cenc (cbcs: generic theorem with a length hypothesis)",
                        "cbcs file / trex theorems: samples (mdat payload) below 4 GiB, sub-sample maps inside their sample",
                        "timing: every trun is what a decoder delivers (absent fields zero, fields < 2^32); any number of truns per traf",
                        "entry bytes: child boxes of the sample entry other than sinf re-encode to the bytes they were decoded from (C01); 16-byte headers only on unknown children; "
                        "no further sinf behind the one that is removed (RemoveEncryption takes the LAST)",
                        "a clear input carrying a seig sample group that contradicts the tenc InitProtect writes is outside the property (protection signalling in the input)"]
    exe, model = build(ctx)
    pr = ctx.proofs("c06", "C06Theorems.v")
    n = ctx.n(400, 8000)
    rc, cases, e = sh2([exe, "corr", "-seed", str(ctx.seed), "-n", str(n)], timeout=3000)
    if rc != 0:
        raise common.CheckError("harness corr failed: " + e[-1000:])
    lines = cases.splitlines()
    res = common.run_model(model, cases, timeout=3000)
    if len(res) != len(lines):
        raise common.CheckError("model driver answered %d of %d cases" % (len(res), len(lines)))
    mism = [l for l in res if not l.startswith("OK ")]
    distinct = len(set(l.split("\t", 2)[2] for l in lines if l.count("\t") >= 2))
    kinds, classes = {}, {}
    for l in lines:
        f = l.split("\t")
        kinds[f[0]] = kinds.get(f[0], 0) + 1
        c = f[0] + ":" + f[-1].split(":")[0].split("|")[0][:8]
        classes[c] = classes.get(c, 0) + 1
    ctx.cov["evaluations"] += len(lines)
    ctx.cov["distinct_nontrivial"] += distinct
    ctx.notes["correspondence"] = {
        "cases": len(lines), "mismatches": len(mism), "distinct_cases": distinct, "kinds": kinds, "outcome_classes": classes,
        "distribution": "P InitProtect+DecryptInit on the AVC/HEVC/AAC test inits with retyped entries (avc3, hev1, vp09, av01, ac-3, encv), extra entry children, an own sinf, pre-existing pssh, a second trak, unknown entry, bad scheme, 8/16-byte IVs, 0-2 pssh; D decryptSamplesInPlace (hook) on senc contents of every shape: 8/16-byte per-sample IVs incl. ff-carries, "
                        "constant IV, IV count != sample count, missing/short sub-sample lists, maps beyond the sample, bad keys, "
                        "schemes cenc/cbcs/other, patterns 1:9 and 0:0; S RemoveEncryptionBoxes on trafs mixing saiz/saio/senc/tfxd/tfrf/"
                        "unknown/free/trun/tfdt; G DecryptFragment after EncryptFragment+encode+decode (AVC/HEVC/audio, both schemes, "
                        "extra boxes in moof/traf, optional pssh in moof) and on the fragments of the 5 third-party encrypted files (PIFF uuid-senc, several truns): children kinds/sizes/identity, trun data offset, mdat position; "
                        "E senc/saiz/saio boxes of the moof that EncryptFragment+Encode really wrote (found by walking the bytes) compared byte for byte with the model's encoding computed from IV, sample lengths and protection ranges only, senc position, saio offset, and the SencBox after DecodeFile / after ParseReadSenc with perSampleIVSize tenc,0,8,16 (AVC/HEVC/audio, both schemes, a sample without ranges now and then); "
                        "M malformed senc boxes (wrong flags/counts up to 2^32-1, truncated/extended payload, size field beyond the data, version 1, random payload, IVs that look like sub-sample counts) through DecodeBox and DecodeBoxSR + ParseReadBox(0,8,16,5); "
                        "T sample sizes resolved by GetFullSamples with the file's trex and with nil on decoded clear files that signal sizes in trun / tfhd / trex only; "
                        "Q DecryptInit on moovs assembled from 1-3 tracks x 1-3 entries protected one by one by InitProtect (clear entries/tracks in between, avc3/hev1, btrt, unknown children, own sinf, pssh); "
                        "S/G/E now with sbgp/sgpd of grouping types roll/rap /sync/alst/seig/tele, subs, unknown uuid, skip/free in traf and moof, extra boxes in the init; "
                        "U sample flags/duration/size/cto/decode time from GetFullSamples with the file's trex and with nil (values in trun, tfhd, only in trex, first-sample-flags), the trun bytes Encode writes AFTER the defaults were filled into trun.Samples, and that box decoded again; "
                        "V trun bodies of all 64 flag combinations, damaged (wrong/huge counts, truncated, extended); "
                        "W the sample entry bytes (found by walking) of the clear init (AVC/HEVC/AAC + btrt/pasp/unknown/sinf-like/free children, own sinf), after InitProtect+Encode, after DecodeFile+DecryptInit+Encode, and the sinf DecryptInit returns; "
                        "H DecryptFragment on multi-track / multi-trun fragments assembled third-party style (1-3 tracks AVC/HEVC/audio, cenc/cbcs/clear per track, each protected by InitProtect+EncryptFragment then split in 1-3 truns, trafs in any order, saiz/saio/senc and 0-2 pssh at any position, unknown boxes with 16-byte headers in traf and moof, clear tracks with saiz/saio of their own, truns interleaved in the mdat, 8/16-byte mdat header, bytes in front of the moof; malformed: senc/saiz/saio/pssh renamed, a traf of a track the init does not know; every 4th input: a further traf of the first track): children, every trun data offset, sample bytes per traf, mdat position; "
                        "Y sample entries written from the syntax (any bytes in reserved/pre_defined positions, any depth, compressor-name length 0..31 and above, fractional sample rate; children before and after the sinf incl. unknown children with 16-byte headers; several sinf boxes, sinf without frma / without tenc, an entry not called encv/enca; cut short / damaged): DecodeBox + RemoveEncryption + Encode bytes and the returned sinf; "
                        "N GetFullSamples metadata (file's trex / nil) of a traf with 1-4 truns, each with its own choice of per-sample fields, tfhd / trex defaults, first-sample-flags, empty truns, base decode times up to 2^64-1; Z Size() and encoded length of unknown boxes with 8- / 16-byte headers; "
                        "X sinf boxes written from the syntax: tenc versions 0/1/2, crypt:skip, isProtected 0/1/2, IV sizes 0/8/16, constant IVs, schm with URI, missing/duplicate/reordered/unknown children, short tenc/schm/frma, child size below 8",
    }
    ctx.cov["samples"] += [l[:300] for l in lines[10:12]] + [l[:300] for l in lines[n + 5:n + 7]] + [l[:300] for l in lines[-2:]]
    ctx.log("correspondence: %d cases, %d mismatches" % (len(lines), len(mism)))
    # search
    ns = ctx.n(500, 15000)
    cmd = [exe, "search", "-seed", str(ctx.seed), "-n", str(ns)]
    if ctx.tier == "thorough":
        b1, e1 = common.go_build_repo_cmd("cmd/mp4ff-encrypt", "c06bins/mp4ff-encrypt")
        b2, e2 = common.go_build_repo_cmd("cmd/mp4ff-decrypt", "c06bins/mp4ff-decrypt")
        if b1 is None or b2 is None:
            raise common.CheckError("mp4ff-encrypt/mp4ff-decrypt do not build: " + (e1 or e2)[-1500:])
        cmd += ["-bins", os.path.dirname(b1)]
        ctx.notes["binaries"] = "round trips also through the built mp4ff-encrypt / mp4ff-decrypt"
    rc, so, e = sh2(cmd, timeout=3000)
    if rc != 0:
        raise common.CheckError("harness search failed: " + e[-1000:])
    fails = []
    for l in so.splitlines():
        f = l.split("\t")
        if f[0] == "FAIL" and len(f) >= 5:
            fails.append(f)
        elif f[0] == "EVALS":
            ctx.cov["evaluations"] += int(f[1])
            ctx.notes["search_evaluations"] = int(f[1])
    ctx.notes["hygiene_oracles"] = (
        "harness/c06/hygiene.go: key / iv reach InitProtect, EncryptFragment in one buffer per argument that is refilled in place for "
        "every call (32 guard bytes behind it), kid and the DecryptFragment / DecryptSegment keys as private copies; all must come back "
        "unchanged and are overwritten as soon as the call has returned, BEFORE init / fragments / files are encoded (aliasing of "
        "arguments); the mdat payload stands between guard bytes during EncryptFragment and DecryptFragment (in place on the sample "
        "bytes only); around every checked DecryptFragment another decoding of the same bytes is decrypted with a key the cipher "
        "refuses (before) and with the right key (after: same bytes) - a failed call must not influence the next one; the file "
        "round trip does the refused-key decryption of a second decoding first.")
    unknown = 0
    for f in fails:
        if ctx.failing_input(f[1], f[2], f[3], f[4]):
            unknown += 1
    ctx.log("search: %d failing inputs (%d signatures)" % (len(fails), len(set((f[1], f[2]) for f in fails))))
    if mism and not unknown:   # failing inputs that are KNOWN findings do not explain a model/implementation mismatch
        by_id = {}
        for l in lines:
            p = l.split("\t")
            if len(p) > 1:
                by_id[p[1]] = l
        first = mism[0].split(" ")
        ctx.violation({"kind": "correspondence-mismatch", "correspondence": "C06Model vs mp4/crypto.go, traf.go (harness c06 corr)",
                       "mismatches": len(mism), "first_case": by_id.get(first[1], "")[:3000], "model_says": mism[0][:2000]},
                      "model/implementation disagree on %d cases" % len(mism), no_input=True)
    ctx.proof_violation_if_broken(pr, "c06 search: %d round trips, no failing input" % ctx.notes.get("search_evaluations", 0))
    for k in common.load_known():
        if k.get("property") == "C06" and k.get("status") == "fixed":
            ctx.log("fixed: property=C06 %s %s" % (k.get("commit"), k.get("site")))
    ctx.cov["rule"] = ("search also: media segments in a file of their own with an explicit tfhd base_data_offset = position of the moof "
                       "(encrypt, encode, decode, decrypt, samples read in memory from the decrypted fragment); "
                       "corr: %d case lines (kinds %s), distinct = distinct case lines; search: %d synthetic clear tracks (AVC/HEVC NALU "
                       "size mixes around 1,15-17,107-128,65535+-1, audio; in every generator (single fragments, files, multi-track, corr G/E/H/T/U) zero-size samples first / middle / last / first+last / random subset / all of a fragment, 1 in 3 audio and 1 in 8 video fragments - a video fragment with an empty sample that the protection-range function refuses is skipped, one that is encrypted must round-trip; senc AND saiz entry count = trun sample count; cenc/cbcs; 8/16-byte IVs incl. ff..ff; extra uuid/unknown/free "
                       "boxes in moof/traf, optional pssh in moof) through InitProtect/EncryptFragment -> encode -> decode -> DecryptInit/DecryptFragment -> encode, "
                       "byte comparison with the clear file (then per-clause diagnosis: full child lists, type + bytes, of moov/trak/mdia/minf/stbl/stsd/sample entries/moof/traf found by walking both files); %d whole files built like mp4ff-encrypt/-decrypt process them (1-4 fragments, styp, 0-2 pssh in moov, tfhd base_data_offset variants; every second file against a non-trivial trex with sample size/duration/flags per fragment in trun, in tfhd defaults or only in trex + first-sample-flags), the intermediate encrypted file checked sample by sample against a reference AES-CTR / AES-CBC-pattern encryption (crypto/aes only) under the senc entry, whose sub-sample map must be the protection ranges of the clear sample, and sample flags/dur/size/cto/decode time of the encrypted file = clear file; init segments whose entry owns a sinf / holds two sinf boxes (DecryptInit must remove the sinf it returns); 5 third-party encrypted files: sizes/timing kept; %d multi-track / multi-trun protected fragments assembled third-party style (see H): every trun data offset after DecryptFragment = clear layout, sample bytes per track, Fragment.Encode of the decrypted fragment = the clear fragment assembled the same way byte for byte; %d protected sample entries from the syntax: RemoveEncryption + Encode = plain decode + encode of the same bytes with the 4cc restored and the last sinf cut out"
                       % (len(lines), kinds, ns, ns // 2, ns // 2, ns // 2))


def replay(ctx, path):
    import json
    r = json.load(open(path))
    print(json.dumps(r, indent=1))
    return 0
