"""C06 — decrypting what was encrypted restores the content."""
import os
import common
from common import sh2

LEVEL = "proof"
MANIFEST = {
    "technique": "Coq proof over a hand-written Gallina model of the decrypt side of mp4/crypto.go (on top of the C07 crypt model) "
                 "+ differential correspondence (extracted OCaml with a Gallina AES vs the Go code) + round-trip search through "
                 "the API and the built mp4ff-encrypt / mp4ff-decrypt binaries",
    "level_text": "Theorems (coq/c06/C06Theorems.v), all for unbounded inputs: CryptSampleCenc applied twice is the identity for EVERY block function, key, IV "
                  "and sub-sample map; DecryptSampleCbcs inverts EncryptSampleCbcs for every crypt:skip pattern and size whenever "
                  "D inverts E on 16-byte blocks; RemoveEncryptionBoxes (repaired text) keeps exactly the non-protection boxes in "
                  "order and counts exactly the removed bytes; for every single-traf fragment with arbitrary opaque boxes, encrypt -> "
                  "encode/decode -> decrypt restores the clear children, data offset, mdat position AND every sample byte (both schemes, any protection "
                  "function: AVC/HEVC/audio). Senc box byte for byte: C06_senc_codec parse(encode senc) = senc for every per-sample IV size 0/8/16 and every "
                  "sub-sample layout (DecodeSenc + ParseReadBox with the written IV size, or inferred); C06_aux_consistent the saiz sizes are the byte lengths of "
                  "the senc entries sample by sample; C06_saio_points_at_entries the saio offset addresses the first entry in the encoded moof and passes "
                  "ParseReadSenc's check; C06_senc_transport_cenc/_cbcs the decoder hands decryptSamplesInPlace exactly the IV / sub-sample lists the fragment "
                  "theorems assume. Sample location: the trex is a parameter of both sides (C06_fragment_roundtrip_trex_cenc restores the whole mdat payload "
                  "when they agree, C06_trex_mismatch_refuted shows it false otherwise). Whole files: C06_file_roundtrip_cenc by induction over the fragment list "
                  "(cumulative position shift, same IV per fragment as the code does, re-encoded layout = clear layout, every sample restored). Init: "
                  "DecryptInit(InitProtect init) = init, and C06_init_restore_all for every number of tracks and sample entries with arbitrary entry children. "
                  "Refuted with witnesses reproduced on the real code: C06_mixed_subsamples_refuted (known finding C06-F4). Third-party cenc fragments keep "
                  "sample count/sizes, offsets shift by the removed bytes. Explored, not proved: that the Go code behaves like the model (correspondence), "
                  "sinf/tenc/sample-entry (de)serialisation to bytes, cbcs length preservation for the file/trex theorems (generic theorem with that hypothesis), "
                  "sidx (known finding C06-F3), absolute tfhd base_data_offset (C06-F2).",
    "level_note": "Trusted: Coq kernel, extraction, OCaml/Go glue. Modelled, not verified: crypto/aes, cipher CTR/CBC, box "
                  "(de)serialisation other than senc/saiz/saio (boxes are opaque kind/size/identity triples; sample-entry children are opaque identities), "
                  "16-byte box headers, trun/tfhd fields other than the sample sizes. The senc theorems are about the SencBox states EncryptFragment builds "
                  "(all samples of a fragment with, or all without, a sub-sample map: `uniform`).",
}


def build(ctx):
    exe, err = common.go_build("c06")
    if exe is None:
        raise common.CheckError("harness does not build against /repo with -tags verif:\n" + err[-2000:])
    model, err = common.build_model("c06", "C06Extract.v", "c06_driver.ml")
    if model is None:
        raise common.CheckError(err)
    return exe, model


def run(ctx):
    ctx.cov["trusted_base"] = common.TRUSTED_BASE_COMMON + [
        "model: coq/c06/C06SencModel.v (SencBox.Encode/calcSize, DecodeSenc, ParseReadBox, parseAndFillSamples, ParseReadSenc, saiz/saio encode), "
        "C06TrexModel.v (GetFullSamples size resolution trun/tfhd/trex, files), C06EntryModel.v + C06InitModel.v (InitProtect/DecryptInit), "
        "coq/c06/C06Model.v (decryptSamplesInPlace, TrafBox.RemoveEncryptionBoxes after the fix commit, MoofBox.RemovePsshs, "
        "DecryptFragment offset arithmetic, EncryptFragment's box additions, SetTrunDataOffsets) + coq/c07/C07Model.v (sample crypt)",
        "coq/c07/C07Aes.v AES-128 (encrypt + decrypt) validated against FIPS-197 vectors, used only in the correspondence",
    ]
    ctx.assumptions += ["one traf / one trun per fragment on the encrypt side (EncryptFragment rejects anything else)",
                        "cbcs inverse: E, D map to 16-byte blocks and D k (E k b) = b for 16-byte b; sub-sample map fits the sample (< 2^32 bytes)",
                        "clear input fragments carry no pssh/saiz/saio/senc boxes of their own",
                        "fragment theorems: default-base-is-moof addressing (an absolute tfhd base_data_offset is known finding C06-F2)",
                        "senc theorems: every sample of a fragment has a sub-sample map or none has (mixed fragments: known finding C06-F4); senc box < 2^32 bytes, "
                        "aux_consistent: entries < 256 bytes (C07-F1 beyond); saio: box sizes unchanged between EncryptFragment and Encode (C07-F2)",
                        "trex / file theorems: the decrypt side resolves sample sizes with the same trex as the encrypt side; cenc (cbcs: generic theorem with a length hypothesis)",
                        "init: no sample entry owns a sinf before protection"]
    exe, model = build(ctx)
    pr = ctx.proofs("c06", "C06Theorems.v")
    n = ctx.n(400, 8000)
    rc, cases, e = sh2([exe, "corr", "-seed", str(ctx.seed), "-n", str(n)], timeout=3000)
    if rc != 0:
        raise common.CheckError("harness corr failed: " + e[-1000:])
    lines = cases.splitlines()
    res = common.run_model(model, cases, timeout=3000)
    if len(res) != len(lines):
        raise common.CheckError("model driver answered %d of %d cases" % (len(res), len(lines)))
    mism = [l for l in res if not l.startswith("OK ")]
    distinct = len(set(l.split("\t", 2)[2] for l in lines if l.count("\t") >= 2))
    kinds, classes = {}, {}
    for l in lines:
        f = l.split("\t")
        kinds[f[0]] = kinds.get(f[0], 0) + 1
        c = f[0] + ":" + f[-1].split(":")[0].split("|")[0][:8]
        classes[c] = classes.get(c, 0) + 1
    ctx.cov["evaluations"] += len(lines)
    ctx.cov["distinct_nontrivial"] += distinct
    ctx.notes["correspondence"] = {
        "cases": len(lines), "mismatches": len(mism), "distinct_cases": distinct, "kinds": kinds, "outcome_classes": classes,
        "distribution": "P InitProtect+DecryptInit on the AVC/HEVC/AAC test inits with retyped entries (avc3, hev1, vp09, av01, ac-3, encv), extra entry children, an own sinf, pre-existing pssh, a second trak, unknown entry, bad scheme, 8/16-byte IVs, 0-2 pssh; D decryptSamplesInPlace (hook) on senc contents of every shape: 8/16-byte per-sample IVs incl. ff-carries, "
                        "constant IV, IV count != sample count, missing/short sub-sample lists, maps beyond the sample, bad keys, "
                        "schemes cenc/cbcs/other, patterns 1:9 and 0:0; S RemoveEncryptionBoxes on trafs mixing saiz/saio/senc/tfxd/tfrf/"
                        "unknown/free/trun/tfdt; G DecryptFragment after EncryptFragment+encode+decode (AVC/HEVC/audio, both schemes, "
                        "extra boxes in moof/traf, optional pssh in moof) and on the fragments of the 5 third-party encrypted files (PIFF uuid-senc, several truns): children kinds/sizes/identity, trun data offset, mdat position; "
                        "E senc/saiz/saio boxes of the moof that EncryptFragment+Encode really wrote (found by walking the bytes) compared byte for byte with the model's encoding computed from IV, sample lengths and protection ranges only, senc position, saio offset, and the SencBox after DecodeFile / after ParseReadSenc with perSampleIVSize tenc,0,8,16 (AVC/HEVC/audio, both schemes, a sample without ranges now and then); "
                        "M malformed senc boxes (wrong flags/counts up to 2^32-1, truncated/extended payload, size field beyond the data, version 1, random payload, IVs that look like sub-sample counts) through DecodeBox and DecodeBoxSR + ParseReadBox(0,8,16,5); "
                        "T sample sizes resolved by GetFullSamples with the file's trex and with nil on decoded clear files that signal sizes in trun / tfhd / trex only; "
                        "Q DecryptInit on moovs assembled from 1-3 tracks x 1-3 entries protected one by one by InitProtect (clear entries/tracks in between, avc3/hev1, btrt, unknown children, own sinf, pssh)",
    }
    ctx.cov["samples"] += [l[:300] for l in lines[10:12]] + [l[:300] for l in lines[n + 5:n + 7]] + [l[:300] for l in lines[-2:]]
    ctx.log("correspondence: %d cases, %d mismatches" % (len(lines), len(mism)))
    # search
    ns = ctx.n(500, 15000)
    cmd = [exe, "search", "-seed", str(ctx.seed), "-n", str(ns)]
    if ctx.tier == "thorough":
        b1, e1 = common.go_build_repo_cmd("cmd/mp4ff-encrypt", "c06bins/mp4ff-encrypt")
        b2, e2 = common.go_build_repo_cmd("cmd/mp4ff-decrypt", "c06bins/mp4ff-decrypt")
        if b1 is None or b2 is None:
            raise common.CheckError("mp4ff-encrypt/mp4ff-decrypt do not build: " + (e1 or e2)[-1500:])
        cmd += ["-bins", os.path.dirname(b1)]
        ctx.notes["binaries"] = "round trips also through the built mp4ff-encrypt / mp4ff-decrypt"
    rc, so, e = sh2(cmd, timeout=3000)
    if rc != 0:
        raise common.CheckError("harness search failed: " + e[-1000:])
    fails = []
    for l in so.splitlines():
        f = l.split("\t")
        if f[0] == "FAIL" and len(f) >= 5:
            fails.append(f)
        elif f[0] == "EVALS":
            ctx.cov["evaluations"] += int(f[1])
            ctx.notes["search_evaluations"] = int(f[1])
    unknown = 0
    for f in fails:
        if ctx.failing_input(f[1], f[2], f[3], f[4]):
            unknown += 1
    ctx.log("search: %d failing inputs (%d signatures)" % (len(fails), len(set((f[1], f[2]) for f in fails))))
    if mism and not unknown:   # failing inputs that are KNOWN findings do not explain a model/implementation mismatch
        by_id = {}
        for l in lines:
            p = l.split("\t")
            if len(p) > 1:
                by_id[p[1]] = l
        first = mism[0].split(" ")
        ctx.violation({"kind": "correspondence-mismatch", "correspondence": "C06Model vs mp4/crypto.go, traf.go (harness c06 corr)",
                       "mismatches": len(mism), "first_case": by_id.get(first[1], "")[:3000], "model_says": mism[0][:2000]},
                      "model/implementation disagree on %d cases" % len(mism), no_input=True)
    ctx.proof_violation_if_broken(pr, "c06 search: %d round trips, no failing input" % ctx.notes.get("search_evaluations", 0))
    for k in common.load_known():
        if k.get("property") == "C06" and k.get("status") == "fixed":
            ctx.log("fixed: property=C06 %s %s" % (k.get("commit"), k.get("site")))
    ctx.cov["rule"] = ("corr: %d case lines (kinds %s), distinct = distinct case lines; search: %d synthetic clear tracks (AVC/HEVC NALU "
                       "size mixes around 1,15-17,107-128,65535+-1, audio; cenc/cbcs; 8/16-byte IVs incl. ff..ff; extra uuid/unknown/free "
                       "boxes in moof/traf, optional pssh in moof) through InitProtect/EncryptFragment -> encode -> decode -> DecryptInit/DecryptFragment -> encode, "
                       "byte comparison with the clear file (then per-clause diagnosis); %d whole files built like mp4ff-encrypt/-decrypt process them (1-4 fragments, styp, 0-2 pssh in moov, tfhd base_data_offset variants; every second file against a non-trivial trex with sample size/duration/flags per fragment in trun, in tfhd defaults or only in trex + first-sample-flags), the intermediate encrypted file checked sample by sample against a reference AES-CTR / AES-CBC-pattern encryption (crypto/aes only) under the senc entry, whose sub-sample map must be the protection ranges of the clear sample; 5 third-party encrypted files: sizes/timing kept"
                       % (len(lines), kinds, ns, ns // 2))


def replay(ctx, path):
    import json
    r = json.load(open(path))
    print(json.dumps(r, indent=1))
    return 0
