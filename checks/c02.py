"""C02 — Size() equals bytes written equals the header size field, at every level."""
import json
import os
import common
from common import sh2
import c01 as c01check

LEVEL = "proof"
MANIFEST = {
    "technique": "Coq proof over the C01 box model (Size() transcribed separately from the encoders) and over a Gallina model of "
                 "the aggregates Fragment / MediaSegment / InitSegment / File built on the C05 fragment model (Size, Info, Encode, "
                 "EncodeSW as state transformers: OptimizeTfhdTrun, SetTrunDataOffsets, mdat LargeSize, EncOptimize hand-down; "
                 "EncodeSW also with the FixedSliceWriter capacity threaded through the boxes; SencBox with its two decoding phases) + "
                 "differential correspondence (extracted OCaml vs Go: boxes; histories of Size/Info/Encode/EncodeSW on API-built and "
                 "decoded aggregates, bytes and mutated fields after every operation) + failing-input search on every node of every "
                 "decoded tree and on aggregates, also after the setter calls / field updates applications make",
    "level_text": "PROOF for the modelled universe. Boxes (coq/c02/C02Theorems.v): C02_leaf (bytes written = Size() for ftyp styp free "
                  "skip mdat mfhd tfhd tfdt trun mvhd tkhd sidx trex mdhd hdlr stts stsc stsz stco co64 stss sdtp ctts elst saiz saio sbgp prft tenc frma vmhd smhd nmhd sthd mfro mehd tfra pssh url avcC btrt pasp colr clap schm cslg senc(raw) emsg elng kind hvcC subs esds uuid sgpd and the field prefixes of stsd dref Visual/AudioSampleEntry, all versions and flag sets), C02_tree (at "
                  "EVERY node of a tree of those leaves, pure containers and unknown boxes: the encoder succeeds, writes size_box "
                  "bytes, and the size field it writes is size_box; container = 8 + sum of children, also under the moov child "
                  "re-ordering), C02_encode_w / C02_encode_sw (both encode paths, conditional on success) and C02_encode_ok; "
                  "C02_decoded ('every structure obtained from the decoder', NO hypothesis on the tree: for EVERY slice the model "
                  "of DecodeBoxSR accepts - whatever follows the box - with an exact tree, at EVERY node the encoder succeeds, "
                  "writes Size() bytes and the size field it writes is Size(); Encode and EncodeSW both succeed with the same "
                  "Size() bytes, as many as the decoder consumed; the same for every top-level box of the DecodeFileSR box loop. "
                  "What size_ok asks in C02_tree - 4-character names, counts and sizes below 2^32 / 2^64 - is proved as an "
                  "invariant of the decoder's recursion; exact_box is evaluated on every correspondence case, the count of "
                  "cases it applied to is in the evidence: coverage.C02_decoded_applies_to). "
                  "Aggregates (coq/c02/C02AggTheorems.v), for ALL fragments / segments / init segments / files of the model (any "
                  "number and order of children in moof and traf, any trun flags, samples and write orders, optimisation on or off, "
                  "segment mode, box-tree mode and progressive files), whenever the model of Encode / EncodeSW succeeds: "
                  "C02_fragment / C02_segment / C02_init / C02_file (bytes written = Size() afterwards = sum of the box lengths, = "
                  "Size() beforehand when no optimisation is asked for, every top-level box starts with a size field equal to its "
                  "length), C02_fragment_tiled (the moof and every traf in it are containers: size field = length = 8 + sum of the "
                  "children), C02_optimize_idem / C02_optimize_moof_idem / C02_offsets_idem (the two state changes of Encode reach a "
                  "fixed point), C02_encode_pure / C02_encode_pure_noopt / C02_step_pure (whatever the outcome, an operation changes "
                  "nothing but data offsets, mdat.LargeSize and - with optimisation - trun flags / first-sample-flags and tfhd flags "
                  "/ defaults; never a version, a sample list, a tfdt, an opaque box), C02_encode_twice_* (after one successful "
                  "Encode the structure is settled: Encode and EncodeSW write the same bytes again, Size() is their number, Info and "
                  "Size change nothing) and C02_history_* (the same as an invariant over arbitrary histories of Size | Info | Encode "
                  "| EncodeSW, by induction over the operation list; C02_history_wf*: well-formedness is kept by every "
                  "operation), C02_c12_order (the boxes written in segment mode are, in number, order and length, those C12's "
                  "encode_file lists for the structure reached), C02_c05_moof_size / C02_c05_set_offsets (on C05's fragments with pairwise "
                  "different write order numbers aset_offsets IS C05's set_offsets), C02_scan / C02_*_scan / C02_container_scan (a "
                  "reader following the size fields from the first byte recovers exactly the boxes written, also behind the header "
                  "of a written moof / traf). SencBox (the box whose Encode/Info set a flag "
                  "Size() depends on): C02_senc_flag_idem, C02_senc_built (EVERY history of AddSample from CreateSencBox, refused "
                  "samples included, gives a built_ok box), C02_senc (a senc_ok box is left alone by Info/Encode/EncodeSW, both "
                  "paths write the same Size() bytes with a correct size field), C02_senc_obox (it is a well-formed stateless "
                  "opaque box of the aggregate theorems); *_refuted: the AddSample text before the repairs ecf1460 / 0b086ee, and "
                  "a box whose flag is inconsistent. Writer capacity (C02AggCapModel.v, the room left is threaded through every "
                  "box of Fragment / MediaSegment / InitSegment / File.EncodeSW): C02_encode_sw_capacity_independent / _segment / "
                  "_init / _file (a success with ANY capacity is the success of Encode, wrote exactly Size() bytes and left "
                  "capacity - Size(); EVERY capacity >= Size() gives the same state and boxes), _complete, and _refuted (false "
                  "for a box that writes more than Size(), the MetaBox defect 35ed2e5). Decoded SencBox states (senc_decode = "
                  "DecodeSenc / DecodeSencSR, senc_parse = ParseReadBox / parseAndFillSamples): C02_senc_decoded (every box the "
                  "first phase leaves - parsed or not, sample_count 0 with bytes after it included since 954ff09 - writes Size() "
                  "bytes with a correct size field on both paths and is not changed), C02_senc_zero_pinned_refuted (K1/K2/K4 "
                  "before the repair), C02_senc_parsed (after a successful second phase with any perSampleIVSize byte: never "
                  "more than Size() bytes, and exactly Size() IF AND ONLY IF senc_parse_exact: sub-sample flag set or count * "
                  "ivsize = len(data)), C02_senc_parsed_exact (since 4cf4f8b the guard always holds: every decoded and parsed box "
                  "writes exactly Size() bytes), C02_senc_parse_trailing_refuted (C02-K5, the text before 4cf4f8b). Progressive files / box-tree mode: "
                  "C02_file_progressive (one box per child in order, only mdat.LargeSize changes - moov with stco / co64 is "
                  "written as it is -, every box has the length Size() reports afterwards, the file position of every mdat "
                  "payload computed from Size() / HeaderSize() is its position in the output, a settled file is not changed). "
                  "EXPLORATION for all other registered box types (per-node "
                  "oracle through the Box interface) and for what the aggregate model keeps opaque (moov, styp, sidx, emsg, prft, "
                  "... are boxes with a Size() and bytes): histories on the real implementation, incl. after setter calls "
                  "and field updates with boundary values in every version- or width-dependent box, output re-decoded.",
    "level_note": "Trusted: as C01 (same model, same correspondence) for boxes; for aggregates the hand transcription of "
                  "fragment.go / moof.go / traf.go (OptimizeTfhdTrun via C05Model.optimize) / mdat.go / mediasegment.go / "
                  "initsegment.go / file.go into coq/c02/C02AggModel.v, tied to /repo by the history correspondence on every run. "
                  "Modelling assumptions (stated as boolean hypotheses *_wf of the theorems; the extracted model evaluates "
                  "afrag_wf / aseg_wf / obs_wf / afile_wf / senc_ok themselves - C02_wf_evaluated - on every correspondence "
                  "case and the evidence counts the cases they held on: theorem_hypotheses_evaluated): a box other than tfhd/tfdt/trun/mfhd/mdat/traf/moof is opaque and stateless (Size() taken before its "
                  "first Encode = bytes written = its size field); no mdat has lazily written data; a fragment is [boxes] moof "
                  "[boxes] mdat [boxes]; the pointer sharing between File.Children and the segments is a flag; equal write-order "
                  "numbers are ordered as Go's insertion sort does (up to 12 truns). The slice writer is modelled at box "
                  "granularity (a box that does not fit is an error of that box's EncodeSW; partial bytes of a failed box are "
                  "not observable in the model); sized-writer histories take Size() first (an operation of its own). SencBox is "
                  "modelled on its own (coq/c02/C02AggSencModel.v, its own correspondence streams: built, poked, decoded from "
                  "generated bytes by both decoders and parsed); inside a traf it is an opaque box, which C02_senc_obox (built) "
                  "and C02_senc_decoded / C02_senc_parsed_exact (decoded, parsed) justify; the state after "
                  "a FAILED Encode of a fragment holding an inconsistent senc is not modelled. Chunk offsets are not interpreted: "
                  "C02_file_progressive speaks about positions. C12's abstraction is reached through abs_file (kind and Size() "
                  "per box).",
}


def build(ctx):
    exe1, model = c01check.build(ctx)
    exe2, err = common.go_build("c02")
    if exe2 is None:
        raise common.CheckError("harness c02 does not build against /repo with -tags verif:\n" + err[-2000:])
    return exe1, exe2, model


def build_agg_model():
    amodel, err = common.build_model("c02", "C02AggExtract.v", "c02_driver.ml")
    if amodel is None:
        raise common.CheckError(err)
    return amodel


def proofs_start(ctx, files):
    """Quick tier: the re-checks of the theorem files (coqc of each Theorems file + Print Assumptions audit; the .vo builds
    stay serialised by common's lock) start in two threads and run while the correspondence and the search do (the pattern
    of checks/c15.py); proofs_finish waits for them and lets ctx.proofs do its bookkeeping per file, in order, with the
    results already computed.  Thorough tier: nothing is started, ctx.proofs runs strictly sequentially in proofs_finish
    (it also runs coqchk, never two at once)."""
    if ctx.tier != "quick":
        return None
    from concurrent.futures import ThreadPoolExecutor
    ex = ThreadPoolExecutor(max_workers=2)
    orig = common.coq_check_theorems
    return ex, orig, [(f, ex.submit(orig, "c02", f)) for f in files]


def proofs_finish(ctx, started, files):
    if started is None:
        return [ctx.proofs("c02", f) for f in files]
    ex, orig, futs = started
    try:
        res = dict((f, fu.result()) for f, fu in futs)
    finally:
        ex.shutdown(wait=True)
    common.coq_check_theorems = lambda d, f, **kw: res[f] if (d == "c02" and f in res) else orig(d, f, **kw)
    try:
        return [ctx.proofs("c02", f) for f in files]
    finally:
        common.coq_check_theorems = orig


def run_agg_corr(ctx, exe2, amodel, seed, n):
    """histories of Size/Info/Encode/EncodeSW on aggregates: real implementation vs extracted C02AggModel"""
    rc, cases, e = sh2([exe2, "corr", "-seed", str(seed), "-n", str(n)], timeout=3000)
    if rc != 0:
        raise common.CheckError("harness c02 corr failed: " + e[-1000:])
    lines = cases.splitlines()
    res = common.run_model(amodel, cases)
    mism = [l for l in res if not l.startswith("OK ")]
    kinds, wfs = {}, {}
    for l in res:
        p = l.split(" ")
        if p[0] == "OK" and len(p) > 2:
            kinds[p[2]] = kinds.get(p[2], 0) + 1
            if len(p) > 3 and p[3].startswith("wf="):
                w = wfs.setdefault(p[2], {"hypothesis_true": 0, "hypothesis_false": 0})
                w["hypothesis_true" if p[3] == "wf=1" else "hypothesis_false"] += 1
    distinct = len(set(l.split("\t", 2)[2] for l in lines if l.count("\t") >= 2))
    ctx.cov["evaluations"] += len(lines)
    ctx.cov["distinct_nontrivial"] += distinct
    stats = [l for l in e.splitlines() if l.startswith("STATS")]
    ctx.notes["aggregate_correspondence"] = {
        "what": "per operation of a random history of Size/Info/Encode/EncodeSW (EncodeSW into a generous writer and into writers of "
                "exactly Size(), Size()+1, Size()+64 and 2*Size() bytes = XSizedSW of C02AggCapModel): outcome (Size() value; length, md5 and top-level box "
                "lengths of the bytes; error; panic) and the mutated fields (trun flags/data offset/first-sample-flags, tfhd "
                "flags/defaults, mdat LargeSize, EncOptimize) vs afrag_step / aseg_step / ainit_step / afile_step; every opaque "
                "box is checked against the model's assumption Size()-before-first-Encode = bytes written = size field",
        "cases": len(lines), "mismatches": len(mism), "distinct_cases": distinct, "agreeing_by_kind": kinds,
        "theorem_hypotheses_evaluated": {
            "what": "per agreeing case, the boolean hypothesis of the aggregate theorems evaluated by the extracted model "
                    "(coq/c02/C02AggWfModel.v, proved equal to the theorems' own predicates: C02_wf_evaluated) on the structure "
                    "as handed over: frag = afrag_wf (C02_fragment, C02_history_*), seg = aseg_wf (C02_segment), init = obs_wf "
                    "(C02_init), file = afile_wf (C02_file, C02_file_progressive), senc = senc_ok (C02_senc); false = the "
                    "theorems say nothing about that case (a lazily written mdat, an opaque box whose Encode fails, a senc "
                    "with poked fields), only the correspondence does",
            "by_kind": wfs},
        "harness_stats": stats[0][:1500] if stats else "",
        "inputs": "API-built fragments (single/multi track, full/lazy/parts data, emsg/prft/free/uuid extras in fragment, moof, traf; "
                  "1/3 wild: hand-set trun/tfhd flags, preset offsets, missing moof/mdat/tfhd, second tfhd, unnumbered trun), "
                  "segments (0..2 sidx, 0..3 fragments), init segments and files (NewFile+AddChild+AddMediaSegment, FragEncMode "
                  "0/1/2), each optionally after setter calls / field updates with boundary values; every testdata file < 120 kB "
                  "decoded (both decoders) in both modes x optimisation, its first segments and fragments; senc: histories of "
                  "AddSample (no / 8 / 16-byte / mixed IVs, sub-samples on none / all / some samples), 1/4 with fields poked "
                  "afterwards (flag, SampleCount, truncated IVs / SubSamples, SetPerSampleIVSize), the senc boxes of the "
                  "decoded testdata, and generated senc boxes (compact / large-size header; 0-5 samples with 0/8/16-byte IVs, "
                  "with / without sub-sample tables; 0-2 damages: bytes appended or cut, count changed or zeroed, flags flipped, "
                  "version set, payload shorter than the fields) decoded by DecodeBox AND DecodeBoxSR, then ParseReadBox with "
                  "perSampleIVSize none / 0 / the right one / 1 4 8 16 255, then a history; observed after each step: outcome, "
                  "flags, perSampleIVSize, len(IVs), len(SubSamples), readButNotParsed",
    }
    ctx.cov["samples"] += [l[:300] for l in lines[3:5]]
    ctx.log("aggregate correspondence: %d histories (%d distinct), %d mismatches" % (len(lines), distinct, len(mism)))
    return lines, mism


def run(ctx):
    ctx.cov["trusted_base"] = common.TRUSTED_BASE_COMMON + [
        "model: coq/c01/C01Model.v (size_leaf / size_box transcribed from each Size(); raw_leaf / raw_box from each EncodeSW; "
        "encode_w / encode_sw model the FixedSliceWriter capacity check: overflow is an error, under-fill is silent)",
        "harness/c01/bx (scanner used to check that the written size fields tile the output), harness/c02 (aggregate histories)",
    ]
    ctx.assumptions += ["trees come from the decoders or from the public constructors; sizes below 2^32 except mdat",
                        "the property is conditional on Encode/EncodeSW reporting success"]
    exe1, exe2, model = build(ctx)
    amodel = build_agg_model()
    leaves, conts = c01check.model_names(model)
    ctx.notes["modelled_leaf_types"] = leaves
    ctx.notes["modelled_container_types"] = conts
    thm_files = ["C02Theorems.v", "C02AggTheorems.v"]
    started = proofs_start(ctx, thm_files)
    n = ctx.n(5000, 150000)
    lines, mism = c01check.run_corr(ctx, exe1, model,
                                    ["-seed", str(ctx.seed + 1000), "-n", str(n), "-kinds", ",".join(leaves + conts)],
                                    "Size() / Encode / EncodeSW outcome and bytes vs size_box / encode_w / encode_sw of the model")
    co = ctx.notes.get("correspondence", {})
    ctx.notes["C02_decoded_applies_to"] = {
        "what": "correspondence cases of this run on which the hypotheses of C02_decoded (model of DecodeBoxSR / the DecodeFileSR "
                "box loop accepts, exact_box) were EVALUATED to true by the extracted model, and on which Size(), Encode and "
                "EncodeSW of the real code agreed with the model (a disagreement is a mismatch above)",
        "boxes_hypotheses_true": co.get("accepted_exact", 0), "boxes_accepted_not_exact": co.get("accepted_inexact", 0),
        "files_hypotheses_true": co.get("whole_files", {}).get("accepted_exact", 0),
        "files_accepted_not_exact": co.get("whole_files", {}).get("accepted_inexact", 0)}
    ns = ctx.n(4000, 120000)
    fails = c01check.run_search(ctx, exe1, ["-seed", str(ctx.seed), "-n", str(ns), "-dontcare", c01check.DONTCARE], "c02")
    node_evals = ctx.notes.get("search_evaluations", 0)
    # aggregates: model vs implementation, then the property itself on the implementation
    alines, amism = run_agg_corr(ctx, exe2, amodel, ctx.seed + 2000, ctx.n(400, 12000))
    rc, so, e = sh2([exe2, "search", "-seed", str(ctx.seed), "-n", str(ctx.n(300, 6000))], timeout=3000)
    if rc != 0:
        raise common.CheckError("harness c02 search failed: " + e[-1000:])
    afails, notes = [], 0
    for l in so.splitlines():
        f = l.split("\t")
        if f[0] == "FAIL" and len(f) >= 5:
            afails.append(f)
        elif f[0] == "EVALS":
            ctx.cov["evaluations"] += int(f[1])
            ctx.notes["aggregate_histories"] = int(f[1])
        elif f[0] == "STAT":
            ctx.notes["aggregate_stat"] = f[1]
        elif f[0] == "NOTE":
            notes += 1
    ctx.notes["boxtree_reencode_differs_notes"] = notes
    for f in afails:
        ctx.failing_input(f[1], f[2], f[3], f[4])
    ctx.notes["search_evaluations"] = node_evals + ctx.notes.get("aggregate_histories", 0)
    ctx.log("aggregates: %d histories, %d failing" % (ctx.notes.get("aggregate_histories", 0), len(afails)))
    pr, pra = proofs_finish(ctx, started, thm_files)
    if mism and not c01check.fails_unknown(ctx):
        by_id = {}
        for l in lines:
            p = l.split("\t")
            if len(p) > 1:
                by_id[p[1]] = l
        first = mism[0].split(" ")
        ctx.violation({"kind": "correspondence-mismatch", "correspondence": "C01Model sizes/encoders vs mp4 (harness c01 corr)",
                       "mismatches": len(mism), "first_case": by_id.get(first[1], "")[:3000], "model_says": mism[0][:3000]},
                      "model/implementation disagree on %d cases" % len(mism), no_input=True)
    if amism and not c01check.fails_unknown(ctx):
        by_id = {}
        for l in alines:
            p = l.split("\t")
            if len(p) > 1:
                by_id[p[1]] = l
        first = amism[0].split(" ")
        ctx.violation({"kind": "correspondence-mismatch", "correspondence": "C02AggModel histories vs mp4 aggregates (harness c02 corr)",
                       "mismatches": len(amism), "first_case": by_id.get(first[1] if len(first) > 1 else "", "")[:3000],
                       "model_says": amism[0][:3000], "corr_seed": ctx.seed + 2000, "corr_n": ctx.n(400, 12000)},
                      "aggregate model/implementation disagree on %d histories: %s" % (len(amism), amism[0][:160]), no_input=True,
                      name="C02_nofail_agg.json")
    ctx.proof_violation_if_broken(pr, "c02 search: %d evaluations" % ctx.notes.get("search_evaluations", 0))
    ctx.proof_violation_if_broken(pra, "c02 search: %d evaluations" % ctx.notes.get("search_evaluations", 0))
    ctx.cov["rule"] = ("corr: as C01 (harvested boxes of modelled types, generated boxes and trees, mutants) comparing Size(), "
                       "Encode and EncodeSW outcome and bytes; search: for every accepted case of the C01 search inputs (all "
                       "registered types, both decoders) at EVERY node reachable through GetChildren: bytes written = Size() "
                       "before = after, first size field = bytes written, Encode = EncodeSW, Encode twice identical; aggregates: "
                       "every testdata file x 2 decoders x 2 encode modes x optimisation on/off and API-built init segments, "
                       "fragments, media segments with 0..2 sidx: Size/Encode/Size/Info/Encode/EncodeSW, output tiled by its size fields; "
                       "setters: built init segments (with edts/elst, mehd), segments (emsg, prft, sidx), files and decoded testdata "
                       "files after 1..4 setter calls / field updates (boundary values 0, 2^31, 2^32-1, 2^32, 2^40 +-1 in every "
                       "time/duration/size field of mvhd tkhd mdhd mehd tfdt sidx elst emsg prft, version toggles): the aggregate "
                       "history, the output re-decoded, and the per-node oracle on a second, equal copy; every aggregate history "
                       "also EncodeSW into writers of Size()+1, Size()+64 and 2*Size() bytes (success must mean exactly Size() "
                       "bytes, the same ones) and Encode into io.Writers that fail after k < Size() bytes (k at every box start, behind "
                       "every header, inside and at the end of every payload; failing for good or recovering): Encode must "
                       "not report success; progressive files (decoded testdata box by box, built ftyp/moov/mdat orders with "
                       "Data / DataParts / LargeSize): mdat payload positions from Size()/HeaderSize() = positions in the output, "
                       "moov written as it is; senc boxes decoded from generated bytes (both decoders) and parsed: per-node oracle; "
                       "HdlrBox with handler types of 0..8 characters; layouts chosen by a code, for EVERY value of the code: "
                       "avcC with AVCProfileIndication 0..255 (built with / without NoTrailingInfo and parameter sets; decoded by "
                       "both decoders from bytes with 0 / 2 / 4 trailing bytes) and the version byte 0..255 patched into encoded "
                       "mvhd tkhd mdhd mehd tfdt sidx elst prft boxes, decoded by both decoders: per-node oracle incl. roomy writers; "
                       "aggregate corr: see aggregate_correspondence.inputs")
    ctx.cov["trusted_base"] += [
        "model: coq/c02/C02AggModel.v (hand transcription of Fragment/MediaSegment/InitSegment/File Size, Info, Encode, EncodeSW, "
        "MoofBox.Encode, TrafBox, MdatBox, SetTrunDataOffsets; OptimizeTfhdTrun and the tfhd/tfdt/trun/mdat records and sizes "
        "from coq/c05/C05Model.v, C05FragModel.v, C05CodecModel.v); opaque boxes are (type, Size(), bytes, error) and stateless",
        "model: coq/c02/C02AggSencModel.v (hand transcription of mp4/senc.go: AddSample, setSubSamplesUsedFlag, Size, calcSize, "
        "Encode, EncodeSW, EncodeSWNoHdr, Info at level 1, DecodeSenc / DecodeSencSR, ParseReadBox, parseAndFillSamples)",
        "model: coq/c02/C02AggCapModel.v (the aggregate EncodeSW loops with the FixedSliceWriter room threaded through, box granularity)",
        "ocaml/c02_driver.ml, harness/c02/corr.go + setters.go (serialisation of the structures, digests of the mutated fields)",
    ]


def replay(ctx, path):
    r = json.load(open(path))
    w = r.get("witness", "") or ""
    if r.get("kind") == "correspondence-mismatch" and "C02AggModel" in r.get("correspondence", ""):
        print(json.dumps(r, indent=1)[:6000])
        exe1, exe2, model = build(ctx)
        amodel = build_agg_model()
        rc, cases, e = sh2([exe2, "corr", "-seed", str(r.get("corr_seed", 2000)), "-n", str(r.get("corr_n", 400))], timeout=3000)
        res = common.run_model(amodel, cases)
        mism = [l for l in res if not l.startswith("OK ")]
        print("replayed: %d mismatches" % len(mism))
        for l in mism[:5]:
            print(l[:600])
        return 1 if mism else 0
    if r.get("kind") == "failing-input" and (w.startswith("setters ") or w.startswith("file=") or w.startswith("built ")
                                             or w.startswith("Create") or w.startswith("HdlrBox") or w.startswith("AvcCBox") or " decoded (sr=" in w):
        # aggregate witnesses are descriptions; the search is deterministic for the recorded seed
        print(json.dumps(r, indent=1)[:6000])
        exe1, exe2, model = build(ctx)
        rc, so, e = sh2([exe2, "search", "-seed", str(r.get("seed", 0)), "-n", str(6000 if ctx.tier == "thorough" else 300)], timeout=3000)
        hit = [l for l in so.splitlines() if l.startswith("FAIL\t%s\t%s\t" % (r.get("site"), r.get("class")))]
        for l in hit[:3]:
            print(l[:1000])
        return 1 if hit else 0
    return c01check.replay(ctx, path)
