"""C02 — Size() equals bytes written equals the header size field, at every level."""
import json
import os
import common
from common import sh2
import c01 as c01check

LEVEL = "proof"
MANIFEST = {
    "technique": "Coq proof over the C01 box model (Size() transcribed separately from the encoders) + differential "
                 "correspondence (extracted OCaml vs Go: Size, Encode, EncodeSW) + failing-input search on every node of every "
                 "decoded tree (all registered box types) and on files / init segments / media segments / fragments",
    "level_text": "PROOF for the modelled universe (coq/c02/C02Theorems.v): C02_leaf (bytes written = Size() for ftyp styp free "
                  "skip mdat mfhd tfhd tfdt trun mvhd tkhd sidx trex mdhd hdlr stts stsc stsz stco co64 stss sdtp ctts elst saiz saio sbgp prft tenc frma vmhd smhd nmhd sthd mfro mehd tfra pssh, all versions and flag sets), C02_tree (at "
                  "EVERY node of a tree of those leaves, pure containers and unknown boxes: the encoder succeeds, writes size_box "
                  "bytes, and the size field it writes is size_box; container = 8 + sum of children, also under the moov child "
                  "re-ordering), C02_encode_w / C02_encode_sw (both encode paths, conditional on success) and C02_encode_ok (they "
                  "do succeed). EXPLORATION for all other registered box types (per-node oracle through the Box interface) and "
                  "for the aggregates File (both modes), InitSegment, MediaSegment, Fragment with and without trun optimisation: "
                  "histories Size, Encode, Size, Info, Encode, EncodeSW on the real implementation.",
    "level_note": "Trusted: as C01 (same model, same correspondence). The aggregates (Fragment/MediaSegment/InitSegment/File, "
                  "OptimizeTfhdTrun, SetTrunDataOffsets) are NOT modelled in Coq: for them the property is only explored on "
                  "testdata files and API-built structures. Encode-twice / Info-in-between is explored, not proved (the model's "
                  "encoders are pure functions).",
}


def build(ctx):
    exe1, model = c01check.build(ctx)
    exe2, err = common.go_build("c02")
    if exe2 is None:
        raise common.CheckError("harness c02 does not build against /repo with -tags verif:\n" + err[-2000:])
    return exe1, exe2, model


def run(ctx):
    ctx.cov["trusted_base"] = common.TRUSTED_BASE_COMMON + [
        "model: coq/c01/C01Model.v (size_leaf / size_box transcribed from each Size(); raw_leaf / raw_box from each EncodeSW; "
        "encode_w / encode_sw model the FixedSliceWriter capacity check: overflow is an error, under-fill is silent)",
        "harness/c01/bx (scanner used to check that the written size fields tile the output), harness/c02 (aggregate histories)",
    ]
    ctx.assumptions += ["trees come from the decoders or from the public constructors; sizes below 2^32 except mdat",
                        "the property is conditional on Encode/EncodeSW reporting success"]
    exe1, exe2, model = build(ctx)
    leaves, conts = c01check.model_names(model)
    ctx.notes["modelled_leaf_types"] = leaves
    ctx.notes["modelled_container_types"] = conts
    pr = ctx.proofs("c02", "C02Theorems.v")
    n = ctx.n(5000, 150000)
    lines, mism = c01check.run_corr(ctx, exe1, model,
                                    ["-seed", str(ctx.seed + 1000), "-n", str(n), "-kinds", ",".join(leaves + conts)],
                                    "Size() / Encode / EncodeSW outcome and bytes vs size_box / encode_w / encode_sw of the model")
    ns = ctx.n(4000, 120000)
    fails = c01check.run_search(ctx, exe1, ["-seed", str(ctx.seed), "-n", str(ns), "-dontcare", c01check.DONTCARE], "c02")
    node_evals = ctx.notes.get("search_evaluations", 0)
    # aggregates
    rc, so, e = sh2([exe2, "search", "-seed", str(ctx.seed), "-n", str(ctx.n(300, 6000))], timeout=3000)
    if rc != 0:
        raise common.CheckError("harness c02 search failed: " + e[-1000:])
    afails, notes = [], 0
    for l in so.splitlines():
        f = l.split("\t")
        if f[0] == "FAIL" and len(f) >= 5:
            afails.append(f)
        elif f[0] == "EVALS":
            ctx.cov["evaluations"] += int(f[1])
            ctx.notes["aggregate_histories"] = int(f[1])
        elif f[0] == "STAT":
            ctx.notes["aggregate_stat"] = f[1]
        elif f[0] == "NOTE":
            notes += 1
    ctx.notes["boxtree_reencode_differs_notes"] = notes
    for f in afails:
        ctx.failing_input(f[1], f[2], f[3], f[4])
    ctx.notes["search_evaluations"] = node_evals + ctx.notes.get("aggregate_histories", 0)
    ctx.log("aggregates: %d histories, %d failing" % (ctx.notes.get("aggregate_histories", 0), len(afails)))
    if mism and not c01check.fails_unknown(ctx):
        by_id = {}
        for l in lines:
            p = l.split("\t")
            if len(p) > 1:
                by_id[p[1]] = l
        first = mism[0].split(" ")
        ctx.violation({"kind": "correspondence-mismatch", "correspondence": "C01Model sizes/encoders vs mp4 (harness c01 corr)",
                       "mismatches": len(mism), "first_case": by_id.get(first[1], "")[:3000], "model_says": mism[0][:3000]},
                      "model/implementation disagree on %d cases" % len(mism), no_input=True)
    ctx.proof_violation_if_broken(pr, "c02 search: %d evaluations" % ctx.notes.get("search_evaluations", 0))
    ctx.cov["rule"] = ("corr: as C01 (harvested boxes of modelled types, generated boxes and trees, mutants) comparing Size(), "
                       "Encode and EncodeSW outcome and bytes; search: for every accepted case of the C01 search inputs (all "
                       "registered types, both decoders) at EVERY node reachable through GetChildren: bytes written = Size() "
                       "before = after, first size field = bytes written, Encode = EncodeSW, Encode twice identical; aggregates: "
                       "every testdata file x 2 decoders x 2 encode modes x optimisation on/off and API-built init segments, "
                       "fragments, media segments with 0..2 sidx: Size/Encode/Size/Info/Encode/EncodeSW, output tiled by its size fields")


def replay(ctx, path):
    return c01check.replay(ctx, path)
