"""C05 — samples written into fragments are read back exactly."""
import json
import common
from common import sh2

LEVEL = "proof"
MANIFEST = {
    "technique": "Coq proof over a hand-written Gallina model of mp4ff fragment building (Create*/Add*/OptimizeTfhdTrun/"
                 "SetTrunDataOffsets/encode layout/AddSampleDefaultValues/GetFullSamples) + differential correspondence "
                 "(extracted OCaml vs the real Go API on op histories) + round-trip search on the implementation",
    "level_text": "Theorems (coq/c05/C05Theorems.v, all closed under the global context), for ALL sample field values, flag words, "
                  "trex contents, extra-box sizes and op histories (induction over the op list): C05_roundtrip / C05_roundtrip_nil / "
                  "C05_roundtrip_lazy / C05_roundtrip_single / C05_roundtrip_single_modes: "
                  "for multi-track fragments under any history of AddFullSampleToTrack (unknown ids refused, tracks receiving nothing "
                  "included; also the metadata-only form AddSampleToTrack with the data written by the caller after the fragment) and "
                  "single-track fragments under all six add operations in each data mode (full samples, metadata only, sample intervals), "
                  "optimisation on or off, any trex (nil for multi-track): "
                  "if Encode succeeds, GetFullSamples on the decoded view returns exactly the added full samples of the trex's track "
                  "(bytes, size, duration, flags, cto, decode time), given Size=len(Data), decode times consistent with durations and "
                  "the 2 GiB int32 guard; trun/tfhd enter through their wire view, which C05_trun_codec / C05_tfhd_codec prove to be "
                  "decode(encode) at the byte level (other boxes are positions and sizes). Components: "
                  "C05_optimize_resolve, C05_optimize_preserves_resolve (every flag word), C05_optimize_pinned_refuted (stale "
                  "first-sample-flags, fixed), C05_history_inv(_single) (one trun per maximal run, write-order number = run index, "
                  "per-track concatenation = added samples), C05_history_mdat, C05_offsets (data offset = moof + written mdat header + "
                  "sizes of earlier runs; run data placed there; tfdt = first decode time), C05_offsets_partial (single run, all six "
                  "operations), C05_lazy_equiv_partial (metadata-only histories build the same trafs/moof, lazy size = sum of sizes). "
                  "NOT proved, explored only (model correspondence + round-trip search on the real code): container framing and the "
                  "mfhd/tfdt/mdat/extra-box bytes, both encoders/decoders, multi-fragment segments (fragments are independent: pos0 is "
                  "arbitrary), mixed data modes in one fragment.",
    "level_note": "Trusted: Coq kernel, extraction (ExtrOcamlBasic), OCaml/Go glue, generators. The model is a hand transcription tied to "
                  "/repo by differential runs on every check (op outcome classes, write-order numbers, tfdt, mdat bookkeeping, flags and "
                  "defaults after optimisation, all data offsets, sizes, recovered FullSample lists). Box bodies other than "
                  "tfhd/tfdt/trun/mdat are opaque sizes; io errors are not modelled; sort.Slice is modelled by a stable sort (write-order "
                  "numbers made by the API are pairwise different). Single-track calls on multi-track fragments and mixed data modes "
                  "are outside the documented use and only covered by the correspondence.",
}

HANDLED = ("O", "H", "D", "G", "B")   # case kinds the model driver recomputes


def build(ctx):
    exe, err = common.go_build("c05")
    if exe is None:
        raise common.CheckError("harness does not build against /repo with -tags verif:\n" + err[-2000:])
    model, err = common.build_model("c05", "C05Extract.v", "c05_driver.ml")
    if model is None:
        raise common.CheckError(err)
    return exe, model


def run(ctx):
    ctx.cov["trusted_base"] = common.TRUSTED_BASE_COMMON + [
        "model: coq/c05/C05Model.v is a hand transcription of mp4/fragment.go, trun.go, tfhd.go, tfdt.go, traf.go "
        "(OptimizeTfhdTrun), mdat.go, trex.go (io errors not modelled; box bodies other than tfhd/tfdt/trun/mdat are opaque sizes)",
        "hooks: /repo/mp4/verif_c05.go (build tag verif) exposes nextTrunNr and writeOrderNr read-only",
    ]
    ctx.assumptions += [
        "the io.Writer never fails; decode input is the byte string that was written",
        "Sample.Size equals len(Data) and decode times are consistent with the durations in the search (the property's reading); "
        "the correspondence also runs histories violating this",
        "single-track calls (AddFullSample/AddSample/AddSamples/AddSampleInterval) are searched only on CreateFragment fragments "
        "(their documented domain); one data mode (full / metadata-only / interval parts) per fragment",
        "Fragment.Encode with OptimizeTrun on a single-track fragment without samples returns the error 'no samples in trun': "
        "counted as a refusal, not as a failing input",
        "no box between moof and mdat (DecodeFile rejects it explicitly)",
    ]
    exe, model = build(ctx)
    pr = ctx.proofs("c05", "C05Theorems.v")
    pr_seg = ctx.proofs("c05", "C05SegTheorems.v")
    # ---- correspondence
    n = ctx.n(3000, 60000)
    exh_c, exh_s = ctx.n(2, 3), ctx.n(3, 4)
    rc, cases, e = sh2([exe, "corr", "-seed", str(ctx.seed), "-n", str(n), "-exh", str(exh_c)], timeout=3000)
    if rc != 0:
        raise common.CheckError("harness corr failed: " + e[-1000:])
    all_lines = cases.splitlines()
    stats = {}
    for l in all_lines:
        if l.startswith("STAT\t"):
            f = l.split("\t")
            stats[f[1]] = int(f[2])
    lines = [l for l in all_lines if l.split("\t", 1)[0] in HANDLED]
    res = common.run_model(model, "\n".join(lines) + "\n")
    mism = [l for l in res if not l.startswith("OK ")]
    if len(res) != len(lines):
        raise common.CheckError("model driver answered %d of %d cases" % (len(res), len(lines)))
    distinct = len(set(l.split("\t", 2)[2] for l in lines))
    ctx.cov["evaluations"] += len(lines)
    ctx.cov["distinct_nontrivial"] += distinct
    ctx.notes["correspondence"] = {
        "cases": len(lines), "mismatches": len(mism), "distinct_cases": distinct,
        "kinds": {k: sum(1 for l in lines if l.startswith(k + "\t")) for k in HANDLED},
        "input_distribution": stats,
    }
    ctx.cov["samples"] += [l[:400] for l in lines[10:12]] + [l[:400] for l in lines[-2:]]
    ctx.log("correspondence: %d cases, %d mismatches" % (len(lines), len(mism)))
    # ---- search: the property itself on the implementation
    ns = ctx.n(20000, 1500000)
    rc, so, e = sh2([exe, "search", "-seed", str(ctx.seed), "-n", str(ns), "-exh", str(exh_s)], timeout=3000)
    if rc != 0:
        raise common.CheckError("harness search failed: " + e[-1000:])
    fails = []
    for l in so.splitlines():
        f = l.split("\t")
        if f[0] == "FAIL":
            fails.append(f)
        elif f[0] == "EVALS":
            ctx.cov["evaluations"] += int(f[1])
            ctx.notes["search_evaluations"] = int(f[1])
    for f in fails:
        ctx.failing_input(f[1], f[2], f[3], f[4], extra={"replay_cmd": "build/bin/c05 replay -w '<witness>'"})
    ctx.log("search: %d evaluations, %d failing inputs" % (ctx.notes.get("search_evaluations", 0), len(fails)))
    for k in common.load_known():
        if k.get("property") == "C05" and k.get("status") == "fixed":
            print("fixed: property=C05 %s %s/%s" % (k.get("commit"), k.get("site"), k.get("class")))
    if mism and not fails:
        by_id = {}
        for l in lines:
            p = l.split("\t")
            if len(p) > 1:
                by_id[p[1]] = l
        first = mism[0].split(" ")
        ctx.violation({"kind": "correspondence-mismatch", "correspondence": "C05Model vs mp4 fragment API (harness c05 corr)",
                       "mismatches": len(mism), "first_case": by_id.get(first[1], "")[:3000], "model_says": mism[0][:3000]},
                      "model/implementation disagree on %d cases" % len(mism), no_input=True)
    ctx.proof_violation_if_broken(pr, "c05 search: %d evaluations, no failing input" % ctx.notes.get("search_evaluations", 0))
    ctx.proof_violation_if_broken(pr_seg, "c05 search: %d evaluations, no failing input" % ctx.notes.get("search_evaluations", 0))
    ctx.cov["rule"] = ("corr O: %d random (tfhd, trun flag word, first-sample-flags, 0-6 samples from small pools, trex or none) through "
                       "OptimizeTfhdTrun, the real tfhd/trun codecs (encoded bytes compared byte for byte) and AddSampleDefaultValues; corr D: as many "
                       "encoded trun/tfhd boxes with mutated flags/version/count/length through DecodeBox and DecodeBoxSR vs the model decoders; corr H: one case per fragment of as many random "
                       "segments (a third of them outside the documented use: mixed data modes, single-track calls on multi-track "
                       "fragments, unknown track ids, inconsistent sizes/decode times): op outcome classes, write-order numbers, tfdt, "
                       "mdat bookkeeping, tfhd/trun flags and defaults after optimisation, every data offset, moof/mdat-header/encoded sizes, "
                       "the moof bytes (byte for byte, when moof and trafs have no extra children), "
                       "FullSample lists recovered by DecodeFile/DecodeFileSR + GetFullSamples for every trex and nil; "
                       "plus every history of length <= %d over 2 tracks and 2-valued flags/duration/cto with and without optimisation; "
                       "distinct = distinct case lines; "
                       "search: every such history of length <= %d, then %d random segments (1-4 tracks, 1-3 fragments, 0-40 ops, extra boxes, both encoders, optimise on/off, "
                       "both decoders, adversarial trex): added list == recovered list per track, and the data-offset oracle; "
                       "probes with metadata-only samples of huge payloads (offset oracle only) and a re-encode probe"
                       % (n, exh_c, exh_s, ns))


def replay(ctx, path):
    r = json.load(open(path))
    print(json.dumps(r, indent=1)[:6000])
    if r.get("kind") == "failing-input":
        exe, _ = common.go_build("c05")
        rc, so, e = sh2([exe, "replay", "-w", r["witness"]], timeout=300)
        print(so)
        return 1 if so.startswith("FAIL") else 0
    return 0
