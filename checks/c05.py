"""C05 — samples written into fragments are read back exactly."""
import json
import common
from common import sh2

LEVEL = "proof"
MANIFEST = {
    "technique": "Coq proof over a hand-written Gallina model of mp4ff fragment building (Create*/Add*/OptimizeTfhdTrun/"
                 "SetTrunDataOffsets/encode layout/AddSampleDefaultValues/GetFullSamples), of MediaSegment.Encode and the DecodeFile "
                 "regrouping of a box stream into segments and fragments, and of the byte-level box framing (headers, mfhd, tfdt, tfhd, "
                 "trun, traf, moof, mdat) + differential correspondence (extracted OCaml vs the real Go API on op histories, whole "
                 "segments, malformed box sequences and mutated moof bytes) + round-trip search on the implementation",
    "level_text": "Theorems (coq/c05/C05Theorems.v, C05SegTheorems.v and C05EncTheorems.v, all closed under the global context), for ALL sample field values, "
                  "flag words, trex contents, extra-box sizes and op histories (induction over the op list and over the fragment list): "
                  "C05_segment_roundtrip_any: for ANY list of encoded fragments in ANY mix of the classes multi-track/AddFullSampleToTrack "
                  "(trex or nil trex), multi-track/AddSampleToTrack with the data written by the caller, single-track under ALL SIX add "
                  "operations (one data mode per fragment: full, metadata-only, sample intervals), with emsg/prft/free/uuid/unknown boxes of "
                  "any size before the moof, after the mdat and between the fragments, head = nothing or styp + any sidx boxes, with or "
                  "without init, any start position, optimisation on/off, any trex: the stream is well framed, DecodeFile yields one fragment "
                  "per encoded fragment and reading fragment by fragment returns the concatenation of what each fragment's theorem says "
                  "(the added samples: bytes, size, duration, flags, cto, decode time). C05_segment_roundtrip_any_sidx / "
                  "C05_segment_decode_sidx: the same with head = sidx boxes WITHOUT styp (the File then starts segments by position) under "
                  "sidx_guard = no segment start while a fragment opened by an emsg waits for its moof (C05_sidx_guard_refuted: without it "
                  "DecodeFile leaves a moof-less fragment; witness replayed on the real code in corr). C05_segment_roundtrip (multi-track "
                  "full-sample histories), C05_segment_roundtrip_emsg + C05_emsg_layout: ANY interleaving of the sample additions with "
                  "Fragment.AddEmsg / AddChild keeps Children = pre ++ [moof; mdat] ++ post, AddEmsg cannot fail and puts every emsg in "
                  "front of the moof, and such histories round-trip (C05_add_emsg_pinned_refuted: the text before fix 8f3ca14 panics / puts "
                  "the emsg behind the mdat). Components: C05_segment_decode, C05_segment_independent. Per fragment: C05_roundtrip / _nil / "
                  "_lazy / _single / _single_modes, C05_optimize_resolve, C05_optimize_preserves_resolve, C05_history_inv(_single), "
                  "C05_history_mdat, C05_offsets(_partial), C05_lazy_equiv_partial. Byte level: C05_trun_codec, C05_tfhd_codec, C05_tfdt_codec, "
                  "C05_fragment_codec (moof ++ mdat incl. the 16-byte mdat header parses back to the wire view), C05_roundtrip_bytes "
                  "(C05_roundtrip end to end on the bytes of one fragment, fields within their wire widths, NO bound on the samples per "
                  "trun: C05_optimized_trun_decodes proves DecodeTrun's 1024 guard accepts whatever OptimizeTfhdTrun writes for a CreateTrun "
                  "trun, after fix 6c7a902; C05_optimized_trun_pinned_refuted for the old text). Refuted: C05_optimize_pinned_refuted (fixed), "
                  "C05_mixed_modes_refuted (known C05-F8). "
                  "Encode INSIDE the histories (C05EncTheorems.v; Fragment.Encode is a state transformer: encode_state / run_hops): "
                  "C05_encodes_simulation: for ANY starting fragment and all six add operations, a history with Encode calls accepts / refuses / "
                  "panics on the same additions as the additions alone and reaches their fragment up to data offsets, large-size mark and (after "
                  "optimised Encodes) flag word + tfhd defaults of the first trun; C05_roundtrip_with_encodes / _nil / _single: additions "
                  "interleaved with any number of PLAIN Encodes read back exactly (the last Encode decides; multi-track AddFullSampleToTrack "
                  "and single-track AddFullSample histories, optimisation on/off in the final Encode, any trex / nil); "
                  "C05_plain_encodes_invisible: for ANY starting fragment and all six operations the final Encode after plain Encodes returns THE "
                  "SAME encoded fragment as after the additions alone (it rewrites every data offset; OptimizeTfhdTrun never reads one), "
                  "unless a middle Encode saw > 4 GiB - 9 of payload and left the large-size mark: every encode-free theorem transfers by "
                  "rewriting, done for C05_roundtrip_with_encodes_modes (single-track, all six operations, one data mode); "
                  "C05_roundtrip_with_encodes_guarded / _first: any Encodes in the middle, also with OptimizeTrun, under the guard first_selfres "
                  "on the state the final Encode sees (the first trun of the first traf resolves to its own samples under its flag word + "
                  "tfhd defaults); that every other trun keeps all four fields is proved as an invariant (C05_encodes_others_keep_fields); "
                  "structure level; C05_encodes_opt_refuted = known finding C05-F10 (guard false, stale duration); "
                  "C05_optimized_trun_decodes_cto: DecodeTrun's 1024 guard accepts the optimised form of EVERY trun that has a composition-"
                  "offset field, whatever its other flags, for any sample count; C05_optimized_trun_nocto_refuted: without that field (flags "
                  "0x701, 1025 equal samples) the optimised trun is refused: CreateTrun always sets 0xf01, so inside the quantifier (additions, "
                  "ONE Encode) this cannot happen, but C05_encodes_opt_bare_refuted shows the API route through an EARLIER optimised Encode "
                  "(2 equal samples; Encode with OptimizeTrun; 1023 more; Encode: 1025 samples, flags 0x001, refused; reproduced on the real "
                  "code, probe:bareafteropt, class of C05-F10). C05_base_is_moof_start / C05_segment_base_is_moof_start: the base of the trun "
                  "data offsets is the moof start (position of the fragment's first box + sizes of the boxes in front of the moof) for every "
                  "decoded fragment of every segment; with the fragment start as base a fragment with an emsg in front does not read back. "
                  "NOT proved, explored only (correspondence + search): AddEmsg / AddChild on fragments that are not created ones (NewFragment, "
                  "decoded fragments: corr kind L and probe:emsg), OPTIMISED Encodes in the middle of metadata-only / interval / single-track "
                  "histories (simulation proved; round trip under the guard only for multi-track full-sample histories), byte level of extra children inside moof/traf and of the "
                  "boxes around the fragments (sizes only), EncodeSW vs Encode and DecodeFile vs DecodeFileSR (one model; differences are searched), "
                  "Fragment.GetSampleInterval (search oracle only).",
    "level_note": "Trusted: Coq kernel, extraction (ExtrOcamlBasic), OCaml/Go glue, generators. The model is a hand transcription tied to "
                  "/repo by differential runs on every check (op outcome classes, write-order numbers, tfdt, mdat bookkeeping, flags and "
                  "defaults after optimisation, all data offsets, sizes, moof bytes, recovered FullSample lists; per segment: framing, "
                  "number of segments and fragments, every moof start and mdat payload position, per-track read-back; malformed box "
                  "sequences: error/panic classes). Box bodies other than mfhd/tfhd/tfdt/trun/mdat are opaque sizes; io errors are not "
                  "modelled; positions are not wrapped at 2^64; sort.Slice is modelled by a stable sort (write-order numbers made by the "
                  "API are pairwise different). The byte-level container model is strict (a child's declared size must be what its "
                  "decoder consumes): the real SliceReader decoders advance by the computed size and accept some streams the model "
                  "refuses (compared one-sidedly on mutated moofs). Beyond the mdat payload TrunBox.GetFullSamples slices up to the "
                  "capacity of mdat.Data where the model says panic (outside every theorem's domain; excluded from the comparison). "
                  "encode_frag mirrors MoofBox.Encode BEFORE repo fix 1704b4c in two corners that no theorem's domain and no generated case "
                  "reaches: a fragment without any traf (model Panic, Go now nil) and an unset data offset in a LATER traf's trun (model Panic, "
                  "Go now the error); results Ok are unaffected. Not changed in this round: coq/c11 restates the definition's text.",
}

HANDLED = ("O", "H", "D", "G", "B", "M", "L")   # case kinds the model driver recomputes


def build(ctx):
    exe, err = common.go_build("c05")
    if exe is None:
        raise common.CheckError("harness does not build against /repo with -tags verif:\n" + err[-2000:])
    model, err = common.build_model("c05", "C05Extract.v", "c05_driver.ml")
    if model is None:
        raise common.CheckError(err)
    return exe, model


def run(ctx):
    ctx.cov["trusted_base"] = common.TRUSTED_BASE_COMMON + [
        "model: coq/c05/C05Model.v is a hand transcription of mp4/fragment.go, trun.go, tfhd.go, tfdt.go, traf.go "
        "(OptimizeTfhdTrun), mdat.go, trex.go (io errors not modelled; box bodies other than tfhd/tfdt/trun/mdat are opaque sizes)",
        "model: coq/c05/C05EmsgModel.v transcribes Fragment.AddEmsg (after fix 8f3ca14; the pinned text with the slice capacity as a parameter) and AddChild on the ordered children",
        "model: coq/c05/C05SegModel.v transcribes mediasegment.go Encode, file.go DecodeFile/AddChild/startSegmentIfNeeded (default options) "
        "at the level of boxes; coq/c05/C05SegCodecModel.v the box headers, container children loop, mfhd, tfdt, traf, moof, mdat header (strict framing)",
        "hooks: /repo/mp4/verif_c05.go (build tag verif) exposes nextTrunNr and writeOrderNr read-only",
    ]
    ctx.assumptions += [
        "the io.Writer never fails; decode input is the byte string that was written",
        "Sample.Size equals len(Data) and decode times are consistent with the durations in the search (the property's reading); "
        "the correspondence also runs histories violating this",
        "single-track calls (AddFullSample/AddSample/AddSamples/AddSampleInterval) are searched only on CreateFragment fragments "
        "(their documented domain); one data mode (full / metadata-only / interval parts) per fragment",
        "Fragment.Encode with OptimizeTrun on a single-track fragment without samples returns the error 'no samples in trun': "
        "counted as a refusal, not as a failing input",
        "no box between moof and mdat (DecodeFile rejects it explicitly)",
        "segments in the search: 1-6 fragments, head = nothing / styp / styp + truthful sidx / truthful sidx alone (references = the "
        "fragments' byte lengths); sidx boxes with arbitrary references only in the correspondence",
        "default decode options (no DecISMFlag / DecStartOnMoof / lazy mdat)",
    ]
    exe, model = build(ctx)
    pr = ctx.proofs("c05", "C05Theorems.v")
    pr_seg = ctx.proofs("c05", "C05SegTheorems.v")
    pr_enc = ctx.proofs("c05", "C05EncTheorems.v")
    ctx.cov["trusted_base"].append("model: coq/c05/C05EncHistModel.v transcribes Fragment.Encode / EncodeSW as a state transformer "
                                   "(OptimizeTfhdTrun on the first trun, SetTrunDataOffsets, MoofBox.Encode's data-offset check after fix 1704b4c, MdatBox.Size)")
    ctx.notes["model_coverage"] = ("Encode in the middle of the H / G histories (N plain; O with OptimizeTrun, correspondence only) is run by the model "
                                   "(encode_state); observable n= = tfhd flags/defaults, trun flags and data offsets right after each; "
                                   "AddEmsg / AddChild / boxes put in front directly are ops of the H and G histories (the model computes the "
                                   "children layout; observable lay=), corr kind L runs them on created, empty and decoded fragments; "
                                   "O cases include truns of 1023..1100 mostly uniform samples (DecodeTrun's 1024 guard)")
    # ---- correspondence
    n = ctx.n(3000, 60000)
    exh_c, exh_s = ctx.n(2, 3), ctx.n(3, 4)
    rc, cases, e = sh2([exe, "corr", "-seed", str(ctx.seed), "-n", str(n), "-exh", str(exh_c)], timeout=3000)
    if rc != 0:
        raise common.CheckError("harness corr failed: " + e[-1000:])
    all_lines = cases.splitlines()
    stats = {}
    for l in all_lines:
        if l.startswith("STAT\t"):
            f = l.split("\t")
            stats[f[1]] = int(f[2])
    lines = [l for l in all_lines if l.split("\t", 1)[0] in HANDLED]
    res = common.run_model(model, "\n".join(lines) + "\n")
    mism = [l for l in res if not l.startswith("OK ")]
    if len(res) != len(lines):
        raise common.CheckError("model driver answered %d of %d cases" % (len(res), len(lines)))
    distinct = len(set(l.split("\t", 2)[2] for l in lines))
    ctx.cov["evaluations"] += len(lines)
    ctx.cov["distinct_nontrivial"] += distinct
    ctx.notes["correspondence"] = {
        "cases": len(lines), "mismatches": len(mism), "distinct_cases": distinct,
        "kinds": {k: sum(1 for l in lines if l.startswith(k + "\t")) for k in HANDLED},
        "input_distribution": stats,
    }
    ctx.cov["samples"] += [l[:400] for l in lines[10:12]] + [l[:400] for l in lines[-2:]]
    ctx.log("correspondence: %d cases, %d mismatches" % (len(lines), len(mism)))
    # ---- search: the property itself on the implementation
    ns = ctx.n(20000, 1500000)
    rc, so, e = sh2([exe, "search", "-seed", str(ctx.seed), "-n", str(ns), "-exh", str(exh_s)], timeout=3000)
    if rc != 0:
        raise common.CheckError("harness search failed: " + e[-1000:])
    fails = []
    for l in so.splitlines():
        f = l.split("\t")
        if f[0] == "FAIL":
            fails.append(f)
        elif f[0] == "EVALS":
            ctx.cov["evaluations"] += int(f[1])
            ctx.notes["search_evaluations"] = int(f[1])
    new_fails = 0
    for f in fails:
        if ctx.failing_input(f[1], f[2], f[3], f[4], extra={"replay_cmd": "build/bin/c05 replay -w '<witness>'"}):
            new_fails += 1
    ctx.log("search: %d evaluations, %d failing inputs" % (ctx.notes.get("search_evaluations", 0), len(fails)))
    for k in common.load_known():
        if k.get("property") == "C05" and k.get("status") == "fixed":
            print("fixed: property=C05 %s %s/%s" % (k.get("commit"), k.get("site"), k.get("class")))
    # a model/implementation disagreement alarms unless a NEW failing input already does (known findings do not mask it)
    if mism and not new_fails:
        by_id = {}
        for l in lines:
            p = l.split("\t")
            if len(p) > 1:
                by_id[p[1]] = l
        first = mism[0].split(" ")
        ctx.violation({"kind": "correspondence-mismatch", "correspondence": "C05Model vs mp4 fragment API (harness c05 corr)",
                       "mismatches": len(mism), "first_case": by_id.get(first[1], "")[:3000], "model_says": mism[0][:3000]},
                      "model/implementation disagree on %d cases" % len(mism), no_input=True)
    ctx.proof_violation_if_broken(pr, "c05 search: %d evaluations, no failing input" % ctx.notes.get("search_evaluations", 0))
    ctx.proof_violation_if_broken(pr_seg, "c05 search: %d evaluations, no failing input" % ctx.notes.get("search_evaluations", 0))
    ctx.proof_violation_if_broken(pr_enc, "c05 search: %d evaluations, no failing input" % ctx.notes.get("search_evaluations", 0))
    ctx.cov["rule"] = ("corr O: %d random (tfhd, trun flag word, first-sample-flags, 0-6 samples from small pools, trex or none) through "
                       "OptimizeTfhdTrun, the real tfhd/trun codecs (encoded bytes compared byte for byte) and AddSampleDefaultValues; corr D: as many "
                       "encoded trun/tfhd boxes with mutated flags/version/count/length through DecodeBox and DecodeBoxSR vs the model decoders; corr H: one case per fragment of as many random "
                       "segments (a third of them outside the documented use: mixed data modes, single-track calls on multi-track "
                       "fragments, unknown track ids, inconsistent sizes/decode times): op outcome classes, write-order numbers, tfdt, "
                       "mdat bookkeeping, tfhd/trun flags and defaults after optimisation, every data offset, moof/mdat-header/encoded sizes, "
                       "the moof bytes (byte for byte, when moof and trafs have no extra children), "
                       "FullSample lists recovered by DecodeFile/DecodeFileSR + GetFullSamples for every trex and nil; "
                       "plus every history of length <= %d over 2 tracks and 2-valued flags/duration/cto with and without optimisation; "
                       "distinct = distinct case lines; "
                       "corr G: one case per random segment whose fragments all encode (1-6 fragments, emsg/prft/free/uuid/unknown boxes in and between them, styp, sidx truthful or arbitrary, "
                       "with/without init, Encode or EncodeSW, DecodeFile or DecodeFileSR): framing bits, segments, fragments per segment, moof start and mdat payload positions, per-trex read-back over all fragments; "
                       "corr B: as many malformed sequences of top-level boxes (mdat without moof, box between moof and mdat, two moofs, emsg only, styp/sidx in the middle): error/panic classes, segments, positions, GetFullSamples classes; "
                       "corr L: as many AddEmsg / AddChild / Encode histories on CreateFragment, CreateMultiTrackFragment, NewFragment and decoded fragments (emsg behind the mdat, alone, several in a row; boxes put in front directly): outcome class of every call and the children (kind, size) afterwards vs add_emsg / add_child; "
                       "H/G histories also contain AddEmsg (E), AddChild (C), Encode calls in the middle (N plain, O with OptimizeTrun: outcome class + tfhd/trun flags and data offsets right after each compared as n=, the decode stage then shows the stale values of finding C05-F10 on both sides) and boxes put in front of the moof directly (children layout compared as lay=); O every 150th case has 1023..1100 mostly uniform samples; G also the witness of C05_sidx_guard_refuted (4 decoders); "
                       "corr M: the moof bytes of every plain fragment through DecodeBoxSR vs the byte-level model (1/4 truncated, 1/4 one byte changed: there the stricter model may answer error); "
                       "search: every such history of length <= %d, then %d random segments (1-4 tracks, 1-6 fragments, 0-40 ops, extra boxes, sidx, both encoders, optimise on/off, "
                       "both decoders, adversarial trex): added list == recovered list per track, the data-offset oracle, moof/mdat positions of every decoded fragment, "
                       "Encode vs EncodeSW byte equality and DecodeFile vs DecodeFileSR agreement (every 4th), Fragment.GetSampleInterval over all samples of every one-trun decoded fragment == the added samples / first decode time / bytes; "
                       "probes with metadata-only samples of huge payloads (offset oracle only), a re-encode probe, the >1024-uniform-samples probe, the mixed-mode probe, probe:bareafteropt (witness of C05_encodes_opt_bare_refuted) and probe:emsg (AddEmsg x 3 on a fragment with an emsg behind its mdat, an empty one, decoded ones: no panic, emsg in front of the moof, round trip)"
                       % (n, exh_c, exh_s, ns))


def replay(ctx, path):
    r = json.load(open(path))
    print(json.dumps(r, indent=1)[:6000])
    if r.get("kind") == "failing-input":
        exe, _ = common.go_build("c05")
        rc, so, e = sh2([exe, "replay", "-w", r["witness"]], timeout=300)
        print(so)
        return 1 if so.startswith("FAIL") else 0
    return 0
