"""C08 — lazy-mdat mode is observationally equal to in-memory mode."""
import os
import common
from common import sh2

LEVEL = "proof"
MANIFEST = {
    "technique": "Coq proof over a hand-written Gallina model of MdatBox (ReadData/CopyData/Encode/Size, both decode modes), "
                 "io.ReadFull/io.CopyN over an oracle-driven ReadSeeker, File.CopySampleData, DecodeFile's box loop + File.AddChild (segments / fragments) "
                 "and File.Encode, MdatBox.EncodeSW / File.EncodeSW over a model of bits.FixedSliceWriter + differential correspondence "
                 "(extracted OCaml vs Go) + failing-input search (file-slice oracle)",
    "level_text": "Theorems (coq/c08/C08Theorems.v), for every file (byte list, length < 2^63), every mdat box lying in it with an "
                  "8- or 16-byte header, every short-read schedule of the ReadSeeker and both empty-read behaviours: "
                  "C08_read_equal (ReadData and CopyData of the in-memory box and of the lazily decoded box return exactly the file "
                  "slice for every range that starts at a payload byte and ends at or before the payload end, incl. the last byte; "
                  "repaired text), C08_last_byte_refuted (the pinned `end >= dataLen` text fails at the last byte), "
                  "C08_read_equal_pinned_interior; C08_decode_equal (DecodeBox / DecodeBoxLazyMdat of an mdat give the same StartPos, "
                  "LargeSize, size and end position); C08_header_plus_payload (Encode of the lazy box = the original header bytes, header ++ "
                  "payload = box, equal Size()); C08_copy_samples (CopySampleData, every work buffer length and content, every run of "
                  "chunks covering samples a..b inside the payload: both modes write the concatenation of the samples' bytes; loop "
                  "invariant written ++ workSpace[0..workPos) = prefix), C08_zero_size_at_eof_refuted (pinned `for {` refill loop). "
                  "C08_copy_samples_end_to_end (coq/c08/C08ComposedTheorems.v: composed with C09's model of GetContainingChunks - for "
                  "C09-consistent tables and every 1 <= a <= b <= N the chunk list satisfies chunks_cover); "
                  "C08_file_mdat_equal / C08_file_mdat_spec (which top-level mdat becomes File.Mdat - the DecodeFile pre-check plus File.AddChild - for ANY "
                  "arrangement of any number of empty / non-empty mdat boxes: both modes fail together or select the same box (StartPos, "
                  "LargeSize, Size(), PayloadAbsoluteOffset()); the one non-empty mdat wins whatever empty ones precede or follow it; "
                  "C08_file_mdat_datalength_refuted shows the statement fails if emptiness is read off the in-memory payload only); "
                  "C08_tree_equal (DecodeFile's top-level walk over any sequence of boxes, mdat anywhere, 8/16-byte headers: both modes "
                  "give the same type/StartPos/Size per box and LargeSize per mdat; boxes other than mdat are opaque because the same Go "
                  "decoder runs on them in both modes - below the top level the equality is explored by the search: Info dump, sizes and "
                  "positions of both trees on synthesized progressive and fragmented files). The model is tied to /repo on every run by running it (extracted) "
                  "against the real code on ALL (start,size) ranges (valid and invalid) of small mdats, random ranges of large ones, all "
                  "sample intervals x work buffers {0,1,2,3,7,8,4096} of synthesized progressive files; the theorems' hypotheses are "
                  "evaluated by the model driver on the chunk lists the real GetContainingChunks returned. "
                  "Round 2 (coq/c08/C08ExtTheorems.v): C08_frag_tree_equal (DecodeFile = top-level walk + the per-box checks of the loop + "
                  "File.AddChild / startSegmentIfNeeded / Fragment.AddChild, written ONCE over an abstract mdat type and proved to commute with "
                  "every change of mdat representation that preserves Size()-HeaderSize(): for every file that is a sequence of boxes - styp, sidx, "
                  "emsg, moof, mdat (8/16-byte header, empty or not), mfra, anything else, in ANY arrangement, with or without DecStartOnMoof, "
                  "whatever the common decoder read out of moov / sidx - both modes end in the same outcome class and build the same File: "
                  "isFragmented, Init, File.Mdat, Sidxs, Segments and Fragments at the same positions, the same mdat (StartPos, LargeSize, Size(), "
                  "PayloadAbsoluteOffset(), payload size) attached to the same moof, same Children); C08_frag_pairing ((moof mdat)+ gives one "
                  "segment with one fragment per pair, fragment i = moof i + the mdat that follows it); C08_file_encode (File.Encode of a "
                  "progressive file / EncModeBoxTree: the in-memory decoding writes the file back, the lazy decoding writes the file with every "
                  "mdat payload left out - header only, no error -, and header followed by CopyData of the payload writes the file back, every "
                  "short-read schedule); C08_lazy_writer (segmenter -lazy: Encode of an mdat prepared for n bytes ++ ANY n bytes is a well-formed "
                  "mdat box with that payload, 16-byte header iff n > 2^32-9); C08_copy_samples_multitrack (+ Example with DECREASING chunk offsets "
                  "and another track's chunk in between: C08_copy_samples assumes nothing about the order or spacing of chunk offsets). "
                  "Round 4 (same file; coq/c08/C08SwModel.v, C08SwProofs.v): the SliceWriter encode path, which the model did not have. "
                  "C08_encode_sw_equal (MdatBox.EncodeSW on a bits.FixedSliceWriter against MdatBox.Encode for ANY mdat box and ANY writer state - "
                  "capacity, bytes already written, error already accumulated: the bytes fit => no error and exactly Encode's bytes are appended; they do "
                  "not fit => error and a PROPER prefix of them (whole header fields) was appended; Encode refuses => nothing written; an earlier "
                  "accumulated error is returned); C08_lazy_encode_sw (the clause `encoding a lazily decoded mdat writes exactly its header` on this "
                  "path: for every mdat box lying in a file EncodeSW of the lazy box appends the original header bytes and needs only HeaderSize() bytes "
                  "of room although Size() counts the payload, the in-memory box appends header ++ payload = the box and needs Size() bytes; one byte "
                  "less: error); C08_file_encode_sw (File.EncodeSW, progressive / EncModeBoxTree, of both decodings of any file that is a sequence of "
                  "boxes: in memory = the file, needs lenN file = File.Size() bytes; lazy = the file minus every mdat payload and needs only that much "
                  "- a writer of File.Size() bytes always suffices -; less room: error). "
                  "C08_expected_samples_len + C08_lazy_writer_end_to_end (coq/c08/C08LwProofs.v; discharges what round 2 left as a hypothesis "
                  "- C08_lazy_writer took ANY payload -): Fragment.AddSampleToTrack for samples a..b (lazyDataSize += uint64(size)), Encode of the "
                  "prepared mdat, then File.CopySampleData(a..b) from either decoding, every work buffer / read schedule: the accumulated size IS the "
                  "number of bytes copied (= sum of the table sizes of a..b), so header ++ copied bytes is a well-formed mdat box (16-byte header iff "
                  "more than 2^32-9 payload bytes) whose payload is exactly the samples' bytes; hypotheses = those of C08_copy_samples, total < 2^63-16. "
                  "Only explored (search, not proved): below the top level (Info dump); File.Encode in EncModeSegment of a lazily decoded "
                  "fragmented file = the in-memory output minus the mdat payloads; the sample-reading API on lazily decoded fragments "
                  "(GetFullSamples must fail rather than panic or return other bytes, GetSampleInterval + ReadData/CopyData return the samples' "
                  "bytes); the moof / trun side of the lazy writer (written segment decodes to one fragment whose mdat payload is samples a..b - the "
                  "mdat side is C08_lazy_writer_end_to_end); "
                  "multi-track interleaved files against the generator's ground truth; a sparse > 4 GiB file (co64 offsets around and above "
                  "2^32, 16-byte mdat header) through a position-synthesizing ReadSeeker - on the Coq side such files are inside the theorems' "
                  "scope (file length < 2^63) and the correspondence compares the (seek offset, bytes read) pairs with chunk_seg.",
    "level_note": "Trusted: Coq kernel, extraction (ExtrOcamlBasic), OCaml/Go glue, and the correspondence being only as good as its "
                  "generated inputs. The io.Writer never fails; DataParts (output only) is not modelled; the empty range AT the payload "
                  "end is not counted as a valid range (in memory: error, lazy: empty result). Sub-boxes of moov etc. are decoded by the "
                  "same Go code in both modes and are opaque in the model. C08_copy_samples takes the chunk list returned by "
                  "GetContainingChunks as given and assumes it is a run of consecutive chunks covering a..b (chunks_cover; that "
                  "GetContainingChunks delivers this is C09_containing_chunks, and the driver evaluates chunks_cover on every list the "
                  "real function returned); cap(mdat.Data) = len is assumed for the in-memory slice expressions. "
                  "C08_frag_tree_equal: what DecodeFile reads out of non-mdat boxes (stts entry count of the first trak, sidx anchor and "
                  "references) is an input of the model, the same for both modes because the same decoder runs on the same bytes; DecISMFlag "
                  "(findAndReadMfra / tfra) and the senc parsing of moof are not modelled. C08_file_encode: boxes other than mdat are opaque and "
                  "taken to re-encode to the bytes they were decoded from (C01/C02); EncModeSegment (SetTrunDataOffsets, OptimizeTrun) is search only. "
                  "C08_*_encode_sw: bits.FixedSliceWriter is modelled (capacity, bytes written, accumulated error; Write* = one all-or-nothing append), "
                  "not verified; a non-mdat box's EncodeSW is ONE write of its bytes in the model (the real boxes write field by field: same outcome "
                  "class and same bytes when they fit; the buffer contents after a failed non-mdat box are not compared); File.EncodeSW in "
                  "EncModeSegment is search only (EncodeSW into a writer of Size() bytes = Encode, both decode modes).",
}


def build(ctx):
    exe, err = common.go_build("c08")
    if exe is None:
        raise common.CheckError("harness does not build against /repo with -tags verif:\n" + err[-2000:])
    model, err = common.build_model("c08", "C08Extract.v", "c08_driver.ml")
    if model is None:
        raise common.CheckError(err)
    return exe, model


def run(ctx):
    ctx.cov["trusted_base"] = common.TRUSTED_BASE_COMMON + [
        "model: coq/c08/C08Model.v is a hand transcription of mp4/mdat.go, mp4/box.go (DecodeHeader, EncodeHeaderWithSize, "
        "DecodeBox/DecodeBoxLazyMdat mdat case), mp4/file.go CopySampleData, io.ReadFull, io.CopyN; coq/c08/C08FragModel.v of mp4/file.go "
        "DecodeFile loop checks, AddChild, startSegmentIfNeeded, mediasegment.go / fragment.go AddChild; coq/c08/C08EncModel.v of File.Encode (children in order); "
        "coq/c08/C08SwModel.v of MdatBox.EncodeSW, EncodeHeaderWithSizeSW, File.EncodeSW (children in order), of bits.FixedSliceWriter.Write* "
        "and of the lazyDataSize accumulation of Fragment.AddSampleToTrack (mp4/fragment.go)",
        "non-mdat boxes: the values DecodeFile reads out of moov / sidx are recomputed by the harness with the same decoders and handed to the model",
        "the harness's io.ReadSeeker (harness/c08/main.go oRS) is the reader the model describes (rs_read)",
    ]
    ctx.assumptions += ["the io.Writer never fails", "file length < 2^63 (positions are Go int64)",
                        "each non-empty Read returns between 1 and min(requested, remaining) bytes, or io.EOF at the end",
                        "cap(m.Data) = len(m.Data) for a decoded in-memory mdat"]
    exe, model = build(ctx)
    pr = ctx.proofs("c08", "C08Theorems.v")
    pr3 = ctx.proofs("c08", "C08ExtTheorems.v")
    # composition with C09's sample-table model (coq/c09, another property's files, imported read-only): only
    # attempted when those files build; a break inside coq/c09 is C09's alarm, not a C08 violation
    pr2 = None
    ok09, o09 = common.coq_make(["c09/C09StscProofs.vo"], "c08") if os.path.isdir(os.path.join(common.COQ, "c09")) else (False, "coq/c09 absent")
    if ok09:
        pr2 = ctx.proofs("c08", "C08ComposedTheorems.v")
    else:
        ctx.notes["composition_with_C09"] = "skipped: coq/c09 does not build here (%s)" % o09[-300:].replace("\n", " ")
        ctx.log("composition with C09 skipped: coq/c09 does not build")
    # ---- correspondence
    n = ctx.n(40, 400)
    exh = ctx.n(12, 18)
    budget = ctx.n(420, 2400)
    rc, cases, e = sh2([exe, "corr", "-seed", str(ctx.seed), "-n", str(n), "-exh", str(exh)], timeout=budget)
    if rc == 124:
        # the harness only calls the library on small generated inputs: not finishing means some call does not terminate
        ctx.violation({"kind": "implementation-does-not-terminate", "command": "c08 corr -seed %d -n %d -exh %d" % (ctx.seed, n, exh),
                       "budget_s": budget, "output_so_far_tail": cases[-1500:]},
                      "harness corr did not finish within %d s (normally a few seconds): a call on the implementation does not terminate" % budget,
                      no_input=True)
        return
    if rc != 0:
        raise common.CheckError("harness corr failed: " + e[-1000:])
    lines = cases.splitlines()
    res = common.run_model(model, cases)
    mism = [l for l in res if not l.startswith("OK ")]
    if len(res) != len(lines):
        raise common.CheckError("model driver answered %d of %d cases" % (len(res), len(lines)))
    # distinct non-trivial: distinct (kind, inputs, observables) with the id column removed, observables not all errors
    distinct = set()
    ctxf = ""
    for l in lines:
        p = l.split("\t")
        if p[0] == "F":
            ctxf = p[2] + "/" + p[3]
        key = (p[0], ctxf if p[0] != "F" else "", "\t".join(p[2:]))
        if any(x.startswith("o:") for x in p[2:]):
            distinct.add(key)
    kinds = {k: sum(1 for l in lines if l.startswith(k + "\t")) for k in ("F", "R", "H", "S", "T", "W", "M", "G", "E", "P", "Q", "V", "Z", "L")}
    hyp = {"R": 0, "S": 0, "W": 0, "G": 0, "E": 0, "Q": 0, "V": 0, "L": 0}
    for l, r in zip(lines, res):
        if r.endswith(" H"):
            hyp[l[0]] = hyp.get(l[0], 0) + 1
    ctx.cov["evaluations"] += len(lines)
    ctx.cov["distinct_nontrivial"] += len(distinct)
    ctx.notes["correspondence"] = {"cases": len(lines), "mismatches": len(mism), "distinct_cases_with_ok_outcome": len(distinct),
                                   "kinds": kinds, "exhaustive_payload_len": exh,
                                   "cases_satisfying_theorem_hypotheses": {"C08_read_equal (R)": hyp["R"], "C08_copy_samples (S)": hyp["S"],
                                                                           "C08_tree_equal (W)": hyp["W"],
                                                                           "C08_frag_tree_equal (G)": hyp["G"],
                                                                           "C08_file_encode (E)": hyp["E"],
                                                                           "C08_lazy_encode_sw (Q)": hyp["Q"],
                                                                           "C08_file_encode_sw (V)": hyp["V"],
                                                                           "C08_lazy_writer_end_to_end (L)": hyp["L"]},
                                   "panic_outcomes": sum(l.count("\tp") for l in lines),
                                   "error_outcomes": sum(l.count("\te") for l in lines)}
    rl = [l for l in lines if l.startswith("R\t")]
    ctx.cov["samples"] += [l[:300] for l in lines[:2]] + [l[:300] for l in rl[40:43]] + [l[:300] for l in lines[-2:]]
    ctx.log("correspondence: %d cases, %d mismatches" % (len(lines), len(mism)))
    # ---- search
    ns = ctx.n(60, 2500)
    rc, so, e = sh2([exe, "search", "-seed", str(ctx.seed), "-n", str(ns), "-exh", str(exh)], timeout=budget)
    if rc == 124:
        ctx.violation({"kind": "implementation-does-not-terminate", "command": "c08 search -seed %d -n %d -exh %d" % (ctx.seed, ns, exh),
                       "budget_s": budget, "output_so_far_tail": so[-1500:]},
                      "harness search did not finish within %d s: a call on the implementation does not terminate" % budget, no_input=True)
        return
    if rc != 0:
        raise common.CheckError("harness search failed: " + e[-1000:])
    fails = []
    for l in so.splitlines():
        f = l.split("\t")
        if f[0] == "FAIL":
            fails.append(f)
        elif f[0] == "EVALS":
            ctx.cov["evaluations"] += int(f[1])
            ctx.notes["search_evaluations"] = int(f[1])
            ctx.notes["hygiene_oracles"] = (
                "harness/c08/hygiene.go (search): every copySamples / copySamplesTrak call of File.CopySampleData is repeated with the work "
                "buffer as a sub-slice of a larger buffer (16 guard bytes in front and behind): same outcome and bytes, guards intact; after "
                "every successful MdatBox.ReadData the harness appends 8 bytes to the returned slice and compares the in-memory payload "
                "with the file (the result must not carry capacity into the media data; writing INSIDE a zero-copy view is not examined); "
                "on every fourth range a refused query (beyond the payload) is put to both handles and the four queries are asked again "
                "in the opposite order: same answers.")
    fails += hook_search(ctx, exe)
    for f in fails:
        ctx.failing_input(f[1], f[2], f[3], f[4])
    ctx.log("search: %d failing inputs" % len(fails))
    if mism and not fails:
        by_id = {}
        cur_f = ""
        for l in lines:
            p = l.split("\t")
            if p[0] == "F":
                cur_f = l
            if len(p) > 1:
                by_id[p[1]] = (l, cur_f)
        first = mism[0].split(" ")
        case, fl = by_id.get(first[1], ("", ""))
        ctx.violation({"kind": "correspondence-mismatch", "correspondence": "C08Model vs mp4 package (harness c08 corr)",
                       "mismatches": len(mism), "first_case": case[:2000], "file_context": fl[:2000],
                       "model_says": mism[0][:2000]},
                      "model/implementation disagree on %d cases" % len(mism), no_input=True)
    ctx.proof_violation_if_broken(pr, "c08 search: %d evaluations, no failing input" % ctx.notes.get("search_evaluations", 0))
    ctx.proof_violation_if_broken(pr3, "c08 search: %d evaluations, no failing input" % ctx.notes.get("search_evaluations", 0))
    if pr2 is not None:
        ctx.proof_violation_if_broken(pr2, "c08 search: %d evaluations, no failing input" % ctx.notes.get("search_evaluations", 0))
    ctx.cov["rule"] = ("corr: %d synthesized files (free boxes before/after, 8- and 16-byte mdat headers, payload 0..%d) decoded by the real "
                       "DecodeBox and DecodeBoxLazyMdat through an oracle-driven short-reading ReadSeeker; for each, EVERY (start,size) with "
                       "start in [payloadStart-2, payloadEnd+2] and size in [-1, len+2] through ReadData and CopyData in both modes (values, "
                       "error and panic classes), Encode of both boxes; random ranges of mdats up to 70000 bytes (over the 32 KiB copy "
                       "buffer); a malformed stream (truncated boxes, corrupted size fields). distinct = distinct case lines with at least "
                       "one ok outcome. search: mode A bytes = mode B bytes = file slice for every valid range; header + payload = box; "
                       "equal Size/StartPos/HeaderSize; all/sampled sample intervals x work buffers {0,1,2,3,7,8,4096} of synthesized progressive "
                       "files (stco/co64, uniform stsz, gaps between chunks, zero-size samples, mdat first/last, large header) vs the generator's "
                       "ground-truth sample positions; Info dump / sizes / positions of both trees (progressive and fragmented); segmenter "
                       "copyMediaData and mp4ff-crop writeMdat through add-only hooks. Round 2: G = synthesized fragmented files (styp/sidx/emsg/moof/mdat/mfra, "
                       "8- and 16-byte mdat headers, empty mdats, regular and irregular arrangements, truncations, DecStartOnMoof) and progressive / "
                       "multi-mdat files: the File both modes build vs C08FragModel; E = File.Encode of both decodings and the header+CopyData writer vs "
                       "C08EncModel; S lines also for two-track files with randomly interleaved chunks; P = (seek, bytes read) pairs on a sparse "
                       "file beyond 4 GiB vs chunk_seg. search also: moof/mdat pairing vs the generator, every sample interval of every fragment "
                       "through GetFullSamples / GetSampleInterval + ReadData / CopyData in both modes, lazy File.Encode (both fragmented encode "
                       "modes) = in-memory output minus payloads, the lazy writer (AddSampleToTrack, Encode, CopySampleData, decode the result), "
                       "interleaved two-track files x work buffers incl. the interval's byte count +-1, the sparse file. Round 4: Q = MdatBox.EncodeSW of both "
                       "decodings of every exhaustively explored mdat into a FixedSliceWriter of EVERY capacity 0..Size()+2 (also holding 1..5 earlier bytes, "
                       "every seventh with an earlier accumulated error): outcome, sw.Bytes(), AccError() vs C08SwModel; V = File.EncodeSW of both decodings "
                       "(progressive, multi-mdat, fragmented in box-tree mode) into writers of len(file), len(file)-1, len(file without payloads), that -1, "
                       "+3, a random capacity and File.Size(); the driver evaluates the hypotheses AND the conclusions of C08_lazy_encode_sw / "
                       "C08_file_encode_sw on the implementation's answers. search also: EncodeSW(lazy mdat) = the original header with HeaderSize() / Size() "
                       "/ Size()+5 bytes of room and an error with one byte less; EncodeSW(in-memory mdat) = the box; for every decoded File (both modes, "
                       "both fragmented encode modes) EncodeSW into a writer of Size() bytes = Encode. Z = Fragment.AddSampleToTrack for up to 6 sample sizes "
                       "(0 .. 2^32-1, totals on both sides of 2^32-9) then Encode of the fragment's mdat vs lazy_size_after / mdat_for_writing; L = the same "
                       "for samples a..b of synthesized progressive files + CopySampleData from the lazy decoding, hypotheses and conclusion of "
                       "C08_lazy_writer_end_to_end evaluated by the driver on the implementation's answers. search also (header size limits): AddSampleToTrack "
                       "for sizes up to 2^32-1 - accumulated size = their sum, Encode writes a well-formed header announcing exactly that payload (single "
                       "samples of 2^32-10 .. 2^32-8 bytes included); mdat boxes of 2^32-1, 2^32-2, ... bytes with an 8-byte header and 16-byte headers "
                       "on both sides of 2^32, decoded lazily from a position-synthesizing reader: Size / HeaderSize / PayloadAbsoluteOffset, Encode and "
                       "EncodeSW = the original header, the last 3 payload bytes through ReadData; search also (reader not at 0): DecodeFile in both "
                       "modes on a ReadSeeker positioned behind a preamble of 1 .. 70000 bytes gives the structure it gives at "
                       "offset 0, and DecodeBox / DecodeBoxLazyMdat box by box with startPos = an offset in a bigger file "
                       "(0, 4000, 2^20, 2^33) give the same box sequence" % (n + n // 4 + 1 + n // 2 + 1, exh))


def hook_search(ctx, exe):
    """examples/segmenter copyMediaData and cmd/mp4ff-crop writeMdat (package main, reached through the add-only
    c08_verif_test.go hooks): bytes written = the samples' / ranges' bytes taken from the generator's ground truth."""
    import os
    fails = []
    rc, so, e = sh2([exe, "hookcases", "-seed", str(ctx.seed), "-n", str(ctx.n(12, 150))], timeout=600)
    if rc != 0:
        raise common.CheckError("harness hookcases failed: " + e[-1000:])
    d = os.path.join(common.BUILD, "c08")
    os.makedirs(d, exist_ok=True)
    ran = 0
    for kind, pkg, site in (("M", "examples/segmenter", "segmenter.copyMediaData(lazy)"),
                            ("C", "cmd/mp4ff-crop", "mp4ff-crop.writeMdat")):
        exp = {}
        cf = os.path.join(d, "hook_%s.cases" % kind)
        of = os.path.join(d, "hook_%s.out" % kind)
        with open(cf, "w") as f:
            for l in so.splitlines():
                p = l.split("\t")
                if p[0] != kind:
                    continue
                exp[p[1]] = p
                f.write(" ".join(p[:-1]) + "\n")
        tb, err = common.go_test_build(pkg, "c08_hook_" + kind)
        if tb is None:
            raise common.CheckError("hook test binary for %s does not build:\n%s" % (pkg, err[-1500:]))
        if os.path.exists(of):
            os.remove(of)
        env = dict(common.GOENV)
        env.update({"C08_CASES": cf, "C08_OUT": of})
        rc, o = common.sh([tb, "-test.run", "^TestVerifC08$", "-test.count", "1"], env=env, timeout=600)
        if rc != 0 or not os.path.exists(of):
            raise common.CheckError("hook test for %s failed: %s" % (pkg, o[-1000:]))
        for l in open(of):
            p = l.split()
            if not p:
                continue
            c = exp.pop(p[0])
            ran += 1
            want = c[-1].replace('o:-', 'o:')
            for mode, got in zip(("in-memory", "lazy") if kind == "C" else ("lazy",), p[1:]):
                if got != want:
                    ends_last = ""
                    wit = ("file=%s samples %s..%s" % (c[2][:600], c[3], c[4])) if kind == "M" else \
                          ("file=%s byte ranges (end included) %s" % (c[2][:600], c[3]))
                    s = site + ("(%s)" % mode if kind == "C" else "")
                    fails.append(["FAIL", s, {"e": "error-on-valid-range", "p": "panic-on-valid-range"}.get(got, "wrong-bytes"),
                                  wit, "bytes written differ from the file slices: got %s want %s" % (got[:60], want[:60])])
        if exp:
            raise common.CheckError("hook test for %s answered too few cases" % pkg)
        for f in (cf, of):
            os.remove(f)
    ctx.cov["evaluations"] += ran
    ctx.notes["hook_evaluations"] = ran
    return fails


def replay(ctx, path):
    import json
    r = json.load(open(path))
    print(json.dumps(r, indent=1))
    return 0
