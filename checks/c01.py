"""C01 — decode then encode is lossless outside reserved fields, and a fixed point."""
import json
import os
import sys
import common
from common import sh2

LEVEL = "proof"
MANIFEST = {
    "technique": "Coq proof over a hand-written Gallina model of the box codec (header, container recursion, prefixed containers "
                 "stsd/dref/sample entries/ISO meta/wvtt, the look-ahead of DecodeMetaSR, unknown boxes, 69 leaf table entries incl. the esds "
                 "descriptor tree, the uuid variants, sgpd with its entries, iTunes data, the WebVTT boxes; the box loop of a file AND the "
                 "File-level acceptance rules of DecodeFileSR) + differential correspondence (extracted OCaml vs Go: single boxes, the second generation "
                 "of not-reproduced boxes with the theorem hypothesis evaluated per case, whole files) + failing-input search on all registered box types and on whole files, whose mutant failures are labelled by the "
                 "model's proved-complete reasons",
    "level_text": "PROOF for the modelled universe (coq/c01/C01Theorems.v): header round trip both ways; for each of the leaf "
                  "kinds ftyp styp free skip mdat mfhd tfhd tfdt trun mvhd tkhd sidx trex mdhd hdlr stts stsc stsz stco co64 stss sdtp "
                  "ctts elst saiz saio sbgp prft tenc frma vmhd smhd nmhd sthd mfro mehd tfra pssh url avcC btrt pasp colr clap schm cslg senc(raw) emsg elng kind hvcC subs esds(ES_Descriptor, DecoderConfig with nested descriptors, DecSpecificInfo, SLConfig, raw descriptors, UnknownData, size fields of any width) uuid(tfxd, tfrf, PIFF senc, unknown) sgpd(seig roll rap alst unknown entries) "
                  "data(type indicator, locale, value) mime dac3 dec3(substreams) vttC vlab ctim iden sttg payl vtta vtte vsid "
                  "and the field prefixes of stsd, dref, VisualSampleEntry (avc1 avc3 hvc1 hev1 encv av01 vp08 vp09), AudioSampleEntry "
                  "(mp4a enca ac-3 ec-3), wvtt and the ISO form of meta, everything the decoder accepts is reproduced from the decoded value plus the captured bytes "
                  "(C01_leaf_lossless_stage1..3,5 = one conjunct per kind; dac3/dec3: under the guard that the payload is InitialZeroes+3 bytes / the substreams' reserved bits are 0, C01_leaf_stable: both dispatch tables, lossless + name + print-then-parse per entry); C01_tree: every slice accepted by the model of DecodeBoxSR "
                  "(pure containers moov trak mdia minf stbl moof traf mvex dinf edts udta sinf schi mfra tref ilst (c)ART (c)nam (c)too (c)cpy desc vttc and the "
                  "QuickTime form of meta chosen by the look-ahead of DecodeMetaSR, prefixed containers, unknown "
                  "boxes, the leaves above, any nesting) whose tree is exact re-encodes bit for bit; C01_why_complete / "
                  "C01_explained: the model's list of reasons for not reproducing an input (why_box) is complete -- no reason, then the "
                  "Go encoders' bytes ARE the input; C01_fixpoint (GENERAL, no hypothesis on the reserved bytes): for every slice "
                  "accepted completely with an exact tree t the Go encoders succeed on both API paths (Box.Encode with its per-box "
                  "capacities and the 2^32 limit, Box.EncodeSW) with the same bytes enc of the input's length = Size(), enc decodes "
                  "again to norm_box t (= t up to the captured reserved bytes) and encodes to enc again on both paths (for meta: the "
                  "re-encoding keeps the eight header bytes of the first child that the look-ahead reads, reenc_hdr); "
                  "SECOND GENERATION of inputs that are NOT reproduced (C01_fixpoint, second conjunct = generation2, no exactness hypothesis on the first tree: trailing "
                  "bytes dropped, header size ignored, large-size header compacted, trak re-ordered, guarded shapes): whenever the bytes enc that "
                  "Box.Encode wrote satisfy the boolean gen2_ok (a byte string the decoder model accepts completely with no reason of why_box), "
                  "enc is a fixed point on every API path (second decode exact and its own normal form, raw encoder = Box.Encode = Box.EncodeSW = "
                  "enc, Size() = its length); gen2_ok is EVALUATED by the driver on the encoders' real output for every not-reproduced accepted "
                  "box of the correspondence run and the conclusion is checked on the implementation's answers (evidence: "
                  "correspondence.second_generation, theorem_hypotheses_evaluated); that gen2_ok holds for EVERY accepted input is explored, not proved; "
                  "FILE LEVEL: decode_file_sr models the loop of DecodeFileSR with the rules that are not box-local (moov needs the "
                  "first-trak/mdia/minf/stbl/stts chain; mdat placement for fragmented and progressive files; traf with unparsed senc "
                  "needs a tfhd when a moov is there; isFragmented; a cut-short mdat ends the loop; trailing bytes / size-0 headers refused); "
                  "C01_file_rules: the loop = box loop + rules; C01_file_boxtree: for EVERY byte string the loop accepts with exact trees, "
                  "File.Encode (Box.Encode per child: progressive files and box-tree mode) and File.EncodeSW succeed with the same bytes of the "
                  "input's length, which are accepted AGAIN with the same trees up to captured bytes and the same IsFragmented(), and "
                  "encode to themselves (second conjunct: the same for the bare box loop); examples: progressive files with the mdat before and after the moov, a fragmented file, refused "
                  "files; "
                  "they rest on C01_header_local / C01_leaf_stable: print-then-parse holds for every entry of the dispatch tables; "
                  "for esds the exactness guard asks that every descriptor size field is in the encoder's form and "
                  "that no UnknownData was kept, for wvtt that the prefix was read, for dac3/dec3 see above; sgpd has no guard any more (the reserved byte of a seig entry is a captured chunk, print-then-parse by replaying the entry loop on the zeroed bytes) "
                  "(C01_guards_refuted: one witness each, also for dac3 and dec3; an esds with UnknownData is "
                  "reproduced but only explored); "
                  "every excluded shape / defect class is witnessed by a *_refuted theorem (file level: C01_file_truncated_mdat_refuted); "
                  "complete real files and a real udta{meta{hdlr ilst{(c)too{data}}}} box in both MetaBox forms decode inside Coq, are "
                  "exact and re-encode to themselves (C01_real_*, C01_ex_meta_*). EXPLORATION "
                  "for every other registered box type (stpp av1C vpcC emib ... reached through harvested testdata boxes, hand-written seeds, "
                  "structured valid variants and mutations) and for files that reach TrafBox.ParseReadSenc: masked byte equality, second decode, third encode on the real implementation.",
    "level_note": "Trusted: Coq kernel, extraction, OCaml/Go glue, the hand transcription of the Go text into C01Model.v / C01FileModel.v (tied to "
                  "/repo by the correspondence run on every check), the scanner and generators of the harness. The model follows "
                  "the SliceReader path; reader-path differences are counted, not modelled (C03). esds fuel: box size + 65536 (descriptor count and nesting of slices below 128 KiB), beyond that the model answers OutOfFuel. Not modelled: "
                  "the per-sample structure of senc (kept raw, as DecodeSencSR does) and hence TrafBox.ParseReadSenc at the File level (separate "
                  "outcome FSencParse, compared with nothing; C02/C04 model the parse), stpp (its child loop counts consumed bytes: a third loop kind; explored only), "
                  "DecodeFile's reader path, lazy mdat mode and the DecISMFlag mfra look-up. "
                  "c01_dontcare.json: entries with source=model are "
                  "regenerated from the model (rsv_dc marks which captured chunks are ISO reserved) on every run; source=hand entries are "
                  "hand-written. Search failures of mutants made of modelled types are labelled with the model's reason (a failing mutant "
                  "without a reason is a violation); for other types the class only says how the output differs. The file-level search reports "
                  "only what the File level adds (every top-level box reproduced alone, the file not).",
}

DONTCARE = os.path.join(common.ROOT, "c01_dontcare.json")
UNKNOWN_REGISTERED = ["iods"]      # mp4/box.go: "iods": DecodeUnknown
WHAT = {("mvhd", 70): "reserved(10) + matrix(36) + pre_defined(24)", ("tkhd", 4): "reserved(4)", ("tkhd", 8): "reserved(8)",
        ("tkhd", 38): "reserved(2) + matrix(36)", ("sidx", 2): "reserved(2)", ("mdhd", 2): "pre_defined(2)",
        ("hdlr", 12): "reserved(12)", ("smhd", 2): "reserved(2)", ("tenc", 2): "reserved(8) reserved(8)",
        ("tenc", 1): "reserved(8)", ("tfra", 3): "reserved(26): the three bytes that are entirely reserved"}


KIND = {k: "visual" for k in ("avc1", "avc3", "hvc1", "hev1", "encv", "av01", "vp08", "vp09")}
KIND.update({k: "audio" for k in ("mp4a", "enca", "ac-3", "ec-3")})
WHAT.update({("visual", 0): "SampleEntry reserved(6)", ("visual", 8): "VisualSampleEntry pre_defined(2) reserved(2) pre_defined(12)",
             ("visual", 36): "VisualSampleEntry reserved(4)", ("visual", 76): "VisualSampleEntry pre_defined(2) = -1",
             ("audio", 0): "SampleEntry reserved(6)", ("audio", 8): "AudioSampleEntry reserved(8)",
             ("audio", 20): "AudioSampleEntry pre_defined(2) reserved(2)"})


def build(ctx):
    exe, err = common.go_build("c01")
    if exe is None:
        raise common.CheckError("harness does not build against /repo with -tags verif:\n" + err[-2000:])
    model, err = common.build_model("c01", "C01Extract.v", "c01_driver.ml")
    if model is None:
        raise common.CheckError(err)
    return exe, model


def model_dontcare(model):
    rc, o, e = sh2([model, "dontcare"], timeout=120)
    if rc != 0:
        raise common.CheckError("modeld dontcare failed: " + e[-500:])
    out = []
    for l in o.splitlines():
        p = l.split()
        if len(p) == 5 and p[0] == "dontcare":
            e = {"box": p[1], "version": int(p[2]), "offset": int(p[3]), "length": int(p[4]),
                 "what": WHAT.get((p[1], int(p[4])), WHAT.get((KIND.get(p[1], ""), int(p[3])), "reserved")), "source": "model"}
            if e["version"] < 0:
                del e["version"]
            out.append(e)
    return out


def model_names(model):
    rc, o, e = sh2([model, "names"], timeout=120)
    if rc != 0:
        raise common.CheckError("modeld names failed: " + e[-500:])
    leaves, conts = [], []
    for l in o.splitlines():
        k, hx = l.split()
        (leaves if k == "leaf" else conts).append(bytes.fromhex(hx).decode("latin1"))
    return leaves, conts


def check_dontcare(ctx, model):
    """the committed list's model part must be exactly what the model says"""
    cur = json.load(open(DONTCARE))
    want = model_dontcare(model)
    have = [f for f in cur["fields"] if f.get("source") == "model"]
    key = lambda f: (f["box"], f.get("version"), f["offset"], f["length"])
    if sorted(map(key, want)) != sorted(map(key, have)):
        raise common.CheckError("c01_dontcare.json is out of date with the model: regenerate with "
                                "`python3 checks/c01.py --gen-dontcare`")
    ctx.notes["dontcare"] = {"model_entries": len(have), "hand_entries": len(cur["fields"]) - len(have),
                             "normalisations": cur.get("normalisations", [])}


def run_corr(ctx, exe, model, harness_args, what):
    rc, cases, e = sh2([exe, "corr"] + harness_args, timeout=3000)
    if rc != 0:
        raise common.CheckError("harness corr failed: " + e[-1000:])
    lines = cases.splitlines()
    res = common.run_model(model, cases)
    mism = [l for l in res if not l.startswith("OK ")]
    cls = {"exact": 0, "inexact": 0, "rej": 0}
    for l in res:
        p = l.split(" ")
        if p[0] == "OK" and len(p) > 2:
            cls[p[2]] = cls.get(p[2], 0) + 1
    # accepted inputs whose second generation is NOT a fixed point on the implementation (the model agrees, or there would be a
    # mismatch): failing inputs of the property's last sentence; site = the deepest box whose own re-encoding is not a fixed point
    by_in = {}
    for l in lines:
        p = l.split("\t")
        if len(p) > 2 and p[0] in ("G", "H"):
            by_in[p[1]] = p
    notfixed = 0
    for l in res:
        p = l.split(" ")
        if p[0] == "OK" and len(p) >= 5 and p[3] == "NOTFIXED":
            notfixed += 1
            if ctx.prop != "C01":      # C02 re-uses this correspondence: the fixed point is C01's statement, not C02's
                continue
            c = by_in.get(p[1])
            site = bytes.fromhex(p[4]).decode("latin1")
            ctx.failing_input(site, "second-generation-not-a-fixed-point", c[2] if c else p[1],
                              "accepted, re-encoded to different bytes, and those bytes are NOT a fixed point: decoding the encoders' "
                              "output again and encoding once more gives other bytes (model and implementation agree; class %s); "
                              "second generation on the implementation: %s" % (p[2], (c[3] if c else "")[:300]))
    # second generation (G lines): accepted inputs that Box.Encode did not reproduce; the driver compares what the real code does
    # with its own output against the model and evaluates the hypothesis gen2_ok of C01_fixpoint (second conjunct) on those bytes
    g2f = {k[9:]: v for k, v in cls.items() if k.startswith("gen2file-")}
    g2fn = sum(g2f.values())
    g2ffix = sum(v for k, v in g2f.items() if k.endswith("-fix"))
    g2 = {k[5:]: v for k, v in cls.items() if k.startswith("gen2-")}
    g2n = sum(g2.values())
    g2fix = sum(v for k, v in g2.items() if k.endswith("-fix"))
    distinct = len(set(l.split("\t", 2)[2] for l in lines if l.count("\t") >= 2 and l[:2] not in ("G\t", "H\t")))
    ctx.cov["evaluations"] += len(lines)
    ctx.cov["distinct_nontrivial"] += distinct
    stats = [l for l in e.splitlines() if l.startswith("STATS")]
    ctx.notes["correspondence"] = {
        "what": what, "cases": len(lines), "mismatches": len(mism), "distinct_cases": distinct,
        "accepted_exact": cls["exact"], "accepted_inexact": cls["inexact"], "rejected_by_both": cls["rej"],
        "whole_files": {"cases": sum(1 for l in lines if l.startswith("F\t")), "accepted_exact": cls.get("file-exact", 0),
                        "accepted_inexact": cls.get("file-inexact", 0), "rejected_by_both": cls.get("file-rej", 0),
                        "outside_model_reaches_ParseReadSenc": cls.get("outside", 0)},
        "second_generation": {
            "what": "accepted inputs whose Box.Encode output differs from the input: DecodeBoxSR + Size + Encode + EncodeSW applied to "
                    "that OUTPUT on the real code vs the model applied to the model's output; gen2_ok (hypothesis of C01_fixpoint (second conjunct)) "
                    "evaluated on it, the theorem's conclusion checked on the implementation's answer",
            "cases": g2n, "hypothesis_gen2_ok_holds": g2fix, "by_first_generation_and_class": g2,
            "first_generation_inexact": sum(v for k, v in g2.items() if k.startswith("inexact-")),
            "first_generation_exact_reserved_bytes_rewritten_or_bytes_left": sum(v for k, v in g2.items() if k.startswith("exact-")),
            "not_a_fixed_point_on_the_implementation": notfixed,
            "whole_files": {"cases": g2fn, "hypothesis_gen2_file_ok_holds": g2ffix, "by_first_generation_and_class": g2f},
        },
        "harness_stats": stats[0] if stats else "",
    }
    ctx.notes["theorem_hypotheses_evaluated"] = {
        "C01_tree/C01_fixpoint (exact_box of the decoded tree)": "%d of %d accepted single boxes, %d of %d accepted files" % (
            cls["exact"], cls["exact"] + cls["inexact"], cls.get("file-exact", 0), cls.get("file-exact", 0) + cls.get("file-inexact", 0)),
        "C01_fixpoint, 2nd conjunct (gen2_ok of the encoders' output)": "%d of %d not-reproduced accepted boxes" % (g2fix, g2n),
        "C01_file_boxtree, 3rd conjunct (gen2_file_ok of File.Encode's output)": "%d of %d not-reproduced accepted files" % (g2ffix, g2fn),
    }
    ctx.cov["samples"] += [l[:300] for l in lines[10:12]] + [l[:300] for l in lines[-2:]]
    ctx.log("correspondence: %d cases (%d distinct), %d mismatches; model says exact=%d inexact=%d rejected=%d; whole files: "
            "exact=%d inexact=%d rejected=%d outside=%d; second generation of %d not-reproduced boxes: gen2_ok holds for %d, of %d files: %d" % (
        len(lines), distinct, len(mism), cls["exact"], cls["inexact"], cls["rej"], cls.get("file-exact", 0),
        cls.get("file-inexact", 0), cls.get("file-rej", 0), cls.get("outside", 0), g2n, g2fix, g2fn, g2ffix))
    return lines, mism


# reason given by the model (ocaml/c01_driver.ml reason_str) -> signature.  The reasons are complete (C01_explained), so a
# signature names one precise defect class of the decoders, each witnessed by a *_refuted theorem.
REASON_SIG = {
    "size-field-above-fields": ("leaf-decoders", "trailing-body-bytes-dropped"),
    "size-field-below-fields": ("leaf-decoders", "header-size-ignored"),
    "reserved-bits-rewritten": ("leaf-decoders", "model:reserved-bits-outside-the-listed-bytes-rewritten"),
    "compressorname-padding-zeroed": ("VisualSampleEntry", "model:compressorname-padding-zeroed"),
    "depth-rewritten-0x0018": ("VisualSampleEntry", "model:depth-rewritten-0x0018"),
    "samplerate-fraction-dropped": ("AudioSampleEntry", "model:samplerate-fraction-dropped"),
    "bytes-after-record-dropped": (None, "model:bytes-after-record-dropped"),      # site: avcC or hvcC, from the reason
    "senc-sample-count-zero-data-dropped": ("senc", "model:sample-count-zero-data-dropped-size-kept"),
    "elng-unterminated-language-rewritten": ("elng", "model:unterminated-language-rewritten"),
    "esds-noncanonical-size-field-or-unknown-data": ("esds", "model:noncanonical-size-field-rewritten"),
    "esds-size-field-rewritten": ("esds", "model:noncanonical-size-field-rewritten"),
    "piff-senc-sample-count-zero-data-dropped": ("uuid", "model:piff-senc-sample-count-zero-data-dropped-size-kept"),
    "trun-data-offset-zero": ("trun", "accepted-but-encode-error"),
    "wvtt-prefix-cut-short": ("leaf-decoders", "header-size-ignored"),     # C01_guards_refuted
    "dac3-payload-not-zeroes-plus-3-bytes": ("dac3", "model:payload-shorter-than-3-bytes-padded-or-256k-extra-bytes-dropped"),
    "dec3-reserved-bits-rewritten": ("leaf-decoders", "model:reserved-bits-outside-the-listed-bytes-rewritten"),
    "moof-trun-data-offset-zero": ("trun", "accepted-but-encode-error"),
}
NORMALISATIONS = ("large-size-header-compacted", "trak-reordered")


def reclassify(ctx, model, fails):
    """Mutants made of modelled box types only: the class of a failing input becomes the reason the Coq model gives
    for this very input (why_box; C01_explained proves that an input without a reason is reproduced bit for bit).
    An accepted, not reproduced input for which the model has no reason is reported as such (never absorbed)."""
    ask = [(i, f) for i, f in enumerate(fails)
           if f[2].startswith("mutant-not-reproduced:") and len(f) > 6 and f[5] in ("M1", "M2") and f[6] != "-"]
    if not ask:
        return
    res = common.run_model(model, "".join("W\t%d\t%s\n" % (i, f[6]) for i, f in ask))
    ans = {}
    for l in res:
        p = l.split(" ", 2)
        if p[0] == "WHY":
            ans[int(p[1])] = p[2] if len(p) > 2 else ""
    explained = unexplained = 0
    for i, f in ask:
        a = ans.get(i, "")
        reader = f[4].startswith("reader:")
        if a.startswith("ok "):
            rs = [x.split(":", 1) for x in a.split(" ", 2)[2].split(";")] if len(a.split(" ", 2)) > 2 and a.split(" ", 2)[2] else []
            rs = [x for x in rs if len(x) == 2 and x[1] not in NORMALISATIONS] or [x for x in rs if len(x) == 2]
            mine = [x for x in rs if x[0] == f[1]] or rs
            if mine:
                f[1], f[2] = REASON_SIG.get(mine[0][1], (mine[0][0], "model:" + mine[0][1]))
                f[1] = f[1] or mine[0][0]
                explained += 1
            else:
                f[2] = ("reader-path-only:" if reader else "unexplained-by-model:") + f[2].split(":", 1)[1]
                unexplained += 1
        elif a == "rej" and f[5] == "M2":
            # the model was asked about the failing box taken out of its context and rejects it there (its decoder read
            # beyond the box, e.g. an esds whose size field overlaps the next box): no verdict, the class stays
            unexplained += 1
        elif a == "rej" and reader:
            # the SliceReader path (the model's) rejects this input, the io.Reader path accepts it
            f[1], f[2] = "leaf-decoders", "reader-path-accepts-what-sr-rejects"
            explained += 1
        else:
            f[2] = "model-says-%s:" % (a.split(" ")[0] or "nothing") + f[2].split(":", 1)[1]
            unexplained += 1
    ctx.notes["search_mutants_explained_by_model"] = explained
    ctx.notes["search_mutants_not_explained"] = unexplained


def run_search(ctx, exe, args, prop, model=None):
    rc, so, e = sh2([exe, "search", "-prop", prop] + args, timeout=3000)
    if rc != 0:
        raise common.CheckError("harness search failed: " + e[-1000:])
    fails, notes = [], []
    for l in so.splitlines():
        f = l.split("\t")
        if f[0] == "FAIL" and len(f) >= 5:
            fails.append(f)
        elif f[0] == "EVALS":
            ctx.cov["evaluations"] += int(f[1])
            ctx.notes["search_evaluations"] = int(f[1])
        elif f[0] == "COVER":
            cov = dict(x.rsplit(":", 1) for x in f[1].split(","))
            ctx.notes["search_types_reached"] = sum(1 for v in cov.values() if int(v) > 0)
            ctx.notes["search_types_registered"] = len(cov)
            ctx.notes["search_types_not_reached"] = sorted(k for k, v in cov.items() if int(v) == 0)
        elif f[0] == "STAT":
            ctx.notes["search_stat"] = f[1]
        elif f[0] == "NOTE":
            notes.append(f[1:4])
    ctx.notes["search_worker_notes"] = [[n[0], n[1], n[2][:200]] for n in notes[:10]]
    if model is not None and prop == "c01":
        reclassify(ctx, model, fails)
    sigs = {}
    for f in fails:
        sigs.setdefault((f[1], f[2]), f)
    for f in sigs.values():
        ctx.failing_input(f[1], f[2], f[3], f[4])
    ctx.notes["search_failing_signatures"] = sorted("%s/%s" % k for k in sigs)
    ctx.log("search: %d failing inputs, %d distinct (site, class) signatures" % (len(fails), len(sigs)))
    return fails


def run(ctx):
    ctx.cov["trusted_base"] = common.TRUSTED_BASE_COMMON + [
        "model: coq/c01/C01Model.v is a hand transcription of mp4/box.go, boxsr.go, container.go, unknown.go and of the "
        "DecodeXxxSR / EncodeSW / Size of every modelled kind (see MANIFEST), avc.DecodeAVCDecConfRec, hevc.DecodeHEVCDecConfRec, "
        "mp4/descriptors.go (esds), samplegroupentries.go (sgpd), uuid.go, meta.go, ffmpeg.go, wvtt.go, mime.go, stsd/dref/sample entry "
        "child loops, moov.AddChild, moof.EncodeSW, edts decode (SliceReader path; io errors not modelled); coq/c01/C01FileModel.v: "
        "the loop of DecodeFileSR (mp4/boxsr.go:206), File.AddChild / startSegmentIfNeeded as far as isFragmented goes, "
        "firstTrakSttsEntries, MoovBox.IsEncrypted, File.Encode / EncodeSW in box-tree mode",
        "c01_dontcare.json: source=model entries regenerated from the model; source=hand entries written by hand",
        "harness/c01/bx: independent box scanner, harvest of testdata boxes, generators, mutators, masks",
    ]
    ctx.assumptions += ["inputs are byte slices handed to DecodeBoxSR / DecodeFileSR (and, in the search, also to DecodeBox / DecodeFile over a bytes.Reader), default options",
                        "box sizes below 2^32 except mdat; slices below 300 KB in the search, 20 KB in the correspondence"]
    exe, model = build(ctx)
    check_dontcare(ctx, model)
    leaves, conts = model_names(model)
    ctx.notes["modelled_leaf_types"] = leaves
    ctx.notes["modelled_container_types"] = conts
    # registered types whose registered decoder IS DecodeUnknown(SR): the model's fallback for names outside its tables
    conts = conts + UNKNOWN_REGISTERED
    ctx.notes["modelled_as_unknown_box"] = UNKNOWN_REGISTERED
    pr = ctx.proofs("c01", "C01Theorems.v")
    n = ctx.n(5000, 200000)
    lines, mism = run_corr(ctx, exe, model, ["-seed", str(ctx.seed), "-n", str(n), "-nfile", str(ctx.n(500, 30000)),
                                             "-kinds", ",".join(leaves + conts)],
                           "DecodeBoxSR + Size + Encode + EncodeSW vs decode/size_box/encode_w/encode_sw of the model; whole files: "
                           "DecodeFileSR + IsFragmented + File.Encode + File.EncodeSW (box-tree mode) vs decode_file_sr/file_frag/"
                           "file_encode_w/file_encode_sw")
    ns = ctx.n(4000, 150000)
    fails = run_search(ctx, exe, ["-seed", str(ctx.seed), "-n", str(ns), "-dontcare", DONTCARE,
                                  "-kinds", ",".join(leaves + conts)], "c01", model=model)
    if mism and not fails_unknown(ctx):
        by_id = {}
        for l in lines:
            p = l.split("\t")
            if len(p) > 1:
                by_id[p[1]] = l
        first = mism[0].split(" ")
        ctx.violation({"kind": "correspondence-mismatch", "correspondence": "C01Model vs mp4 box codec (harness c01 corr)",
                       "mismatches": len(mism), "first_case": by_id.get(first[1], "")[:3000], "model_says": mism[0][:3000]},
                      "model/implementation disagree on %d cases" % len(mism), no_input=True)
    ctx.proof_violation_if_broken(pr, "c01 search: %d evaluations" % ctx.notes.get("search_evaluations", 0))
    ctx.cov["rule"] = ("corr: every box (all nesting levels) of the repo's testdata files that consists of modelled types only, "
                       "hand-generated well-formed boxes and trees of the modelled kinds, and structured mutants of both "
                       "(version 0..3, flag bits, counts +-1, large-size header, trailing bytes, truncations, size field +-k, "
                       "random/ff/00 bytes, nested mutations); distinct = distinct input byte strings; "
                       "whole files: hand-built files (progressive with mdat before/after moov, fragmented, refused ones), every testdata file "
                       "(mdat payloads cut to 16 bytes above 20000 bytes), random top-level sequences of pooled/generated boxes, mutants of the "
                       "top-level sequence (box dropped/doubled/swapped, mdat/moof/styp/moov inserted, trailing bytes, cut-short mdat, size 0); "
                       "search: harvested boxes of ALL types + hand-written seeds for rare types + structured valid variants "
                       "(esds descriptor orders x size-of-size 1..4 x optional fields, sample entry child permutations, sgpd/uuid) "
                       "+ structured senc boxes (1..3 samples x 0..2 sub-sample entries, 16-byte IVs = 64-bit IV + zero/small block counter, "
                       "small / opaque IVs, 8-byte IVs; stand-alone, as PIFF uuid, and inside moof/traf of whole files decoded WITHOUT init, "
                       "with tenc IV size 0 and with the matching tenc IV size, so that ParseReadSenc has to find the IV size by trial) "
                       "+ mutants, through both decoders: "
                       "masked equality with the input, second decode, third encode")


def fails_unknown(ctx):
    return any(not ni for _, _, ni in ctx.violations)


def replay(ctx, path):
    r = json.load(open(path))
    print(json.dumps(r, indent=1)[:6000])
    if r.get("kind") == "failing-input" and r.get("witness"):
        exe, _ = build(ctx)
        w = r["witness"].rstrip(".")
        rc, so, e = sh2("printf '0\\tw\\t%s\\n' | '%s' worker -dontcare '%s' -prop %s" % (
            w, exe, DONTCARE, "c02" if r.get("property") == "C02" else "c01"), timeout=60)
        print(so)
        return 1 if "FAIL\t" in so else 0
    return 0


if __name__ == "__main__" and "--gen-dontcare" in sys.argv:
    model, err = common.build_model("c01", "C01Extract.v", "c01_driver.ml")
    if model is None:
        raise SystemExit(err)
    cur = json.load(open(DONTCARE)) if os.path.exists(DONTCARE) else {"fields": []}
    mk = set((f["box"], f.get("version"), f["offset"], f["length"]) for f in model_dontcare(model))
    hand = [f for f in cur.get("fields", []) if f.get("source") != "model"
            and (f["box"], f.get("version"), f["offset"], f["length"]) not in mk]
    doc = {
        "comment": "C01 don't-care list. Offsets are relative to the start of the box body (after the 8/16-byte header). "
                   "source=model entries are generated from coq/c01/C01Model.v (the rsv components of each leaf kind; "
                   "`python3 checks/c01.py --gen-dontcare`) and verified on every check run; source=hand entries are ISO "
                   "reserved / pre_defined fields of boxes that are not modelled. Nothing else is masked.",
        "normalisations": [
            "a large-size (16-byte) header of a box other than mdat is re-encoded as a compact 8-byte header "
            "(mdat keeps its large header)",
            "moov: a trak that follows other children after the last trak is moved up behind the last trak (MoovBox.AddChild)",
        ],
        "fields": model_dontcare(model) + hand,
    }
    json.dump(doc, open(DONTCARE, "w"), indent=1)
    print("wrote", DONTCARE, len(doc["fields"]), "entries")
