"""C12 — fragments are grouped into segments faithfully and indexes tile the media."""
import os
import shutil
import common
from common import sh2

LEVEL = "proof"
MANIFEST = {
    "technique": "Coq proof over a hand-written Gallina model of mp4.DecodeFile's box loop / File.AddChild / "
                 "startSegmentIfNeeded / File.Encode (segment mode, box and byte level incl. Fragment.SetTrunDataOffsets) / "
                 "UpdateSidx (sizes, durations, earliest presentation time), composed with C02's reader's view of a byte stream "
                 "(scan), C01's box model (per-box re-encoding = C01_fixpoint) and C05's segment decoder / byte reader "
                 "(simulation + C05_segment_decode) + differential correspondence "
                 "(extracted OCaml vs Go; every box re-encoded through the extracted C01 model) + a search that checks partition, "
                 "positions as byte offsets, byte-identical re-encoding and sidx tiling / ept on synthesized files against the "
                 "harness's own top-level box scanner and sidx parser",
    "level_text": "Theorems (coq/c12/C12Theorems.v), for ALL top-level box sequences and decode flags accepted by the "
                  "model: the fragments of the segments hold exactly the emsg/moof/mdat boxes of the input in order "
                  "(C12_partition, C12_partition_fragmented), every fragment is emsg* [moof [mdat] emsg*] (C12_fragment_shape), "
                  "the (StartPos, styp) list of the segments equals the declarative boundary rules: styp, or first emsg/moof, or "
                  "the position designated by top-level sidx references / tfra entry / every moof (C12_boundaries, "
                  "C12_boundary_rules), segment-mode encoding emits init, top-level sidx, per segment styp/sidx/fragment children "
                  "in order, then mfra (C12_segment_mode_encode); for every layout [ftyp] moov sidx* (styp sidx* | emsg | moof | "
                  "mdat)* [mfra] it writes exactly the input boxes in input order (C12_reencode_boxes) and, when each box re-encodes "
                  "to its own bytes (C01's per-box claim, a boolean hypothesis), each starts with a correct size field and the data "
                  "offset of a single-trun fragment is what SetTrunDataOffsets writes, the output byte stream IS the input stream, "
                  "which C02's scan splits into exactly these boxes (C12_reencode_identical); every excluded layout class is refuted by "
                  "a witness (C12_reencode_refuted: free box, sidx behind a fragment, mfra not last, ftyp behind moov, two moov, sidx "
                  "before moov, non-fragmented moov, leading mdat; C12_reencode_doff_refuted: data offset rewritten = known finding "
                  "C12-K1); after UpdateSidx "
                  "reference i starts at the first byte of segment i, the references end at the end of the media, every "
                  "referenced_size IS its segment's size, fits 31 bits and reads back from the written word as (type 0, size), "
                  "every duration IS the reference track's summed sample durations over all trafs of all fragments of the segment "
                  "(any traf order, fragments without the track, empty truns) and fits 32 bits, reference_ID/timescale are the "
                  "reference track's - for segments of ANY size and duration (C12_sidx_tiles; the pre-85561e1 text wrapped "
                  "silently: C12_sidx_pinned_refuted); the reference track is the first video track in moov order, else the first "
                  "audio track, else the first track (C12_reference_track); earliest_presentation_time is version-1, 0 without "
                  "nonZeroEPT and otherwise the presentation time (tfdt base + signed composition offset, mod 2^64) of the FIRST "
                  "SAMPLE of the reference track in the first segment wherever it sits - later fragment, later traf, behind empty "
                  "truns (C12_sidx_ept; the pre-48b8dea text wrote 0 / the decode time: C12_sidx_ept_pinned_refuted = finding "
                  "C12-F7); the per-box hypothesis of C12_reencode_identical is discharged by C01's fixpoint theorems for every "
                  "box that the library wrote or whose decoded tree has no reported reason to differ, the byte environment "
                  "being computed from the input bytes by C01's model (C12_reencode_identical_c01); for every layout_ok byte "
                  "stream (boxes as long as their Size(), < 2^64 bytes, any flags) MediaSegment.StartPos / Fragment.StartPos ARE "
                  "the byte offsets at which the stream splits into init ++ sidx ++ segments ++ mfra resp. into the fragments' "
                  "children, and C05's byte reader (next_box) decodes at the offset of each child - the moof and the mdat of the "
                  "pair among them - exactly that child (C12_partition_bytes, C12_partition_bytes_pair); C12's loop and C05's "
                  "segment decoder agree through an explicit abstraction (C12_c05_simulation: default flags, styp/sidx/emsg/moof/"
                  "mdat/other streams, with or without init), hence by C05_segment_decode C12's fragments are one for one the "
                  "encoded fragments with moof start / mdat payload positions equal to the stream positions "
                  "(C12_c05_segment_decode). Explored only (search/correspondence, not proved): that "
                  "the real boxes satisfy the per-box hypotheses (each box of the synthesized files is re-encoded through the "
                  "extracted C01 model and compared with what Go writes; c01_box itself is shown by running C01's decoder), that "
                  "the first sample has the minimal presentation time (open GOPs), tfra/further sidx boxes left stale by "
                  "UpdateSidx, lazily decoded mdat, the ISM / start-on-moof flags in the C05 composition. "
                  "The model is tied to /repo on every run by running it "
                  "(extracted) against mp4.DecodeFile/Encode/UpdateSidx on synthesized files, including multi-track files with "
                  "arbitrary track ids and traf orders, first fragments without the reference track, empty truns in front of the "
                  "first sample, signed composition offsets, data offsets that skip payload bytes (the model predicts the "
                  "rewritten moof bytes), and lazily decoded files with virtual mdat boxes of 2-8 GiB.",
    "level_note": "Trusted: Coq kernel, extraction (ExtrOcamlBasic), the OCaml/Go glue, the abstraction of a top-level box "
                  "to (kind, Size(), the fields the assembly reads, its bytes, the position of a single trun's data_offset). "
                  "Byte-identity of one re-encoded box is C01's claim and Size() = bytes written C02's: hypotheses of "
                  "C12_reencode_identical; for C01-modelled boxes discharged by C01's theorems (C12_reencode_identical_c01), whose "
                  "model/code tie is C01's own check plus the R lines here. Read-only imports: "
                  "coq/c02 C02AggModel/C02AggFragProofs/C02AggScanProofs (box_ok, all_ok, scan, scan_all_ok), coq/c05 "
                  "C05CodecModel (be32, rd32), C05SegCodecModel (next_box, dec_top_box), C05SegModel/C05SegProofs (seg_decode, "
                  "decode_stream), C05SidxProofs (witness fragment of the example), coq/c01 C01Model/C01FixProofs/C01WhyProofs "
                  "(decode, raw_box, fixpoint_full, fixpoint_partial). The abstraction functions of the C05 composition (decoded "
                  "trafs, payload and position by tag) are parameters: that a moof's trafs are what C05's dec_moof returns for its "
                  "bytes is C05's statement. Box-internal decoding is not modelled in C12 itself.",
}


def build(ctx):
    exe, err = common.go_build("c12")
    if exe is None:
        raise common.CheckError("harness does not build against /repo with -tags verif:\n" + err[-2000:])
    model, err = common.build_model("c12", "C12Extract.v", "c12_driver.ml")
    if model is None:
        raise common.CheckError(err)
    return exe, model


def run(ctx):
    ctx.cov["trusted_base"] = common.TRUSTED_BASE_COMMON + [
        "model: coq/c12/C12Model.v + C12Sidx.v + C12Bytes.v are hand transcriptions of mp4/file.go (DecodeFile loop, AddChild, "
        "startSegmentIfNeeded, findAndReadMfra, Encode, UpdateSidx, findSegmentData, fillSidx, insertSidx), "
        "mp4/mediasegment.go (AddSidx, AddFragment, Size, Encode, FirstBox), mp4/fragment.go (AddChild, Encode, SetTrunDataOffsets for decoded "
        "fragments), mp4/sidx.go (the reference word of EncodeSW / DecodeSidxSR)",
        "spec: coq/c12/C12Spec.v (frag_media, sidx_starts, tiling predicates; written by hand)",
        "a top-level box is abstracted to kind + Size() + the fields read by the assembly; the harness's own "
        "scanner (size/type headers) supplies positions and sizes",
    ]
    ctx.assumptions += [
        "each top-level box is individually well-formed (decodes; Size() equals its encoded length): C01/C02/C04 territory",
        "moov has a complete trak/mdia/minf/stbl/stts chain",
        "the reader is an io.ReadSeeker; mdat is read eagerly (DecModeNormal) except in the huge-file stream (DecModeLazyMdat "
        "through a sparse reader; UpdateSidx only, never encoded as a whole)",
    ]
    ctx.notes["observations_not_claimed_as_violations"] = [
        "an emsg that follows a complete fragment (moof mdat) in the same segment is appended to that preceding fragment "
        "(children moof mdat emsg, C12_fragment_shape's trailing emsg*); under tfra delimiting it therefore sits in the previous "
        "segment. Byte order is preserved by Encode; the property speaks about moof/mdat pairs only.",
        "UpdateSidx leaves the further top-level sidx boxes and an mfra/tfra (moof offsets) as they were: after a sidx is "
        "inserted the tfra offsets are stale. The property's tiling claim is about the (first) sidx only.",
        "boxes outside init/sidx/segments/mfra (free, a second ftyp, a progressive mdat ...) are dropped by segment-mode Encode "
        "(C12_reencode_refuted lists every class).",
        "earliest_presentation_time (nonZeroEPT) is the presentation time of the FIRST sample (decode order) of the reference "
        "track in the first segment (since 48b8dea, finding C12-F7); with open GOPs a later sample can be presented earlier: the "
        "minimum over the samples is not computed by the code and not claimed. A negative offset on base time 0 wraps to 2^64-n.",
        "a segment of 2 GiB or more, or with 2^32 or more ticks of the reference track, cannot be indexed by a sidx: UpdateSidx "
        "returns an error (since 85561e1) and the search accepts that.",
    ]
    exe, model = build(ctx)
    pr = ctx.proofs("c12", "C12Theorems.v")
    # ---- correspondence
    n = ctx.n(12000, 150000)
    exh = ctx.n(4, 5)
    rc, cases, e = sh2([exe, "corr", "-seed", str(ctx.seed), "-n", str(n), "-exh", str(exh)], timeout=3000)
    if rc != 0:
        raise common.CheckError("harness corr failed: " + e[-1000:])
    lines = cases.splitlines()
    res = common.run_model(model, cases)
    mism = [l for l in res if not l.startswith("OK ")]
    distinct = len(set(l.split("\t", 2)[2] for l in lines if "\t" in l))
    nontrivial = sum(1 for l in lines if "\tok\t" in l and "|" in l.split("\t")[5])
    ctx.cov["evaluations"] += len(lines)
    ctx.cov["distinct_nontrivial"] += distinct
    kinds = {}
    for l in lines:
        p = l.split("\t")
        k = p[0] + ":" + p[1].split("-")[0] + ":" + (p[4] if p[0] == "A" else p[5].split(";")[0].split(":")[0][:12])
        kinds[k] = kinds.get(k, 0) + 1
    ctx.notes["correspondence"] = {
        "cases": len(lines), "mismatches": len(mism), "distinct_cases": distinct,
        "cases_with_two_or_more_segments": nontrivial,
        "exhaustive_letter_sequences_up_to": exh, "by_stream_and_outcome": kinds,
    }
    ctx.cov["samples"] += [l[:400] for l in lines[len(lines) // 2:len(lines) // 2 + 2]] + [l[:400] for l in lines[-2:]]
    ctx.log("correspondence: %d cases, %d mismatches" % (len(lines), len(mism)))
    # ---- search: the property itself on the implementation
    ns = ctx.n(8000, 100000)
    rc, so, e = sh2([exe, "search", "-seed", str(ctx.seed), "-n", str(ns)], timeout=3000)
    if rc != 0:
        raise common.CheckError("harness search failed: " + e[-1000:])
    fails = []
    for l in so.splitlines():
        f = l.split("\t")
        if f[0] == "FAIL":
            fails.append(f)
        elif f[0] == "EVALS":
            ctx.cov["evaluations"] += int(f[1])
            ctx.notes["search_evaluations"] = ctx.notes.get("search_evaluations", 0) + int(f[1])
        elif f[0] == "NOTE":
            ctx.notes.setdefault("search_notes", []).append(f[1][:300])
    ctx.notes["hygiene_oracles"] = (
        "harness/c12/hygiene.go (search): a second Encode of the same File gives the same bytes, before and after UpdateSidx "
        "(encode-time mutation); after a truncated copy of the file (cut at a top-level box boundary rotating over the boxes, every "
        "third time 12 bytes into the next box) has been decoded, the PREVIOUS layout of the run and then the same bytes are decoded "
        "again: same segment partition and same re-encoding as the first time (a failed / cut-short decoding must not influence "
        "the next one); on every third layout UpdateSidx is called twice before encoding and the index must still tile the media. "
        "Aliasing / capacity classes: DecodeFile reads through an io.Reader and owns what it builds (not applicable).")
    # ---- the add-sidx example binary on synthesized files
    fails += run_add_sidx(ctx, exe)
    # failing_input returns False for a signature listed as known: those must not hide a model/implementation mismatch
    reported = [f for f in fails if ctx.failing_input(f[1], f[2], f[3], f[4])]
    ctx.log("search: %d failing inputs (%d signatures), %d not listed as known" %
            (len(fails), len(set((f[1], f[2]) for f in fails)), len(reported)))
    if mism and not reported:
        by_id = {}
        for l in lines:
            p = l.split("\t")
            if len(p) > 1:
                by_id[p[1]] = l
        first = mism[0].split(" ")
        ctx.violation({"kind": "correspondence-mismatch",
                       "correspondence": "C12Model/C12Sidx vs mp4.DecodeFile/Encode/UpdateSidx (harness c12 corr)",
                       "mismatches": len(mism), "first_case": by_id.get(first[1], "")[:4000], "model_says": mism[0][:4000]},
                      "model/implementation disagree on %d cases" % len(mism), no_input=True)
    ctx.proof_violation_if_broken(pr, "c12 search: %d evaluations, no failing input" % ctx.notes.get("search_evaluations", 0))
    ctx.cov["rule"] = ("corr: every sequence over {styp,moov,sidx,emsg,moof,mdat,free} up to length %d x 4 flag combinations "
                       "(+ mfra/tfra variants under the ISM flag), structured files 1-3 segments x 1-2 fragments x every "
                       "delimiter kind x flags exhaustively, then %d random (half structured 1-5 x 1-4 x 1-3 tracks, half odd "
                       "layouts with perturbed sidx/tfra), then n/3 multi-track files (1-4 tracks, ids from {1..9, 65536, 2^32-2}, "
                       "random handler kinds / timescales / missing trex, trafs in random order, tracks missing from fragments, 0-2 "
                       "truns of 0-3 samples, durations up to 2^32-1, duplicate trafs; half of them with virtual mdat boxes making a "
                       "segment exactly 2^31-2 .. 2^33+5 bytes, B lines; a fifth of the multi-track files delimited by ONE top-level sidx box "
                       "without styp, the huge ones of those with 3-7 references of ~1.5 GiB .. 2^31-1 bytes so that segments start "
                       "more than 4 / 8 GiB behind the anchor point, decoded lazily), then n/6 byte-level re-encodings (R lines, a third with "
                       "skewed data offsets; every box below 4 KiB carries its bytes and is re-encoded by the extracted C01 model); distinct = "
                       "distinct case lines; search: partition vs intended "
                       "segmentation, StartPos vs own scanner and as byte offsets into the input (box header at StartPos, children "
                       "back to back, moof.StartPos, mdat payload offset and bytes), re-encode bytes, UpdateSidx tiling, durations "
                       "and ept (first sample of the reference track, wherever it sits); n/2 multi-track "
                       "files incl. huge ones: UpdateSidx must refuse >= 2^31 bytes / >= 2^32 ticks and otherwise write the true "
                       "sizes and durations; skewed data offsets (known finding C12-K1)" % (exh, n))


def run_add_sidx(ctx, exe):
    """examples/add-sidx built from the working tree, run on synthesized files; outputs verified by the harness."""
    binp, err = common.go_build_repo_cmd("examples/add-sidx", "c12_add_sidx")
    if binp is None:
        raise common.CheckError("examples/add-sidx does not build:\n" + err[-1500:])
    d = os.path.join(common.BUILD, "c12_addsidx_%d" % os.getpid())
    shutil.rmtree(d, ignore_errors=True)
    os.makedirs(d)
    try:
        nf = ctx.n(100, 1500)
        rc, so, e = sh2([exe, "emit", "-seed", str(ctx.seed), "-n", str(nf), "-dir", d], timeout=600)
        if rc != 0:
            raise common.CheckError("harness emit failed: " + e[-1000:])
        jobs = [l.split("\t") for l in so.splitlines() if l.startswith("JOB\t")]
        for j in jobs:
            # JOB <name> <args...>
            args = [a for a in j[2].split(" ") if a]
            rc, o, e2 = sh2([binp] + args + [os.path.join(d, j[1] + ".in.mp4"), os.path.join(d, j[1] + ".out.mp4")], timeout=60)
            open(os.path.join(d, j[1] + ".rc"), "w").write("%d\n%s" % (rc, (o + e2)[-300:]))
        rc, so, e = sh2([exe, "verify", "-dir", d], timeout=600)
        if rc != 0:
            raise common.CheckError("harness verify failed: " + e[-1000:])
        fails = []
        for l in so.splitlines():
            f = l.split("\t")
            if f[0] == "FAIL":
                fails.append(f)
            elif f[0] == "EVALS":
                ctx.cov["evaluations"] += int(f[1])
                ctx.notes["add_sidx_binary_runs"] = int(f[1])
        return fails
    finally:
        shutil.rmtree(d, ignore_errors=True)


def replay(ctx, path):
    """Re-runs a failing-input witness (file bytes + flags) on the current /repo tree: decode, partition,
    positions, segment-mode re-encoding, UpdateSidx tiling (what can be checked without the generator's
    ground truth). Exit 1 if it still fails."""
    import json
    import re
    r = json.load(open(path))
    print(json.dumps({k: (v if len(str(v)) < 600 else str(v)[:600] + "...") for k, v in r.items()}, indent=1))
    w = r.get("witness", "")
    m = re.search(r"file=([0-9a-f]+)", w)
    if r.get("kind") != "failing-input" or not m or w.endswith("..."):
        print("nothing to re-run (not a failing input with a complete file)")
        return 0
    exe, _model = build(ctx)
    args = [exe, "replay", "-file", m.group(1)]
    if "ism=true" in w:
        args.append("-ism")
    if "som=true" in w or "som=1" in w:
        args.append("-som")
    rc, so, e = sh2(args, timeout=300)
    bad = 0
    for l in so.splitlines():
        f = l.split("\t")
        if f[0] == "FAIL":
            bad += 1
            print("STILL FAILS: %s/%s: %s" % (f[1], f[2], f[4]))
        elif f[0] == "NOTE":
            print(f[1][:1500])
    print("replay: %d failing check(s)" % bad)
    return 1 if bad or rc != 0 else 0
