"""C16 — untrusted elementary-stream bytes never crash or hang the codec helpers."""
import json
import os
import common
from common import sh2

LEVEL = "proof"
MANIFEST = {
    "technique": "Coq proof of totality + linear cost over hand-written Gallina models (explicit panic / fuel / append "
                 "counters; a small program logic over the state-monad parser models for the bit-level parsers) + "
                 "differential correspondence of outcome classes and projected values (extracted OCaml vs Go in isolated "
                 "worker processes, on the same hostile generators as the search) + hostile-input search over every anchored "
                 "entry point incl. the SPS -> PPS -> slice pipelines; field-level guard sweep (every guarded count / range field of the "
                 "six parameter-set / slice parsers at c-1, c, c+1, 2c, 2c+1, 255, 256, 65535) in correspondence and search",
    "level_text": "Theorems, for ALL byte lists with no hypothesis (five files: coq/c16/C16Theorems.v, C16TheoremsParse.v, "
                  "C16TheoremsAux.v, C16TheoremsConfRec.v, C16TheoremsHevc.v; every theorem closed under the global context): a value or an error, never Panic, never "
                  "OutOfFuel, iterations and sizes of built lists bounded linearly in the input, for (1) each length-field NAL-unit "
                  "walker of avc and hevc as repaired (<= |bs|/4 iterations and appends); (2) the EBSP bit reader (Read, "
                  "ReadExpGolomb, sticky error); (3) avc.ParseSPSNALUnit (every reader state; all allocations constant: <= 255 POC "
                  "cycle entries, <= 12 scaling lists of <= 64, <= 32 HRD entries), avc.ParsePPSNALUnit for every spsMap "
                  "(slice_group_id <= 8|nalu|+1 entries whatever the 2^64 count), avc.ParseSliceHeader for EVERY content of both "
                  "maps (arbitrary SPS/PPS record values; the two `for{}` loops and the pred-weight loops end within 8|nalu|+10 "
                  "iterations), avc.GetSliceTypeFromNALU; the PPS/slice wrappers provably equal the C15 models wherever those do "
                  "not hit their 2^16 cap; (4) sei.ExtractSEIData (<= |data|/2 messages, payload bytes <= |data|, ReadBytes "
                  "allocation <= 255(|data|+2)), DecodeTimeCodeSEI + String (pinned String refuted), DecodePicTimingAvcSEIHRD for "
                  "every external parameter, DecodePicTimingHevcSEI for every parameter set, the user-data decoders / ParseCEA608 / "
                  "ExtractCEA608sei, MDCV, CLL (index and slice expressions modelled as PARTIAL operations and proved in range), "
                  "avc.ParseSEINalu / hevc.ParseSEINalu for every SPS-derived context; (5) aac.DecodeADTSHeader (<= 188 scan "
                  "iterations) and DecodeAudioSpecificConfig; (6) the Annex B scanners and byte-stream helpers of avc/hevc (models "
                  "of C14; the word-scanner and ConvertByteStreamToNaluSample under bytes < 256); (7) avc.DecodeAVCDecConfRec, "
                  "hevc.DecodeHEVCDecConfRec, av1.DecodeAV1CodecConfRec (own models: partial index/slice, bits.FixedSliceReader with its "
                  "accumulated error, count loops on fuel): NAL units and their bytes <= |data|, iterations linear, HEVC arrays <= 255 "
                  "(arrays <= |data| refuted: 255 empty arrays are returned with the read error of a 23-byte record). Every modelled entry point is tied to "
                  "/repo on every run: outcome class and projected values on the hostile generators must equal the extracted model's. "
                  "(8) hevc.ParseSPSNALUnit, ParsePPSNALUnit, ParseSliceHeader (wrappers generated from the frozen C15 HEVC model with "
                  "data-derived fuel, proved equal to it wherever it is defined): Err or Ok, never Panic (ShortTermRefPicSets[idx-deltaIdx] "
                  "shown in range), every data-driven loop within 8|nalu|+10 iterations; the slice header for EVERY map whose entries satisfy "
                  "the boolean predicates hsps_wfb/hpps_wfb, which the SPS/PPS theorems show to hold of everything the parsers return; the "
                  "three-stage pipeline hostile SPS -> PPS -> slice composed (C16_hevc_ParsePSAndSlice_total), no OutOfFuel case left: "
                  "the PPS multilayer and 3D extension bodies (parseMultilayerExtension, parseColourMappingTable with its recursive octants, "
                  "parse3dExtension, parseDeltaDlt), which C15 does not model, are C16's own totality skeletons of hevc/pps.go (reads, conditions, "
                  "loop counts, error exits; decoded values dropped) and C16_hevc_ParsePPSNALUnit_total covers EVERY PPS. "
                  "C16_hevc_ParseSPSNALUnit_rps_bound: every SPS returned has <= 64 short-term RPS, as many as announced, each NumDeltaPocs <= 95; "
                  "hsps_wfb asks NumDeltaPocs <= 254 because Go's `for j := byte(0); j <= numDeltaPocs; j++` does not end for 255 (the guard "
                  "constants 64 / 16 of hevc/sps.go are what keeps 255 out of reach: with 64 -> 255 a chain of 225 predicted sets hangs the parser; "
                  "the search has that unit). (9) av1: CodecConfRec.Size / Encode for EVERY record value (the fixed writer is exactly filled, never "
                  "its error) and decode-then-encode = identity on every accepted byte input (the package has no String). (10) SEI String / Payload "
                  "of the remaining messages: MDCV / CLL Payload (sub-slices at a running position, partial) for every message value and after "
                  "decoding every payload; String of every decoded registered / CEA-608 / unregistered message: no partial operation fails and the "
                  "text is <= 4 bytes per payload byte + 200 (render-cost model; the real length is checked against the same bound on every run). "
                  "(11) TimeCodeSEI.Payload and PicTimingAvcSEI.Payload through bits.FixedSliceWriter (C16SeiFswModel.v: the writer is the Go struct "
                  "{buf, off, n, v, accError}; make / buf[off] = b / buf[:off] partial, the `for sw.n >= 8` loop on fuel, 64-bit shifts and masks): "
                  "C16_bits_FixedSliceWriter_total, C16_sei_FixedSliceWriter_Payloads_total, C16_sei_decode_then_FixedSliceWriter_Payload_total: for EVERY capacity >= 0 and EVERY sequence of WriteBits / WriteFlag / FlushBits (any value, any "
                  "width) - no Panic, no OutOfFuel, at most `capacity` bytes; for EVERY message value (any number of clocks, length fields up to and "
                  "beyond 255) Payload() returns <= Size() bytes and 8 Size() <= 9 + 44 clocks + sum of the length fields; composed with the decoders "
                  "for every payload and every external parameter; C16_bits_FixedSliceWriter_is_C17: the bytes are those of C17's total model fsw_bytes for every "
                  "capacity and every sequence of writes whose values fit Go's uint (simulation: buf[:off] = the output so far while accError is nil, buf = "
                  "its first `capacity` bytes afterwards), so C17's round-trip / Size theorems speak about what the partial writer returns. On every run the "
                  "bytes must equal Go's Payload() (and, once more, C17's executable model), for decoded "
                  "messages and for arbitrary message values (length fields 0..255: writes of 256 bits). "
                  "Explored only (search, no theorem): field-level syntax writers "
                  "for AVC and HEVC SPS/PPS/slice drive the pipelines SPS -> PPS -> slice, SPS -> SEI and config record -> parameter sets "
                  "-> slice with 0/1/2 hostile fields per stage (each ue/se/u field at 0, 1, max-1, max, max+1, 255, 256, 2^16-1, 2^32-1 ...), "
                  "all slice types, tool flags on; worst-case short-term RPS chains; SEIType.String and the Sprintf-only String methods (PicTimingHevc, "
                  "MDCV, CLL: no index or slice expression); cmd/mp4ff-nallister / pslister on hostile files.",
    "level_note": "Trusted: Coq kernel, extraction, OCaml/Go glue, worker classification (wall-clock budget, runtime/metrics "
                  "allocation counter, watchdog + ulimit -v). Models of other properties are imported read-only (C13 reader, C14 "
                  "scanners, C15 AVC parsers, C17 SEI, C18 AAC); where they are total but Go indexes, C16 wraps them with partial "
                  "operations and proves agreement. C15's constant loop caps are replaced by data-derived fuel in C16ParseModel.v / "
                  "C16HevcParseModel.v (text generated from C15's, agreement proved wherever C15's model is defined). The PPS multilayer / 3D "
                  "skeletons and the av1 Encode model (byte-level: bits.FixedSliceWriter packing not re-modelled) are C16's own and rest on the "
                  "correspondence (class for the skeletons: hpps has no field for their content; Size + bytes for Encode). The sequences of writes of the two "
                  "FixedSliceWriter Payload methods are C17's op lists tc_ops / pt_ops (imported read-only, tied to the Go text by the Payload bytes compared on every case). The model's "
                  "rep_n (NumDeltaPocs + 1) is the Go byte loop only for NumDeltaPocs <= 254, which the RPS-bound theorem establishes. "
                  "Hang detection: one confirmation run of 5 s per timed-out case, at most 2 confirmed hangs are waited for per phase. "
                  "Go int is taken to be 64 bit (no wrap of len+2^32). Real time and heap are observed, not proved.",
}

ULIMIT_KB = 2000000
# confirmed hangs a run waits for (harness flag -maxhang): per phase; the search gets what the correspondence left, at least 1
HANG_CAP = 2
# wall-clock limit of one run of a command line tool on a (small) hostile file, and the number of timed-out runs after
# which the remaining files are not run any more
TOOL_TIMEOUT = 6
TOOL_HANG_CAP = 2
# further theorem files of C16 (each one re-checked and audited like C16Theorems.v)
EXTRA_THEOREM_FILES = ["C16TheoremsParse.v", "C16TheoremsAux.v", "C16TheoremsConfRec.v", "C16TheoremsHevc.v"]


def build(ctx):
    exe, err = common.go_build("c16")
    if exe is None:
        raise common.CheckError("harness does not build against /repo with -tags verif:\n" + err[-2000:])
    model, err = common.build_model("c16", "C16Extract.v", "c16_driver.ml")
    if model is None:
        raise common.CheckError(err)
    return exe, model


def run_model_parallel(model, cases, k=4):
    """the extracted model on the case lines, split over k driver processes (the HEVC parser models cost milliseconds
    per unit in extracted OCaml with N as a Coq datatype): CTX lines go to every process, W lines round robin;
    the output lines are returned in the order of the input lines"""
    import subprocess
    lines = cases.splitlines()
    ctxl = [l for l in lines if l.startswith("CTX\t")]
    ws = [l for l in lines if not l.startswith("CTX\t")]
    parts = [ws[i::k] for i in range(k)]
    procs = []
    for part in parts:
        p = subprocess.Popen("ulimit -s unlimited 2>/dev/null; exec '%s'" % model, shell=True, stdin=subprocess.PIPE,
                             stdout=subprocess.PIPE, stderr=subprocess.PIPE)
        procs.append(p)
    import threading
    outs = [None] * k

    def feed(i):
        o, e = procs[i].communicate(("\n".join(ctxl + parts[i]) + "\n").encode())
        outs[i] = (procs[i].returncode, o.decode("utf-8", "replace").splitlines(), e.decode("utf-8", "replace"))
    ths = [threading.Thread(target=feed, args=(i,)) for i in range(k)]
    for t in ths:
        t.start()
    for t in ths:
        t.join(3000)
    res = [None] * len(ws)
    for i in range(k):
        rc, o, e = outs[i] if outs[i] else (1, [], "driver did not finish")
        if rc != 0 or len(o) != len(parts[i]):
            raise common.CheckError("model driver failed rc=%s (%d answers for %d cases): %s" % (rc, len(o), len(parts[i]), e[-2000:]))
        res[i::k] = o
    return res


def limited(exe, args):
    """the harness (and therefore its worker children) under an address-space limit"""
    return "ulimit -v %d; exec '%s' %s" % (ULIMIT_KB, exe, " ".join(str(a) for a in args))


def run(ctx):
    ctx.cov["trusted_base"] = common.TRUSTED_BASE_COMMON + [
        "model: coq/c16/C16Model.v is a hand transcription of avc/nalus.go, avc/avc.go (walkers), "
        "avc/annexb.go ConvertSampleToByteStream, hevc/hevc.go (walkers), sei/sei1_hevc.go DecodePicTimingHevcSEI after the "
        "fix: commits; bit reader model imported from coq/c13/C13Model.v; coq/c16/C16ParseModel.v (AVC SPS/PPS/slice-header "
        "parsers = coq/c15/C15Model.v with data-derived loop fuel, avc.GetSliceTypeFromNALU), C16AuxModel.v (partial-operation "
        "wrappers of the C17 SEI decoders, ExtractSEIData with the ReadBytes loop, ADTS scan with counters), C16SeiNaluModel.v "
        "(avc/hevc ParseSEINalu), C16ConfRecModel.v (AVC/HEVC/AV1 configuration records), C16HevcParseModel.v + C16HevcPipeModel.v (HEVC SPS/PPS/slice header "
        "over coq/c15/C15HevcModel.v + own skeletons of the PPS multilayer / 3D extension parsers, pipelines), C16Av1EncModel.v (av1 Size / Encode), "
        "C16SeiStrModel.v (MDCV / CLL Payload, String render costs), models of C14 (Annex B) and C18 (ADTS/ASC) "
        "imported read-only",
        "outcome classification by the harness parent: ok|err from the call, panic by recover, hang by wall clock "
        "(2 s inside a chunk, then one confirmation run of 5 s on a fresh worker), overalloc by allocation counter > 512*len+1MiB or runtime out-of-memory abort",
    ]
    ctx.assumptions += ["Go int is 64 bit and len(sample) < 2^62 (positions cannot wrap)",
                        "allocation is counted in appended elements in the model; bytes are observed on the Go side only"]
    exe, model = build(ctx)
    pr = ctx.proofs("c16", "C16Theorems.v")
    prs = [pr] + [ctx.proofs("c16", f) for f in EXTRA_THEOREM_FILES]
    # correspondence
    n = ctx.n(5000, 60000)
    rc, cases, e = sh2(limited(exe, ["corr", "-seed", ctx.seed, "-n", n, "-maxhang", HANG_CAP]), timeout=3000)
    if rc != 0:
        raise common.CheckError("harness corr failed: " + e[-1000:])
    lines = cases.splitlines()
    res = run_model_parallel(model, cases)
    mism = [l for l in res if not l.startswith("OK ")]
    outside = sum(1 for l in res if l.endswith(" outside-model"))
    distinct = len(set(l.split("\t", 2)[2] for l in lines if "\t" in l))
    classes = {}
    for l in lines:
        f = l.split("\t")
        if len(f) > 5:
            classes[f[5]] = classes.get(f[5], 0) + 1
    ctx.cov["evaluations"] += len(lines)
    ctx.cov["distinct_nontrivial"] += distinct
    ctx.notes["correspondence"] = {
        "cases": len(lines), "mismatches": len(mism), "distinct_cases": distinct, "classes": classes,
        "outside_model": outside,  # always 0: every case is compared (the PPS multilayer / 3D extension bodies are modelled)
        "distribution": "stage 2/3 (hevc SPS/PPS/slice + hevc pipelines SPS->PPS->slice, SPS->SEI, confrec->PS->slice; avc SPS/PPS/slice/GetSliceType/ParsePSAndSlice pipeline, avc+hevc ParseSEINalu, ExtractSEIData, 8 SEI decoders, "
                        "ADTS, ASC, 7 Annex B helpers, av1 decode->Size/Encode and Encode of arbitrary record values with every value of each header byte, "
                        "time code / AVC picture timing decode->Payload/Size/String on syntax-directed payloads (every flag path, offset lengths 0..31, truncated / mutated) and Payload/Size/String of arbitrary message values "
                        "(0..7 clocks, each length field at 0,1,7,8,9,31,32,33,63,64,65,127,128,200,254,255 in each position): the search generators (captured seeds, every prefix of a seed, guard sweep = one unit per guarded ue field and value in {c-1,c,c+1,2c,2c+1,255,256,65535} with the announced elements behind it, worst-case RPS chains of 2..255 sets, mutants, field soups with "
                        "hostile ue(v), structured pipelines, raw short inputs), n/20 per target; reference parameter sets sent in CTX lines and "
                        "parsed by the model itself; sei.DecodePicTimingHevcSEI on fixed + random/field-soup payloads x random external flags and widths; 15 walkers on: fixed witnesses; every string over {00,01,04,fc,ff} up to length 3 (5 thorough); "
                        "12 hostile 32-bit length fields x every tail over {00,05,ff} of length 1..4 (6 thorough); "
                        "%d generated samples (0-7 NAL units, typed header bytes) mutated: 25%% well-formed, 15%% truncated, "
                        "30%% hostile length field (0,1,rem-1,rem,rem+1,2^31,2^32-k, wrap-to-position), 10%% trailing bytes, "
                        "10%% byte flips, 10%% hostile+truncated" % n,
    }
    ctx.cov["samples"] += [l[:300] for l in lines[40:43]] + [l[:300] for l in lines[-3:]]
    ctx.log("correspondence: %d cases, %d mismatches, classes %s" % (len(lines), len(mism), classes))
    # a hang confirmed by the correspondence run (real code, isolated worker, confirmation run) is a failing input
    # of the property itself: it is reported from here, and the search does not wait for the same target again
    # (every confirmed hang costs ~7 s of wall clock; HANG_CAP bounds the number of them a run waits for)
    reported = 0
    hung = {}
    for l in lines:
        f = l.split("\t")
        if len(f) > 5 and f[5] == "hang" and f[2] not in hung:
            hung[f[2]] = f
    for t, f in sorted(hung.items()):
        w = f[3] + (" arg=" + f[4] if f[4] != "0" else "")
        if ctx.failing_input(t, "hang", w, "no answer within the wall-clock budget (correspondence run, confirmed on a fresh worker)",
                             extra={"target": t, "input_hex": f[3], "arg": int(f[4])}):
            reported += 1
    ctx.notes["corr_confirmed_hangs"] = sorted(hung)
    # search: the property itself on the implementation
    ns = ctx.n(60000, 1200000)
    sargs = ["search", "-seed", ctx.seed, "-n", ns, "-maxhang", max(1, HANG_CAP - len(hung))]
    if hung:
        sargs += ["-skip", "'%s'" % ",".join(sorted(hung))]
    rc, so, e = sh2(limited(exe, sargs), timeout=3000)
    if rc != 0:
        raise common.CheckError("harness search failed: " + e[-1000:])
    fails = []
    for l in so.splitlines():
        f = l.split("\t")
        if f[0] == "FAIL":
            fails.append(f)
        elif f[0] == "EVALS":
            ctx.cov["evaluations"] += int(f[1])
            ctx.notes["search_evaluations"] = int(f[1])
    for f in fails:
        w = f[3].split(" arg=")
        extra = {"target": f[1], "input_hex": w[0], "arg": int(w[1]) if len(w) > 1 else 0}
        # hygiene class `poisoned` (harness/c16/hygiene.go): the replay asks the control input first
        import re
        m = re.search(r"control input (\S+) arg=(-?\d+)", f[4])
        if m:
            extra["control_hex"], extra["control_arg"] = m.group(1), int(m.group(2))
        if ctx.failing_input(f[1], f[2], f[3], f[4], extra=extra):
            reported += 1
    ctx.notes["hygiene_oracles"] = (
        "the search worker (harness/c16/hygiene.go) repeats every call that ended ok|err on a sub-slice with 24 guard bytes behind "
        "it (classes beyondlen, capdep), asks it a second time (unstable) and then re-asks the target's known-good control input "
        "(first input of the target answered ok) and the previous target's control: the answers must be the baseline ones "
        "(poisoned) - a hostile input must not influence later parses, also not through the shared spsMap/ppsMap/SEI context")
    ctx.log("search: %d failing signatures (%d not known)" % (len(fails), reported))
    # the built command line tools on hostile files
    reported += run_tools(ctx, exe, ctx.n(200, 4000))
    if mism and not reported:
        by_id = {}
        for l in lines:
            p = l.split("\t")
            if len(p) > 1:
                by_id[p[1]] = l
        first = mism[0].split(" ")
        ctx.violation({"kind": "correspondence-mismatch", "correspondence": "C16Model vs avc/hevc walkers (harness c16 corr)",
                       "mismatches": len(mism), "first_case": by_id.get(first[1], "")[:2000], "model_says": mism[0][:2000]},
                      "model/implementation disagree on %d cases" % len(mism), no_input=True)
    for p in prs:
        ctx.proof_violation_if_broken(p, "c16 search: %d evaluations, no failing input" % ctx.notes.get("search_evaluations", 0))
    ctx.cov["rule"] = ("corr: outcome class (ok|err|panic|hang|overalloc) and value of the 15 modelled walkers and class + projected "
                       "values of 51 more modelled entry points on every generated sample; distinct = distinct (function,input,arg,class,value) lines; search: every target must end in ok|err "
                       "with allocation <= 512*len+1MiB inside the wall-clock budget, each call in a worker subprocess")


def run_tools(ctx, exe, nfiles):
    """the repository's own command line tools on hostile Annex B byte stream files"""
    import shutil
    nal, err = common.go_build_repo_cmd("cmd/mp4ff-nallister", "c16_nallister")
    if nal is None:
        raise common.CheckError("cmd/mp4ff-nallister does not build:\n" + err[-1500:])
    psl, err = common.go_build_repo_cmd("cmd/mp4ff-pslister", "c16_pslister")
    if psl is None:
        raise common.CheckError("cmd/mp4ff-pslister does not build:\n" + err[-1500:])
    d = os.path.join(common.BUILD, "c16files")
    shutil.rmtree(d, ignore_errors=True)
    os.makedirs(d)
    rc, so, e = sh2([exe, "files", "-seed", str(ctx.seed), "-n", str(nfiles), "-dir", d], timeout=600)
    if rc != 0:
        raise common.CheckError("harness files failed: " + e[-1000:])
    runs = 0
    fails = {}
    timed_out = 0
    for f in sorted(os.listdir(d)):
        if timed_out >= TOOL_HANG_CAP:
            break
        codec = f.split("_")[0]
        path = os.path.join(d, f)
        for site, cmd in (("cmd/mp4ff-nallister", "'%s' -annexb -c %s -sei 1 '%s'" % (nal, codec, path)),
                          ("cmd/mp4ff-pslister", "'%s' -c %s -v -i '%s'" % (psl, codec, path))):
            rc, so, e = sh2("ulimit -v %d; exec %s" % (ULIMIT_KB, cmd), timeout=TOOL_TIMEOUT)
            runs += 1
            cls = None
            if rc == 124:
                cls = "hang"
                timed_out += 1
            elif "out of memory" in e or "cannot allocate" in e:
                cls = "overalloc"
            elif rc not in (0, 1) or "panic:" in e or "fatal error" in e:
                cls = "panic"
            if cls:
                data = open(path, "rb").read()
                key = (site, cls)
                msg = next((l for l in e.splitlines() if "panic" in l or "fatal" in l), e.strip()[:200])
                if key not in fails or len(data) < len(fails[key][0]):
                    fails[key] = (data, msg, codec)
    shutil.rmtree(d, ignore_errors=True)
    ctx.cov["evaluations"] += runs
    ctx.notes["tool_runs"] = runs
    reported = 0
    for (site, cls), (data, msg, codec) in sorted(fails.items()):
        if ctx.failing_input(site, cls, data.hex() or "-", msg[:300],
                             extra={"tool": site, "codec": codec, "file_hex": data.hex()}):
            reported += 1
    ctx.log("tools: %d runs of mp4ff-nallister / mp4ff-pslister on %d hostile byte streams, %d failing signatures"
            % (runs, nfiles, len(fails)))
    return reported


def replay(ctx, path):
    r = json.load(open(path))
    print(json.dumps(r, indent=1))
    if r.get("kind") == "failing-input" and r.get("tool"):
        import tempfile
        name = "c16_nallister" if "nallister" in r["tool"] else "c16_pslister"
        exe, err = common.go_build_repo_cmd(r["tool"], name)
        if exe is None:
            print(err)
            return 1
        with tempfile.NamedTemporaryFile(suffix=".bin", dir=common.BUILD, delete=False) as f:
            f.write(bytes.fromhex(r.get("file_hex", "")))
        args = "-annexb -c %s -sei 1" % r["codec"] if "nallister" in r["tool"] else "-c %s -v -i" % r["codec"]
        rc, so, e = sh2("ulimit -v %d; exec '%s' %s '%s'" % (ULIMIT_KB, exe, args, f.name), timeout=30)
        os.remove(f.name)
        print("replay on the current tree: rc=%s %s" % (rc, e.strip()[:500]))
        return 0 if rc in (0, 1) and "panic:" not in e else 1
    if r.get("kind") == "failing-input" and r.get("target"):
        exe, _ = build(ctx)
        rargs = ["replay", r["target"], r.get("input_hex", "-"), r.get("arg", 0)]
        if r.get("control_hex"):
            rargs += [r["control_hex"], r.get("control_arg", 0)]
        rc, so, e = sh2(limited(exe, rargs), timeout=120)
        print("replay on the current tree:", so.strip() or e.strip())
        cls = so.split("\t")[0].strip()
        return 0 if cls in ("ok", "err") else 1
    return 0
