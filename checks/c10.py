"""C10 — cropping a progressive file yields exactly a prefix of every track."""
import os
import shutil
import common
from common import sh2

LEVEL = "proof"
MANIFEST = {
    "technique": "Coq proof over a hand-written Gallina model of cmd/mp4ff-crop (C10Model.v: table-cropping routines, findEndTime, findTrakEnds, "
                 "fillTrakOutsAndByteRanges, updateChunkOffsets, the duration arithmetic of writeUptoMdat, writeMdat over C08's CopyData model; "
                 "C10FileModel.v: cropMP4 as a whole = reference-track choice -> findEndTime -> cropToTime with sizeWithoutMdat computed from "
                 "the Size() of the cropped table boxes -> writeMdat) on the C09 table model "
                 "+ differential correspondence (extracted OCaml vs the real unexported routines and cropMP4 on virtual input files, reached "
                 "through a verif-tagged test driver) + whole-tool runs of the built mp4ff-crop binary on synthesized progressive files; "
                 "C10TreeModel.v: the WHOLE TOOL as a function from the bytes of the input file to the bytes of the output file on C01's "
                 "box-tree model (C01's DecodeFileSR -> tables/headers read out of the tree -> crop_mp4_all -> the boxes rebuilt -> "
                 "C01's encoder -> writeMdat), proved to write encode(out tree) ++ mdat header ++ kept ranges and to be decodable "
                 "(print-then-parse proof over C01's decoder) + byte-for-byte differential correspondence of the extracted model against "
                 "the built binary",
    "level_text": "Theorems (coq/c10/C10Theorems.v), all for ALL inputs. C10_crop_end_to_end (the property, about crop_mp4_file/"
                  "crop_mp4_output = cropMP4): any number of tracks with handler types, every track static_ok (consistent tables, id != 0, chunk "
                  "offsets in [1,2^62) in ANY order - non-monotone, overlapping, zero-size, adjacent chunks included, ex_wild_layout -, chunks "
                  "inside the file), stts deltas positive, 32-bit timescale, every requested duration ms; NOTHING assumed about the end time, "
                  "the number of samples (C10_empty_track) or the track ids. If the tool succeeds: the track ids are pairwise distinct "
                  "(C10_success_distinct_ids; the repaired findTrakEnds refuses a repeated id, finding C10-F10), the reference track is the first 'vide' track else the first 'soun' track (C10_reference_track); T is "
                  "the start of the first sync sample of it starting at or after floor(ms*timescale/1000) and not sample 1 (exact comparison "
                  "under the guard (ms*timescale) mod 1000 = 0: C10_end_time_exact; false without: C10_end_time_exact_refuted = known C10-F6); "
                  "the end time rescaled per track lies inside every track (derived from success); for every track k_t = number of samples "
                  "starting before floor(T*ts_t/ts_ref) >= 1 (exact count under C10_k_exact / C10_k_same_timescale's guards; "
                  "C10_k_exact_refuted = known C10-F7), the output tables are consistent, hold k_t samples, every per-sample list (durations, "
                  "sizes, composition offsets, sync samples, sdtp, chunk membership) is the k_t-prefix of the input's; the output file is "
                  "pre ++ (32-bit size,'mdat') ++ byte ranges with |pre| = sizeWithoutMdat = rest + Size() of the OUTPUT's table boxes "
                  "(C10_size_without_mdat; sizes = C01's size_leaf: C10_table_sizes_c01), payload < 2^32-8, every chunk offset o has "
                  "|pre|+8 <= o and o + kept chunk bytes <= end of the new mdat, every kept sample read through the OUTPUT tables (C09 "
                  "S_offset_of/S_size/trak_get_ranges) yields the input's bytes. writeMdat: lazy mode C10_write_mdat + C10_write_mdat_inv "
                  "(success => header + exactly the ranges), in-memory mode (File.Mdat.Data) C10_write_mdat_mem for ranges starting inside "
                  "the input payload; C10_write_mdat_modes_differ: an empty range at the end of the payload is refused in memory only; "
                  "C10_crop_end_to_end_mem_input: the same end-to-end conclusion for the in-memory mode when every chunk lies inside the "
                  "input mdat payload (every byte range starts at a chunk offset: C10_range_starts). C10_crop_mp4_durations: cropMP4 incl. "
                  "writeUptoMdat (crop_mp4_all) succeeds only if crop_mp4_file does and the header durations do not exceed the originals. "
                  "Earlier theorems kept: per-routine crop theorems, C10_k, C10_end_time_*, C10_fill_terminates, C10_layout(_total/_ranges), "
                  "C10_samples_end_to_end, C10_output_readable, C10_crop_to_time, C10_header_durations (+ C10_mvhd_duration_refuted = known "
                  "C10-F9), C10_offsets_input_header_refuted, C10_stco_wrap_refuted. "
                  "THE OUTPUT FILE AS BYTES (coq/c10/C10FileTheorems.v, model C10TreeModel.crop_tool on C01's box-tree model, `rest` is no "
                  "longer an input: it is computed from the Size() of the decoded boxes): C10_output_file_bytes, for EVERY input byte string "
                  "and duration on which the tool model succeeds, no other hypothesis: the output is Box.Encode of the non-mdat input boxes in "
                  "input order (ftyp/moov/mdat and mdat-before-moov layouts, free/skip/unknown boxes kept) with the moov replaced by out_moov "
                  "(table leaves stts ctts stsc stsz stco|co64 stss sdtp replaced by the cropped+shifted tables, mvhd/tkhd Duration and elst "
                  "segment durations updated as writeUptoMdat does, mdhd untouched as in the code, every box on the way re-sized, everything "
                  "else identical) ++ (32-bit size,'mdat') ++ the bytes writeMdat copies, |body| = byteRanges.size(), 8+|body| < 2^32. "
                  "C10_output_decodes ('its output is a decodable progressive file'): if moreover the input boxes are exact (C01's exact_box: "
                  "compact headers announcing Size()) and the numbers of the rebuilt leaves fit their fields (tree_fits), then |encoded "
                  "boxes| = sum of Size() and C01's model of the DecodeFileSR box loop run on the written bytes returns exactly those boxes "
                  "(decoder's view: reserved bytes = encoder's values, stsc ids in the decoder's form) followed by ONE mdat box holding the "
                  "copied bytes. Supporting theorems: C10_decoder_fuel_irrelevant (C01's decoder gives the same result at every fuel >= a "
                  "structural bound: the cropped file is shorter than its input, C01's fixed point re-decodes with the input's fuel), "
                  "C10_rebuilt_leaf_prints_and_parses (print-then-parse of stts ctts stsc stsz stco/co64/stss sdtp elst mvhd tkhd for ANY "
                  "values that fit), C10_report_is_tool; Examples on both layouts. C10_output_size (unconditional): the sizeWithoutMdat "
                  "that shifted the chunk offsets IS the sum of the Size() of the boxes the tool encodes (uint64) - replacing the table "
                  "leaves changes the tree's size by the difference of the table-box sizes, tkhd/mvhd/elst keep theirs - so the chunk "
                  "offsets of C10_crop_end_to_end are relative to the real byte layout of the file written, and `rest` of that theorem is "
                  "instantiated by scope (Size() of the non-mdat input boxes minus Size() of the input's table boxes). "
                  "Explored only (correspondence + search): the two boolean hypotheses of C10_output_decodes (exact input boxes, tree_fits) "
                  "are EVALUATED on every successful whole-tool case (all satisfy them) but not derived from decodedness of the input (tree_fits is "
                  "conditional by nature: a version-0 mvhd next to 64-bit tkhd durations would be cut by the encoder); DecodeFile's "
                  "lazy-mdat reader path vs C01's slice path; inputs outside the modelled structure (missing/repeated mandatory child boxes, "
                  "several moov/mdat); the whole binary on synthesized files.",
    "level_note": "Trusted: Coq kernel, extraction, OCaml/Go glue, hand transcription checked only differentially (virt correspondence: the "
                  "model's sizeWithoutMdat, computed from rest = real size minus the real Size() of the input's table boxes, must equal the "
                  "start of the mdat cropMP4 writes; a checksum of the written mdat payload must equal the model's write_mdat bytes, lazy and "
                  "in-memory input mdat; handler letters v/s/o per track; a repeated track id; whole tool: the extracted crop_tool must reproduce "
                  "the binary's outcome class and every byte of its output file on every whole-tool run + a malformed stream); in the "
                  "end-to-end theorem of C10Theorems.v `rest` is a parameter that C10TreeModel.scope instantiates (C10_output_size proves the "
                  "instantiation gives the real size); C10FileTheorems.v imports coq/c01 (model + proofs) read-only and rebuilds when C01 "
                  "changes; hypotheses of the end-to-end "
                  "theorem: trak_wf per track, 2^62 + 2*sample bytes < 2^64, |pre| + 8 + 2*sample bytes < 2^64, input file < 2^63 bytes, "
                  "lazily decoded non-empty input mdat; C10SizeProofs imports coq/c01/C01Model.v read-only.",
}


def build(ctx):
    exe, err = common.go_build("c10")
    if exe is None:
        raise common.CheckError("harness does not build against /repo with -tags verif:\n" + err[-2000:])
    tdrv, err = common.go_test_build("cmd/mp4ff-crop", "c10test")
    if tdrv is None:
        raise common.CheckError("verif test driver of cmd/mp4ff-crop does not build:\n" + err[-2000:])
    tool, err = common.go_build_repo_cmd("cmd/mp4ff-crop", "mp4ff-crop")
    if tool is None:
        raise common.CheckError("cmd/mp4ff-crop does not build:\n" + err[-2000:])
    model, err = common.build_model("c10", "C10Extract.v", "c10_driver.ml")
    if model is None:
        raise common.CheckError(err)
    return exe, tdrv, tool, model


def run(ctx):
    ctx.cov["trusted_base"] = common.TRUSTED_BASE_COMMON + [
        "model: coq/c10/C10Model.v is a hand transcription of cropStts/Stss/Ctts/Stsc/Stsz/Sdtp, updateStco/Co64, findEndTime, "
        "findTrakEnds, fillTrakOutsAndByteRanges, updateChunkOffsets, writeUptoMdat (durations), writeMdat, cropToTime of "
        "cmd/mp4ff-crop/main.go over the C09 table model (coq/c09/C09Model.v) and C08's CopyData model (coq/c08/C08Model.v)",
        "model: coq/c10/C10FileModel.v: reference-track choice, Size() of the eight table boxes, sizeWithoutMdat, cropMP4 "
        "(crop_mp4_file, crop_mp4_output); `rest` = the bytes of the non-mdat boxes other than the table boxes is an input of the model: "
        "in the virt correspondence it is the real old size minus the real Size() of the input's table boxes, and the model's "
        "sizeWithoutMdat must equal the start of the mdat the real cropMP4 writes",
        "model: coq/c10/C10TreeModel.v: run()+cropMP4 on C01's box tree (coq/c01/C01Model.v, C01FileModel.v: hand models of DecodeBoxSR/"
        "DecodeFileSR/Encode, tied to the code by C01's own check): which child boxes feed the crop (the one box of each kind), how the "
        "rebuilt boxes are written back; None = outside the modelled structure",
        "spec: coq/c09/C09Spec.v expansion + consistent; the prefix statements of coq/c10/C10Theorems.v; C01's decode_file as the "
        "meaning of 'decodable' in coq/c10/C10FileTheorems.v",
        "test driver: /repo/cmd/mp4ff-crop/c10_verif_test.go (add-only, //go:build verif) builds the boxes and calls the routines",
        "search oracle: harness/c09/tbl Expand (independent expansion) on the routines' results and on decoded output files; "
        "closed formulas for the shifted offsets, the durations and the mdat bytes; whole tool: the decoded output must re-encode to "
        "the output bytes, end with its one mdat, keep the non-mdat top-level boxes of the input in order, and be byte-identical "
        "outside the sample tables once mvhd/tkhd Duration and elst SegmentDuration are blanked (harness checkUntouched)",
    ]
    ctx.assumptions += [
        "input tables satisfy C09Spec.consistent; 1 <= k <= N",
        "whole tool: files synthesized by the harness (1-3 tracks, video/audio, with/without ctts/stss/sdtp/edts, stco/co64, "
        "interleaved chunks with optional gaps, one file in three with a WILD chunk layout (one random global order: offsets not "
        "increasing inside a track, chunks sharing bytes or starting at the same offset, zero-size chunks, merged neighbours), "
        "mdat before or after moov, 8-byte or 16-byte (largesize) mdat header, optional "
        "free/skip/unknown box between moov and mdat, 1 in 12 with an mvhd duration below the track durations)",
        "end-to-end theorem: static_ok (consistent tables, non-zero track ids, chunk offsets in [1,2^62), chunks inside the file), "
        "2^62 + 2*(sample bytes) < 2^64, S + h + sample bytes < 2^64",
        "one synthesized file in 16 (2-3 tracks) repeats a track id, one audio track in 8 has handler subt (never the reference track)",
        "the property is conditional on the tool succeeding; refusals (error exit) are counted, crashes are failures",
    ]
    exe, tdrv, tool, model = build(ctx)
    pr = ctx.proofs("c10", "C10Theorems.v")
    # the theorems about the output FILE (C01's box-tree model): own file, own proofs call (a C01 rebuild re-checks only this)
    pr2 = ctx.proofs("c10", "C10FileTheorems.v")
    tmp = os.path.join(common.BUILD, "c10tmp", "run_%s_%d" % (ctx.tier, ctx.seed))
    shutil.rmtree(tmp, ignore_errors=True)
    os.makedirs(tmp, exist_ok=True)
    cases = os.path.join(tmp, "cases.txt")
    res = os.path.join(tmp, "res.txt")
    try:
        # table level: generate cases, run the real routines, compare with the model
        n = ctx.n(300, 12000)
        rc, o, e = sh2([exe, "gen", "-seed", str(ctx.seed), "-n", str(n), "-o", cases], timeout=3000)
        if rc != 0:
            raise common.CheckError("harness gen failed: " + e[-1000:])
        env = dict(common.GOENV)
        env.update({"C10_CASES": cases, "C10_OUT": res})
        rc, o, e = sh2([tdrv, "-test.run", "TestVerifDriver", "-test.timeout", "50m"], env=env, timeout=3200)
        if rc != 0 or not os.path.exists(res):
            raise common.CheckError("verif test driver failed rc=%s: %s" % (rc, (o + e)[-1500:]))
        rc, joined, e = sh2([exe, "join", "-cases", cases, "-res", res], timeout=3000)
        if rc != 0:
            raise common.CheckError("harness join failed: " + e[-1000:])
        lines = joined.splitlines()
        out = common.run_model(model, joined, timeout=3000)
        mism = [l for l in out if not l.startswith("OK ")]
        kinds = {}
        for l in lines:
            k = l.split("\t", 4)[2]
            kinds[k] = kinds.get(k, 0) + 1
        distinct = len(set(l.split("\t", 2)[2] for l in lines))
        ctx.cov["evaluations"] += len(lines)
        ctx.cov["distinct_nontrivial"] += distinct
        ctx.notes["correspondence"] = {
            "cases": len(lines), "kinds": kinds, "mismatches": len(mism), "distinct_cases": distinct, "tables": n,
            "distribution": "stsc 1-4 entries x 1-3 chunks x 1-4 samples/chunk, 35% varying description ids, ctts 60%, stss 70%, sdtp 40%, "
                            "uniform stsz 25%, stco/co64; crop for EVERY k in 0..N+1; findTrakEnds on 6 random + 12 sample-start times "
                            "with equal/different timescales; findEndTime on 8 durations from 1 ms to beyond the end; "
                            "fillTrakOutsAndByteRanges on 1-3 interleaved tracks x 4 random k vectors; updateChunkOffsets on those tracks "
                            "(sizeWithoutMdat 24-6000, 8/16-byte input header, offsets pushed to the 2^32 border, malformed: firstOffset above "
                            "the offsets, sizes near 2^63/2^64); writeUptoMdat durations (1-3 tracks, 0-2 elst boxes, 1/12 refused, 1/10 short "
                            "mvhd, malformed: timescale 0, wrapping product); writeMdat (0-4 ranges, lazy 3/4, malformed: outside payload/file, "
                            "inverted, empty lazy payload); cropMP4 on virtual files (3 durations per table set, mdat first/last, 8/16-byte "
                            "header, free/skip/unknown box, handler v/s/o per track incl. no video / no video or audio, input mdat decoded "
                            "lazily 2/3 or into memory 1/3, 1/10 of the multi-track cases with a repeated track id, sizeWithoutMdat and payload "
                            "checksum compared) + the 4 GiB stco witness; one "
                            "table set in three (fill, shift, virt) with the wild chunk layout",
        }
        ctx.cov["samples"] += [l[:300] for l in lines[:2]] + [l[:300] for l in lines[-2:]]
        ctx.log("correspondence: %d cases %s, %d mismatches" % (len(lines), kinds, len(mism)))
        # search on the same results: the prefix property with the harness's own expansion
        rc, so, e = sh2([exe, "search", "-cases", cases, "-res", res], timeout=3000)
        if rc != 0:
            raise common.CheckError("harness search failed: " + e[-1000:])
        # whole tool
        nf = ctx.n(60, 3000)
        tcases = os.path.join(tmp, "tool_cases.txt")
        rc, so2, e = sh2([exe, "files", "-seed", str(ctx.seed), "-n", str(nf), "-bin", tool, "-tmp", os.path.join(tmp, "files"),
                          "-o", tcases, "-casefiles", str(ctx.n(60, 600))], timeout=3200)
        if rc != 0:
            raise common.CheckError("harness files failed: " + (so2 + e)[-1000:])
        # whole-tool correspondence: the extracted model (C10TreeModel.crop_tool: C01's decoder on the input bytes -> tables read
        # out of the tree -> crop -> the output tree encoded by C01's encoder ++ mdat) must reproduce the tool's outcome class
        # and, on success, the output FILE byte for byte
        tlines = open(tcases).read().splitlines()
        tout = common.run_model(model, "\n".join(tlines) + "\n", timeout=3000)
        tmism = [l for l in tout if not l.startswith("OK ")]
        tclasses = {}
        for l in tlines:
            k = l.split("\t")[5]
            tclasses[k] = tclasses.get(k, 0) + 1
        tdistinct = len(set(l.split("\t", 3)[3] for l in tlines))
        hyps = {}
        for l in tout:
            if " hyps=" in l:
                k = l.split(" hyps=")[1]
                hyps[k] = hyps.get(k, 0) + 1
        ctx.cov["evaluations"] += len(tlines)
        ctx.cov["distinct_nontrivial"] += tdistinct
        ctx.notes["tool_correspondence"] = {
            "cases": len(tlines), "tool_outcomes": tclasses, "mismatches": len(tmism), "distinct_cases": tdistinct,
            "hypotheses_of_C10_output_decodes_on_the_successful_cases": hyps,
            "compared": "outcome class ok|err|panic; on ok every byte of the output file; the model's encoded length of the non-mdat "
                        "boxes against the sizeWithoutMdat that shifted the chunk offsets",
            "distribution": "every run of the whole-tool search on the first %d files (synthesized files x ~11 durations) + a malformed stream: a copy of every " % ctx.n(60, 600) +
                            "second file with one byte changed inside the values of stts/ctts/stsc/stsz/stco/co64/stss/sdtp/elst (behind "
                            "the count) or tkhd/mvhd/mdhd (behind version/flags), 3 durations each",
        }
        ctx.cov["samples"] += [l[:300] for l in tlines[:1]]
        ctx.log("tool correspondence: %d cases %s, %d mismatches; hypotheses of C10_output_decodes on the successful cases: %s"
                % (len(tlines), tclasses, len(tmism), hyps))
        mism_tool = tmism
        fails, evals = [], 0
        for l in (so + so2).splitlines():
            f = l.split("\t")
            if f[0] == "FAIL" and len(f) >= 5:
                fails.append(f)
            elif f[0] == "EVALS":
                evals += int(f[1])
            elif f[0] == "STATS":
                ctx.notes["whole_tool"] = {"files": nf, "stats": " ".join(f[1:])[:600]}
        ctx.cov["evaluations"] += evals
        ctx.notes["search_evaluations"] = evals
        ctx.notes["hygiene_oracles"] = (
            "hidden state between calls: the test driver (/repo/cmd/mp4ff-crop/c10_verif_test.go) runs findEndTime / findTrakEnds "
            "twice on the same boxes (a second answer that differs = failing input second-call-differs) and every second "
            "endtime / ends / fill / virt case on boxes whose lookup helpers (stts GetDecodeTime/GetDur/GetSampleNrAtTime, stsc "
            "ChunkNrFromSampleNr/GetChunk/GetContainingChunks, stco/co64 GetOffset, ctts, stss, stsz) were first asked about the "
            "first, middle and LAST sample, so that a lookup cursor / cache stands at the end of the tables; model and oracles "
            "expect the fresh-box answers. Aliasing / cap classes: the tool's samples are library-internal (not applicable).")
        for f in fails:
            ctx.failing_input(f[1], f[2], f[3][:6000], f[4])
        ctx.log("search: %d evaluations (table level + %d files through the binary), %d failing inputs (known ones included); %s"
                % (evals, nf, len(fails), ctx.notes.get("whole_tool", {}).get("stats", "")[:200]))
        if mism and not ctx.violations:
            by_id = {}
            for l in lines:
                p = l.split("\t")
                by_id[p[1]] = l
            first = mism[0].split(" ")
            ctx.violation({"kind": "correspondence-mismatch", "correspondence": "C10Model vs cmd/mp4ff-crop routines (c10_verif_test.go)",
                           "mismatches": len(mism), "first_case": by_id.get(first[1], "")[:3000], "model_says": mism[0][:2000]},
                          "model/implementation disagree on %d cases, first: %s" % (len(mism), mism[0][:160]), no_input=True)
        if mism_tool and not ctx.violations:
            tby = {}
            for l in tlines:
                pz = l.split("\t")
                tby[pz[1]] = l
            first = mism_tool[0].split(" ")
            ctx.violation({"kind": "correspondence-mismatch",
                           "correspondence": "C10TreeModel.crop_tool (extracted) vs the built mp4ff-crop binary: output file bytes",
                           "mismatches": len(mism_tool), "first_case": tby.get(first[1], "")[:6000], "model_says": mism_tool[0][:2000]},
                          "model/implementation disagree on %d whole-tool cases, first: %s" % (len(mism_tool), mism_tool[0][:200]),
                          no_input=True)
        ctx.proof_violation_if_broken(pr, "c10 search: %d evaluations, no failing input" % evals)
        ctx.proof_violation_if_broken(pr2, "c10 search: %d evaluations, no failing input" % evals)
        ctx.cov["rule"] = ("corr: %d generated consistent tables, crop for every k in 0..N+1 (all six routines), findTrakEnds/findEndTime/"
                           "fillTrakOutsAndByteRanges/updateChunkOffsets/writeUptoMdat/writeMdat/cropMP4-on-virtual-file grids; distinct = "
                           "distinct (op,arg,tables); search: prefix property, offsets-inside-mdat, durations, mdat bytes on every result "
                           "with the harness's own expansion + %d synthesized files x ~11 durations through the built binary (per-track prefix oracle + "
                           "output-is-a-fixed-point / structure-intact oracle) + tool correspondence on the output bytes" % (n, nf))
    finally:
        shutil.rmtree(tmp, ignore_errors=True)


def replay(ctx, path):
    import json
    r = json.load(open(path))
    print(json.dumps(r, indent=1))
    return 0
