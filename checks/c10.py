"""C10 — cropping a progressive file yields exactly a prefix of every track."""
import os
import shutil
import common
from common import sh2

LEVEL = "proof"
MANIFEST = {
    "technique": "Coq proof over a hand-written Gallina model of cmd/mp4ff-crop (table-cropping routines, fillTrakOutsAndByteRanges, "
                 "updateChunkOffsets, the duration arithmetic of writeUptoMdat, writeMdat over C08's CopyData model) on the C09 table model "
                 "+ differential correspondence (extracted OCaml vs the real unexported routines and cropMP4 on virtual input files, reached "
                 "through a verif-tagged test driver) + whole-tool runs of the built mp4ff-crop binary on synthesized progressive files",
    "level_text": "Theorems (coq/c10/C10Theorems.v), all for ALL inputs: (1) for consistent tables and every k in 1..N the tables produced by "
                  "cropStts/cropCtts/cropStsz/cropSdtp/cropStss/cropStsc expand to the k-prefix of the input's expansion and are consistent "
                  "again; k as computed by findTrakEnds is the number of samples starting before the track end time; findEndTime is "
                  "characterised with and without stss. (2) fillTrakOutsAndByteRanges TERMINATES within 1 + (kept chunks) iterations and never "
                  "fails (C10_fill_terminates), so the layout theorem is unconditional (C10_layout_total); its byte ranges lie in the input file "
                  "(C10_layout_ranges). (3) C10_samples_end_to_end: any number of tracks, stco or co64, arbitrary interleaving, output file = "
                  "S arbitrary bytes (the re-encoded non-mdat boxes) ++ mdat header of h bytes ++ concatenated ranges: whenever cropStblChildren "
                  "and updateChunkOffsets (shift by S + h - firstOffset; the repaired text refuses an stco offset >= 2^32) succeed on a track, "
                  "every new chunk offset o satisfies S+h <= o and o + kept chunk bytes <= end of the new mdat, and every kept sample located "
                  "through the OUTPUT's tables (C09Spec S_offset_of/S_size) has the input's size and the input's bytes; h must equal the length of "
                  "the header written (8, C10_write_mdat) - C10_offsets_input_header_refuted shows the statement false for h = the input's 16-byte "
                  "header. C10_output_readable: the shifted output tables are consistent and C09's trak_get_ranges (GetRangesForSampleInterval) on "
                  "them returns for every kept sample the one range holding the input's bytes. C10_crop_to_time: the composed statement about "
                  "crop_to_time = findTrakEnds -> fill -> cropStblChildren -> updateChunkOffsets (the function tied to cropMP4 by the virt "
                  "correspondence): k = number of samples starting before the rescaled end time, all per-sample lists of the output are k-prefixes, "
                  "offsets inside the new mdat, bytes preserved. (4) C10_write_mdat: writeMdat on the lazily decoded input mdat writes an 8-byte header + exactly the bytes of the ranges. "
                  "(5) C10_header_durations: whenever writeUptoMdat succeeds every tkhd duration is the new duration <= the original, mdhd is "
                  "untouched, every elst segment duration <= the original, and the new mvhd duration <= the original for a conforming input (mvhd "
                  "duration >= some tkhd duration); without that guard it is false (C10_mvhd_duration_refuted, known finding C10-F9). "
                  "Explored only (correspondence + search): findEndTime's result feeding crop_to_time (crop_mp4, tied to cropMP4 on virtual files "
                  "incl. a 4 GiB one; findEndTime itself is characterised separately), the wiring of writeUptoMdat/writeMdat after it, and the whole binary on synthesized files (8/16-byte input mdat "
                  "header, mdat before/after moov, free/skip/unknown boxes in between, stco/co64): every kept sample is read back through the "
                  "output's tables and compared byte by byte, every chunk checked to lie inside the new mdat.",
    "level_note": "Trusted: Coq kernel, extraction, OCaml/Go glue, hand transcription checked only differentially; the box ENCODING of the "
                  "output (moov/ftyp/free bytes and their total size S = sizeWithoutMdat) is not modelled: the theorems hold for any S bytes, and "
                  "the whole-tool runs decode the real output; hypotheses of the composed theorem: static_ok per track (consistent tables, "
                  "track id != 0, chunk offsets in [1,2^62), chunks inside the file), positive stts deltas, end time inside every track, "
                  "2^62 + 2*sample bytes < 2^64; writeMdat is proved for the lazy mdat mode the tool uses (non-empty payload, file "
                  "< 2^63 bytes, payload < 2^32-8).",
}


def build(ctx):
    exe, err = common.go_build("c10")
    if exe is None:
        raise common.CheckError("harness does not build against /repo with -tags verif:\n" + err[-2000:])
    tdrv, err = common.go_test_build("cmd/mp4ff-crop", "c10test")
    if tdrv is None:
        raise common.CheckError("verif test driver of cmd/mp4ff-crop does not build:\n" + err[-2000:])
    tool, err = common.go_build_repo_cmd("cmd/mp4ff-crop", "mp4ff-crop")
    if tool is None:
        raise common.CheckError("cmd/mp4ff-crop does not build:\n" + err[-2000:])
    model, err = common.build_model("c10", "C10Extract.v", "c10_driver.ml")
    if model is None:
        raise common.CheckError(err)
    return exe, tdrv, tool, model


def run(ctx):
    ctx.cov["trusted_base"] = common.TRUSTED_BASE_COMMON + [
        "model: coq/c10/C10Model.v is a hand transcription of cropStts/Stss/Ctts/Stsc/Stsz/Sdtp, updateStco/Co64, findEndTime, "
        "findTrakEnds, fillTrakOutsAndByteRanges, updateChunkOffsets, writeUptoMdat (durations), writeMdat, cropToTime of "
        "cmd/mp4ff-crop/main.go over the C09 table model (coq/c09/C09Model.v) and C08's CopyData model (coq/c08/C08Model.v)",
        "the size of the re-encoded non-mdat boxes (sizeWithoutMdat) is an input of the model: in the virt correspondence it is read "
        "off the real output",
        "spec: coq/c09/C09Spec.v expansion + consistent; the prefix statements of coq/c10/C10Theorems.v",
        "test driver: /repo/cmd/mp4ff-crop/c10_verif_test.go (add-only, //go:build verif) builds the boxes and calls the routines",
        "search oracle: harness/c09/tbl Expand (independent expansion) on the routines' results and on decoded output files; "
        "closed formulas for the shifted offsets, the durations and the mdat bytes",
    ]
    ctx.assumptions += [
        "input tables satisfy C09Spec.consistent; 1 <= k <= N",
        "whole tool: files synthesized by the harness (1-3 tracks, video/audio, with/without ctts/stss/sdtp/edts, stco/co64, "
        "interleaved chunks with optional gaps, mdat before or after moov, 8-byte or 16-byte (largesize) mdat header, optional "
        "free/skip/unknown box between moov and mdat, 1 in 12 with an mvhd duration below the track durations)",
        "end-to-end theorem: static_ok (consistent tables, non-zero track ids, chunk offsets in [1,2^62), chunks inside the file), "
        "2^62 + 2*(sample bytes) < 2^64, S + h + sample bytes < 2^64",
        "the property is conditional on the tool succeeding; refusals (error exit) are counted, crashes are failures",
    ]
    exe, tdrv, tool, model = build(ctx)
    pr = ctx.proofs("c10", "C10Theorems.v")
    tmp = os.path.join(common.BUILD, "c10tmp", "run_%s_%d" % (ctx.tier, ctx.seed))
    shutil.rmtree(tmp, ignore_errors=True)
    os.makedirs(tmp, exist_ok=True)
    cases = os.path.join(tmp, "cases.txt")
    res = os.path.join(tmp, "res.txt")
    try:
        # table level: generate cases, run the real routines, compare with the model
        n = ctx.n(300, 12000)
        rc, o, e = sh2([exe, "gen", "-seed", str(ctx.seed), "-n", str(n), "-o", cases], timeout=3000)
        if rc != 0:
            raise common.CheckError("harness gen failed: " + e[-1000:])
        env = dict(common.GOENV)
        env.update({"C10_CASES": cases, "C10_OUT": res})
        rc, o, e = sh2([tdrv, "-test.run", "TestVerifDriver", "-test.timeout", "50m"], env=env, timeout=3200)
        if rc != 0 or not os.path.exists(res):
            raise common.CheckError("verif test driver failed rc=%s: %s" % (rc, (o + e)[-1500:]))
        rc, joined, e = sh2([exe, "join", "-cases", cases, "-res", res], timeout=3000)
        if rc != 0:
            raise common.CheckError("harness join failed: " + e[-1000:])
        lines = joined.splitlines()
        out = common.run_model(model, joined, timeout=3000)
        mism = [l for l in out if not l.startswith("OK ")]
        kinds = {}
        for l in lines:
            k = l.split("\t", 4)[2]
            kinds[k] = kinds.get(k, 0) + 1
        distinct = len(set(l.split("\t", 2)[2] for l in lines))
        ctx.cov["evaluations"] += len(lines)
        ctx.cov["distinct_nontrivial"] += distinct
        ctx.notes["correspondence"] = {
            "cases": len(lines), "kinds": kinds, "mismatches": len(mism), "distinct_cases": distinct, "tables": n,
            "distribution": "stsc 1-4 entries x 1-3 chunks x 1-4 samples/chunk, 35% varying description ids, ctts 60%, stss 70%, sdtp 40%, "
                            "uniform stsz 25%, stco/co64; crop for EVERY k in 0..N+1; findTrakEnds on 6 random + 12 sample-start times "
                            "with equal/different timescales; findEndTime on 8 durations from 1 ms to beyond the end; "
                            "fillTrakOutsAndByteRanges on 1-3 interleaved tracks x 4 random k vectors; updateChunkOffsets on those tracks "
                            "(sizeWithoutMdat 24-6000, 8/16-byte input header, offsets pushed to the 2^32 border, malformed: firstOffset above "
                            "the offsets, sizes near 2^63/2^64); writeUptoMdat durations (1-3 tracks, 0-2 elst boxes, 1/12 refused, 1/10 short "
                            "mvhd, malformed: timescale 0, wrapping product); writeMdat (0-4 ranges, lazy 3/4, malformed: outside payload/file, "
                            "inverted, empty lazy payload); cropMP4 on virtual files (3 durations per table set, mdat first/last, 8/16-byte "
                            "header, free/skip/unknown box) + the 4 GiB stco witness",
        }
        ctx.cov["samples"] += [l[:300] for l in lines[:2]] + [l[:300] for l in lines[-2:]]
        ctx.log("correspondence: %d cases %s, %d mismatches" % (len(lines), kinds, len(mism)))
        # search on the same results: the prefix property with the harness's own expansion
        rc, so, e = sh2([exe, "search", "-cases", cases, "-res", res], timeout=3000)
        if rc != 0:
            raise common.CheckError("harness search failed: " + e[-1000:])
        # whole tool
        nf = ctx.n(60, 3000)
        rc, so2, e = sh2([exe, "files", "-seed", str(ctx.seed), "-n", str(nf), "-bin", tool, "-tmp", os.path.join(tmp, "files")],
                         timeout=3200)
        if rc != 0:
            raise common.CheckError("harness files failed: " + (so2 + e)[-1000:])
        fails, evals = [], 0
        for l in (so + so2).splitlines():
            f = l.split("\t")
            if f[0] == "FAIL" and len(f) >= 5:
                fails.append(f)
            elif f[0] == "EVALS":
                evals += int(f[1])
            elif f[0] == "STATS":
                ctx.notes["whole_tool"] = {"files": nf, "stats": " ".join(f[1:])[:600]}
        ctx.cov["evaluations"] += evals
        ctx.notes["search_evaluations"] = evals
        for f in fails:
            ctx.failing_input(f[1], f[2], f[3][:6000], f[4])
        ctx.log("search: %d evaluations (table level + %d files through the binary), %d failing inputs (known ones included); %s"
                % (evals, nf, len(fails), ctx.notes.get("whole_tool", {}).get("stats", "")[:200]))
        if mism and not ctx.violations:
            by_id = {}
            for l in lines:
                p = l.split("\t")
                by_id[p[1]] = l
            first = mism[0].split(" ")
            ctx.violation({"kind": "correspondence-mismatch", "correspondence": "C10Model vs cmd/mp4ff-crop routines (c10_verif_test.go)",
                           "mismatches": len(mism), "first_case": by_id.get(first[1], "")[:3000], "model_says": mism[0][:2000]},
                          "model/implementation disagree on %d cases, first: %s" % (len(mism), mism[0][:160]), no_input=True)
        ctx.proof_violation_if_broken(pr, "c10 search: %d evaluations, no failing input" % evals)
        ctx.cov["rule"] = ("corr: %d generated consistent tables, crop for every k in 0..N+1 (all six routines), findTrakEnds/findEndTime/"
                           "fillTrakOutsAndByteRanges/updateChunkOffsets/writeUptoMdat/writeMdat/cropMP4-on-virtual-file grids; distinct = "
                           "distinct (op,arg,tables); search: prefix property, offsets-inside-mdat, durations, mdat bytes on every result "
                           "with the harness's own expansion + %d synthesized files x ~11 durations through the built binary" % (n, nf))
    finally:
        shutil.rmtree(tmp, ignore_errors=True)


def replay(ctx, path):
    import json
    r = json.load(open(path))
    print(json.dumps(r, indent=1))
    return 0
