"""C15 — parameter sets and slice headers parse to the values that were coded."""
import os
import common
from common import sh2

LEVEL = "proof"
# further theorem files (HEVC); each is rebuilt, re-checked and axiom-audited like C15Theorems.v
EXTRA_THEOREM_FILES = ["C15HevcTheorems.v", "C15HevcSliceTheorems.v", "C15HevcConfTheorems.v", "C15InitTheorems.v",
                       "C15TieTheorems.v", "C15Hevc2Theorems.v", "C15Avc2Theorems.v", "C15HypTheorems.v"]
MANIFEST = {
    "technique": "Coq proof (parser model applied to an independent serialiser of the standard's syntax; relational program "
                 "logic tying the instance over the C13 machine model of bits.EBSPReader to the ideal bit-list reader) + "
                 "differential correspondence: the extracted serialiser generates NAL units / configuration records from random "
                 "field values, the real Go parsers and the extracted parser models parse them; failing-input search = the real "
                 "parsers against the coded values",
    "level_text": "Proved for ALL valid field assignments (no bound on counts or values inside the standard's ranges; theorem files "
                  "coq/c15/C15Theorems.v, C15Avc2Theorems.v, C15HevcTheorems.v, C15HevcSliceTheorems.v, C15Hevc2Theorems.v, "
                  "C15HevcConfTheorems.v, C15InitTheorems.v, C15TieTheorems.v, all closed under the global context). "
                  "AVC - C15_avc_sps / _all_valid (every profile_idc branch, scaling lists, poc types 0-2, frame/field, cropping, "
                  "VUI+HRD), C15_avc_dims (cropping formula), C15_avc_pps (all slice-group map types, more_rbsp_data tail, scaling "
                  "lists), C15_avc_slice_all (repaired text, /repo 174cc8e: every slice type, arbitrary spsmap/ppsmap incl. pps id != "
                  "sps id: PPS through the slice's pps id, SPS through that PPS's sps id, Size = bytes the header occupies, "
                  "slice-group map types 3..5 with slice_group_change_cycle of Ceil(Log2(PicSizeInMapUnits / SliceGroupChangeRate + 1)) "
                  "bits INCLUDED - no guard left; C15_avc_pic_size_derivable: PicSizeInMapUnits is recomputed exactly from the "
                  "fields avc.SPS keeps), C15_avc_confrec / _decode / _encode / _roundtrip, C15_avc_codec_string; the one "
                  "remaining known finding is pinned by C15_avc_sps_offsets_refuted (F2: se(v) offsets read as ue into uint fields, "
                  "public field types). (C15_avc_slice / C15_avc_slice_fmo_refuted speak about C15Model.parse_slice_header, the text "
                  "BEFORE the F7 repair, kept unchanged for the properties that import it.) "
                  "HEVC - C15_hevc_sps (profile_tier_level with sub-layers, conformance window, scaling list data, st_ref_pic_set "
                  "incl. inter-RPS chains of any depth, long-term refs, VUI+HRD, range/multilayer/3D/SCC extensions, extension data), "
                  "C15_hevc_dims, C15_hevc_pps (tiles, deblocking, scaling-list skip, range and SCC extensions), C15_hevc_pps_ext "
                  "(the same PPS WITH pps_multilayer_extension: reference location offsets, colour_mapping_table with the octant "
                  "tree of any shape up to depth 3 by induction over the tree - and pps_3d_extension: depth lookup tables with "
                  "value flags or delta_dlt()), C15_hevc_slice (all slice types, first/non-first/dependent segments, RPS coded or "
                  "selected incl. inter-predicted, long-term, NumPicTotalCurr, lists modification, pred weight table, entry points, "
                  "extension, byte_alignment; arbitrary maps; Size), C15_hevc_confrec_create / _encode / _roundtrip, "
                  "C15_hevc_codec_string; C15_avc_init / C15_hevc_init (sample descriptions); C15_*_slice_maps_only (history "
                  "independence). "
                  "READER TIE (C15TieTheorems.v, C15Avc2Theorems.v, C15Hevc2Theorems.v): C15_reader_tie_avc_sps / _avc_pps / "
                  "_avc_slice(_all) / _hevc_pps(_ext) / _hevc_slice: for EVERY byte string raw (well formed or not) whose bits hold no "
                  "run of more than 56 zero bits, escaped by the emulation-prevention rule, the parser over the C13 machine model "
                  "of bits.EBSPReader (64-bit accumulator over the escaped bytes, sticky error, NrBytesRead = position in the escaped "
                  "stream, MoreRbspData, ReadRbspTrailingBits, SetError) returns exactly what the parser over the ideal bit reader "
                  "returns (value, Err or OutOfFuel; slice parsers: for maps whose parameter sets have log2_max_* within the "
                  "accumulator); C15_reader_tie_hevc_sps: the Ok direction under bit depths <= 48 and log2_max_poc_lsb <= 52 (the Go "
                  "SPS parser reads palette initialisers / lt_ref_pic_poc_lsb_sps with widths taken from the stream without a range "
                  "check). Hence C15_avc_sps_er / _pps_er / _slice_er / _slice_all_er, C15_hevc_sps_er / _pps_er / _pps_ext_er / "
                  "_slice_er: the main theorems for the EBSP-reader instance on the serialiser's bytes AFTER emulation prevention "
                  "(extra hypothesis zrun_ok: no run of more than 56 zero bits in the unescaped NAL unit). "
                  "ROUND 4 (C15HypTheorems.v): C15_avc_sps_parsed_narrow - decoder invariant for EVERY input and both reader "
                  "instances: an SPS avc.ParseSPSNALUnit returns has log2_max_frame_num_minus4 and log2_max_pic_order_cnt_lsb_minus4 "
                  "<= 12; hence C15_reader_tie_avc_slice_all_parsed / C15_avc_slice_all_er_parsed: the AVC slice tie and slice theorem "
                  "with the hypothesis on the parameter sets (sps_narrow) DISCHARGED for every spsMap whose entries were returned by "
                  "the parser (on whatever bytes). C15_tie_hypothesis_predicate / C15_tie_applies: the ties' hypotheses as one "
                  "executable predicate hyp_tie_raw on the NAL unit the parser is given (sound and exact), all seven ties restated on "
                  "it; the extracted predicate is EVALUATED on every SPS/PPS/slice case of every run and the conclusion er = br "
                  "compared wherever it holds, mutated and near-valid cases included (evidence: "
                  "coverage.theorem_hypotheses_evaluated; about 98% of the cases). Still hypotheses: zrun_ok itself, hsps_narrow "
                  "(hevc.ParseSPSNALUnit keeps log2_max_poc_lsb_minus4 as an unchecked byte), pps_narrow only for the pre-repair text. "
                  "EXPLORED only (correspondence + search on generated and captured inputs, no theorem): mutated / truncated NAL "
                  "units and records beyond the reader tie (model = code on outcome class and values), valid NAL units with a run of "
                  "more than 56 zero bits for the EBSP instance, colour mapping tables with res_coeff_r wider than 56 bits and depth "
                  "lookup tables with more than 2^16 value flags (model answers OutOfFuel: not compared).",
    "level_note": "Trusted: Coq kernel, extraction, OCaml/Go glue; the hand-written serialisers and expected values of C15Spec.v, "
                  "C15AvcConfSpec.v, C15HevcSpec.v, C15Hevc2Spec.v, C15HevcConfSpec.v (my transcription of the syntax tables of ISO/IEC "
                  "14496-10 7.3.2-7.3.3, 23008-2 7.3 / E.2 / F.7.3.2.3.4-6 / I.7.3.2.3.7-8 and 14496-15; cross-checked on every run "
                  "against the real parsers and, except for the multilayer / 3D PPS extensions, on captured parameter sets of the "
                  "repository's test data); the hand transcriptions C15Model.v, C15Avc2Model.v (repaired slice header), "
                  "C15AvcConfModel.v, C15HevcModel.v, C15Hevc2Model.v, C15HevcConfModel.v (+ the C16 model of DecodeHEVCDecConfRec) "
                  "of the Go code, tied to /repo by the correspondence on generated inputs only; the C13 model of bits.EBSPReader "
                  "(tied to /repo by C13's own correspondence). The Go map of colour mapping octants is compared by sorted key, the "
                  "map of reference location offsets through RefLocOffsetLayerIds (validity: distinct ids are generated). Unexported "
                  "state (ShortTermRPS.numUsedByCurrPic) is observed only through its effect on the slice header. C15HypModel.v holds copies of the ties' hypothesis predicates for extraction (proved equal to the "
                  "originals: C15_tie_hypothesis_predicate). Nine defects found "
                  "by this check were repaired in /repo (known_findings/C15.json: F1, F3-F12); F2 stays known.",
}


def build(ctx):
    exe, err = common.go_build("c15")
    if exe is None:
        raise common.CheckError("harness does not build against /repo with -tags verif:\n" + err[-2000:])
    model, err = common.build_model("c15", "C15Extract.v", "c15_driver.ml")
    if model is None:
        raise common.CheckError(err)
    return exe, model


def proofs_all(ctx, files):
    """ctx.proofs for every theorem file.  Quick tier: the re-checks (coqc of each Theorems file + Print
    Assumptions audit; the .vo builds stay serialised by common's lock) run in 4 threads, then ctx.proofs does its
    bookkeeping per file in order with the results already computed.  Thorough tier: strictly sequential
    (ctx.proofs also runs coqchk, never two at once)."""
    if ctx.tier != "quick":
        return [ctx.proofs("c15", f) for f in files]
    from concurrent.futures import ThreadPoolExecutor
    orig = common.coq_check_theorems
    with ThreadPoolExecutor(max_workers=4) as ex:
        res = dict(zip(files, ex.map(lambda f: orig("c15", f), files)))
    common.coq_check_theorems = lambda d, f, **kw: res[f] if (d == "c15" and f in res) else orig(d, f, **kw)
    try:
        return [ctx.proofs("c15", f) for f in files]
    finally:
        common.coq_check_theorems = orig


def run_model_parallel(model, lines, k=4):
    """The extracted model driver checks each observation line independently: the lines are dealt to k
    driver processes (line i to process i mod k) and the verdict lines are put back in input order."""
    from concurrent.futures import ThreadPoolExecutor
    chunks = [lines[i::k] for i in range(k)]
    with ThreadPoolExecutor(max_workers=k) as ex:
        outs = list(ex.map(lambda c: common.run_model(model, "\n".join(c) + "\n") if c else [], chunks))
    res = []
    for i in range(len(lines)):
        o = outs[i % k]
        j = i // k
        if j < len(o):
            res.append(o[j])
    extra = sum(len(o) for o in outs) - len(res)
    if extra or len(res) != len(lines):
        raise common.CheckError("model driver returned %d verdicts for %d observation lines" % (len(res) + extra, len(lines)))
    return res


def run(ctx):
    ctx.cov["trusted_base"] = common.TRUSTED_BASE_COMMON + [
        "spec: coq/c15/C15Spec.v — serialisers written by hand from the syntax tables of ISO/IEC 14496-10 / 23008-2, "
        "the descriptors u/ue/se, the cropping formula, Table E-1 and the expected values (cross-checked on every run "
        "against the real parser and on the captured parameter sets in the repository's test data)",
        "model: coq/c15/C15Model.v — hand transcription of avc/sps.go, avc/pps.go, avc/slice.go, "
        "avc/avcdecoderconfigurationrecord.go, avc/mime.go over a reader interface; instance ER = the C13 model of "
        "bits.EBSPReader, instance BR = ideal bit-list reader used in the proofs",
        "generator of field values: ocaml/c15_driver.ml (splitmix64), screened by the extracted validity predicates",
        "HEVC spec: coq/c15/C15HevcSpec.v, C15HevcConfSpec.v — serialisers written by hand from ISO/IEC 23008-2 7.3.1.2, 7.3.2.2, "
        "7.3.2.3, 7.3.3, 7.3.4, 7.3.6.1, 7.3.7, E.2 (+ the (7-61)/(7-62) derivation of inter-predicted reference picture sets, "
        "NumPicTotalCurr (7-55), PicSizeInCtbsY, the conformance-window cropping) and the HEVCDecoderConfigurationRecord / codecs "
        "parameter of ISO/IEC 14496-15 8.3.3.1.2 / E.3",
        "HEVC model: coq/c15/C15HevcModel.v, C15HevcConfModel.v — hand transcription of hevc/sps.go, hevc/pps.go, hevc/slice.go, "
        "hevc/hevcdecoderconfigurationrecord.go (Create/Size/Encode; the decoder is the C16 model C16ConfRecModel.v), hevc/mime.go; "
        "coq/c15/C15Hevc2Model.v — ParsePPSNALUnit with parseMultilayerExtension / parseColourMappingTable / "
        "parseColourMappingOctants / parse3dExtension / parseDeltaDlt (kind HPPS2); coq/c15/C15Avc2Model.v — the repaired "
        "avc.ParseSliceHeader (slice_group_change_cycle width from SPS.picSizeInMapUnits)",
        "HEVC PPS extension spec: coq/c15/C15Hevc2Spec.v — serialisers written by hand from ISO/IEC 23008-2 F.7.3.2.3.4 "
        "(pps_multilayer_extension), F.7.3.2.3.5 (colour_mapping_table), F.7.3.2.3.6 (colour_mapping_octants), I.7.3.2.3.7 "
        "(pps_3d_extension), I.7.3.2.3.8 (delta_dlt), CMResLSBits, the octant index derivation",
    ]
    ctx.assumptions += [
        "ue(v) values are below 2^32-1 and se(v) values within int32 (the standard's ranges); beyond that the Go reader wraps at 64 bits",
        "the reader is a bytes.Reader / bytes.Buffer over the whole NAL unit (EOF is the only error)",
        "reader-tie theorems: the unescaped NAL unit holds no run of more than 56 zero bits (longer Exp-Golomb prefixes make Go's "
        "64-bit reader wrap); NAL units are escaped canonically (escape of C13Spec)",
        "AVC slices with slice groups: PicSizeInMapUnits < 2^32 (bits.CeilLog2 answers at most 32)",
        "HEVC: single-layer streams (nuh_layer_id is coded but no inter-layer syntax), pred_weight_table entries are all coded "
        "(the pic_layer_id / PicOrderCnt condition of 7.3.6.3 is true, as in the Go parser); an st_ref_pic_set never predicts an "
        "entry with dPoc = 0 (the current picture)",
    ]
    exe, model = build(ctx)
    files = ["C15Theorems.v"] + [f for f in EXTRA_THEOREM_FILES if os.path.exists(os.path.join(common.COQ, "c15", f))]
    prs = proofs_all(ctx, files)
    pr = prs[0]
    d = os.path.join(common.BUILD, "c15")
    os.makedirs(d, exist_ok=True)
    # generation by the model side
    n = ctx.n(2200, 40000)
    rc, gen, e = sh2("ulimit -s unlimited 2>/dev/null; exec '%s'" % model,
                     stdin=("GEN\t%d\t%d\n" % (ctx.seed, n)).encode(), timeout=3000)
    if rc != 0:
        raise common.CheckError("model generator failed: " + e[-1000:])
    cases_path = os.path.join(d, "cases_%s_%d.txt" % (ctx.tier, ctx.seed))
    gl = gen.splitlines()
    info = [l for l in gl if l.startswith("GENINFO")]
    gl = [l for l in gl if not l.startswith("GENINFO")]
    with open(cases_path, "w") as f:
        f.write("\n".join(gl) + "\n")
    kinds = {}
    for l in gl:
        p = l.split("\t")
        k = p[0] + ("" if p[5] != "-" else ("-history-must-be-rejected" if p[1].endswith("n") else "-near-valid" if p[1].endswith("v") else "-mutated")) \
            + ("" if p[4] == "1" or p[5] == "-" else "-outside-guards")
        kinds[k] = kinds.get(k, 0) + 1
    ctx.notes["generated"] = {"cases": len(gl), "by_kind": kinds, "info": info}
    ctx.log("generated %d cases %s" % (len(gl), kinds))
    # correspondence
    rc, obs, e = sh2([exe, "corr", "-cases", cases_path, "-repo", common.REPO], timeout=3000)
    if rc != 0:
        raise common.CheckError("harness corr failed: " + e[-1000:])
    lines = obs.splitlines()
    res = run_model_parallel(model, lines)
    mism = [l for l in res if not l.startswith("OK ")]
    # round 4: the reader ties' hypotheses (extracted C15HypModel.hyp_tie_raw / hyp_*_narrow / hyp_hsps_depths_ok)
    # evaluated by the driver on the NAL unit of every case of a kind that has a tie theorem
    tie = {}
    for l, v in zip(lines, res):
        if v.startswith("OK ") and " tie=" in v:
            p = l.split("\t")
            k = p[0] + ("" if len(p) > 5 and p[5] != "-" else "-mutated")
            t = tie.setdefault(k, {"hold": 0, "do_not_hold": 0, "model_out_of_fuel": 0})
            t[{"1": "hold", "0": "do_not_hold"}.get(v.rsplit("tie=", 1)[1].strip(), "model_out_of_fuel")] += 1
    ctx.cov["theorem_hypotheses_evaluated"] = {
        "theorems": "C15_tie_applies (= C15_reader_tie_* on the bytes the Go parser was given; coq/c15/C15HypTheorems.v)",
        "hold = hyp_tie_raw nalu (bytes < 256, no run of more than 56 zero bits after removal of the emulation-prevention "
        "bytes, canonical escaping) && narrow parameter sets in the maps of the case (HSPS: && br = Ok s with depths within "
        "the accumulator); on every such case the conclusion er = br was compared as well": tie,
        "cases_hold": sum(t["hold"] for t in tie.values()),
        "cases_do_not_hold": sum(t["do_not_hold"] for t in tie.values())}
    ctx.log("tie hypotheses: hold on %d cases, do not hold on %d (explored by correspondence only)" % (
        ctx.cov["theorem_hypotheses_evaluated"]["cases_hold"], ctx.cov["theorem_hypotheses_evaluated"]["cases_do_not_hold"]))
    distinct = len(set(l.split("\t")[3] for l in lines if l.count("\t") >= 7))
    captured = sum(1 for l in lines if l.split("\t")[1].startswith("c"))
    ctx.cov["evaluations"] += len(lines)
    ctx.cov["distinct_nontrivial"] += distinct
    ctx.notes["correspondence"] = {"cases": len(lines), "mismatches": len(mism), "distinct_nal_units": distinct,
                                   "captured_parameter_sets": captured,
                                   "outcomes": {k: sum(1 for l in lines if l.split("\t")[6:7] == [k]) for k in ("ok", "err", "panic")}}
    ctx.cov["samples"] += [l[:300] for l in lines[:3]] + [l[:300] for l in lines[-2:]]
    ctx.log("correspondence: %d cases (%d captured), %d mismatches" % (len(lines), captured, len(mism)))
    # search: the property itself on the implementation
    rc, so, e = sh2([exe, "search", "-cases", cases_path], timeout=3000)
    if rc != 0:
        raise common.CheckError("harness search failed: " + e[-1000:])
    fails = []
    for l in so.splitlines():
        f = l.split("\t")
        if f[0] == "FAIL":
            fails.append(f)
        elif f[0] == "EVALS":
            ctx.cov["evaluations"] += int(f[1])
            ctx.notes["search_evaluations"] = int(f[1])
    ctx.notes["hygiene_oracles"] = (
        "search re-runs EVERY case (valid and mutated) in a shuffled order on sub-slices with 24 guard bytes behind them, the "
        "caller overwriting all NAL unit buffers / lists after the call (harness/c15/hygiene.go): classes keeps-callers-buffer, "
        "writes-beyond-len, depends-on-capacity, depends-on-earlier-calls (also: A, malformed A', A through the SAME spsMap/ppsMap, "
        "maps unchanged), result-not-stable, encode-sw-spare-room / encode-size / encode-not-repeatable / encode-mutates-record "
        "(avc/hevc DecConfRec.EncodeSW into Size()+{0,1,9} writers). Not demanded: Decode{AVC,HEVC}DecConfRec return views of "
        "their input by design (C20 audited list).")
    sig = {}
    for f in fails:
        sig[(f[1], f[2])] = sig.get((f[1], f[2]), 0) + 1
        ctx.failing_input(f[1], f[2], f[3], f[4])
    ctx.notes["search_failures_by_signature"] = {"%s/%s" % k: v for k, v in sig.items()}
    ctx.log("search: %d failing inputs %s" % (len(fails), dict(sig)))
    if mism and not [p for p in ctx.violations]:
        by_id = {}
        for l in lines:
            p = l.split("\t")
            if len(p) > 1:
                by_id[p[1]] = l
        first = mism[0].split(" ")
        ctx.violation({"kind": "correspondence-mismatch", "correspondence": "C15Model vs avc/hevc parsers (harness c15 corr)",
                       "mismatches": len(mism), "first_case": by_id.get(first[1] if len(first) > 1 else "", "")[:4000],
                       "model_says": mism[0][:4000]},
                      "model/implementation disagree on %d cases" % len(mism), no_input=True)
    for p_ in prs:
        ctx.proof_violation_if_broken(p_, "c15 search: %d evaluations" % ctx.notes.get("search_evaluations", 0))
    ctx.cov["rule"] = ("model-side generation: %d field-value draws through the extracted independent serialisers (every conditional "
                       "syntax branch drawn at random; ue values at powers of two and at the range ends), one in three also mutated "
                       "(truncation / bit flip / byte substitution, screened by the model for huge decoded counts) + near-valid AVC SPS / PPS (a "
                       "range-guarded element drawn just beyond its guard, or any other draw the validity predicate refuses) + the captured parameter "
                       "sets of the repository's test data; distinct = distinct NAL units; corr compares Go with the EBSP-reader model, the "
                       "bit-reader model and the expected values; search compares Go with the expected values; slice cases are histories of "
                       "API calls (7 shapes incl. SPS/PPS replaced under the same id after the PPS was parsed, fresh maps, deletions; "
                       "2 shapes where the slice must be rejected); HEVC PPS with multilayer / 3D extensions (kind HPPS2: 0..10 reference "
                       "location offsets, colour mapping tables with octant trees of depth 0..3 and PartNumY 1..8, 1..64 depth layers with "
                       "value flags or delta_dlt); the model-side verdicts are computed by 4 driver processes" % n)


def replay(ctx, path):
    import json
    r = json.load(open(path))
    print(json.dumps(r, indent=1))
    w = r.get("witness", "")
    if " nalu=" in w:
        exe, model = build(ctx)
        kind = w.split(" ")[0]
        arg = w.split("arg=")[1].split(" ")[0]
        nalu = w.split("nalu=")[1].split(" ")[0]
        d = os.path.join(common.BUILD, "c15")
        os.makedirs(d, exist_ok=True)
        p = os.path.join(d, "replay_case.txt")
        open(p, "w").write("%s\tr0\t%s\t%s\t0\t-\n" % (kind, arg, nalu))
        rc, obs, e = sh2([exe, "corr", "-cases", p, "-repo", "/nonexistent"])
        print(obs)
        print("\n".join(common.run_model(model, obs)))
    return 0
