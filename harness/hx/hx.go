// Package hx holds the small shared helpers of the verification harness:
// a splitmix64 PRNG (every random choice derives from one seed), hex helpers, panic capture.
package hx

import (
	"encoding/hex"
	"fmt"
	"strconv"
	"strings"
)

// Rng is splitmix64.
type Rng struct{ s uint64 }

// NewRng: the seed goes through the splitmix64 finaliser before it becomes the state, so that different seeds give
// unrelated streams (state = seed*gamma + c made the stream of seed k the stream of seed 0 shifted by k draws).
func NewRng(seed uint64) *Rng {
	z := seed*0x9E3779B97F4A7C15 + 0x1234567
	z = (z ^ (z >> 30)) * 0xBF58476D1CE4E5B9
	z = (z ^ (z >> 27)) * 0x94D049BB133111EB
	return &Rng{s: z ^ (z >> 31)}
}

func (r *Rng) U64() uint64 {
	r.s += 0x9E3779B97F4A7C15
	z := r.s
	z = (z ^ (z >> 30)) * 0xBF58476D1CE4E5B9
	z = (z ^ (z >> 27)) * 0x94D049BB133111EB
	return z ^ (z >> 31)
}

// Intn returns a value in [0,n).
func (r *Rng) Intn(n int) int {
	if n <= 0 {
		return 0
	}
	return int(r.U64() % uint64(n))
}

// Range returns a value in [lo,hi].
func (r *Rng) Range(lo, hi int) int { return lo + r.Intn(hi-lo+1) }

func (r *Rng) Bool() bool { return r.U64()&1 == 1 }

// Pick returns one of the given ints.
func (r *Rng) Pick(xs ...int) int { return xs[r.Intn(len(xs))] }

// Bytes returns n bytes drawn from alphabet (or fully random if alphabet is nil).
func (r *Rng) Bytes(n int, alphabet []byte) []byte {
	b := make([]byte, n)
	for i := range b {
		if alphabet == nil {
			b[i] = byte(r.U64())
		} else {
			b[i] = alphabet[r.Intn(len(alphabet))]
		}
	}
	return b
}

// Hex encodes a byte string; the empty string is "-".
func Hex(b []byte) string {
	if len(b) == 0 {
		return "-"
	}
	return hex.EncodeToString(b)
}

// UnHex is the inverse of Hex.
func UnHex(s string) []byte {
	if s == "-" || s == "" {
		return []byte{}
	}
	b, err := hex.DecodeString(s)
	if err != nil {
		panic("bad hex: " + s)
	}
	return b
}

// HexU formats an unsigned number in hex without prefix.
func HexU(v uint64) string { return strconv.FormatUint(v, 16) }

// HexI formats a signed number in hex with optional leading '-'.
func HexI(v int64) string {
	if v < 0 {
		return "-" + strconv.FormatUint(uint64(-v), 16)
	}
	return strconv.FormatUint(uint64(v), 16)
}

func ParseHexU(s string) uint64 {
	v, err := strconv.ParseUint(s, 16, 64)
	if err != nil {
		panic(err)
	}
	return v
}

func ParseHexI(s string) int64 {
	if strings.HasPrefix(s, "-") {
		return -int64(ParseHexU(s[1:]))
	}
	return int64(ParseHexU(s))
}

// Csv joins ints with commas; empty list is "-".
func Csv(xs []int) string {
	if len(xs) == 0 {
		return "-"
	}
	ss := make([]string, len(xs))
	for i, x := range xs {
		ss[i] = strconv.Itoa(x)
	}
	return strings.Join(ss, ",")
}

// Try runs f and reports a recovered panic as a string ("" when none).
func Try(f func()) (panicked string) {
	defer func() {
		if r := recover(); r != nil {
			panicked = fmt.Sprint(r)
		}
	}()
	f()
	return ""
}

// Exact returns a copy of b with cap == len, so out-of-range reslicing cannot hide in slack capacity.
func Exact(b []byte) []byte {
	c := make([]byte, len(b), len(b))
	copy(c, b)
	return c
}
