// Harness for C15 (parameter sets and slice headers parse to the values that were coded).
//
//	c15 corr   -cases FILE [-repo DIR]  : every case line + the implementation's outcome and flattened result
//	                                       (+ the captured parameter sets found in the repository's test data)
//	c15 search -cases FILE              : evaluates the property itself: the implementation's result on the
//	                                       NAL unit produced by the independent serialiser vs the coded values
//
// Case lines come from the model driver (GEN): KIND id arg naluhex g expected.
package main

import (
	"bufio"
	"bytes"
	"flag"
	"fmt"
	"os"
	"path/filepath"
	"sort"
	"strings"

	"github.com/Eyevinn/mp4ff/avc"
	"verifharness/hx"
)

var out = bufio.NewWriterSize(os.Stdout, 1<<20)

// flat is the flattened observable: names (for diagnostics) and values in the model's order.
type flat struct {
	names []string
	vals  []string
}

func (f *flat) u(name string, v uint64) {
	f.names = append(f.names, name)
	f.vals = append(f.vals, hx.HexU(v))
}
func (f *flat) i(name string, v int64) {
	f.names = append(f.names, name)
	f.vals = append(f.vals, hx.HexI(v))
}
func (f *flat) b(name string, v bool) {
	if v {
		f.u(name, 1)
	} else {
		f.u(name, 0)
	}
}
func (f *flat) String() string {
	if len(f.vals) == 0 {
		return "-"
	}
	return strings.Join(f.vals, ",")
}

func flatScaling(f *flat, name string, ls []avc.ScalingList) {
	f.u(name+".len", uint64(len(ls)))
	for i, l := range ls {
		f.u(fmt.Sprintf("%s[%d].len", name, i), uint64(len(l)))
		for j, x := range l {
			f.i(fmt.Sprintf("%s[%d][%d]", name, i, j), int64(x))
		}
	}
}

func flatHrd(f *flat, name string, h *avc.HrdParameters) {
	if h == nil {
		f.u(name+".present", 0)
		return
	}
	f.u(name+".present", 1)
	f.u(name+".CpbCountMinus1", uint64(h.CpbCountMinus1))
	f.u(name+".BitRateScale", uint64(h.BitRateScale))
	f.u(name+".CpbSizeScale", uint64(h.CpbSizeScale))
	f.u(name+".CpbEntries.len", uint64(len(h.CpbEntries)))
	for i, e := range h.CpbEntries {
		f.u(fmt.Sprintf("%s.Cpb[%d].BitRateValueMinus1", name, i), uint64(e.BitRateValueMinus1))
		f.u(fmt.Sprintf("%s.Cpb[%d].CpbSizeValueMinus1", name, i), uint64(e.CpbSizeValueMinus1))
		f.b(fmt.Sprintf("%s.Cpb[%d].CbrFlag", name, i), e.CbrFlag)
	}
	f.u(name+".InitialCpbRemovalDelayLengthMinus1", uint64(h.InitialCpbRemovalDelayLengthMinus1))
	f.u(name+".CpbRemovalDelayLengthMinus1", uint64(h.CpbRemovalDelayLengthMinus1))
	f.u(name+".DpbOutputDelayLengthMinus1", uint64(h.DpbOutputDelayLengthMinus1))
	f.u(name+".TimeOffsetLength", uint64(h.TimeOffsetLength))
}

func flatSPS(s *avc.SPS) *flat {
	f := &flat{}
	f.u("Profile", uint64(s.Profile))
	f.u("ProfileCompatibility", uint64(s.ProfileCompatibility))
	f.u("Level", uint64(s.Level))
	f.u("ParameterID", uint64(s.ParameterID))
	f.u("ChromaFormatIDC", uint64(s.ChromaFormatIDC))
	f.b("SeparateColourPlaneFlag", s.SeparateColourPlaneFlag)
	f.u("BitDepthLumaMinus8", uint64(s.BitDepthLumaMinus8))
	f.u("BitDepthChromaMinus8", uint64(s.BitDepthChromaMinus8))
	f.b("QPPrimeYZeroTransformBypassFlag", s.QPPrimeYZeroTransformBypassFlag)
	f.b("SeqScalingMatrixPresentFlag", s.SeqScalingMatrixPresentFlag)
	flatScaling(f, "SeqScalingLists", s.SeqScalingLists)
	f.u("Log2MaxFrameNumMinus4", uint64(s.Log2MaxFrameNumMinus4))
	f.u("PicOrderCntType", uint64(s.PicOrderCntType))
	f.u("Log2MaxPicOrderCntLsbMinus4", uint64(s.Log2MaxPicOrderCntLsbMinus4))
	f.b("DeltaPicOrderAlwaysZeroFlag", s.DeltaPicOrderAlwaysZeroFlag)
	f.u("OffsetForNonRefPic", uint64(s.OffsetForNonRefPic))
	f.u("OffsetForTopToBottomField", uint64(s.OffsetForTopToBottomField))
	f.u("RefFramesInPicOrderCntCycle.len", uint64(len(s.RefFramesInPicOrderCntCycle)))
	for i, x := range s.RefFramesInPicOrderCntCycle {
		f.u(fmt.Sprintf("RefFramesInPicOrderCntCycle[%d]", i), uint64(x))
	}
	f.u("NumRefFrames", uint64(s.NumRefFrames))
	f.b("GapsInFrameNumValueAllowedFlag", s.GapsInFrameNumValueAllowedFlag)
	f.b("FrameMbsOnlyFlag", s.FrameMbsOnlyFlag)
	f.b("MbAdaptiveFrameFieldFlag", s.MbAdaptiveFrameFieldFlag)
	f.b("Direct8x8InferenceFlag", s.Direct8x8InferenceFlag)
	f.b("FrameCroppingFlag", s.FrameCroppingFlag)
	f.u("FrameCropLeftOffset", uint64(s.FrameCropLeftOffset))
	f.u("FrameCropRightOffset", uint64(s.FrameCropRightOffset))
	f.u("FrameCropTopOffset", uint64(s.FrameCropTopOffset))
	f.u("FrameCropBottomOffset", uint64(s.FrameCropBottomOffset))
	f.u("Width", uint64(s.Width))
	f.u("Height", uint64(s.Height))
	f.u("NrBytesBeforeVUI", uint64(s.NrBytesBeforeVUI))
	f.u("NrBytesRead", uint64(s.NrBytesRead))
	v := s.VUI
	if v == nil {
		f.u("VUI.present", 0)
		return f
	}
	f.u("VUI.present", 1)
	f.u("VUI.SampleAspectRatioWidth", uint64(v.SampleAspectRatioWidth))
	f.u("VUI.SampleAspectRatioHeight", uint64(v.SampleAspectRatioHeight))
	f.b("VUI.OverscanInfoPresentFlag", v.OverscanInfoPresentFlag)
	f.b("VUI.OverscanAppropriateFlag", v.OverscanAppropriateFlag)
	f.b("VUI.VideoSignalTypePresentFlag", v.VideoSignalTypePresentFlag)
	f.u("VUI.VideoFormat", uint64(v.VideoFormat))
	f.b("VUI.VideoFullRangeFlag", v.VideoFullRangeFlag)
	f.b("VUI.ColourDescriptionFlag", v.ColourDescriptionFlag)
	f.u("VUI.ColourPrimaries", uint64(v.ColourPrimaries))
	f.u("VUI.TransferCharacteristics", uint64(v.TransferCharacteristics))
	f.u("VUI.MatrixCoefficients", uint64(v.MatrixCoefficients))
	f.b("VUI.ChromaLocInfoPresentFlag", v.ChromaLocInfoPresentFlag)
	f.u("VUI.ChromaSampleLocTypeTopField", uint64(v.ChromaSampleLocTypeTopField))
	f.u("VUI.ChromaSampleLocTypeBottomField", uint64(v.ChromaSampleLocTypeBottomField))
	f.b("VUI.TimingInfoPresentFlag", v.TimingInfoPresentFlag)
	f.u("VUI.NumUnitsInTick", uint64(v.NumUnitsInTick))
	f.u("VUI.TimeScale", uint64(v.TimeScale))
	f.b("VUI.FixedFrameRateFlag", v.FixedFrameRateFlag)
	f.b("VUI.NalHrdParametersPresentFlag", v.NalHrdParametersPresentFlag)
	flatHrd(f, "VUI.NalHrd", v.NalHrdParameters)
	f.b("VUI.VclHrdParametersPresentFlag", v.VclHrdParametersPresentFlag)
	flatHrd(f, "VUI.VclHrd", v.VclHrdParameters)
	f.b("VUI.LowDelayHrdFlag", v.LowDelayHrdFlag)
	f.b("VUI.PicStructPresentFlag", v.PicStructPresentFlag)
	f.b("VUI.BitstreamRestrictionFlag", v.BitstreamRestrictionFlag)
	f.b("VUI.MotionVectorsOverPicBoundariesFlag", v.MotionVectorsOverPicBoundariesFlag)
	f.u("VUI.MaxBytesPerPicDenom", uint64(v.MaxBytesPerPicDenom))
	f.u("VUI.MaxBitsPerMbDenom", uint64(v.MaxBitsPerMbDenom))
	f.u("VUI.Log2MaxMvLengthHorizontal", uint64(v.Log2MaxMvLengthHorizontal))
	f.u("VUI.Log2MaxMvLengthVertical", uint64(v.Log2MaxMvLengthVertical))
	f.u("VUI.MaxNumReorderFrames", uint64(v.MaxNumReorderFrames))
	f.u("VUI.MaxDecFrameBuffering", uint64(v.MaxDecFrameBuffering))
	return f
}

// result of running the implementation on one case
type result struct {
	outcome string // ok | err | panic
	f       *flat
	errStr  string
}

func (r result) String() string {
	if r.outcome != "ok" {
		return r.outcome + "\t-"
	}
	return "ok\t" + r.f.String()
}

func runSPS(nalu []byte, beyond bool) (r result) {
	p := hx.Try(func() {
		s, err := avc.ParseSPSNALUnit(in(nalu), beyond)
		if err != nil {
			r = result{outcome: "err", errStr: err.Error()}
			return
		}
		r = okResult(func() *flat { return flatSPS(s) })
	})
	if p != "" {
		r = result{outcome: "panic", errStr: p}
	}
	return r
}

// spsMapOf builds the spsMap argument from "id:chroma,id:chroma" (only ChromaFormatIDC is consulted by the PPS parser).
func spsMapOf(arg string) map[uint32]*avc.SPS {
	m := map[uint32]*avc.SPS{}
	if arg == "-" || arg == "" {
		return m
	}
	for _, p := range strings.Split(arg, ",") {
		var id, chroma uint32
		fmt.Sscanf(p, "%d:%d", &id, &chroma)
		m[id] = &avc.SPS{ParameterID: id, ChromaFormatIDC: byte(chroma)}
	}
	return m
}

func flatUints(f *flat, name string, l []uint) {
	f.u(name+".len", uint64(len(l)))
	for i, x := range l {
		f.u(fmt.Sprintf("%s[%d]", name, i), uint64(x))
	}
}

func flatPPS(p *avc.PPS) *flat {
	f := &flat{}
	f.u("PicParameterSetID", uint64(p.PicParameterSetID))
	f.u("SeqParameterSetID", uint64(p.SeqParameterSetID))
	f.b("EntropyCodingModeFlag", p.EntropyCodingModeFlag)
	f.b("BottomFieldPicOrderInFramePresentFlag", p.BottomFieldPicOrderInFramePresentFlag)
	f.u("NumSliceGroupsMinus1", uint64(p.NumSliceGroupsMinus1))
	f.u("SliceGroupMapType", uint64(p.SliceGroupMapType))
	flatUints(f, "RunLengthMinus1", p.RunLengthMinus1)
	flatUints(f, "TopLeft", p.TopLeft)
	flatUints(f, "BottomRight", p.BottomRight)
	f.b("SliceGroupChangeDirectionFlag", p.SliceGroupChangeDirectionFlag)
	f.u("SliceGroupChangeRateMinus1", uint64(p.SliceGroupChangeRateMinus1))
	f.u("PicSizeInMapUnitsMinus1", uint64(p.PicSizeInMapUnitsMinus1))
	flatUints(f, "SliceGroupID", p.SliceGroupID)
	f.u("NumRefIdxI0DefaultActiveMinus1", uint64(p.NumRefIdxI0DefaultActiveMinus1))
	f.u("NumRefIdxI1DefaultActiveMinus1", uint64(p.NumRefIdxI1DefaultActiveMinus1))
	f.b("WeightedPredFlag", p.WeightedPredFlag)
	f.u("WeightedBipredIDC", uint64(p.WeightedBipredIDC))
	f.i("PicInitQpMinus26", int64(p.PicInitQpMinus26))
	f.i("PicInitQsMinus26", int64(p.PicInitQsMinus26))
	f.i("ChromaQpIndexOffset", int64(p.ChromaQpIndexOffset))
	f.b("DeblockingFilterControlPresentFlag", p.DeblockingFilterControlPresentFlag)
	f.b("ConstrainedIntraPredFlag", p.ConstrainedIntraPredFlag)
	f.b("RedundantPicCntPresentFlag", p.RedundantPicCntPresentFlag)
	f.b("Transform8x8ModeFlag", p.Transform8x8ModeFlag)
	f.b("PicScalingMatrixPresentFlag", p.PicScalingMatrixPresentFlag)
	flatScaling(f, "PicScalingLists", p.PicScalingLists)
	f.i("SecondChromaQpIndexOffset", int64(p.SecondChromaQpIndexOffset))
	return f
}

func runPPS(nalu []byte, arg string) (r result) {
	p := hx.Try(func() {
		s, err := avc.ParsePPSNALUnit(in(nalu), spsMapOf(arg))
		if err != nil {
			r = result{outcome: "err", errStr: err.Error()}
			return
		}
		r = okResult(func() *flat { return flatPPS(s) })
	})
	if p != "" {
		r = result{outcome: "panic", errStr: p}
	}
	return r
}

// historyOps splits the argument of a slice case into the API calls that build the maps: either the old form
// "sps,sps;pps,pps" (= S,S,P,P) or "S:<hex>|P:<hex>|DS:<id>|DP:<id>|NS|NP" (see the model driver).
func historyOps(arg string) []string {
	if strings.Contains(arg, ";") {
		parts := strings.Split(arg, ";")
		var ops []string
		if len(parts) != 2 {
			return nil
		}
		for _, h := range strings.Split(parts[0], ",") {
			if h != "" {
				ops = append(ops, "S:"+h)
			}
		}
		for _, h := range strings.Split(parts[1], ",") {
			if h != "" {
				ops = append(ops, "P:"+h)
			}
		}
		return ops
	}
	if arg == "" || arg == "-" {
		return nil
	}
	return strings.Split(arg, "|")
}

// mapsOf replays the history of a SLICE case on the real API: every parameter set is parsed by the implementation
// itself, a PPS with the spsMap as it is at that moment; entries are replaced / deleted, maps are swapped for fresh
// ones. The maps returned are those handed to ParseSliceHeader.
func mapsOf(arg string) (map[uint32]*avc.SPS, map[uint32]*avc.PPS) {
	spsMap := map[uint32]*avc.SPS{}
	ppsMap := map[uint32]*avc.PPS{}
	for _, op := range historyOps(arg) {
		k, v, _ := strings.Cut(op, ":")
		switch k {
		case "S":
			if s, err := avc.ParseSPSNALUnit(in(hx.UnHex(v)), true); err == nil {
				spsMap[s.ParameterID] = s
			}
		case "P":
			if p, err := avc.ParsePPSNALUnit(in(hx.UnHex(v)), spsMap); err == nil {
				ppsMap[p.PicParameterSetID] = p
			}
		case "DS":
			var id uint32
			fmt.Sscanf(v, "%d", &id)
			delete(spsMap, id)
		case "DP":
			var id uint32
			fmt.Sscanf(v, "%d", &id)
			delete(ppsMap, id)
		case "NS":
			spsMap = map[uint32]*avc.SPS{}
		case "NP":
			ppsMap = map[uint32]*avc.PPS{}
		}
	}
	return spsMap, ppsMap
}

func flatSlice(h *avc.SliceHeader) *flat {
	f := &flat{}
	f.u("SliceType", uint64(h.SliceType))
	f.u("FirstMBInSlice", uint64(h.FirstMBInSlice))
	f.u("PicParamID", uint64(h.PicParamID))
	f.u("SeqParamID", uint64(h.SeqParamID))
	f.u("ColorPlaneID", uint64(h.ColorPlaneID))
	f.u("FrameNum", uint64(h.FrameNum))
	f.u("IDRPicID", uint64(h.IDRPicID))
	f.u("PicOrderCntLsb", uint64(h.PicOrderCntLsb))
	f.i("DeltaPicOrderCntBottom", int64(h.DeltaPicOrderCntBottom))
	f.i("DeltaPicOrderCnt[0]", int64(h.DeltaPicOrderCnt[0]))
	f.i("DeltaPicOrderCnt[1]", int64(h.DeltaPicOrderCnt[1]))
	f.u("RedundantPicCnt", uint64(h.RedundantPicCnt))
	f.u("NumRefIdxL0ActiveMinus1", uint64(h.NumRefIdxL0ActiveMinus1))
	f.u("NumRefIdxL1ActiveMinus1", uint64(h.NumRefIdxL1ActiveMinus1))
	f.u("ModificationOfPicNumsIDC", uint64(h.ModificationOfPicNumsIDC))
	f.u("AbsDiffPicNumMinus1", uint64(h.AbsDiffPicNumMinus1))
	f.u("LongTermPicNum", uint64(h.LongTermPicNum))
	f.u("AbsDiffViewIdxMinus1", uint64(h.AbsDiffViewIdxMinus1))
	f.u("LumaLog2WeightDenom", uint64(h.LumaLog2WeightDenom))
	f.u("ChromaLog2WeightDenom", uint64(h.ChromaLog2WeightDenom))
	f.u("DifferenceOfPicNumsMinus1", uint64(h.DifferenceOfPicNumsMinus1))
	f.u("LongTermFramIdx", uint64(h.LongTermFramIdx))
	f.u("MaxLongTermFrameIdxPlus1", uint64(h.MaxLongTermFrameIdxPlus1))
	f.u("CabacInitIDC", uint64(h.CabacInitIDC))
	f.i("SliceQPDelta", int64(h.SliceQPDelta))
	f.i("SliceQSDelta", int64(h.SliceQSDelta))
	f.u("DisableDeblockingFilterIDC", uint64(h.DisableDeblockingFilterIDC))
	f.i("SliceAlphaC0OffsetDiv2", int64(h.SliceAlphaC0OffsetDiv2))
	f.i("SliceBetaOffsetDiv2", int64(h.SliceBetaOffsetDiv2))
	f.u("SliceGroupChangeCycle", uint64(h.SliceGroupChangeCycle))
	f.u("Size", uint64(h.Size))
	f.b("FieldPicFlag", h.FieldPicFlag)
	f.b("BottomFieldFlag", h.BottomFieldFlag)
	f.b("DirectSpatialMvPredFlag", h.DirectSpatialMvPredFlag)
	f.b("NumRefIdxActiveOverrideFlag", h.NumRefIdxActiveOverrideFlag)
	f.b("RefPicListModificationL0Flag", h.RefPicListModificationL0Flag)
	f.b("RefPicListModificationL1Flag", h.RefPicListModificationL1Flag)
	f.b("NoOutputOfPriorPicsFlag", h.NoOutputOfPriorPicsFlag)
	f.b("LongTermReferenceFlag", h.LongTermReferenceFlag)
	f.b("SPForSwitchFlag", h.SPForSwitchFlag)
	f.b("AdaptiveRefPicMarkingModeFlag", h.AdaptiveRefPicMarkingModeFlag)
	return f
}

func runSlice(nalu []byte, arg string) (r result) {
	p := hx.Try(func() {
		spsMap, ppsMap := mapsOf(arg)
		h, err := avc.ParseSliceHeader(in(nalu), spsMap, ppsMap)
		if err != nil {
			r = result{outcome: "err", errStr: err.Error()}
			return
		}
		r = okResult(func() *flat { return flatSlice(h) })
	})
	if p != "" {
		r = result{outcome: "panic", errStr: p}
	}
	return r
}

// ---------------------------------------------------------------- AVC decoder configuration record
func flatBytes(f *flat, name string, b []byte) {
	f.u(name+".len", uint64(len(b)))
	for i, x := range b {
		f.u(fmt.Sprintf("%s[%d]", name, i), uint64(x))
	}
}

func flatNalus(f *flat, name string, l [][]byte) {
	f.u(name+".len", uint64(len(l)))
	for i, n := range l {
		flatBytes(f, fmt.Sprintf("%s[%d]", name, i), n)
	}
}

func flatConfRec(f *flat, name string, d *avc.DecConfRec) {
	f.u(name+".AVCProfileIndication", uint64(d.AVCProfileIndication))
	f.u(name+".ProfileCompatibility", uint64(d.ProfileCompatibility))
	f.u(name+".AVCLevelIndication", uint64(d.AVCLevelIndication))
	flatNalus(f, name+".SPSnalus", d.SPSnalus)
	flatNalus(f, name+".PPSnalus", d.PPSnalus)
	f.u(name+".ChromaFormat", uint64(d.ChromaFormat))
	f.u(name+".BitDepthLumaMinus1", uint64(d.BitDepthLumaMinus1))
	f.u(name+".BitDepthChromaMinus1", uint64(d.BitDepthChromaMinus1))
	f.u(name+".NumSPSExt", uint64(d.NumSPSExt))
	f.b(name+".NoTrailingInfo", d.NoTrailingInfo)
}

func unhexList(s string) [][]byte {
	if s == "" {
		return nil
	}
	var l [][]byte
	for _, h := range strings.Split(s, ",") {
		l = append(l, hx.Exact(hx.UnHex(h)))
	}
	return l
}

// flatEncode appends Size, then 1 + the encoded bytes (0 if Encode returned an error); returns the bytes.
func flatEncode(f *flat, name string, d *avc.DecConfRec) ([]byte, bool) {
	f.u(name+".Size", d.Size())
	var buf bytes.Buffer
	if err := d.Encode(&buf); err != nil {
		f.u(name+".encoded", 0)
		return nil, false
	}
	f.u(name+".encoded", 1)
	flatBytes(f, name+".bytes", buf.Bytes())
	return buf.Bytes(), true
}

// runConf: CreateAVCDecConfRec -> Size/Encode -> DecodeAVCDecConfRec of the encoded bytes -> CodecString("avc1", first SPS).
// arg = "sps,sps;pps,pps;includePS".
func runConf(arg string) (r result) {
	parts := strings.Split(arg, ";")
	if len(parts) != 3 {
		return result{outcome: "badarg"}
	}
	spss, ppss, incl := unhexList(parts[0]), unhexList(parts[1]), parts[2] == "1"
	p := hx.Try(func() {
		d, err := avc.CreateAVCDecConfRec(inList(spss), inList(ppss), incl)
		if err != nil {
			r = result{outcome: "err", errStr: err.Error()}
			return
		}
		var sps *avc.SPS
		if len(spss) > 0 {
			sps, _ = avc.ParseSPSNALUnit(spss[0], false)
		}
		r = okResult(func() *flat {
			f := &flat{}
			flatConfRec(f, "created", d)
			if enc, ok := flatEncode(f, "created", d); ok {
				checkEncodeAVC(d, enc)
				dec, err := avc.DecodeAVCDecConfRec(hx.Exact(enc))
				if err != nil {
					f.u("decoded.ok", 0)
				} else {
					f.u("decoded.ok", 1)
					flatConfRec(f, "decoded", &dec)
				}
			}
			if sps != nil {
				flatBytes(f, "codec", []byte(avc.CodecString("avc1", sps)))
			}
			return f
		})
	})
	if p != "" {
		r = result{outcome: "panic", errStr: p}
	}
	return r
}

// runConfD: DecodeAVCDecConfRec on arbitrary bytes; the record, its Size and its re-encoding.
func runConfD(data []byte) (r result) {
	p := hx.Try(func() {
		d, err := avc.DecodeAVCDecConfRec(inView(data))
		if err != nil {
			r = result{outcome: "err", errStr: err.Error()}
			return
		}
		r = okResult(func() *flat {
			f := &flat{}
			flatConfRec(f, "decoded", &d)
			if enc, ok := flatEncode(f, "decoded", &d); ok {
				checkEncodeAVC(&d, enc)
			}
			return f
		})
	})
	if p != "" {
		r = result{outcome: "panic", errStr: p}
	}
	return r
}

// payloads of the avcC boxes found by a byte scan (size field in front of the type)
func scanAvcCRecords(data []byte) [][]byte {
	var recs [][]byte
	idx := 0
	for {
		k := bytes.Index(data[idx:], []byte("avcC"))
		if k < 0 {
			break
		}
		p := idx + k
		idx = p + 4
		if p < 4 {
			continue
		}
		size := int(data[p-4])<<24 | int(data[p-3])<<16 | int(data[p-2])<<8 | int(data[p-1])
		if size < 8 || p-4+size > len(data) || size > 1<<16 {
			continue
		}
		recs = append(recs, data[p+4:p-4+size])
	}
	return recs
}

func capturedAvcC(repo string) []caseLine {
	var cs []caseLine
	seen := map[string]bool{}
	var files []string
	_ = filepath.Walk(repo, func(path string, info os.FileInfo, err error) error {
		if err != nil {
			return nil
		}
		if info.IsDir() {
			if info.Name() == ".git" {
				return filepath.SkipDir
			}
			return nil
		}
		switch filepath.Ext(path) {
		case ".mp4", ".cmfv", ".m4s", ".mp4s":
			if info.Size() < 64<<20 {
				files = append(files, path)
			}
		}
		return nil
	})
	sort.Strings(files)
	for _, path := range files {
		data, err := os.ReadFile(path)
		if err != nil {
			continue
		}
		for _, rec := range scanAvcCRecords(data) {
			h := hx.Hex(rec)
			if seen[h] || len(rec) == 0 {
				continue
			}
			seen[h] = true
			cs = append(cs, caseLine{"CONFD", fmt.Sprintf("cr%d", len(cs)), "-", h, "0", "-"})
		}
	}
	return cs
}

type caseLine struct {
	kind, id, arg, nalu, g, exp string
}

func readCases(path string) []caseLine {
	fh, err := os.Open(path)
	if err != nil {
		fmt.Fprintln(os.Stderr, err)
		os.Exit(2)
	}
	defer fh.Close()
	sc := bufio.NewScanner(fh)
	sc.Buffer(make([]byte, 1<<20), 1<<26)
	var cs []caseLine
	for sc.Scan() {
		p := strings.Split(sc.Text(), "\t")
		if len(p) != 6 {
			continue
		}
		cs = append(cs, caseLine{p[0], p[1], p[2], p[3], p[4], p[5]})
	}
	return cs
}

func runCase(c caseLine) result {
	nalu := hx.UnHex(c.nalu)
	switch c.kind {
	case "SPS":
		return runSPS(nalu, c.arg == "1")
	case "PPS":
		return runPPS(nalu, c.arg)
	case "SLICE":
		return runSlice(nalu, c.arg)
	case "CONF":
		return runConf(c.arg)
	case "CONFD":
		return runConfD(nalu)
	}
	return runHevcCase(c, nalu)
}

// ---------------------------------------------------------------- captured parameter sets
func splitAnnexB(data []byte) [][]byte {
	var nalus [][]byte
	start := -1
	i := 0
	for i+3 <= len(data) {
		if data[i] == 0 && data[i+1] == 0 && data[i+2] == 1 {
			if start >= 0 {
				end := i
				for end > start && data[end-1] == 0 {
					end--
				}
				nalus = append(nalus, data[start:end])
			}
			start = i + 3
			i += 3
			continue
		}
		i++
	}
	if start >= 0 && start < len(data) {
		end := len(data)
		for end > start && data[end-1] == 0 {
			end--
		}
		nalus = append(nalus, data[start:end])
	}
	return nalus
}

// parameter-set NAL units inside avcC boxes found by a byte scan (independent of the mp4 package)
func scanAvcC(data []byte) [][]byte {
	var nalus [][]byte
	idx := 0
	for {
		k := bytes.Index(data[idx:], []byte("avcC"))
		if k < 0 {
			break
		}
		p := idx + k + 4
		idx = p
		if p+6 > len(data) || data[p] != 1 {
			continue
		}
		nSPS := int(data[p+5] & 0x1f)
		q := p + 6
		okc := true
		for pass := 0; pass < 2 && okc; pass++ {
			cnt := nSPS
			if pass == 1 {
				if q >= len(data) {
					break
				}
				cnt = int(data[q])
				q++
			}
			for i := 0; i < cnt; i++ {
				if q+2 > len(data) {
					okc = false
					break
				}
				l := int(data[q])<<8 | int(data[q+1])
				q += 2
				if l == 0 || q+l > len(data) {
					okc = false
					break
				}
				nalus = append(nalus, data[q:q+l])
				q += l
			}
		}
	}
	return nalus
}

func captured(repo string) map[string][][]byte {
	res := map[string][][]byte{"avc": nil}
	seen := map[string]bool{}
	var files []string
	_ = filepath.Walk(repo, func(path string, info os.FileInfo, err error) error {
		if err != nil {
			return nil
		}
		if info.IsDir() {
			if info.Name() == ".git" {
				return filepath.SkipDir
			}
			return nil
		}
		switch filepath.Ext(path) {
		case ".264", ".h264", ".mp4", ".cmfv", ".m4s", ".mp4s":
			if info.Size() < 64<<20 {
				files = append(files, path)
			}
		}
		return nil
	})
	sort.Strings(files)
	for _, path := range files {
		data, err := os.ReadFile(path)
		if err != nil {
			continue
		}
		var nalus [][]byte
		switch filepath.Ext(path) {
		case ".264", ".h264":
			nalus = splitAnnexB(data)
		default:
			nalus = scanAvcC(data)
		}
		for _, n := range nalus {
			if len(n) < 2 {
				continue
			}
			t := n[0] & 0x1f
			if t != 7 && t != 8 {
				continue
			}
			h := hx.Hex(n)
			if seen[h] {
				continue
			}
			seen[h] = true
			res["avc"] = append(res["avc"], n)
		}
	}
	return res
}

// ---------------------------------------------------------------- corr
func corr(cases []caseLine, repo string) {
	for _, c := range cases {
		r := runCase(c)
		fmt.Fprintf(out, "%s\t%s\t%s\t%s\t%s\t%s\t%s\n", c.kind, c.id, c.arg, c.nalu, c.g, c.exp, r.String())
	}
	for _, c := range capturedHevc(repo) {
		emitObs(c)
	}
	for _, c := range capturedAvcC(repo) {
		emitObs(c)
	}
	cap := captured(repo)
	k := 0
	allSps := make([]string, 0, 32)
	for i := 0; i < 32; i++ {
		allSps = append(allSps, fmt.Sprintf("%d:1", i))
	}
	for _, n := range cap["avc"] {
		if n[0]&0x1f == 8 {
			emitObs(caseLine{"PPS", fmt.Sprintf("c%d", k), strings.Join(allSps, ","), hx.Hex(n), "0", "-"})
			k++
		}
	}
	for _, n := range cap["avc"] {
		if n[0]&0x1f == 7 {
			for _, arg := range []string{"0", "1"} {
				c := caseLine{"SPS", fmt.Sprintf("c%d", k), arg, hx.Hex(n), "0", "-"}
				k++
				r := runCase(c)
				fmt.Fprintf(out, "%s\t%s\t%s\t%s\t%s\t%s\t%s\n", c.kind, c.id, c.arg, c.nalu, c.g, c.exp, r.String())
			}
		}
	}
}

func siteOf(kind string) string {
	switch kind {
	case "SPS":
		return "avc.ParseSPSNALUnit"
	case "PPS":
		return "avc.ParsePPSNALUnit"
	case "SLICE":
		return "avc.ParseSliceHeader"
	case "CONF":
		return "avc.CreateAVCDecConfRec"
	case "CONFD":
		return "avc.DecodeAVCDecConfRec"
	}
	return hevcSiteOf(kind)
}

func emitObs(c caseLine) {
	r := runCase(c)
	fmt.Fprintf(out, "%s\t%s\t%s\t%s\t%s\t%s\t%s\n", c.kind, c.id, c.arg, c.nalu, c.g, c.exp, r.String())
}

// ---------------------------------------------------------------- search
// fields of avc.SPS that hold se(v) syntax elements in uint fields
func isOffsetField(name string) bool {
	return name == "OffsetForNonRefPic" || name == "OffsetForTopToBottomField" ||
		strings.HasPrefix(name, "RefFramesInPicOrderCntCycle[")
}

func search(cases []caseLine) {
	evals := 0
	base := make([]string, len(cases)) // projected answer of every case (valid or mutated) on its first run
	for i, c := range cases {
		r := runCase(c)
		base[i] = r.String()
		if c.exp == "-" {
			continue
		}
		evals++
		site := siteOf(c.kind)
		wit := c.kind + " arg=" + c.arg + " nalu=" + c.nalu
		if r.outcome != "ok" {
			class := "valid-input-" + r.outcome
			if strings.Contains(r.errStr, "SAR bad index 0") {
				class = "aspect-ratio-idc-0-rejected"
			}
			if cl := classifyHevc(c, nil); cl != "" {
				class = cl
			}
			fmt.Fprintf(out, "FAIL\t%s\t%s\t%s\t%s\n", site, class, wit,
				"syntactically valid NAL unit from the independent serialiser: "+r.outcome+" "+r.errStr)
			continue
		}
		exp := strings.Split(c.exp, ",")
		var bad []string
		if len(exp) != len(r.f.vals) {
			bad = append(bad, fmt.Sprintf("shape(%d values, coded %d)", len(r.f.vals), len(exp)))
		} else {
			for i := range exp {
				if exp[i] != r.f.vals[i] {
					bad = append(bad, r.f.names[i])
				}
			}
		}
		if len(bad) == 0 {
			continue
		}
		class := "field-mismatch"
		onlyOff := true
		for _, b := range bad {
			if !isOffsetField(b) {
				onlyOff = false
			}
		}
		// the known finding F2 is accepted only on cases the model-side generator marked as lying outside
		// the theorem's guard (g = 0: an SPS with non-zero se(v) offsets); the same fields going wrong on any
		// other case is a new failure.  (F7, the slice_group_change_cycle width, is fixed: no slice class.)
		if onlyOff && c.kind == "SPS" && c.g == "0" {
			class = "se-read-as-ue"
		}
		if cl := classifyHevc(c, bad); cl != "" {
			class = cl
		}
		first := bad[0]
		desc := fmt.Sprintf("parsed value differs from the coded value in %d field(s), first %s", len(bad), first)
		if len(exp) == len(r.f.vals) {
			for i := range exp {
				if r.f.names[i] == first {
					desc += fmt.Sprintf(" (parsed %s, coded %s)", r.f.vals[i], exp[i])
					break
				}
			}
		}
		fmt.Fprintf(out, "FAIL\t%s\t%s\t%s\t%s\n", site, class, wit, desc)
	}
	evals += hygiene(cases, base) // cross-cutting oracles: hygiene.go
	fmt.Fprintf(out, "EVALS\t%d\n", evals)
}

func main() {
	defer out.Flush()
	if len(os.Args) < 2 {
		fmt.Fprintln(os.Stderr, "usage: c15 corr|search ...")
		os.Exit(2)
	}
	fs := flag.NewFlagSet(os.Args[1], flag.ExitOnError)
	casesPath := fs.String("cases", "", "case file written by the model driver")
	repo := fs.String("repo", "/repo", "repository root (captured parameter sets)")
	_ = fs.Parse(os.Args[2:])
	cases := readCases(*casesPath)
	switch os.Args[1] {
	case "corr":
		corr(cases, *repo)
	case "search":
		search(cases)
	default:
		fmt.Fprintln(os.Stderr, "unknown sub-command")
		os.Exit(2)
	}
}
