// Cross-cutting hygiene oracles of the C15 search (nothing here is used by `corr`: with hyg == nil the run functions
// behave exactly as before).  Four classes of defect that have nothing to do with any one syntax element:
//
//  1. ALIASING: a parser / CreateXXXDecConfRec / SetXXXDescriptor keeps a reference to the caller's NAL unit buffer (or to
//     the caller's list of NAL units): the caller re-uses its buffer and the "parsed" structure changes.  Oracle: every
//     result is flattened, then every caller-owned buffer handed to the library is overwritten, then the result is
//     flattened again: equal.  NOT demanded of DecodeAVCDecConfRec / DecodeHEVCDecConfRec: zero-copy decoders whose
//     records hold views of `data` by design (they are on C20's audited list of byte views).
//  2. WRITES BEYOND len / DEPENDENCE ON cap: every []byte argument is also given as a sub-slice with 24 guard bytes
//     behind it: guards intact, same result as on an exact-capacity copy.
//  3. HIDDEN STATE BETWEEN CALLS: all cases are run a second time in a shuffled order (valid and malformed ones mixed)
//     and must answer as the first time; the structure returned by the run before is read once more after every run
//     (no storage shared between calls); slice headers / PPSs are parsed A, malformed A', A through THE SAME maps:
//     equal answers and the maps' parameter sets unchanged.
//  4. ENCODE-TIME MUTATION / SPARE-ROOM WRITERS: DecConfRec.EncodeSW into a writer with spare room writes exactly Size()
//     bytes, the bytes of Encode, nothing behind them; encoding does not change the record; encoding twice is stable.
package main

import (
	"bytes"
	"fmt"
	"sort"
	"strings"

	"github.com/Eyevinn/mp4ff/avc"
	"github.com/Eyevinn/mp4ff/bits"
	"github.com/Eyevinn/mp4ff/hevc"
	"verifharness/hx"
)

const guardLen = 24
const guardByte = 0xA5

type hygIssue struct{ class, desc string }

type hygCtx struct {
	bufs   [][]byte   // full buffers (input + guard bytes) handed to the library during the current run
	lens   []int      // length of the input inside each
	view   []bool     // handed to a zero-copy decoder: checked for guards, not scribbled
	lists  [][][]byte // caller-owned lists of NAL units handed to the library
	issues []hygIssue
	mk     func() *flat // the last "ok" result of the run: how to read it again, and what it read (after the caller's re-use)
	f      *flat
}

// hyg is nil in corr and during the baseline pass of search.
var hyg *hygCtx

func (h *hygCtx) issue(class, desc string) {
	for _, i := range h.issues {
		if i.class == class {
			return
		}
	}
	h.issues = append(h.issues, hygIssue{class, desc})
}

func guarded(b []byte, view bool) []byte {
	if hyg == nil {
		return hx.Exact(b)
	}
	buf := make([]byte, len(b)+guardLen)
	copy(buf, b)
	for i := len(b); i < len(buf); i++ {
		buf[i] = guardByte
	}
	hyg.bufs = append(hyg.bufs, buf)
	hyg.lens = append(hyg.lens, len(b))
	hyg.view = append(hyg.view, view)
	return buf[:len(b)]
}

// in is the buffer a run function hands to the library for input b (exact-capacity copy, or guarded sub-slice).
func in(b []byte) []byte { return guarded(b, false) }

// inView: the same for the zero-copy decoders (the caller may not re-use the buffer while the record lives).
func inView(b []byte) []byte { return guarded(b, true) }

// inList: a caller-owned list of caller-owned NAL units.
func inList(l [][]byte) [][]byte {
	if l == nil {
		return nil
	}
	o := make([][]byte, len(l))
	for i, b := range l {
		o[i] = in(b)
	}
	if hyg != nil {
		hyg.lists = append(hyg.lists, o)
	}
	return o
}

// reuse is the caller re-using everything it owns: every input byte is changed, every list slot points elsewhere.
func (h *hygCtx) reuse() {
	for k, buf := range h.bufs {
		if h.view[k] {
			continue
		}
		for i := 0; i < h.lens[k]; i++ {
			buf[i] ^= 0x5A
		}
	}
	for _, l := range h.lists {
		for i := range l {
			l[i] = []byte{0xde, 0xad}
		}
	}
}

func (h *hygCtx) guardsIntact() (bool, int) {
	for k, buf := range h.bufs {
		for i := h.lens[k]; i < len(buf); i++ {
			if buf[i] != guardByte {
				return false, i - h.lens[k]
			}
		}
	}
	return true, 0
}

func firstDiff(a, b *flat) string {
	if len(a.vals) != len(b.vals) {
		return fmt.Sprintf("shape (%d values, then %d)", len(a.vals), len(b.vals))
	}
	for i := range a.vals {
		if a.vals[i] != b.vals[i] {
			return fmt.Sprintf("%s (%s, then %s)", a.names[i], a.vals[i], b.vals[i])
		}
	}
	return ""
}

// okResult builds the "ok" result of a run function.  mk flattens what the LIBRARY returned (it must not read the
// caller's input buffers itself); under the hygiene pass it is evaluated, the caller re-uses its buffers, and it is
// evaluated again.
func okResult(mk func() *flat) result {
	f := mk()
	if hyg != nil {
		if d := firstDiff(f, mk()); d != "" {
			hyg.issue("result-not-stable", "reading the result (fields, Size, Encode) twice gives different values: "+d)
			return result{outcome: "ok", f: f}
		}
		hyg.reuse()
		if d := firstDiff(f, mk()); d != "" {
			hyg.issue("keeps-callers-buffer", "the result changed when the caller overwrote the NAL unit buffers / lists it had passed: "+d)
		} else {
			hyg.mk, hyg.f = mk, f
		}
	}
	return result{outcome: "ok", f: f}
}

// ---------------------------------------------------------------- class 4: encoders of the configuration records
// checkEncode: rec is an *avc.DecConfRec or *hevc.DecConfRec that Encode accepted with output enc.
func checkEncode(size uint64, enc []byte, encodeSW func(sw bits.SliceWriter) error, encode func() ([]byte, error), reflat func() *flat) {
	if hyg == nil {
		return
	}
	before := reflat()
	if uint64(len(enc)) != size {
		hyg.issue("encode-size", fmt.Sprintf("Encode wrote %d bytes, Size() = %d", len(enc), size))
	}
	for _, spare := range []int{0, 1, 9} {
		buf := make([]byte, int(size)+spare+guardLen)
		for i := range buf {
			buf[i] = guardByte
		}
		sw := bits.NewFixedSliceWriterFromSlice(buf[: int(size)+spare : int(size)+spare])
		if err := encodeSW(sw); err != nil {
			hyg.issue("encode-sw-spare-room", fmt.Sprintf("EncodeSW into a writer of Size()+%d bytes fails (%v) where Encode succeeds", spare, err))
			continue
		}
		if sw.Offset() != int(size) || !bytes.Equal(sw.Bytes(), enc) {
			hyg.issue("encode-sw-spare-room", fmt.Sprintf("EncodeSW into a writer of Size()+%d bytes wrote %d bytes (Size() = %d) equal to Encode's: %v",
				spare, sw.Offset(), size, bytes.Equal(sw.Bytes(), enc)))
		}
		for i := int(size); i < len(buf); i++ {
			if buf[i] != guardByte {
				hyg.issue("encode-sw-spare-room", fmt.Sprintf("EncodeSW touched byte %d behind the Size() = %d bytes of the record", i-int(size), size))
				break
			}
		}
	}
	if again, err := encode(); err != nil || !bytes.Equal(again, enc) {
		hyg.issue("encode-not-repeatable", "a second Encode of the same record gives other bytes / an error")
	}
	if d := firstDiff(before, reflat()); d != "" {
		hyg.issue("encode-mutates-record", "encoding changed the record: "+d)
	}
}

func checkEncodeAVC(d *avc.DecConfRec, enc []byte) {
	checkEncode(d.Size(), enc, d.EncodeSW, func() ([]byte, error) {
		var b bytes.Buffer
		err := d.Encode(&b)
		return b.Bytes(), err
	}, func() *flat { f := &flat{}; flatConfRec(f, "r", d); return f })
}

func checkEncodeHEVC(d *hevc.DecConfRec, enc []byte) {
	checkEncode(d.Size(), enc, d.EncodeSW, func() ([]byte, error) {
		var b bytes.Buffer
		err := d.Encode(&b)
		return b.Bytes(), err
	}, func() *flat { f := &flat{}; flatHevcRec(f, "r", d); return f })
}

// ---------------------------------------------------------------- class 3: the same maps
func flatAvcMaps(s map[uint32]*avc.SPS, p map[uint32]*avc.PPS) string {
	var sb strings.Builder
	ids := make([]int, 0, len(s))
	for id := range s {
		ids = append(ids, int(id))
	}
	sort.Ints(ids)
	for _, id := range ids {
		fmt.Fprintf(&sb, "S%d=%s;", id, flatSPS(s[uint32(id)]).String())
	}
	ids = ids[:0]
	for id := range p {
		ids = append(ids, int(id))
	}
	sort.Ints(ids)
	for _, id := range ids {
		fmt.Fprintf(&sb, "P%d=%s;", id, flatPPS(p[uint32(id)]).String())
	}
	return sb.String()
}

func flatHevcMaps(s map[uint32]*hevc.SPS, p map[uint32]*hevc.PPS) string {
	var sb strings.Builder
	ids := make([]int, 0, len(s))
	for id := range s {
		ids = append(ids, int(id))
	}
	sort.Ints(ids)
	for _, id := range ids {
		fmt.Fprintf(&sb, "S%d=%s;", id, flatHSPS(s[uint32(id)]).String())
	}
	ids = ids[:0]
	for id := range p {
		ids = append(ids, int(id))
	}
	sort.Ints(ids)
	for _, id := range ids {
		fmt.Fprintf(&sb, "P%d=%s;", id, flatHPPS2(p[uint32(id)]).String())
	}
	return sb.String()
}

// malformedOf: two hostile relatives of a NAL unit (truncated in the middle of the header; a flipped bit early on).
func malformedOf(nalu []byte) [][]byte {
	var l [][]byte
	if len(nalu) > 2 {
		l = append(l, hx.Exact(nalu[:1+len(nalu)/2]))
		m := hx.Exact(nalu)
		m[1+len(m)/4] ^= 0x10
		l = append(l, m)
	}
	l = append(l, []byte{nalu[0]})
	return l
}

// sameMaps parses the case's NAL unit A, then malformed relatives of A, then A again, THROUGH THE SAME MAPS (the way a
// stream parser uses the API); "" or a description of what differs.  one(nalu) parses with the shared maps and returns
// the projected result, snap() flattens the maps.
func sameMaps(nalu []byte, one func(n []byte) string, snap func() string) string {
	m0 := snap()
	r1 := one(nalu)
	for _, bad := range malformedOf(nalu) {
		_ = hx.Try(func() { one(bad) })
	}
	r2 := one(nalu)
	if r1 != r2 {
		return "parsing A, malformed relatives of A, then A again through the same maps gives another answer for A"
	}
	if snap() != m0 {
		return "parsing through spsMap / ppsMap changed a parameter set held in the maps"
	}
	return r1
}

func strResult(f *flat, err error) string {
	if err != nil {
		return "err\t-"
	}
	return "ok\t" + f.String()
}

// sameMapsCase: the projected result of case c when its NAL unit is parsed through shared maps (only kinds with maps).
func sameMapsCase(c caseLine) (res string, applicable bool) {
	nalu := hx.UnHex(c.nalu)
	if len(nalu) == 0 {
		return "", false
	}
	p := hx.Try(func() {
		switch c.kind {
		case "PPS":
			m := spsMapOf(c.arg)
			res = sameMaps(nalu, func(n []byte) string {
				s, err := avc.ParsePPSNALUnit(hx.Exact(n), m)
				if err != nil {
					return strResult(nil, err)
				}
				return strResult(flatPPS(s), nil)
			}, func() string { return flatAvcMaps(m, nil) })
		case "SLICE":
			sm, pm := mapsOf(c.arg)
			res = sameMaps(nalu, func(n []byte) string {
				s, err := avc.ParseSliceHeader(hx.Exact(n), sm, pm)
				if err != nil {
					return strResult(nil, err)
				}
				return strResult(flatSlice(s), nil)
			}, func() string { return flatAvcMaps(sm, pm) })
		case "HPPS", "HPPS2":
			m := hevcSpsIDMap(c.arg)
			res = sameMaps(nalu, func(n []byte) string {
				s, err := hevc.ParsePPSNALUnit(hx.Exact(n), m)
				if err != nil {
					return strResult(nil, err)
				}
				if c.kind == "HPPS" {
					return strResult(flatHPPS(s), nil)
				}
				return strResult(flatHPPS2(s), nil)
			}, func() string { return flatHevcMaps(m, nil) })
		case "HSLICE":
			sm, pm := hevcMapsOf(c.arg)
			res = sameMaps(nalu, func(n []byte) string {
				s, err := hevc.ParseSliceHeader(hx.Exact(n), sm, pm)
				if err != nil {
					return strResult(nil, err)
				}
				return strResult(flatHSlice(s), nil)
			}, func() string { return flatHevcMaps(sm, pm) })
		default:
			return
		}
		applicable = true
	})
	if p != "" {
		return "panic\t-", true
	}
	return res, applicable
}

// ---------------------------------------------------------------- the hygiene pass
// hygiene re-runs every case (valid or mutated) in a shuffled order on guarded buffers that the caller re-uses after
// the call, and compares with the baseline answers of the first pass (exact-capacity private copies, in file order).
func hygiene(cases []caseLine, base []string) (evals int) {
	order := make([]int, len(cases))
	for i := range order {
		order[i] = i
	}
	rng := hx.NewRng(uint64(len(cases))*2654435761 + 15)
	for i := len(order) - 1; i > 0; i-- {
		j := rng.Intn(i + 1)
		order[i], order[j] = order[j], order[i]
	}
	reported := map[string]int{}
	fail := func(c caseLine, class, desc string) {
		site := siteOf(c.kind)
		reported[site+"/"+class]++
		if reported[site+"/"+class] > 3 { // a broken site fails on most cases: three witnesses are enough
			return
		}
		fmt.Fprintf(out, "FAIL\t%s\t%s\t%s\t%s\n", site, class, c.kind+" arg="+c.arg+" nalu="+c.nalu, desc)
	}
	var prev *hygCtx // the run before: its result is read once more after the current run
	var prevCase caseLine
	for _, i := range order {
		c := cases[i]
		if strings.HasPrefix(base[i], "bad") {
			continue
		}
		evals++
		hyg = &hygCtx{}
		r := runCase(c)
		h := hyg
		hyg = nil
		if prev != nil && prev.mk != nil {
			var d string
			if p := hx.Try(func() { d = firstDiff(prev.f, prev.mk()) }); p != "" || d != "" {
				fail(prevCase, "result-changed-by-later-calls", "the structure returned for this input reads differently after a later call (storage shared between calls): "+d+p)
			}
		}
		prev, prevCase = h, c
		if ok, off := h.guardsIntact(); !ok {
			fail(c, "writes-beyond-len", fmt.Sprintf("byte %d behind the end of a []byte argument (inside its capacity) was overwritten", off))
		}
		for _, is := range h.issues {
			fail(c, is.class, is.desc)
		}
		got := r.String()
		// a panic on the exact-capacity copy that spare capacity hides is the baseline's (and C16's) business
		if got != base[i] && !strings.HasPrefix(base[i], "panic") {
			again := runCase(c).String()
			if again == base[i] {
				fail(c, "depends-on-capacity", "another answer when the NAL unit is a sub-slice of a larger buffer: "+short(got)+" instead of "+short(base[i]))
			} else {
				fail(c, "depends-on-earlier-calls", "another answer when the same call is repeated after other (valid and malformed) inputs: "+short(again)+" instead of "+short(base[i]))
			}
		}
		if sm, ok := sameMapsCase(c); ok {
			evals++
			if sm != base[i] && !strings.HasPrefix(base[i], "panic") {
				desc := sm
				if strings.HasPrefix(sm, "ok\t") || strings.HasPrefix(sm, "err\t") || strings.HasPrefix(sm, "panic\t") {
					desc = "parsed through maps that are then re-used: " + short(sm) + " instead of " + short(base[i])
				}
				fail(c, "depends-on-earlier-calls", desc)
			}
		}
	}
	return evals
}

func short(s string) string {
	if len(s) > 120 {
		return s[:120] + "..."
	}
	return s
}
