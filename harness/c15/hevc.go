// HEVC part of the C15 harness: kinds HSPS / HPPS / HSLICE / HCONF
package main

import (
	"bytes"
	"fmt"
	"os"
	"path/filepath"
	"sort"
	"strings"

	"github.com/Eyevinn/mp4ff/hevc"
	"github.com/Eyevinn/mp4ff/mp4"
	"verifharness/hx"
)

func flatBools(f *flat, name string, l []bool) {
	f.u(name+".len", uint64(len(l)))
	for i, x := range l {
		f.b(fmt.Sprintf("%s[%d]", name, i), x)
	}
}

func flatU32s(f *flat, name string, l []uint32) {
	f.u(name+".len", uint64(len(l)))
	for i, x := range l {
		f.u(fmt.Sprintf("%s[%d]", name, i), uint64(x))
	}
}

func flatProfile(f *flat, name string, space byte, tier bool, idc byte, compat uint32, prog, inter, nonPacked, frameOnly bool, constraint uint64) {
	f.u(name+".ProfileSpace", uint64(space))
	f.b(name+".TierFlag", tier)
	f.u(name+".ProfileIDC", uint64(idc))
	f.u(name+".ProfileCompatibilityFlags", uint64(compat))
	f.b(name+".ProgressiveSourceFlag", prog)
	f.b(name+".InterlacedSourceFlag", inter)
	f.b(name+".NonPackedConstraintFlag", nonPacked)
	f.b(name+".FrameOnlyConstraintFlag", frameOnly)
	f.u(name+".ConstraintIndicatorFlags", constraint)
}

func flatRPS(f *flat, name string, r *hevc.ShortTermRPS) {
	flatU32s(f, name+".DeltaPocS0", r.DeltaPocS0)
	flatU32s(f, name+".DeltaPocS1", r.DeltaPocS1)
	flatBools(f, name+".UsedByCurrPicS0", r.UsedByCurrPicS0)
	flatBools(f, name+".UsedByCurrPicS1", r.UsedByCurrPicS1)
	f.u(name+".NumNegativePics", uint64(r.NumNegativePics))
	f.u(name+".NumPositivePics", uint64(r.NumPositivePics))
	f.u(name+".NumDeltaPocs", uint64(r.NumDeltaPocs))
}

func flatLT(f *flat, name string, l *hevc.LongTermRPS) {
	f.u(name+".PocLsbLt", uint64(l.PocLsbLt))
	f.b(name+".UsedByCurrPicLtFlag", l.UsedByCurrPicLtFlag)
	f.b(name+".DeltaPocMsbPresentFlag", l.DeltaPocMsbPresentFlag)
	f.u(name+".DeltaPocMsbCycleLt", uint64(l.DeltaPocMsbCycleLt))
}

func flatCpbs(f *flat, name string, l []hevc.SubLayerHrdParameters) {
	f.u(name+".len", uint64(len(l)))
	for i, c := range l {
		n := fmt.Sprintf("%s[%d]", name, i)
		f.u(n+".BitRateValueMinus1", uint64(c.BitRateValueMinus1))
		f.u(n+".CpbSizeValueMinus1", uint64(c.CpbSizeValueMinus1))
		f.u(n+".CpbSizeDuValueMinus1", uint64(c.CpbSizeDuValueMinus1))
		f.u(n+".BitRateDuValueMinus1", uint64(c.BitRateDuValueMinus1))
		f.b(n+".CbrFlag", c.CbrFlag)
	}
}

func flatHevcHrd(f *flat, name string, h *hevc.HrdParameters) {
	if h == nil {
		f.u(name+".present", 0)
		return
	}
	f.u(name+".present", 1)
	f.b(name+".NalHrdParametersPresentFlag", h.NalHrdParametersPresentFlag)
	f.b(name+".VclHrdParametersPresentFlag", h.VclHrdParametersPresentFlag)
	f.b(name+".SubPicHrdParamsPresentFlag", h.SubPicHrdParamsPresentFlag)
	f.u(name+".TickDivisorMinus2", uint64(h.TickDivisorMinus2))
	f.u(name+".DuCpbRemovalDelayIncrementLengthMinus1", uint64(h.DuCpbRemovalDelayIncrementLengthMinus1))
	f.b(name+".SubPicCpbParamsInPicTimingSeiFlag", h.SubPicCpbParamsInPicTimingSeiFlag)
	f.u(name+".DpbOutputDelayDuLengthMinus1", uint64(h.DpbOutputDelayDuLengthMinus1))
	f.u(name+".BitRateScale", uint64(h.BitRateScale))
	f.u(name+".CpbSizeScale", uint64(h.CpbSizeScale))
	f.u(name+".CpbSizeDuScale", uint64(h.CpbSizeDuScale))
	f.u(name+".InitialCpbRemovalDelayLengthMinus1", uint64(h.InitialCpbRemovalDelayLengthMinus1))
	f.u(name+".AuCpbRemovalDelayLengthMinus1", uint64(h.AuCpbRemovalDelayLengthMinus1))
	f.u(name+".DpbOutputDelayLengthMinus1", uint64(h.DpbOutputDelayLengthMinus1))
	f.u(name+".SubLayerHrd.len", uint64(len(h.SubLayerHrd)))
	for i, s := range h.SubLayerHrd {
		n := fmt.Sprintf("%s.SubLayerHrd[%d]", name, i)
		f.b(n+".FixedPicRateGeneralFlag", s.FixedPicRateGeneralFlag)
		f.b(n+".FixedPicRateWithinCvsFlag", s.FixedPicRateWithinCvsFlag)
		f.u(n+".ElementalDurationInTcMinus1", uint64(s.ElementalDurationInTcMinus1))
		f.b(n+".LowDelayHrdFlag", s.LowDelayHrdFlag)
		f.u(n+".CpbCntMinus1", uint64(s.CpbCntMinus1))
		flatCpbs(f, n+".NalHrdParameters", s.NalHrdParameters)
		flatCpbs(f, n+".VclHrdParameters", s.VclHrdParameters)
	}
}

func flatHevcVUI(f *flat, v *hevc.VUIParameters) {
	if v == nil {
		f.u("VUI.present", 0)
		return
	}
	f.u("VUI.present", 1)
	f.u("VUI.SampleAspectRatioWidth", uint64(v.SampleAspectRatioWidth))
	f.u("VUI.SampleAspectRatioHeight", uint64(v.SampleAspectRatioHeight))
	f.b("VUI.OverscanInfoPresentFlag", v.OverscanInfoPresentFlag)
	f.b("VUI.OverscanAppropriateFlag", v.OverscanAppropriateFlag)
	f.b("VUI.VideoSignalTypePresentFlag", v.VideoSignalTypePresentFlag)
	f.u("VUI.VideoFormat", uint64(v.VideoFormat))
	f.b("VUI.VideoFullRangeFlag", v.VideoFullRangeFlag)
	f.b("VUI.ColourDescriptionFlag", v.ColourDescriptionFlag)
	f.u("VUI.ColourPrimaries", uint64(v.ColourPrimaries))
	f.u("VUI.TransferCharacteristics", uint64(v.TransferCharacteristics))
	f.u("VUI.MatrixCoefficients", uint64(v.MatrixCoefficients))
	f.b("VUI.ChromaLocInfoPresentFlag", v.ChromaLocInfoPresentFlag)
	f.u("VUI.ChromaSampleLocTypeTopField", uint64(v.ChromaSampleLocTypeTopField))
	f.u("VUI.ChromaSampleLocTypeBottomField", uint64(v.ChromaSampleLocTypeBottomField))
	f.b("VUI.NeutralChromaIndicationFlag", v.NeutralChromaIndicationFlag)
	f.b("VUI.FieldSeqFlag", v.FieldSeqFlag)
	f.b("VUI.FrameFieldInfoPresentFlag", v.FrameFieldInfoPresentFlag)
	f.b("VUI.DefaultDisplayWindowFlag", v.DefaultDisplayWindowFlag)
	f.u("VUI.DefDispWinLeftOffset", uint64(v.DefDispWinLeftOffset))
	f.u("VUI.DefDispWinRightOffset", uint64(v.DefDispWinRightOffset))
	f.u("VUI.DefDispWinTopOffset", uint64(v.DefDispWinTopOffset))
	f.u("VUI.DefDispWinBottomOffset", uint64(v.DefDispWinBottomOffset))
	f.b("VUI.TimingInfoPresentFlag", v.TimingInfoPresentFlag)
	f.u("VUI.NumUnitsInTick", uint64(v.NumUnitsInTick))
	f.u("VUI.TimeScale", uint64(v.TimeScale))
	f.b("VUI.PocProportionalToTimingFlag", v.PocProportionalToTimingFlag)
	f.u("VUI.NumTicksPocDiffOneMinus1", uint64(v.NumTicksPocDiffOneMinus1))
	f.b("VUI.HrdParametersPresentFlag", v.HrdParametersPresentFlag)
	flatHevcHrd(f, "VUI.Hrd", v.HrdParameters)
	f.b("VUI.BitstreamRestrictionFlag", v.BitstreamRestrictionFlag)
	b := v.BitstreamResctrictions
	if b == nil {
		f.u("VUI.Bsr.present", 0)
		return
	}
	f.u("VUI.Bsr.present", 1)
	f.b("VUI.Bsr.TilesFixedStructureFlag", b.TilesFixedStructureFlag)
	f.b("VUI.Bsr.MVOverPicBoundariesFlag", b.MVOverPicBoundariesFlag)
	f.b("VUI.Bsr.RestrictedRefsPicsListsFlag", b.RestrictedRefsPicsListsFlag)
	f.u("VUI.Bsr.MinSpatialSegmentationIDC", uint64(b.MinSpatialSegmentationIDC))
	f.u("VUI.Bsr.MaxBytesPerPicDenom", uint64(b.MaxBytesPerPicDenom))
	f.u("VUI.Bsr.MaxBitsPerMinCuDenom", uint64(b.MaxBitsPerMinCuDenom))
	f.u("VUI.Bsr.Log2MaxMvLengthHorizontal", uint64(b.Log2MaxMvLengthHorizontal))
	f.u("VUI.Bsr.Log2MaxMvLengthVertical", uint64(b.Log2MaxMvLengthVertical))
}

func flatHSPS(s *hevc.SPS) *flat {
	f := &flat{}
	f.u("VpsID", uint64(s.VpsID))
	f.u("MaxSubLayersMinus1", uint64(s.MaxSubLayersMinus1))
	f.b("TemporalIDNestingFlag", s.TemporalIDNestingFlag)
	p := s.ProfileTierLevel
	flatProfile(f, "PTL.General", p.GeneralProfileSpace, p.GeneralTierFlag, p.GeneralProfileIDC,
		p.GeneralProfileCompatibilityFlags, p.GeneralProgressiveSourceFlag, p.GeneralInterlacedSourceFlag,
		p.GeneralNonPackedConstraintFlag, p.GeneralFrameOnlyConstraintFlag, p.GeneralConstraintIndicatorFlags)
	f.u("PTL.GeneralLevelIDC", uint64(p.GeneralLevelIDC))
	f.u("PTL.SubLayers.len", uint64(len(p.SubLayers)))
	for i, sl := range p.SubLayers {
		n := fmt.Sprintf("PTL.SubLayers[%d]", i)
		f.b(n+".ProfilePresentFlag", sl.ProfilePresentFlag)
		f.b(n+".LevelPresentFlag", sl.LevelPresentFlag)
		flatProfile(f, n, sl.ProfileSpace, sl.TierFlag, sl.ProfileIDC, sl.ProfileCompatibilityFlags,
			sl.ProgressiveSourceFlag, sl.InterlacedSourceFlag, sl.NonPackedConstraintFlag,
			sl.FrameOnlyConstraintFlag, sl.ConstraintFlags)
		f.u(n+".LayerIDC", uint64(sl.LayerIDC))
	}
	f.u("SpsID", uint64(s.SpsID))
	f.u("ChromaFormatIDC", uint64(s.ChromaFormatIDC))
	f.b("SeparateColourPlaneFlag", s.SeparateColourPlaneFlag)
	f.b("ConformanceWindowFlag", s.ConformanceWindowFlag)
	f.u("PicWidthInLumaSamples", uint64(s.PicWidthInLumaSamples))
	f.u("PicHeightInLumaSamples", uint64(s.PicHeightInLumaSamples))
	f.u("ConformanceWindow.LeftOffset", uint64(s.ConformanceWindow.LeftOffset))
	f.u("ConformanceWindow.RightOffset", uint64(s.ConformanceWindow.RightOffset))
	f.u("ConformanceWindow.TopOffset", uint64(s.ConformanceWindow.TopOffset))
	f.u("ConformanceWindow.BottomOffset", uint64(s.ConformanceWindow.BottomOffset))
	f.u("BitDepthLumaMinus8", uint64(s.BitDepthLumaMinus8))
	f.u("BitDepthChromaMinus8", uint64(s.BitDepthChromaMinus8))
	f.u("Log2MaxPicOrderCntLsbMinus4", uint64(s.Log2MaxPicOrderCntLsbMinus4))
	f.b("SubLayerOrderingInfoPresentFlag", s.SubLayerOrderingInfoPresentFlag)
	f.u("SubLayeringOrderingInfos.len", uint64(len(s.SubLayeringOrderingInfos)))
	for i, o := range s.SubLayeringOrderingInfos {
		n := fmt.Sprintf("SubLayeringOrderingInfos[%d]", i)
		f.u(n+".MaxDecPicBufferingMinus1", uint64(o.MaxDecPicBufferingMinus1))
		f.u(n+".MaxNumReorderPics", uint64(o.MaxNumReorderPics))
		f.u(n+".MaxLatencyIncreasePlus1", uint64(o.MaxLatencyIncreasePlus1))
	}
	f.u("Log2MinLumaCodingBlockSizeMinus3", uint64(s.Log2MinLumaCodingBlockSizeMinus3))
	f.u("Log2DiffMaxMinLumaCodingBlockSize", uint64(s.Log2DiffMaxMinLumaCodingBlockSize))
	f.u("Log2MinLumaTransformBlockSizeMinus2", uint64(s.Log2MinLumaTransformBlockSizeMinus2))
	f.u("Log2DiffMaxMinLumaTransformBlockSize", uint64(s.Log2DiffMaxMinLumaTransformBlockSize))
	f.u("MaxTransformHierarchyDepthInter", uint64(s.MaxTransformHierarchyDepthInter))
	f.u("MaxTransformHierarchyDepthIntra", uint64(s.MaxTransformHierarchyDepthIntra))
	f.b("ScalingListEnabledFlag", s.ScalingListEnabledFlag)
	f.b("ScalingListDataPresentFlag", s.ScalingListDataPresentFlag)
	f.b("AmpEnabledFlag", s.AmpEnabledFlag)
	f.b("SampleAdaptiveOffsetEnabledFlag", s.SampleAdaptiveOffsetEnabledFlag)
	f.b("PCMEnabledFlag", s.PCMEnabledFlag)
	f.u("PcmSampleBitDepthLumaMinus1", uint64(s.PcmSampleBitDepthLumaMinus1))
	f.u("PcmSampleBitDepthChromaMinus1", uint64(s.PcmSampleBitDepthChromaMinus1))
	f.u("Log2MinPcmLumaCodingBlockSize", uint64(s.Log2MinPcmLumaCodingBlockSize))
	f.u("Log2DiffMaxMinPcmLumaCodingBlockSize", uint64(s.Log2DiffMaxMinPcmLumaCodingBlockSize))
	f.b("PcmLoopFilterDisabledFlag", s.PcmLoopFilterDisabledFlag)
	f.u("NumShortTermRefPicSets", uint64(s.NumShortTermRefPicSets))
	f.u("ShortTermRefPicSets.len", uint64(len(s.ShortTermRefPicSets)))
	for i := range s.ShortTermRefPicSets {
		flatRPS(f, fmt.Sprintf("ShortTermRefPicSets[%d]", i), &s.ShortTermRefPicSets[i])
	}
	f.b("LongTermRefPicsPresentFlag", s.LongTermRefPicsPresentFlag)
	f.u("NumLongTermRefPics", uint64(s.NumLongTermRefPics))
	f.u("LongTermRefPicSets.len", uint64(len(s.LongTermRefPicSets)))
	for i := range s.LongTermRefPicSets {
		flatLT(f, fmt.Sprintf("LongTermRefPicSets[%d]", i), &s.LongTermRefPicSets[i])
	}
	f.b("SpsTemporalMvpEnabledFlag", s.SpsTemporalMvpEnabledFlag)
	f.b("StrongIntraSmoothingEnabledFlag", s.StrongIntraSmoothingEnabledFlag)
	f.b("VUIParametersPresentFlag", s.VUIParametersPresentFlag)
	flatHevcVUI(f, s.VUI)
	f.b("ExtensionPresentFlag", s.ExtensionPresentFlag)
	f.u("Extension4bits", uint64(s.Extension4bits))
	f.b("RangeExtensionFlag", s.RangeExtensionFlag)
	if r := s.RangeExtension; r == nil {
		f.u("RangeExtension.present", 0)
	} else {
		f.u("RangeExtension.present", 1)
		flatBools(f, "RangeExtension", []bool{r.TransformSkipRotationEnabledFlag, r.TransformSkipContextEnabledFlag,
			r.ImplicitRdpcmEnabledFlag, r.ExplicitRdpcmEnabledFlag, r.ExtendedPrecisionProcessingFlag,
			r.IntraSmoothingDisabledFlag, r.HighPrecisionOffsetsEnabledFlag,
			r.PersistentRiceAdaptationEnabledFlag, r.CabacBypassAlignmentEnabledFlag})
	}
	f.b("MultilayerExtensionFlag", s.MultilayerExtensionFlag)
	if m := s.MultilayerExtension; m == nil {
		f.u("MultilayerExtension.present", 0)
	} else {
		f.u("MultilayerExtension.present", 1)
		f.b("MultilayerExtension.InterViewMvVertConstraintFlag", m.InterViewMvVertConstraintFlag)
	}
	f.b("D3ExtensionFlag", s.D3ExtensionFlag)
	if d := s.D3Extension; d == nil {
		f.u("D3Extension.present", 0)
	} else {
		f.u("D3Extension.present", 1)
		f.b("D3.IvDiMcEnabledFlag0", d.IvDiMcEnabledFlag0)
		f.b("D3.IvMvScalEnabledFlag0", d.IvMvScalEnabledFlag0)
		f.u("D3.Og2IvmcSubPbSizeMinus3", uint64(d.Og2IvmcSubPbSizeMinus3))
		f.b("D3.IvResPredEnabledFlag", d.IvResPredEnabledFlag)
		f.b("D3.DepthRefEnabledFlag", d.DepthRefEnabledFlag)
		f.b("D3.VspMcEnabledFlag", d.VspMcEnabledFlag)
		f.b("D3.DbbpEnabledFlag", d.DbbpEnabledFlag)
		f.b("D3.IvDiMcEnabledFlag1", d.IvDiMcEnabledFlag1)
		f.b("D3.IvMvScalEnabledFlag1", d.IvMvScalEnabledFlag1)
		f.b("D3.TexMcEnabledFlag", d.TexMcEnabledFlag)
		f.u("D3.Log2TexmcSubPbSizeMinus3", uint64(d.Log2TexmcSubPbSizeMinus3))
		f.b("D3.IntraContourEnabledFlag", d.IntraContourEnabledFlag)
		f.b("D3.IntraDcOnlyWedgeEnabledFlag", d.IntraDcOnlyWedgeEnabledFlag)
		f.b("D3.CqtCuPartPredEnabledFlag", d.CqtCuPartPredEnabledFlag)
		f.b("D3.InterDcOnlyEnabledFlag", d.InterDcOnlyEnabledFlag)
		f.b("D3.SkipIntraEnabledFlag", d.SkipIntraEnabledFlag)
	}
	f.b("SccExtensionFlag", s.SccExtensionFlag)
	if c := s.SccExtension; c == nil {
		f.u("SccExtension.present", 0)
	} else {
		f.u("SccExtension.present", 1)
		f.b("Scc.CurrPicRefEnabledFlag", c.CurrPicRefEnabledFlag)
		f.b("Scc.PaletteModeEnabledFlag", c.PaletteModeEnabledFlag)
		f.u("Scc.PaletteMaxSize", uint64(c.PaletteMaxSize))
		f.u("Scc.DeltaPaletteMaxPredictorSize", uint64(c.DeltaPaletteMaxPredictorSize))
		f.b("Scc.PalettePredictorInitializersPresentFlag", c.PalettePredictorInitializersPresentFlag)
		f.u("Scc.NumPalettePredictorInitializersMinus1", uint64(c.NumPalettePredictorInitializersMinus1))
		f.u("Scc.PalettePredictorInitializer.len", uint64(len(c.PalettePredictorInitializer)))
		for i, l := range c.PalettePredictorInitializer {
			flatUints(f, fmt.Sprintf("Scc.PalettePredictorInitializer[%d]", i), l)
		}
		f.u("Scc.MotionVectorResolutionControlIdc", uint64(c.MotionVectorResolutionControlIdc))
		f.b("Scc.IntraBoundaryFilteringDisabledFlag", c.IntraBoundaryFilteringDisabledFlag)
	}
	flatBools(f, "ExtensionDataFlag", s.ExtensionDataFlag)
	w, h := s.ImageSize()
	f.u("ImageSize.width", uint64(w))
	f.u("ImageSize.height", uint64(h))
	return f
}

func runHSPS(nalu []byte) (r result) {
	p := hx.Try(func() {
		s, err := hevc.ParseSPSNALUnit(in(nalu))
		if err != nil {
			r = result{outcome: "err", errStr: err.Error()}
			return
		}
		r = okResult(func() *flat { return flatHSPS(s) })
	})
	if p != "" {
		r = result{outcome: "panic", errStr: p}
	}
	return r
}

func flatI8s(f *flat, name string, l []int8) {
	f.u(name+".len", uint64(len(l)))
	for i, x := range l {
		f.i(fmt.Sprintf("%s[%d]", name, i), int64(x))
	}
}

func flatHPPS(p *hevc.PPS) *flat {
	f := &flat{}
	f.u("PicParameterSetID", uint64(p.PicParameterSetID))
	f.u("SeqParameterSetID", uint64(p.SeqParameterSetID))
	f.b("DependentSliceSegmentsEnabledFlag", p.DependentSliceSegmentsEnabledFlag)
	f.b("OutputFlagPresentFlag", p.OutputFlagPresentFlag)
	f.u("NumExtraSliceHeaderBits", uint64(p.NumExtraSliceHeaderBits))
	f.b("SignDataHidingEnabledFlag", p.SignDataHidingEnabledFlag)
	f.b("CabacInitPresentFlag", p.CabacInitPresentFlag)
	f.u("NumRefIdxL0DefaultActiveMinus1", uint64(p.NumRefIdxL0DefaultActiveMinus1))
	f.u("NumRefIdxL1DefaultActiveMinus1", uint64(p.NumRefIdxL1DefaultActiveMinus1))
	f.i("InitQpMinus26", int64(p.InitQpMinus26))
	f.b("ConstrainedIntraPredFlag", p.ConstrainedIntraPredFlag)
	f.b("TransformSkipEnabledFlag", p.TransformSkipEnabledFlag)
	f.b("CuQpDeltaEnabledFlag", p.CuQpDeltaEnabledFlag)
	f.u("DiffCuQpDeltaDepth", uint64(p.DiffCuQpDeltaDepth))
	f.i("CbQpOffset", int64(p.CbQpOffset))
	f.i("CrQpOffset", int64(p.CrQpOffset))
	f.b("SliceChromaQpOffsetsPresentFlag", p.SliceChromaQpOffsetsPresentFlag)
	f.b("WeightedPredFlag", p.WeightedPredFlag)
	f.b("WeightedBipredFlag", p.WeightedBipredFlag)
	f.b("TransquantBypassEnabledFlag", p.TransquantBypassEnabledFlag)
	f.b("TilesEnabledFlag", p.TilesEnabledFlag)
	f.b("EntropyCodingSyncEnabledFlag", p.EntropyCodingSyncEnabledFlag)
	f.u("NumTileColumnsMinus1", uint64(p.NumTileColumnsMinus1))
	f.u("NumTileRowsMinus1", uint64(p.NumTileRowsMinus1))
	f.b("UniformSpacingFlag", p.UniformSpacingFlag)
	flatUints(f, "ColumnWidthMinus1", p.ColumnWidthMinus1)
	flatUints(f, "RowHeightMinus1", p.RowHeightMinus1)
	f.b("LoopFilterAcrossTilesEnabledFlag", p.LoopFilterAcrossTilesEnabledFlag)
	f.b("LoopFilterAcrossSlicesEnabledFlag", p.LoopFilterAcrossSlicesEnabledFlag)
	f.b("DeblockingFilterControlPresentFlag", p.DeblockingFilterControlPresentFlag)
	f.b("DeblockingFilterOverrideEnabledFlag", p.DeblockingFilterOverrideEnabledFlag)
	f.b("DeblockingFilterDisabledFlag", p.DeblockingFilterDisabledFlag)
	f.i("BetaOffsetDiv2", int64(p.BetaOffsetDiv2))
	f.i("TcOffsetDiv2", int64(p.TcOffsetDiv2))
	f.b("ScalingListDataPresentFlag", p.ScalingListDataPresentFlag)
	f.b("ListsModificationPresentFlag", p.ListsModificationPresentFlag)
	f.u("Log2ParallelMergeLevelMinus2", uint64(p.Log2ParallelMergeLevelMinus2))
	f.b("SliceSegmentHeaderExtensionPresentFlag", p.SliceSegmentHeaderExtensionPresentFlag)
	f.b("ExtensionPresentFlag", p.ExtensionPresentFlag)
	f.b("RangeExtensionFlag", p.RangeExtensionFlag)
	if r := p.RangeExtension; r == nil {
		f.u("RangeExtension.present", 0)
	} else {
		f.u("RangeExtension.present", 1)
		f.u("Range.Log2MaxTransformSkipBlockSizeMinus2", uint64(r.Log2MaxTransformSkipBlockSizeMinus2))
		f.b("Range.CrossComponentPredictionEnabledFlag", r.CrossComponentPredictionEnabledFlag)
		f.b("Range.ChromaQpOffsetListEnabledFlag", r.ChromaQpOffsetListEnabledFlag)
		f.u("Range.DiffCuChromaQpOffsetDepth", uint64(r.DiffCuChromaQpOffsetDepth))
		f.u("Range.ChromaQpOffsetListLenMinus1", uint64(r.ChromaQpOffsetListLenMinus1))
		flatI8s(f, "Range.CbQpOffsetList", r.CbQpOffsetList)
		flatI8s(f, "Range.CrQpOffsetList", r.CrQpOffsetList)
		f.u("Range.Log2SaoOffsetScaleLuma", uint64(r.Log2SaoOffsetScaleLuma))
		f.u("Range.Log2SaoOffsetScaleChroma", uint64(r.Log2SaoOffsetScaleChroma))
	}
	f.b("MultilayerExtensionFlag", p.MultilayerExtensionFlag)
	f.b("D3ExtensionFlag", p.D3ExtensionFlag)
	f.b("SccExtensionFlag", p.SccExtensionFlag)
	if c := p.SccExtension; c == nil {
		f.u("SccExtension.present", 0)
	} else {
		f.u("SccExtension.present", 1)
		f.b("Scc.CurrPicRefEnabledFlag", c.CurrPicRefEnabledFlag)
		f.b("Scc.ResidualAdaptiveColourTransformEnabledFlag", c.ResidualAdaptiveColourTransformEnabledFlag)
		f.b("Scc.SliceActQpOffsetsPresentFlag", c.SliceActQpOffsetsPresentFlag)
		f.i("Scc.ActYQpOffsetPlus5", int64(c.ActYQpOffsetPlus5))
		f.i("Scc.ActCbQpOffsetPlus5", int64(c.ActCbQpOffsetPlus5))
		f.i("Scc.ActCrQpOffsetPlus3", int64(c.ActCrQpOffsetPlus3))
		f.b("Scc.PalettePredictorInitializersPresentFlag", c.PalettePredictorInitializersPresentFlag)
		f.u("Scc.NumPalettePredictorInitializers", uint64(c.NumPalettePredictorInitializers))
		f.b("Scc.MonochromePaletteFlag", c.MonochromePaletteFlag)
		f.u("Scc.LumaBitDepthEntryMinus8", uint64(c.LumaBitDepthEntryMinus8))
		f.u("Scc.ChromaBitDepthEntryMinus8", uint64(c.ChromaBitDepthEntryMinus8))
		f.u("Scc.PalettePredictorInitializer.len", uint64(len(c.PalettePredictorInitializer)))
		for i, l := range c.PalettePredictorInitializer {
			flatUints(f, fmt.Sprintf("Scc.PalettePredictorInitializer[%d]", i), l)
		}
	}
	f.u("Extension4bits", uint64(p.Extension4bits))
	flatBools(f, "ExtensionDataFlag", p.ExtensionDataFlag)
	return f
}

func hevcSpsIDMap(arg string) map[uint32]*hevc.SPS {
	m := map[uint32]*hevc.SPS{}
	if arg == "-" || arg == "" {
		return m
	}
	for _, p := range strings.Split(arg, ",") {
		var id uint32
		fmt.Sscanf(p, "%d", &id)
		m[id] = &hevc.SPS{SpsID: byte(id)}
	}
	return m
}

func runHPPS(nalu []byte, arg string) (r result) {
	p := hx.Try(func() {
		s, err := hevc.ParsePPSNALUnit(in(nalu), hevcSpsIDMap(arg))
		if err != nil {
			r = result{outcome: "err", errStr: err.Error()}
			return
		}
		r = okResult(func() *flat { return flatHPPS(s) })
	})
	if p != "" {
		r = result{outcome: "panic", errStr: p}
	}
	return r
}

// flatHPPS2 = flatHPPS followed by the multilayer and 3D extensions (kind HPPS2, model C15Hevc2Model).
// The octants are listed by key (idxShiftY, idxCb, idxCr); the reference location offsets through the
// map, in the order of RefLocOffsetLayerIds.
func flatHPPS2(p *hevc.PPS) *flat {
	f := flatHPPS(p)
	if m := p.MultilayerExtension; m == nil {
		f.u("MultilayerExtension.present", 0)
	} else {
		f.u("MultilayerExtension.present", 1)
		f.b("Ml.PocResetInfoPresentFlag", m.PocResetInfoPresentFlag)
		f.b("Ml.InferScalingListFlag", m.InferScalingListFlag)
		f.u("Ml.ScalingListRefLayerId", uint64(m.ScalingListRefLayerId))
		f.u("Ml.NumRefLocOffsets", uint64(m.NumRefLocOffsets))
		f.u("Ml.RefLocOffsetLayerIds.len", uint64(len(m.RefLocOffsetLayerIds)))
		for i, id := range m.RefLocOffsetLayerIds {
			o := m.RefLocOffsets[id]
			n := fmt.Sprintf("Ml.RefLocOffsets[%d]", i)
			f.u(n+".LayerId", uint64(id))
			f.b(n+".ScaledRefLayerOffsetPresentFlag", o.ScaledRefLayerOffsetPresentFlag)
			f.i(n+".ScaledRefLayerLeftOffset", int64(o.ScaledRefLayerLeftOffset))
			f.i(n+".ScaledRefLayerTopOffset", int64(o.ScaledRefLayerTopOffset))
			f.i(n+".ScaledRefLayerRightOffset", int64(o.ScaledRefLayerRightOffset))
			f.i(n+".ScaledRefLayerBottomOffset", int64(o.ScaledRefLayerBottomOffset))
			f.b(n+".RefRegionOffsetPresentFlag", o.RefRegionOffsetPresentFlag)
			f.i(n+".RefRegionLeftOffset", int64(o.RefRegionLeftOffset))
			f.i(n+".RefRegionTopOffset", int64(o.RefRegionTopOffset))
			f.i(n+".RefRegionRightOffset", int64(o.RefRegionRightOffset))
			f.i(n+".RefRegionBottomOffset", int64(o.RefRegionBottomOffset))
			f.b(n+".ResamplePhaseSetPresentFlag", o.ResamplePhaseSetPresentFlag)
			f.u(n+".PhaseHorLuma", uint64(o.PhaseHorLuma))
			f.u(n+".PhaseVerLuma", uint64(o.PhaseVerLuma))
			f.u(n+".PhaseHorChromaPlus8", uint64(o.PhaseHorChromaPlus8))
			f.u(n+".PhaseVerChromaPlus8", uint64(o.PhaseVerChromaPlus8))
		}
		f.b("Ml.ColourMappingEnabledFlag", m.ColourMappingEnabledFlag)
		if c := m.ColourMappingTable; c == nil {
			f.u("Ml.ColourMappingTable.present", 0)
		} else {
			f.u("Ml.ColourMappingTable.present", 1)
			f.u("Cm.NumCmRefLayersMinus1", uint64(c.NumCmRefLayersMinus1))
			f.u("Cm.RefLayerId.len", uint64(len(c.RefLayerId)))
			for i, x := range c.RefLayerId {
				f.u(fmt.Sprintf("Cm.RefLayerId[%d]", i), uint64(x))
			}
			f.u("Cm.OctantDepth", uint64(c.OctantDepth))
			f.u("Cm.YPartNumLog2", uint64(c.YPartNumLog2))
			f.u("Cm.LumaBitDepthCmInputMinus8", uint64(c.LumaBitDepthCmInputMinus8))
			f.u("Cm.ChromaBitDepthCmInputMinus8", uint64(c.ChromaBitDepthCmInputMinus8))
			f.u("Cm.LumaBitDepthCmOutputMinus8", uint64(c.LumaBitDepthCmOutputMinus8))
			f.u("Cm.ChromaBitDepthCmOutputMinus8", uint64(c.ChromaBitDepthCmOutputMinus8))
			f.u("Cm.ResQuantBits", uint64(c.ResQuantBits))
			f.u("Cm.DeltaFlcBitsMinus1", uint64(c.DeltaFlcBitsMinus1))
			f.i("Cm.AdaptThresholdUDelta", int64(c.AdaptThresholdUDelta))
			f.i("Cm.AdaptThresholdVDelta", int64(c.AdaptThresholdVDelta))
			type okey struct{ y, cb, cr uint64 }
			keys := make([]okey, 0, len(c.Octants))
			byKey := map[okey][4]hevc.Octant{}
			for k, v := range c.Octants {
				var kk okey
				fmt.Sscanf(k, "%d-%d-%d", &kk.y, &kk.cb, &kk.cr)
				keys = append(keys, kk)
				byKey[kk] = v
			}
			sort.Slice(keys, func(i, j int) bool {
				a, b := keys[i], keys[j]
				if a.y != b.y {
					return a.y < b.y
				}
				if a.cb != b.cb {
					return a.cb < b.cb
				}
				return a.cr < b.cr
			})
			f.u("Cm.Octants.len", uint64(len(keys)))
			for i, k := range keys {
				n := fmt.Sprintf("Cm.Octants[%d]", i)
				f.u(n+".idxShiftY", k.y)
				f.u(n+".idxCb", k.cb)
				f.u(n+".idxCr", k.cr)
				o := byKey[k]
				for j := 0; j < 4; j++ {
					f.b(fmt.Sprintf("%s[%d].CodedResFlag", n, j), o[j].CodedResFlag)
					for cc := 0; cc < 3; cc++ {
						f.u(fmt.Sprintf("%s[%d].ResCoeffQ[%d]", n, j, cc), uint64(o[j].CodedRes[cc].ResCoeffQ))
						f.u(fmt.Sprintf("%s[%d].ResCoeffR[%d]", n, j, cc), uint64(o[j].CodedRes[cc].ResCoeffR))
						f.b(fmt.Sprintf("%s[%d].ResCoeffS[%d]", n, j, cc), o[j].CodedRes[cc].ResCoeffS)
					}
				}
			}
		}
	}
	if d := p.D3Extension; d == nil {
		f.u("D3Extension.present", 0)
	} else {
		f.u("D3Extension.present", 1)
		f.b("D3.DltsPresentFlag", d.DltsPresentFlag)
		f.u("D3.NumDepthLayersMinus1", uint64(d.NumDepthLayersMinus1))
		f.u("D3.BitDepthForDepthLayersMinus8", uint64(d.BitDepthForDepthLayersMinus8))
		f.u("D3.DepthLayers.len", uint64(len(d.DepthLayers)))
		for i, l := range d.DepthLayers {
			n := fmt.Sprintf("D3.DepthLayers[%d]", i)
			f.b(n+".DltFlag", l.DltFlag)
			f.b(n+".DltPredFlag", l.DltPredFlag)
			f.b(n+".DltValFlagsPresentFlag", l.DltValFlagsPresentFlag)
			flatBools(f, n+".DltValueFlag", l.DltValueFlag)
			if dd := l.DeltaDlt; dd == nil {
				f.u(n+".DeltaDlt.present", 0)
			} else {
				f.u(n+".DeltaDlt.present", 1)
				f.u(n+".NumValDeltaDlt", uint64(dd.NumValDeltaDlt))
				f.u(n+".MaxDiff", uint64(dd.MaxDiff))
				f.u(n+".MinDiffMinus1", uint64(dd.MinDiffMinus1))
				f.u(n+".DeltaDltVal0", uint64(dd.DeltaDltVal0))
				flatUints(f, n+".DeltaValDiffMinusMin", dd.DeltaValDiffMinusMin)
			}
		}
	}
	return f
}

func runHPPS2(nalu []byte, arg string) (r result) {
	p := hx.Try(func() {
		s, err := hevc.ParsePPSNALUnit(in(nalu), hevcSpsIDMap(arg))
		if err != nil {
			r = result{outcome: "err", errStr: err.Error()}
			return
		}
		r = okResult(func() *flat { return flatHPPS2(s) })
	})
	if p != "" {
		r = result{outcome: "panic", errStr: p}
	}
	return r
}

// hevcMapsOf replays the history of an HSLICE case on the real API (see mapsOf).
func hevcMapsOf(arg string) (map[uint32]*hevc.SPS, map[uint32]*hevc.PPS) {
	spsMap := map[uint32]*hevc.SPS{}
	ppsMap := map[uint32]*hevc.PPS{}
	for _, op := range historyOps(arg) {
		k, v, _ := strings.Cut(op, ":")
		switch k {
		case "S":
			if s, err := hevc.ParseSPSNALUnit(in(hx.UnHex(v))); err == nil {
				spsMap[uint32(s.SpsID)] = s
			}
		case "P":
			if p, err := hevc.ParsePPSNALUnit(in(hx.UnHex(v)), spsMap); err == nil {
				ppsMap[p.PicParameterSetID] = p
			}
		case "DS":
			var id uint32
			fmt.Sscanf(v, "%d", &id)
			delete(spsMap, id)
		case "DP":
			var id uint32
			fmt.Sscanf(v, "%d", &id)
			delete(ppsMap, id)
		case "NS":
			spsMap = map[uint32]*hevc.SPS{}
		case "NP":
			ppsMap = map[uint32]*hevc.PPS{}
		}
	}
	return spsMap, ppsMap
}

func flatWeights(f *flat, name string, l []hevc.WeightingFactors) {
	f.u(name+".len", uint64(len(l)))
	for i, w := range l {
		n := fmt.Sprintf("%s[%d]", name, i)
		f.b(n+".LumaWeightFlag", w.LumaWeightFlag)
		f.b(n+".ChromaWeightFlag", w.ChromaWeightFlag)
		f.i(n+".DeltaLumaWeight", int64(w.DeltaLumaWeight))
		f.i(n+".LumaOffset", int64(w.LumaOffset))
		f.i(n+".DeltaChromaWeight[0]", int64(w.DeltaChromaWeight[0]))
		f.i(n+".DeltaChromaWeight[1]", int64(w.DeltaChromaWeight[1]))
		f.i(n+".DeltaChromaOffset[0]", int64(w.DeltaChromaOffset[0]))
		f.i(n+".DeltaChromaOffset[1]", int64(w.DeltaChromaOffset[1]))
	}
}

func flatU8s(f *flat, name string, l []uint8) {
	f.u(name+".len", uint64(len(l)))
	for i, x := range l {
		f.u(fmt.Sprintf("%s[%d]", name, i), uint64(x))
	}
}

func flatHSlice(h *hevc.SliceHeader) *flat {
	f := &flat{}
	f.u("SliceType", uint64(h.SliceType))
	f.b("FirstSliceSegmentInPicFlag", h.FirstSliceSegmentInPicFlag)
	f.b("NoOutputOfPriorPicsFlag", h.NoOutputOfPriorPicsFlag)
	f.u("PicParameterSetId", uint64(h.PicParameterSetId))
	f.b("DependentSliceSegmentFlag", h.DependentSliceSegmentFlag)
	f.u("SegmentAddress", uint64(h.SegmentAddress))
	f.b("PicOutputFlag", h.PicOutputFlag)
	f.u("ColourPlaneId", uint64(h.ColourPlaneId))
	f.u("PicOrderCntLsb", uint64(h.PicOrderCntLsb))
	f.b("ShortTermRefPicSetSpsFlag", h.ShortTermRefPicSetSpsFlag)
	flatRPS(f, "ShortTermRefPicSet", &h.ShortTermRefPicSet)
	f.u("ShortTermRefPicSetIdx", uint64(h.ShortTermRefPicSetIdx))
	f.u("NumLongTermSps", uint64(h.NumLongTermSps))
	f.u("NumLongTermPics", uint64(h.NumLongTermPics))
	f.u("LongTermRefPicSets.len", uint64(len(h.LongTermRefPicSets)))
	for i := range h.LongTermRefPicSets {
		flatLT(f, fmt.Sprintf("LongTermRefPicSets[%d]", i), &h.LongTermRefPicSets[i])
	}
	f.b("TemporalMvpEnabledFlag", h.TemporalMvpEnabledFlag)
	f.b("SaoLumaFlag", h.SaoLumaFlag)
	f.b("SaoChromaFlag", h.SaoChromaFlag)
	f.b("NumRefIdxActiveOverrideFlag", h.NumRefIdxActiveOverrideFlag)
	f.u("NumRefIdxL0ActiveMinus1", uint64(h.NumRefIdxL0ActiveMinus1))
	f.u("NumRefIdxL1ActiveMinus1", uint64(h.NumRefIdxL1ActiveMinus1))
	if m := h.RefPicListsModification; m == nil {
		f.u("RefPicListsModification.present", 0)
	} else {
		f.u("RefPicListsModification.present", 1)
		f.b("RefPicListModificationFlagL0", m.RefPicListModificationFlagL0)
		flatU8s(f, "ListEntryL0", m.ListEntryL0)
		f.b("RefPicListModificationFlagL1", m.RefPicListModificationFlagL1)
		flatU8s(f, "ListEntryL1", m.ListEntryL1)
	}
	f.b("MvdL1ZeroFlag", h.MvdL1ZeroFlag)
	f.b("CabacInitFlag", h.CabacInitFlag)
	f.b("CollocatedFromL0Flag", h.CollocatedFromL0Flag)
	f.u("CollocatedRefIdx", uint64(h.CollocatedRefIdx))
	if w := h.PredWeightTable; w == nil {
		f.u("PredWeightTable.present", 0)
	} else {
		f.u("PredWeightTable.present", 1)
		f.u("LumaLog2WeightDenom", uint64(w.LumaLog2WeightDenom))
		f.i("DeltaChromaLog2WeightDenom", int64(w.DeltaChromaLog2WeightDenom))
		flatWeights(f, "WeightsL0", w.WeightsL0)
		flatWeights(f, "WeightsL1", w.WeightsL1)
	}
	f.u("FiveMinusMaxNumMergeCand", uint64(h.FiveMinusMaxNumMergeCand))
	f.b("UseIntegerMvFlag", h.UseIntegerMvFlag)
	f.i("QpDelta", int64(h.QpDelta))
	f.i("CbQpOffset", int64(h.CbQpOffset))
	f.i("CrQpOffset", int64(h.CrQpOffset))
	f.i("ActYQpOffset", int64(h.ActYQpOffset))
	f.i("ActCbQpOffset", int64(h.ActCbQpOffset))
	f.i("ActCrQpOffset", int64(h.ActCrQpOffset))
	f.b("CuChromaQpOffsetEnabledFlag", h.CuChromaQpOffsetEnabledFlag)
	f.b("DeblockingFilterOverrideFlag", h.DeblockingFilterOverrideFlag)
	f.b("DeblockingFilterDisabledFlag", h.DeblockingFilterDisabledFlag)
	f.i("BetaOffsetDiv2", int64(h.BetaOffsetDiv2))
	f.i("TcOffsetDiv2", int64(h.TcOffsetDiv2))
	f.b("LoopFilterAcrossSlicesEnabledFlag", h.LoopFilterAcrossSlicesEnabledFlag)
	f.u("NumEntryPointOffsets", uint64(h.NumEntryPointOffsets))
	f.u("OffsetLenMinus1", uint64(h.OffsetLenMinus1))
	flatU32s(f, "EntryPointOffsetMinus1", h.EntryPointOffsetMinus1)
	f.u("SegmentHeaderExtensionLength", uint64(h.SegmentHeaderExtensionLength))
	flatU8s(f, "SegmentHeaderExtensionDataByte", h.SegmentHeaderExtensionDataByte)
	f.u("Size", uint64(h.Size))
	return f
}

func runHSlice(nalu []byte, arg string) (r result) {
	p := hx.Try(func() {
		spsMap, ppsMap := hevcMapsOf(arg)
		h, err := hevc.ParseSliceHeader(in(nalu), spsMap, ppsMap)
		if err != nil {
			r = result{outcome: "err", errStr: err.Error()}
			return
		}
		r = okResult(func() *flat { return flatHSlice(h) })
	})
	if p != "" {
		r = result{outcome: "panic", errStr: p}
	}
	return r
}

func flatHevcRec(f *flat, name string, d *hevc.DecConfRec) {
	f.u(name+".ConfigurationVersion", uint64(d.ConfigurationVersion))
	f.u(name+".GeneralProfileSpace", uint64(d.GeneralProfileSpace))
	f.b(name+".GeneralTierFlag", d.GeneralTierFlag)
	f.u(name+".GeneralProfileIDC", uint64(d.GeneralProfileIDC))
	f.u(name+".GeneralProfileCompatibilityFlags", uint64(d.GeneralProfileCompatibilityFlags))
	f.u(name+".GeneralConstraintIndicatorFlags", d.GeneralConstraintIndicatorFlags)
	f.u(name+".GeneralLevelIDC", uint64(d.GeneralLevelIDC))
	f.u(name+".MinSpatialSegmentationIDC", uint64(d.MinSpatialSegmentationIDC))
	f.u(name+".ParallellismType", uint64(d.ParallellismType))
	f.u(name+".ChromaFormatIDC", uint64(d.ChromaFormatIDC))
	f.u(name+".BitDepthLumaMinus8", uint64(d.BitDepthLumaMinus8))
	f.u(name+".BitDepthChromaMinus8", uint64(d.BitDepthChromaMinus8))
	f.u(name+".AvgFrameRate", uint64(d.AvgFrameRate))
	f.u(name+".ConstantFrameRate", uint64(d.ConstantFrameRate))
	f.u(name+".NumTemporalLayers", uint64(d.NumTemporalLayers))
	f.u(name+".TemporalIDNested", uint64(d.TemporalIDNested))
	f.u(name+".LengthSizeMinusOne", uint64(d.LengthSizeMinusOne))
	f.u(name+".NaluArrays.len", uint64(len(d.NaluArrays)))
	for i := range d.NaluArrays {
		a := &d.NaluArrays[i]
		n := fmt.Sprintf("%s.NaluArrays[%d]", name, i)
		f.u(n+".Complete", uint64(a.Complete()))
		f.u(n+".NaluType", uint64(a.NaluType()))
		f.u(n+".Nalus.len", uint64(len(a.Nalus)))
		for k, nalu := range a.Nalus {
			flatU8s(f, fmt.Sprintf("%s.Nalus[%d]", n, k), nalu)
		}
	}
}

func hexList(field string) [][]byte {
	if field == "" {
		return nil
	}
	var l [][]byte
	for _, h := range strings.Split(field, ",") {
		l = append(l, hx.UnHex(h))
	}
	return l
}

// runHConf: CreateHEVCDecConfRec -> record, Size, Encode, DecodeHEVCDecConfRec(Encode), CodecString("hvc1", sps)
func runHConf(arg string) (r result) {
	p := hx.Try(func() {
		parts := strings.Split(arg, ";")
		if len(parts) != 4 || len(parts[3]) != 4 {
			r = result{outcome: "badarg"}
			return
		}
		vps, sps, pps := hexList(parts[0]), hexList(parts[1]), hexList(parts[2])
		fl := parts[3]
		d, err := hevc.CreateHEVCDecConfRec(inList(vps), inList(sps), inList(pps), fl[0] == '1', fl[1] == '1', fl[2] == '1', fl[3] == '1')
		if err != nil {
			r = result{outcome: "err", errStr: err.Error()}
			return
		}
		s, serr := hevc.ParseSPSNALUnit(sps[0])
		var bad *result // an "err" outcome found while flattening
		res := okResult(func() *flat {
			f := &flat{}
			flatHevcRec(f, "Rec", &d)
			f.u("Size", d.Size())
			var buf bytes.Buffer
			if err := d.Encode(&buf); err != nil {
				bad = &result{outcome: "err", errStr: "encode: " + err.Error()}
				return f
			}
			checkEncodeHEVC(&d, buf.Bytes())
			flatU8s(f, "Encoded", buf.Bytes())
			d2, err := hevc.DecodeHEVCDecConfRec(hx.Exact(buf.Bytes()))
			if err != nil {
				bad = &result{outcome: "err", errStr: "decode(encode): " + err.Error()}
				return f
			}
			flatHevcRec(f, "Decoded", &d2)
			if serr != nil {
				bad = &result{outcome: "err", errStr: serr.Error()}
				return f
			}
			flatU8s(f, "CodecString", []byte(hevc.CodecString("hvc1", s)))
			return f
		})
		if bad != nil {
			r = *bad
			return
		}
		r = res
	})
	if p != "" {
		r = result{outcome: "panic", errStr: p}
	}
	return r
}

func runHConfD(data []byte) (r result) {
	p := hx.Try(func() {
		d, err := hevc.DecodeHEVCDecConfRec(inView(data))
		if err != nil {
			r = result{outcome: "err", errStr: err.Error()}
			return
		}
		r = okResult(func() *flat {
			f := &flat{}
			flatHevcRec(f, "Rec", &d)
			var buf bytes.Buffer
			if err := d.Encode(&buf); err == nil {
				checkEncodeHEVC(&d, buf.Bytes())
			}
			return f
		})
	})
	if p != "" {
		r = result{outcome: "panic", errStr: p}
	}
	return r
}

// runInit: TrakBox.SetAVCDescriptor / SetHEVCDescriptor on an empty video track: track-header width/height (16.16),
// sample-entry width/height, the configuration record in the sample entry and its encoding.
func runInit(kind, arg string) (r result) {
	p := hx.Try(func() {
		parts := strings.Split(arg, ";")
		init := mp4.CreateEmptyInit()
		init.AddEmptyTrack(90000, "video", "und")
		trak := init.Moov.Trak
		var bad *result
		if kind == "AINIT" {
			if len(parts) != 3 || len(parts[2]) != 2 {
				r = result{outcome: "badarg"}
				return
			}
			typ := "avc3"
			if parts[2][0] == '1' {
				typ = "avc1"
			}
			if err := trak.SetAVCDescriptor(typ, inList(unhexList(parts[0])), inList(unhexList(parts[1])), parts[2][1] == '1'); err != nil {
				r = result{outcome: "err", errStr: err.Error()}
				return
			}
			r = okResult(func() *flat {
				f := &flat{}
				e := trak.Mdia.Minf.Stbl.Stsd.AvcX
				f.u("Tkhd.Width", uint64(trak.Tkhd.Width))
				f.u("Tkhd.Height", uint64(trak.Tkhd.Height))
				f.u("Entry.Width", uint64(e.Width))
				f.u("Entry.Height", uint64(e.Height))
				flatConfRec(f, "avcC", &e.AvcC.DecConfRec)
				var buf bytes.Buffer
				if err := e.AvcC.DecConfRec.Encode(&buf); err != nil {
					f.u("avcC.encoded", 0)
				} else {
					f.u("avcC.encoded", 1)
					flatBytes(f, "avcC.bytes", buf.Bytes())
					checkEncodeAVC(&e.AvcC.DecConfRec, buf.Bytes())
				}
				return f
			})
		} else {
			if len(parts) != 4 || len(parts[3]) != 2 {
				r = result{outcome: "badarg"}
				return
			}
			typ := "hev1"
			if parts[3][0] == '1' {
				typ = "hvc1"
			}
			if err := trak.SetHEVCDescriptor(typ, inList(hexList(parts[0])), inList(hexList(parts[1])), inList(hexList(parts[2])), nil, parts[3][1] == '1'); err != nil {
				r = result{outcome: "err", errStr: err.Error()}
				return
			}
			r = okResult(func() *flat {
				f := &flat{}
				e := trak.Mdia.Minf.Stbl.Stsd.HvcX
				f.u("Tkhd.Width", uint64(trak.Tkhd.Width))
				f.u("Tkhd.Height", uint64(trak.Tkhd.Height))
				f.u("Entry.Width", uint64(e.Width))
				f.u("Entry.Height", uint64(e.Height))
				flatHevcRec(f, "hvcC", &e.HvcC.DecConfRec)
				var buf bytes.Buffer
				if err := e.HvcC.DecConfRec.Encode(&buf); err != nil {
					bad = &result{outcome: "err", errStr: "encode: " + err.Error()}
					return f
				}
				checkEncodeHEVC(&e.HvcC.DecConfRec, buf.Bytes())
				flatU8s(f, "hvcC.bytes", buf.Bytes())
				return f
			})
		}
		if bad != nil {
			r = *bad
		}
	})
	if p != "" {
		r = result{outcome: "panic", errStr: p}
	}
	return r
}

// runHevcCase runs the implementation on one HEVC case (kind starts with "H").
func runHevcCase(c caseLine, nalu []byte) result {
	switch c.kind {
	case "HSPS":
		return runHSPS(nalu)
	case "HPPS":
		return runHPPS(nalu, c.arg)
	case "HPPS2":
		return runHPPS2(nalu, c.arg)
	case "HSLICE":
		return runHSlice(nalu, c.arg)
	case "HCONF":
		return runHConf(c.arg)
	case "HCONFD":
		return runHConfD(nalu)
	case "AINIT", "HINIT":
		return runInit(c.kind, c.arg)
	}
	return result{outcome: "badkind"}
}

// hevcSiteOf names the Go function under test for a kind.
func hevcSiteOf(kind string) string {
	switch kind {
	case "HSPS":
		return "hevc.ParseSPSNALUnit"
	case "HPPS", "HPPS2":
		return "hevc.ParsePPSNALUnit"
	case "HSLICE":
		return "hevc.ParseSliceHeader"
	case "HCONF":
		return "hevc.CreateHEVCDecConfRec"
	case "HCONFD":
		return "hevc.DecodeHEVCDecConfRec"
	case "AINIT":
		return "mp4.TrakBox.SetAVCDescriptor"
	case "HINIT":
		return "mp4.TrakBox.SetHEVCDescriptor"
	}
	return "hevc." + kind
}

// classifyHevc maps the list of mismatching field names of a failing HEVC case to a failure class ("" = default).
func classifyHevc(c caseLine, bad []string) string {

	return ""
}

// parameter-set NAL units inside hvcC boxes found by a byte scan (independent of the mp4 package)
func scanHvcC(data []byte) [][]byte {
	var nalus [][]byte
	idx := 0
	for {
		k := bytes.Index(data[idx:], []byte("hvcC"))
		if k < 0 {
			break
		}
		p := idx + k + 4
		idx = p
		if p+23 > len(data) || data[p] != 1 {
			continue
		}
		nArr := int(data[p+22])
		q := p + 23
	arrays:
		for a := 0; a < nArr; a++ {
			if q+3 > len(data) {
				break
			}
			cnt := int(data[q+1])<<8 | int(data[q+2])
			q += 3
			for i := 0; i < cnt; i++ {
				if q+2 > len(data) {
					break arrays
				}
				l := int(data[q])<<8 | int(data[q+1])
				q += 2
				if l == 0 || q+l > len(data) {
					break arrays
				}
				nalus = append(nalus, data[q:q+l])
				q += l
			}
		}
	}
	return nalus
}

// capturedHevc returns observation cases (id prefix "c", g "0", exp "-") for the HEVC parameter sets found in the repository.
func capturedHevc(repo string) []caseLine {
	var files []string
	_ = filepath.Walk(repo, func(path string, info os.FileInfo, err error) error {
		if err != nil {
			return nil
		}
		if info.IsDir() {
			if info.Name() == ".git" {
				return filepath.SkipDir
			}
			return nil
		}
		switch filepath.Ext(path) {
		case ".265", ".h265", ".hevc", ".mp4", ".cmfv", ".m4s", ".mp4s":
			if info.Size() < 64<<20 {
				files = append(files, path)
			}
		}
		return nil
	})
	sort.Strings(files)
	seen := map[string]bool{}
	var spss, ppss []string
	var slices []caseLine
	for _, path := range files {
		data, err := os.ReadFile(path)
		if err != nil {
			continue
		}
		var nalus [][]byte
		switch filepath.Ext(path) {
		case ".265", ".h265", ".hevc":
			nalus = splitAnnexB(data)
		default:
			nalus = scanHvcC(data)
		}
		var fileSps, filePps []string
		for _, n := range nalus {
			if len(n) < 3 {
				continue
			}
			t := (n[0] >> 1) & 0x3f
			h := hx.Hex(n)
			switch t {
			case 33:
				fileSps = append(fileSps, h)
			case 34:
				filePps = append(filePps, h)
			}
			if seen[h] {
				continue
			}
			seen[h] = true
			switch t {
			case 33:
				spss = append(spss, h)
			case 34:
				ppss = append(ppss, h)
			default:
				// slice segments of elementary streams, with the parameter sets of the same file
				if (t <= 9 || (t >= 16 && t <= 21)) && len(fileSps) > 0 && len(filePps) > 0 && len(slices) < 40 {
					if len(n) > 64 {
						n = n[:64]
					}
					slices = append(slices, caseLine{"HSLICE", "", strings.Join(fileSps, ",") + ";" + strings.Join(filePps, ","),
						hx.Hex(n), "0", "-"})
				}
			}
		}
	}
	var cs []caseLine
	k := 0
	for _, h := range spss {
		cs = append(cs, caseLine{"HSPS", fmt.Sprintf("ch%d", k), "-", h, "0", "-"})
		k++
	}
	var all []string
	for i := 0; i < 16; i++ {
		all = append(all, fmt.Sprintf("%d", i))
	}
	for _, h := range ppss {
		cs = append(cs, caseLine{"HPPS", fmt.Sprintf("ch%d", k), strings.Join(all, ","), h, "0", "-"})
		k++
		// the same captured PPS through the model with the multilayer / 3D extension branches
		cs = append(cs, caseLine{"HPPS2", fmt.Sprintf("ch%d", k), strings.Join(all, ","), h, "0", "-"})
		k++
	}
	for _, c := range slices {
		c.id = fmt.Sprintf("ch%d", k)
		cs = append(cs, c)
		k++
	}
	return cs
}
