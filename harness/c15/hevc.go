// HEVC part of the C15 harness: kinds HSPS / HPPS / HSLICE ...
package main

// runHevcCase runs the implementation on one HEVC case (kind starts with "H").
func runHevcCase(c caseLine, nalu []byte) result {
	return result{outcome: "badkind"}
}

// hevcSiteOf names the Go function under test for a kind.
func hevcSiteOf(kind string) string { return "hevc." + kind }

// classifyHevc maps the list of mismatching field names of a failing HEVC case to a failure class ("" = default).
func classifyHevc(c caseLine, bad []string) string { return "" }

// capturedHevc returns observation cases (id prefix "c", g "0", exp "-") for the HEVC parameter sets found in the repository.
func capturedHevc(repo string) []caseLine { return nil }
