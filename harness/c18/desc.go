// The esds descriptor layer (mp4/descriptors.go) for C18: generated descriptor trees with size fields of 1..4
// (and more) bytes, optional ES fields, further descriptors of any tag, nested DecoderConfigDescriptors, trailing
// unknown data; malformed variants.  corr: DecodeESDescriptor / DecodeDescriptor / DecodeBox(esds) observables for
// the model; search: a configuration carried by ANY well-formed esds shape comes back as itself and the decoded
// descriptor re-encodes to the bytes it was read from.
package main

import (
	"bytes"
	"fmt"
	"strings"

	"github.com/Eyevinn/mp4ff/aac"
	"github.com/Eyevinn/mp4ff/bits"
	"github.com/Eyevinn/mp4ff/mp4"
	"verifharness/hx"
)

// ---------------------------------------------------------------- generated trees and their own serializer

type gdesc struct {
	tag      byte
	sfs      int
	ot, st   byte
	buf      uint32
	maxbr    uint32
	avgbr    uint32
	children []*gdesc
	data     []byte // tag 5: DecConfig; tag 6: ConfigValue + MoreData; tag 4: trailing unknown bytes; other: payload
	nofit    bool   // keep a size field too narrow for the payload (malformed stream only)
}

// fitSfs: the smallest size-field width >= sfs that holds size
func fitSfs(size int, sfs int) int {
	for sfs < 9 && size >= 1<<uint(7*(sfs+1)) {
		sfs++
	}
	return sfs
}

func sizeField(size uint64, sfs int) []byte {
	var b []byte
	for i := sfs; i >= 0; i-- {
		var v byte
		if 7*i < 64 {
			v = byte(size>>uint(7*i)) & 0x7f
		}
		if i > 0 {
			v |= 0x80
		}
		b = append(b, v)
	}
	return b
}

func be32b(v uint32) []byte { return []byte{byte(v >> 24), byte(v >> 16), byte(v >> 8), byte(v)} }

func (g *gdesc) payload() []byte {
	if g.tag != 4 {
		return g.data
	}
	p := []byte{g.ot}
	p = append(p, be32b(uint32(g.st)<<24|g.buf&0xffffff)...)
	p = append(p, be32b(g.maxbr)...)
	p = append(p, be32b(g.avgbr)...)
	for _, c := range g.children {
		p = append(p, c.bytes()...)
	}
	return append(p, g.data...)
}

func (g *gdesc) bytes() []byte {
	p := g.payload()
	sfs := g.sfs
	if !g.nofit {
		sfs = fitSfs(len(p), sfs)
	}
	b := append([]byte{g.tag}, sizeField(uint64(len(p)), sfs)...)
	return append(b, p...)
}

type ges struct {
	sfs      int
	id       uint16
	flags    byte
	dep, ocr uint16
	url      []byte
	dcd      *gdesc
	children []*gdesc
	unknown  []byte
}

func (e *ges) bytes() []byte {
	p := []byte{byte(e.id >> 8), byte(e.id), e.flags}
	if e.flags>>7 == 1 {
		p = append(p, byte(e.dep>>8), byte(e.dep))
	}
	if (e.flags>>6)&1 == 1 {
		p = append(p, byte(len(e.url)))
		p = append(p, e.url...)
	}
	if (e.flags>>5)&1 == 1 {
		p = append(p, byte(e.ocr>>8), byte(e.ocr))
	}
	p = append(p, e.dcd.bytes()...)
	for _, c := range e.children {
		p = append(p, c.bytes()...)
	}
	p = append(p, e.unknown...)
	b := append([]byte{3}, sizeField(uint64(len(p)), fitSfs(len(p), e.sfs))...)
	return append(b, p...)
}

func genSfs(r *hx.Rng) int {
	switch r.Intn(12) {
	case 0, 1, 2, 3:
		return 0
	case 4, 5:
		return 1
	case 6:
		return 2
	case 7, 8, 9:
		return 3 // what ffmpeg / GPAC write: 80 80 80 xx
	case 10:
		return r.Range(4, 10)
	default:
		return r.Pick(0, 3, 255, 256, 259, 300) // sizeFieldSizeMinus1 is a byte: 256 continuation bytes wrap it
	}
}

var rawTags = []int{0, 1, 2, 7, 8, 9, 0x0e, 0x13, 0x7f, 0x80, 0xfe, 0xff}

// genDesc: a random descriptor (wide = also shapes that are legal for the decoder but that the well-formed search
// does not use: empty payloads, tag 3 inside, deep nesting)
func genDesc(r *hx.Rng, depth int, wide bool) *gdesc {
	g := &gdesc{sfs: genSfs(r), nofit: wide && r.Intn(8) == 0}
	if !wide && g.sfs > 200 {
		g.sfs = 3
	}
	switch k := r.Intn(8); {
	case k == 0 && depth < 3:
		g.tag, g.ot, g.st = 4, byte(r.Pick(0x40, 0x67, int(byte(r.U64())))), byte(r.Pick(0x15, int(byte(r.U64()))))
		g.buf, g.maxbr, g.avgbr = uint32(r.Intn(1<<24)), uint32(r.U64()), uint32(r.U64())
		for n := r.Intn(3); n > 0; n-- {
			g.children = append(g.children, genDesc(r, depth+1, wide))
		}
	case k <= 2:
		g.tag, g.data = 5, r.Bytes(r.Range(0, 12), nil)
	case k <= 4:
		g.tag, g.data = 6, append([]byte{byte(r.Pick(2, int(byte(r.U64()))))}, r.Bytes(r.Pick(0, 0, 1, 3, 9), nil)...)
		if wide && r.Intn(6) == 0 {
			g.data = nil // size 0: the decoder still reads a ConfigValue
		}
	default:
		g.tag, g.data = byte(rawTags[r.Intn(len(rawTags))]), r.Bytes(r.Pick(0, 1, 2, 5, 17, 130), nil)
		if wide && r.Intn(10) == 0 {
			g.tag = 3
		}
	}
	return g
}

// genES: an ES descriptor around the DecoderSpecificInfo dc
func genES(r *hx.Rng, dc []byte, wide bool) *ges {
	e := &ges{sfs: genSfs(r), id: uint16(r.Pick(1, 0, 0xffff, r.Intn(65536))), flags: byte(r.Pick(0, 0, 0, 0x1f, int(byte(r.U64()))))}
	if !wide && e.sfs > 200 {
		e.sfs = 3
	}
	e.dep, e.ocr = uint16(r.U64()), uint16(r.U64())
	if e.flags>>7 != 1 {
		e.dep = 0
	}
	if (e.flags>>5)&1 != 1 {
		e.ocr = 0
	}
	if (e.flags>>6)&1 == 1 {
		e.url = r.Bytes(r.Pick(0, 1, 7, 40, 255), []byte("abcdefghijklmnop:/."))
	}
	d := &gdesc{tag: 4, sfs: genSfs(r), ot: 0x40, st: 0x15, buf: uint32(r.Pick(0, r.Intn(1<<24))), maxbr: uint32(r.Pick(0, 128000, int(uint32(r.U64())))),
		avgbr: uint32(r.Pick(0, 96000, int(uint32(r.U64()))))}
	if !wide && d.sfs > 200 {
		d.sfs = 1
	}
	if r.Intn(4) == 0 {
		d.ot, d.st = byte(r.U64()), byte(r.U64())
	}
	if dc != nil {
		dsi := &gdesc{tag: 5, sfs: genSfs(r) % 11, data: dc}
		d.children = append(d.children, dsi)
		for n := r.Pick(0, 0, 0, 1, 2); n > 0; n-- {
			d.children = append(d.children, genDesc(r, 1, wide))
		}
	} else if wide {
		for n := r.Pick(0, 1, 2); n > 0; n-- {
			d.children = append(d.children, genDesc(r, 1, wide))
		}
	}
	e.dcd = d
	switch r.Intn(6) {
	case 0: // no SLConfigDescriptor at all
	case 1: // other descriptors first
		for n := r.Range(1, 3); n > 0; n-- {
			e.children = append(e.children, genDesc(r, 1, wide))
		}
	default:
		e.children = append(e.children, &gdesc{tag: 6, sfs: genSfs(r) % 11, data: append([]byte{2}, r.Bytes(r.Pick(0, 0, 0, 2), nil)...)})
		for n := r.Pick(0, 0, 1, 2); n > 0; n-- {
			e.children = append(e.children, genDesc(r, 1, wide))
		}
	}
	if r.Intn(5) == 0 {
		e.unknown = r.Bytes(1, nil) // one byte cannot be a descriptor: kept as UnknownData
		if wide {
			e.unknown = r.Bytes(r.Range(1, 6), nil)
		}
	}
	return e
}

// ---------------------------------------------------------------- projections of the decoded Go values

func encDesc(d mp4.Descriptor) []byte {
	sw := bits.NewFixedSliceWriter(int(d.SizeSize()))
	if err := d.EncodeSW(sw); err != nil {
		return nil
	}
	return sw.Bytes()
}

func descList(ds []mp4.Descriptor) string {
	ss := make([]string, len(ds))
	for i, d := range ds {
		ss[i] = descStr(d)
	}
	return "[" + strings.Join(ss, "+") + "]"
}

func descStr(d mp4.Descriptor) string {
	sfs := d.SizeSize() - d.Size() - 2
	switch x := d.(type) {
	case *mp4.DecoderConfigDescriptor:
		var cs []mp4.Descriptor
		if x.DecSpecificInfo != nil {
			cs = append(cs, x.DecSpecificInfo)
		}
		cs = append(cs, x.OtherDescriptors...)
		return fmt.Sprintf("4(%d,%d,%d,%d,%d,%d,%s,%s)", sfs, x.ObjectType, x.StreamType, x.BufferSizeDB, x.MaxBitrate, x.AvgBitrate,
			descList(cs), hx.Hex(x.UnknownData))
	case *mp4.DecSpecificInfoDescriptor:
		return fmt.Sprintf("5(%d,%s)", sfs, hx.Hex(x.DecConfig))
	case *mp4.SLConfigDescriptor:
		return fmt.Sprintf("6(%d,%d,%s)", sfs, x.ConfigValue, hx.Hex(x.MoreData))
	default:
		b := encDesc(d)
		data := "?"
		if b != nil && uint64(len(b)) == d.SizeSize() {
			data = hx.Hex(b[2+sfs:])
		}
		return fmt.Sprintf("R(%d,%d,%s)", d.Tag(), sfs, data)
	}
}

func esStr(e *mp4.ESDescriptor) string {
	var cs []mp4.Descriptor
	if e.SLConfigDescriptor != nil {
		cs = append(cs, e.SLConfigDescriptor)
	}
	cs = append(cs, e.OtherDescriptors...)
	dcd := "nil"
	if e.DecConfigDescriptor != nil {
		dcd = descStr(e.DecConfigDescriptor)
	}
	return fmt.Sprintf("E(%d,%d,%d,%d,%s,%d,%s,%s,%s)", e.SizeSize()-e.Size()-2, e.EsID, e.FlagsAndPriority, e.DependsOnEsID,
		hx.Hex([]byte(e.URLString)), e.OCResID, dcd, descList(cs), hx.Hex(e.UnknownData))
}

func esDecConfig(e *mp4.ESDescriptor) []byte {
	if e.DecConfigDescriptor == nil || e.DecConfigDescriptor.DecSpecificInfo == nil {
		return nil
	}
	return e.DecConfigDescriptor.DecSpecificInfo.DecConfig
}

// obsES: mp4.DecodeESDescriptor on a FixedSliceReader over b
func obsES(b []byte) string {
	var ed mp4.ESDescriptor
	var err error
	var sr bits.SliceReader
	var re []byte
	p := hx.Try(func() {
		sr = bits.NewFixedSliceReader(hx.Exact(b))
		ed, err = mp4.DecodeESDescriptor(sr, uint32(len(b)))
		if err == nil {
			re = encDesc(&ed)
		}
	})
	if p != "" {
		return "panic"
	}
	if err != nil {
		return "err"
	}
	return fmt.Sprintf("ok/%s/%d/%d/%s", esStr(&ed), sr.GetPos(), b2i(sr.AccError() != nil), hx.Hex(re))
}

func obsDesc(b []byte, maxNr int) string {
	var d mp4.Descriptor
	var err error
	var sr bits.SliceReader
	var re []byte
	p := hx.Try(func() {
		sr = bits.NewFixedSliceReader(hx.Exact(b))
		d, err = mp4.DecodeDescriptor(sr, maxNr)
		if err == nil {
			re = encDesc(d)
		}
	})
	if p != "" {
		return "panic"
	}
	if err != nil {
		return "err"
	}
	return fmt.Sprintf("ok/%s/%d/%d/%s", descStr(d), sr.GetPos(), b2i(sr.AccError() != nil), hx.Hex(re))
}

// obsEsdsBox: mp4.DecodeBox (kind 0) / mp4.DecodeBoxSR (kind 1) on the bytes of an esds box
func obsEsdsBox(kind int, b []byte) string {
	var box mp4.Box
	var err error
	var re []byte
	p := hx.Try(func() {
		if kind == 0 {
			box, err = mp4.DecodeBox(0, bytes.NewReader(hx.Exact(b)))
		} else {
			box, err = mp4.DecodeBoxSR(0, bits.NewFixedSliceReader(hx.Exact(b)))
		}
		if err == nil {
			re, _ = encodeBox(box)
		}
	})
	if p != "" {
		return "panic"
	}
	if err != nil {
		return "err"
	}
	e, ok := box.(*mp4.EsdsBox)
	if !ok {
		return "other"
	}
	dc := "nil"
	if esDecConfig(&e.ESDescriptor) != nil {
		dc = hx.Hex(esDecConfig(&e.ESDescriptor))
	}
	return fmt.Sprintf("ok/%d/%s/%s/%s", uint32(e.Version)<<24|e.Flags, esStr(&e.ESDescriptor), hx.Hex(re), dc)
}

func esdsBoxBytes(vf uint32, es []byte) []byte {
	b := be32b(uint32(12 + len(es)))
	b = append(b, 'e', 's', 'd', 's')
	b = append(b, be32b(vf)...)
	return append(b, es...)
}

func emitDE(b []byte) {
	fmt.Fprintf(out, "DE\t%s\t%s\t%s\n", nextID("de"), hx.Hex(b), obsES(b))
}

func emitDG(b []byte, maxNr int) {
	fmt.Fprintf(out, "DG\t%s\t%d\t%s\t%s\n", nextID("dg"), maxNr, hx.Hex(b), obsDesc(b, maxNr))
}

func emitEB(b []byte) {
	fmt.Fprintf(out, "EB\t%s\t%s\t%s\t%s\n", nextID("eb"), hx.Hex(b), obsEsdsBox(0, b), obsEsdsBox(1, b))
}

func mutate(r *hx.Rng, b []byte) []byte {
	b = append([]byte{}, b...)
	if len(b) == 0 {
		return b
	}
	switch r.Intn(8) {
	case 0:
		b[r.Intn(len(b))] = byte(r.U64())
	case 1: // a byte near the front: tags, size fields, flags
		i := r.Intn(min(len(b), 24))
		b[i] = byte(int(b[i]) + r.Pick(-2, -1, 1, 2, 0x80, -0x80))
	case 2:
		b = b[:r.Intn(len(b))]
	case 3:
		b = append(b, r.Bytes(r.Range(1, 6), nil)...)
	case 4: // a size byte becomes a continuation byte / loses its continuation bit
		i := r.Intn(len(b))
		b[i] ^= 0x80
	case 5: // insert bytes
		i := r.Intn(len(b))
		b = append(b[:i], append(r.Bytes(r.Range(1, 3), []byte{0x80, 0x00, 0x03, 0x04, 0x05, 0x06, 0xff}), b[i:]...)...)
	case 6: // delete a byte
		i := r.Intn(len(b))
		b = append(b[:i], b[i+1:]...)
	default: // a tag byte somewhere
		i := r.Intn(len(b))
		b[i] = byte(r.Pick(3, 4, 5, 6, 0, 0x80))
	}
	return b
}

func min(a, b int) int {
	if a < b {
		return a
	}
	return b
}

func corrDesc(r *hx.Rng, n int, thorough bool) {
	fs := explicitFreqs(r, 8)
	for i := 0; i < n*2; i++ {
		var dc []byte
		switch r.Intn(4) {
		case 0:
			dc = r.Bytes(r.Range(0, 20), nil)
		case 1: // no DecoderSpecificInfo
		default:
			_, dc = encodeASC(randCanonicalASC(r, fs))
		}
		es := genES(r, dc, i%2 == 0).bytes()
		emitDE(es)
		if i%3 == 0 {
			emitDE(append(append([]byte{}, es...), r.Bytes(r.Range(1, 4), nil)...)) // bytes after the descriptor
		}
		box := esdsBoxBytes(uint32(r.Pick(0, 0, 1<<24, int(uint32(r.U64())))), es)
		emitEB(box)
		for k := 0; k < 3; k++ {
			emitDE(mutate(r, es))
			emitEB(mutate(r, box))
		}
		if i%4 == 0 {
			for l := 0; l < len(es) && l < 48; l++ {
				emitDE(es[:l])
			}
		}
	}
	for i := 0; i < n*2; i++ {
		d := genDesc(r, r.Intn(3), true).bytes()
		maxNr := len(d) + r.Pick(0, 0, 0, 1, 5, -1, -2, -len(d), 1000)
		emitDG(d, maxNr)
		emitDG(mutate(r, d), r.Pick(len(d), len(d)+2, 2, 1, 0, -3, 1<<40))
	}
	// exhaustive small scope: every 1-byte and a grid of 2/3-byte inputs after an ES tag
	for x := 0; x < 256; x++ {
		emitDE([]byte{byte(x)})
		emitDE([]byte{3, byte(x)})
		emitDE([]byte{3, byte(x), 0, 1, 0})
		emitDG([]byte{byte(x), 1, 7}, 3)
		emitDG([]byte{4, byte(x), 0x40, 0x15, 0, 0, 0, 0, 0, 0, 0, 0, 0, 0, 0, 5, 2, 0x12, 0x10}, 19)
		emitDE([]byte{3, 25, 0, 1, byte(x), 4, 17, 0x40, 0x15, 0, 0, 0, 0, 0, 0, 0, 0, 0, 0, 0, 5, 2, 0x12, 0x10, 6, 1, 2})
	}
	for i := 0; i < n; i++ {
		b := r.Bytes(r.Range(0, 40), []byte{0, 1, 2, 3, 4, 5, 6, 0x80, 0x81, 0x7f, 0xff, 0x10, 0x40})
		if len(b) > 0 && r.Intn(3) > 0 {
			b[0] = 3
		}
		emitDE(b)
		emitDG(b, r.Pick(len(b), 2, 100))
	}
}

// ---------------------------------------------------------------- search: any well-formed esds shape

// checkEsdsShape: the configuration a travels as DecoderSpecificInfo of the generated ES descriptor e: decoding it
// (descriptor alone, inside an esds box, inside an mp4a entry; reader and slice-reader paths) must give a, the decoded
// value must re-encode to the bytes it was read from, and decoding the re-encoded entry must give a again
func checkEsdsShape(a *aac.AudioSpecificConfig, e *ges, seedNote string) {
	checkEsdsBytes(a, e.bytes())
}

// replayEsds re-evaluates a recorded witness: the configuration is the one the recorded descriptor carries
func replayEsds(es []byte) {
	var a *aac.AudioSpecificConfig
	p := hx.Try(func() {
		ed, err := mp4.DecodeESDescriptor(bits.NewFixedSliceReader(hx.Exact(es)), uint32(len(es)))
		if err == nil && esDecConfig(&ed) != nil {
			a, _ = aac.DecodeAudioSpecificConfig(bytes.NewReader(esDecConfig(&ed)))
		}
	})
	if p != "" || a == nil {
		evals++
		fail("esds-descriptors", "esds-decode", "esds="+hx.Hex(es), "the recorded well-formed descriptor does not decode to a configuration")
		return
	}
	checkEsdsBytes(a, es)
}

func checkEsdsBytes(a *aac.AudioSpecificConfig, es []byte) {
	evals++
	w := "esds=" + hx.Hex(es)
	noteInput('D', nil, es)
	_, dc := encodeASC(a)
	msg, class := "", "esds-config"
	p := hx.Try(func() {
		sr := bits.NewFixedSliceReader(hx.Exact(es))
		ed, err := mp4.DecodeESDescriptor(sr, uint32(len(es)))
		if err != nil || sr.AccError() != nil {
			class, msg = "esds-decode", fmt.Sprintf("DecodeESDescriptor rejects a well-formed descriptor (%v)", err)
			return
		}
		if !bytes.Equal(esDecConfig(&ed), dc) {
			msg = fmt.Sprintf("DecSpecificInfo holds %s, the descriptor was built around %s", hx.Hex(esDecConfig(&ed)), hx.Hex(dc))
			return
		}
		if re := encDesc(&ed); !bytes.Equal(re, es) {
			class, msg = "esds-reencode", "the decoded descriptor re-encodes to "+hx.Hex(re)
			return
		}
		box := esdsBoxBytes(0, es)
		entry := mp4.CreateAudioSampleEntryBox("mp4a", uint16(a.ChannelConfiguration), 16, 48000, nil)
		for k := 0; k < 2; k++ {
			var bx mp4.Box
			if k == 0 {
				bx, err = mp4.DecodeBox(0, bytes.NewReader(hx.Exact(box)))
			} else {
				bx, err = mp4.DecodeBoxSR(0, bits.NewFixedSliceReader(hx.Exact(box)))
			}
			if err != nil {
				class, msg = "esds-decode", "DecodeBox rejects the esds box: "+err.Error()
				return
			}
			esds, ok := bx.(*mp4.EsdsBox)
			if !ok {
				class, msg = "esds-decode", "DecodeBox does not return an EsdsBox"
				return
			}
			if re, _ := encodeBox(esds); !bytes.Equal(re, box) {
				class, msg = "esds-reencode", "the decoded esds box re-encodes to "+hx.Hex(re)
				return
			}
			if k == 0 {
				entry.AddChild(esds)
			}
		}
		eb, err := encodeBox(entry)
		if err != nil || uint64(len(eb)) != entry.Size() {
			class, msg = "esds-reencode", "the mp4a entry around the decoded esds box does not encode to its Size()"
			return
		}
		for k := 0; k < 2; k++ {
			got, e := configOfEntryBytes(k, eb)
			if e != "" {
				class, msg = "esds-decode", "mp4a entry around the esds box: "+e
				return
			}
			if *got != *a {
				msg = fmt.Sprintf("the entry decodes to %+v, it carries %+v", *got, *a)
				return
			}
		}
	})
	if p != "" {
		fail("esds-descriptors", "esds-panic", w, p)
		return
	}
	if msg != "" {
		fail("esds-descriptors", class, w, msg)
		return
	}
	hygDesc(es, w) // cross-cutting oracles: hygiene.go
}

func searchDesc(r *hx.Rng, n int, thorough bool) {
	fs := explicitFreqs(r, 8)
	// every table configuration under the four size-field widths on every level
	for _, ot := range objTypes {
		for fi, f := range tableFreqs {
			for sfs := 0; sfs < 4; sfs++ {
				a := canonicalASC(ot, byte((fi+sfs)%16), f, tableFreqs[(fi+3)%13])
				_, dc := encodeASC(a)
				e := &ges{sfs: sfs, id: 1, dcd: &gdesc{tag: 4, sfs: sfs, ot: 0x40, st: 0x15, children: []*gdesc{{tag: 5, sfs: sfs, data: dc}}},
					children: []*gdesc{{tag: 6, sfs: sfs, data: []byte{2}}}}
				checkEsdsShape(a, e, "")
			}
		}
	}
	for i := 0; i < n; i++ {
		a := randCanonicalASC(r, fs)
		_, dc := encodeASC(a)
		checkEsdsShape(a, genES(r, dc, false), "")
	}
}
