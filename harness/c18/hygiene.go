// Cross-cutting hygiene oracles of the C18 search (not used by corr).  The aac codecs speak io.Reader / io.Writer, so the
// "sub-slice with guard bytes" of the other properties becomes "any io.Reader / io.Writer that honours the interface":
//
//	readers   DecodeAudioSpecificConfig / DecodeADTSHeader get the same bytes through (a) a bytes.Reader over a sub-slice of a
//	          larger buffer (24 guard bytes, must stay intact), (b) a reader handing out ONE byte per Read, (c) a reader that
//	          returns its last byte together with io.EOF: same class, same value, same offset (class reader-dependent); the bytes
//	          handed to the library are not modified (modifies-input).
//	history   after the input a malformed relative is decoded, then the input again: same answer (depends-on-earlier-calls);
//	          the exported package tables aac.FrequencyTable / ReverseFrequencies are the same after the search as before
//	          (package-table-modified); what ADTSHeader.Encode() returned is not changed by a later Encode (shared storage:
//	          result-changed-by-later-calls).
//	encoders  AudioSpecificConfig.Encode does not change the configuration (encode-mutates-config), gives the same bytes a
//	          second time and into a plain one-byte-at-a-time io.Writer (encode-not-repeatable / writer-dependent);
//	          mp4 descriptors: EncodeSW into a writer of SizeSize()+{1,9} bytes writes exactly SizeSize() bytes, the bytes of
//	          the exact-size writer, nothing behind them (encode-sw-spare-room); DecodeESDescriptor over a sub-slice with guard
//	          bytes gives a descriptor that re-encodes to the same bytes, guards intact.  NOT demanded: the decoded
//	          descriptors hold views of the decoded buffer and CreateESDescriptor / CreateEsdsBox keep the DecConfig slice
//	          they are given (plain constructors; both on C20's audited lists).
package main

import (
	"bytes"
	"fmt"
	"io"
	"sort"

	"github.com/Eyevinn/mp4ff/aac"
	"github.com/Eyevinn/mp4ff/bits"
	"github.com/Eyevinn/mp4ff/mp4"
	"verifharness/hx"
)

const guardLen = 24
const guardByte = 0xA5

func guardedCopy(b []byte) (full []byte, sub []byte) {
	full = make([]byte, len(b)+guardLen)
	copy(full, b)
	for i := len(b); i < len(full); i++ {
		full[i] = guardByte
	}
	return full, full[:len(b)]
}

func guardsIntact(full []byte, n int) bool {
	for i := n; i < len(full); i++ {
		if full[i] != guardByte {
			return false
		}
	}
	return true
}

// oneByteReader hands out one byte per Read call.
type oneByteReader struct{ b []byte }

func (o *oneByteReader) Read(p []byte) (int, error) {
	if len(p) == 0 {
		return 0, nil
	}
	if len(o.b) == 0 {
		return 0, io.EOF
	}
	p[0] = o.b[0]
	o.b = o.b[1:]
	return 1, nil
}

// eofWithDataReader returns the last bytes together with io.EOF (allowed by the io.Reader contract).
type eofWithDataReader struct{ b []byte }

func (o *eofWithDataReader) Read(p []byte) (int, error) {
	if len(o.b) == 0 {
		return 0, io.EOF
	}
	n := copy(p, o.b)
	o.b = o.b[n:]
	if len(o.b) == 0 {
		return n, io.EOF
	}
	return n, nil
}

// plainWriter is an io.Writer with its own storage taking the bytes one at a time.
type plainWriter struct{ b []byte }

func (o *plainWriter) Write(p []byte) (int, error) {
	for _, x := range p {
		o.b = append(o.b, x)
	}
	return len(p), nil
}

var hygSeen = map[string]int{}

func hygFail(site, class, witness, desc string) {
	hygSeen[site+"/"+class]++
	if hygSeen[site+"/"+class] <= 3 {
		fail(site, class, witness, desc)
	}
}

// readersOf: the variants of a reader over b; check() tells afterwards whether the library left the buffer alone.
func readersOf(b []byte) (names []string, rs []io.Reader, check func() string) {
	full, sub := guardedCopy(b)
	c1, c2 := hx.Exact(b), hx.Exact(b)
	names = []string{"bytes.Reader over a sub-slice of a larger buffer", "a reader handing out one byte per Read", "a reader returning its last bytes together with io.EOF"}
	rs = []io.Reader{bytes.NewReader(sub), &oneByteReader{c1}, &eofWithDataReader{c2}}
	return names, rs, func() string {
		if !guardsIntact(full, len(b)) {
			return "writes-beyond-len"
		}
		if !bytes.Equal(sub, b) || !bytes.Equal(c1[:len(b):len(b)], b) {
			return "modifies-input"
		}
		return ""
	}
}

func malformed(b []byte) []byte {
	if len(b) < 2 {
		return []byte{0xff}
	}
	m := hx.Exact(b[:1+len(b)/2])
	m[0] ^= 0x41
	return m
}

func ascRes(cls string, a *aac.AudioSpecificConfig) string {
	if cls != "ok" || a == nil {
		return cls
	}
	return fmt.Sprintf("ok %+v", *a)
}

func decodeASCFrom(r io.Reader) string {
	var a *aac.AudioSpecificConfig
	var err error
	if p := hx.Try(func() { a, err = aac.DecodeAudioSpecificConfig(r) }); p != "" {
		return "panic"
	}
	if err != nil {
		return "err"
	}
	return ascRes("ok", a)
}

// hygASC: a encodes to b (both ok).
func hygASC(a *aac.AudioSpecificConfig, b []byte, w string) {
	evals++
	before := *a
	var pw plainWriter
	var err error
	if p := hx.Try(func() { err = a.Encode(&pw) }); p != "" || err != nil || !bytes.Equal(pw.b, b) {
		hygFail("AudioSpecificConfig.Encode", "encode-not-repeatable", w, "a second Encode (into a plain io.Writer) gives "+hx.Hex(pw.b)+", the first "+hx.Hex(b))
	}
	if *a != before {
		hygFail("AudioSpecificConfig.Encode", "encode-mutates-config", w, fmt.Sprintf("Encode changed the configuration to %+v", *a))
		*a = before
	}
	hygASCBytes(b, w)
}

// hygASCBytes: the readers on arbitrary bytes.
func hygASCBytes(b []byte, w string) {
	base := decodeASCFrom(bytes.NewReader(hx.Exact(b)))
	names, rs, check := readersOf(b)
	for i, r := range rs {
		if got := decodeASCFrom(r); got != base {
			hygFail("DecodeAudioSpecificConfig", "reader-dependent", w+" bytes="+hx.Hex(b), "through "+names[i]+": "+got+", through a bytes.Reader: "+base)
		}
	}
	if c := check(); c != "" {
		hygFail("DecodeAudioSpecificConfig", c, w+" bytes="+hx.Hex(b), "the decoder wrote into the buffer behind its io.Reader")
	}
	_ = decodeASCFrom(bytes.NewReader(malformed(b)))
	if got := decodeASCFrom(bytes.NewReader(hx.Exact(b))); got != base {
		hygFail("DecodeAudioSpecificConfig", "depends-on-earlier-calls", w+" bytes="+hx.Hex(b), "after a malformed relative was decoded: "+got+" instead of "+base)
	}
}

func decodeADTSFrom(r io.Reader) string {
	var h *aac.ADTSHeader
	var off int
	var err error
	if p := hx.Try(func() { h, off, err = aac.DecodeADTSHeader(r) }); p != "" {
		return "panic"
	}
	if err != nil || h == nil {
		return "err"
	}
	return fmt.Sprintf("ok %s @%d", adtsFields(h), off)
}

var lastADTS, lastADTSCopy []byte // what the previous ADTSHeader.Encode() returned, and a private copy of it

// hygADTS: b = junk + h.Encode() + rest.
func hygADTS(h aac.ADTSHeader, b []byte, w func() string) {
	evals++
	before := h
	e1 := h.Encode()
	if !bytes.Equal(lastADTS, lastADTSCopy) {
		hygFail("ADTSHeader.Encode", "result-changed-by-later-calls", w(), "the bytes returned by the previous Encode() changed when this header was encoded (shared storage)")
	}
	e2 := h.Encode()
	if !bytes.Equal(e1, e2) || h != before {
		hygFail("ADTSHeader.Encode", "encode-not-repeatable", w(), "Encode() twice: "+hx.Hex(e1)+" then "+hx.Hex(e2))
	}
	lastADTS, lastADTSCopy = e1, hx.Exact(e1)
	hygADTSBytes(b, w)
}

func hygADTSBytes(b []byte, w func() string) {
	base := decodeADTSFrom(bytes.NewReader(hx.Exact(b)))
	names, rs, check := readersOf(b)
	for i, r := range rs {
		if got := decodeADTSFrom(r); got != base {
			hygFail("DecodeADTSHeader", "reader-dependent", w(), "through "+names[i]+": "+got+", through a bytes.Reader: "+base)
		}
	}
	if c := check(); c != "" {
		hygFail("DecodeADTSHeader", c, w(), "the decoder wrote into the buffer behind its io.Reader")
	}
	_ = decodeADTSFrom(bytes.NewReader(malformed(b)))
	if got := decodeADTSFrom(bytes.NewReader(hx.Exact(b))); got != base {
		hygFail("DecodeADTSHeader", "depends-on-earlier-calls", w(), "after a malformed relative was decoded: "+got+" instead of "+base)
	}
}

// ---------------------------------------------------------------- package tables
func tablesSnapshot() string {
	var ks []int
	for k := range aac.FrequencyTable {
		ks = append(ks, int(k))
	}
	sort.Ints(ks)
	s := "F"
	for _, k := range ks {
		s += fmt.Sprintf(" %d:%d", k, aac.FrequencyTable[byte(k)])
	}
	ks = ks[:0]
	for k := range aac.ReverseFrequencies {
		ks = append(ks, k)
	}
	sort.Ints(ks)
	s += " R"
	for _, k := range ks {
		s += fmt.Sprintf(" %d:%d", k, aac.ReverseFrequencies[k])
	}
	return s
}

var tables0 string

func hygTablesStart() { tables0 = tablesSnapshot() }

func hygTablesEnd(part string) {
	evals++
	if t := tablesSnapshot(); t != tables0 {
		hygFail("aac package tables", "package-table-modified", "search part "+part, "aac.FrequencyTable / ReverseFrequencies read "+t+" after the calls of this part, before: "+tables0)
		tables0 = t
	}
}

// ---------------------------------------------------------------- descriptors
// hygDesc: es is a well-formed ES descriptor that DecodeESDescriptor accepts and re-encodes identically.
func hygDesc(es []byte, w string) {
	evals++
	p := hx.Try(func() {
		full, sub := guardedCopy(es)
		sr := bits.NewFixedSliceReader(sub)
		ed, err := mp4.DecodeESDescriptor(sr, uint32(len(es)))
		if !guardsIntact(full, len(es)) {
			hygFail("mp4.DecodeESDescriptor", "writes-beyond-len", w, "a byte behind the end of the decoded buffer (inside its capacity) was overwritten")
		}
		if !bytes.Equal(sub, es) {
			hygFail("mp4.DecodeESDescriptor", "modifies-input", w, "decoding changed the bytes it was given")
			return
		}
		if err != nil || sr.AccError() != nil {
			hygFail("mp4.DecodeESDescriptor", "depends-on-capacity", w, "rejected on a sub-slice of a larger buffer, accepted on an exact-capacity copy")
			return
		}
		size := int(ed.SizeSize())
		exact := encDesc(&ed)
		if !bytes.Equal(exact, es) {
			hygFail("mp4.DecodeESDescriptor", "depends-on-capacity", w, "decoded from a sub-slice of a larger buffer the descriptor re-encodes to "+hx.Hex(exact))
			return
		}
		for _, spare := range []int{1, 9} {
			buf := make([]byte, size+spare+guardLen)
			for i := range buf {
				buf[i] = guardByte
			}
			sw := bits.NewFixedSliceWriterFromSlice(buf[: size+spare : size+spare])
			if err := ed.EncodeSW(sw); err != nil {
				hygFail("mp4.ESDescriptor.EncodeSW", "encode-sw-spare-room", w, fmt.Sprintf("EncodeSW into SizeSize()+%d bytes fails: %v", spare, err))
				continue
			}
			if sw.Offset() != size || !bytes.Equal(sw.Bytes(), es) {
				hygFail("mp4.ESDescriptor.EncodeSW", "encode-sw-spare-room", w, fmt.Sprintf("EncodeSW into SizeSize()+%d bytes wrote %d bytes (SizeSize() = %d): %s", spare, sw.Offset(), size, hx.Hex(sw.Bytes())))
			}
			for i := size; i < len(buf); i++ {
				if buf[i] != guardByte {
					hygFail("mp4.ESDescriptor.EncodeSW", "encode-sw-spare-room", w, fmt.Sprintf("EncodeSW touched byte %d behind the SizeSize() = %d bytes of the descriptor", i-size, size))
					break
				}
			}
		}
		if again := encDesc(&ed); !bytes.Equal(again, es) {
			hygFail("mp4.ESDescriptor.EncodeSW", "encode-not-repeatable", w, "a later EncodeSW of the same descriptor gives "+hx.Hex(again))
		}
	})
	if p != "" {
		hygFail("mp4.DecodeESDescriptor", "esds-panic", w, "on a sub-slice of a larger buffer / spare-room writer: "+p)
	}
}
