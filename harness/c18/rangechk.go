// Decoder-range cases (C18RangeProofs.v): the hypotheses of the round-trip theorems (canonical /
// adts_canonical) are evaluated on what the REAL decoders returned for the inputs of this run, and whatever a
// decoder returned is pushed through the encoder and the decoder again.
//
//	corr:   AR id hex obs   DecodeAudioSpecificConfig(bytes); if ok: Encode(result), DecodeAudioSpecificConfig again
//	        HR id hex obs   DecodeADTSHeader(bytes); if ok: result.Encode(), DecodeADTSHeader again
//	search: every configuration / MPEG-4 CRC-less header with frame length >= 7 the real decoder returns on
//	        arbitrary (steered) bytes must itself satisfy "decode(encode(x)) = x" on the real code
package main

import (
	"fmt"

	"github.com/Eyevinn/mp4ff/aac"
	"verifharness/hx"
)

// obs of a decode -> encode -> decode chain for the configuration decoder
func ascChainObs(b []byte) string {
	cls, a := decodeASC(b)
	if cls != "ok" {
		return cls
	}
	cls2, b2 := encodeASC(a)
	if cls2 != "ok" {
		return ascObs(cls, a) + "|" + cls2
	}
	cls3, a3 := decodeASC(b2)
	return ascObs(cls, a) + "|" + hx.Hex(b2) + "|" + ascObs(cls3, a3)
}

func emitAR(b []byte) {
	fmt.Fprintf(out, "AR\t%s\t%s\t%s\n", nextID("ar"), hx.Hex(b), ascChainObs(b))
}

func adtsObs(cls string, h *aac.ADTSHeader, off int) string {
	if cls != "ok" {
		return cls
	}
	return fmt.Sprintf("ok/%s/%d", adtsFields(h), off)
}

func adtsChainObs(b []byte) string {
	cls, h, off := decodeADTS(b)
	if cls != "ok" {
		return cls
	}
	var b2 []byte
	if p := hx.Try(func() { b2 = h.Encode() }); p != "" {
		return adtsObs(cls, h, off) + "|panic"
	}
	cls3, h3, off3 := decodeADTS(b2)
	return adtsObs(cls, h, off) + "|" + hx.Hex(b2) + "|" + adtsObs(cls3, h3, off3)
}

func emitHR(b []byte) {
	fmt.Fprintf(out, "HR\t%s\t%s\t%s\n", nextID("hr"), hx.Hex(b), adtsChainObs(b))
}

// bitBuf: a most-significant-bit-first bit string (independent of the bits package)
type bitBuf struct {
	b []byte
	n int
}

func (w *bitBuf) put(v uint, width int) {
	for i := width - 1; i >= 0; i-- {
		if w.n%8 == 0 {
			w.b = append(w.b, 0)
		}
		if v>>uint(i)&1 == 1 {
			w.b[w.n/8] |= 0x80 >> uint(w.n%8)
		}
		w.n++
	}
}

// a frequency field as a foreign encoder may write it: a table index (reserved 13/14 included), or the 24-bit
// escape carrying any value - also a value that has a table index
func (w *bitBuf) putFreq(r *hx.Rng) {
	switch r.Intn(6) {
	case 0, 1:
		w.put(uint(r.Intn(13)), 4)
	case 2:
		w.put(uint(r.Intn(16)), 4)
	case 3:
		w.put(15, 4)
		w.put(uint(tableFreqs[r.Intn(13)]+r.Range(-1, 1)), 24)
	default:
		w.put(15, 4)
		w.put(uint(r.Pick(0, 1, 1<<24-1, 1<<23, r.Intn(1<<24), r.Intn(200000))), 24)
	}
}

// steeredASC: a configuration laid out field by field as DecodeAudioSpecificConfig reads it (object type mostly
// 2/5/29, inner object type mostly 2, random trailing bits), cut at a random byte length; sometimes plain random bytes
func steeredASC(r *hx.Rng) []byte {
	if r.Intn(8) == 0 {
		return r.Bytes(r.Range(1, 12), nil)
	}
	w := &bitBuf{}
	ot := uint(objTypes[r.Intn(3)])
	if r.Intn(10) == 0 {
		ot = uint(r.Intn(32))
	}
	w.put(ot, 5)
	w.putFreq(r)
	w.put(uint(r.Intn(16)), 4)
	if ot == 5 || ot == 29 {
		w.putFreq(r)
		w.put(uint(r.Pick(2, 2, 2, 2, 5, r.Intn(32))), 5)
	}
	w.put(uint(r.Intn(8)), 3)
	for i := r.Intn(3); i > 0; i-- {
		w.put(uint(r.Intn(256)), 8)
	}
	b := w.b
	if r.Intn(5) == 0 {
		b = b[:r.Intn(len(b)+1)]
	}
	return b
}

// steeredADTS: junk + a sync word (all four id/protection variants, sometimes broken) + random header bytes with a
// steered 13-bit frame length (short frames 0..8 included)
func steeredADTS(r *hx.Rng) []byte {
	j := removeSyncs(makeJunk(r, r.Intn(8), r.Intn(12)))
	b := append(j, 0xff, byte(r.Pick(0xf1, 0xf1, 0xf1, 0xf0, 0xf9, 0xf8, 0xf3, 0xe1)))
	t := r.Bytes(r.Range(3, 9), nil)
	if len(t) >= 5 && r.Intn(3) > 0 {
		fl := r.Pick(0, 1, 6, 7, 8, 8191, 8190, r.Intn(8192), r.Intn(16))
		t[1] = t[1]&0xfc | byte(fl>>11)
		t[2] = byte(fl >> 3)
		t[3] = byte(fl<<5) | t[3]&0x1f
		if r.Bool() {
			t[4] &= 0xfc // number of raw data blocks 0
		}
	}
	return append(b, t...)
}

func corrRange(r *hx.Rng, n int, thorough bool) {
	// configuration decoder: every 1-byte input, a stride of / every 2-byte input, steered strings
	for x := 0; x < 256; x++ {
		emitAR([]byte{byte(x)})
	}
	step := 53
	if thorough {
		step = 1
	}
	for x := r.Intn(step); x < 65536; x += step {
		emitAR([]byte{byte(x >> 8), byte(x)})
	}
	for i := 0; i < 4*n; i++ {
		emitAR(steeredASC(r))
	}
	// every table configuration's encoding once more through the chain (the theorem's hypotheses hold of all of them)
	for _, ot := range objTypes {
		for ch := 0; ch < 16; ch += 5 {
			for i, f := range tableFreqs {
				_, b := encodeASC(canonicalASC(ot, byte(ch), f, tableFreqs[(i*3+ch)%13]))
				emitAR(b)
			}
		}
	}
	// ADTS decoder: every frame length 0..16 and the top of the range on all four sync variants, steered strings
	for _, s2 := range []byte{0xf1, 0xf0, 0xf9, 0xf8} {
		for _, fl := range []int{0, 1, 2, 3, 4, 5, 6, 7, 8, 9, 10, 16, 4096, 8190, 8191} {
			emitHR([]byte{0xff, s2, 0x4c, 0x80 | byte(fl>>11), byte(fl >> 3), byte(fl<<5) | 0x1f, 0xfc, 0xaa, 0xbb})
		}
	}
	for i := 0; i < 4*n; i++ {
		emitHR(steeredADTS(r))
	}
	for i := 0; i < n; i++ {
		h := randHeader(r)
		emitHR(append(removeSyncs(makeJunk(r, r.Intn(8), r.Intn(40))), h.Encode()...))
	}
}

// ---------------------------------------------------------------- search

// checkASCRange: whatever configuration the real decoder returns for b is a configuration "the library
// supports": encoding it and decoding it must return the same configuration.
func checkASCRange(b []byte) {
	evals++
	cls, a := decodeASC(b)
	if cls == "panic" {
		hygFail("DecodeAudioSpecificConfig", "panic", "bytes="+hx.Hex(b), "the decoder panics on arbitrary bytes")
		return
	}
	if cls != "ok" {
		return
	}
	noteInput('R', []int{int(a.ObjectType), int(a.ChannelConfiguration), a.SamplingFrequency, a.ExtensionFrequency})
	rangeAccepted++
	w := "bytes=" + hx.Hex(b)
	cls2, b2 := encodeASC(a)
	if cls2 != "ok" {
		hygFail("DecodeAudioSpecificConfig", "decoded-config-not-encodable", w, fmt.Sprintf("decoded %+v, Encode of it: %s", *a, cls2))
		return
	}
	cls3, a3 := decodeASC(b2)
	if cls3 != "ok" || *a3 != *a {
		hygFail("DecodeAudioSpecificConfig", "decoded-config-does-not-roundtrip", w,
			fmt.Sprintf("decoded %+v, re-encoded %s, decoded again: %s", *a, hx.Hex(b2), ascObs(cls3, a3)))
	}
}

var rangeAccepted, rangeHeaders int

// checkADTSRange: a header the real decoder returns that is MPEG-4, CRC-less and announces a frame of at least the
// header length is a header Encode can express: Encode + Decode must return it at offset 0; the offset reported for b
// must be the first sync word of the naive scan.
func checkADTSRange(b []byte) {
	evals++
	cls, h, off := decodeADTS(b)
	if cls == "panic" {
		hygFail("DecodeADTSHeader", "panic", "bytes="+hx.Hex(b), "the decoder panics on arbitrary bytes")
		return
	}
	if cls != "ok" {
		return
	}
	w := "bytes=" + hx.Hex(b)
	if fs := firstSync(b); fs != off {
		hygFail("DecodeADTSHeader", "offset-not-first-sync", w, fmt.Sprintf("offset %d, first sync word at %d", off, fs))
	}
	if h.ID != 0 || h.HeaderLength != 7 || h.PayloadLength > 8184 {
		return
	}
	noteInput('S', []int{int(h.ObjectType), int(h.SamplingFrequencyIndex), int(h.ChannelConfig), int(h.PayloadLength), int(h.BufferFullness)})
	rangeHeaders++
	var b2 []byte
	if p := hx.Try(func() { b2 = h.Encode() }); p != "" {
		hygFail("DecodeADTSHeader", "decoded-header-not-encodable", w, "Encode of the decoded header "+adtsFields(h)+" panics")
		return
	}
	cls3, h3, off3 := decodeADTS(b2)
	if cls3 != "ok" || *h3 != *h || off3 != 0 {
		hygFail("DecodeADTSHeader", "decoded-header-does-not-roundtrip", w,
			"decoded "+adtsFields(h)+", re-encoded "+hx.Hex(b2)+", decoded again: "+adtsObs(cls3, h3, off3))
	}
}

func searchRange(r *hx.Rng, n int, thorough bool) {
	for x := 0; x < 65536; x++ { // every 2-byte input (AAC-LC configurations with a table frequency are complete here)
		checkASCRange([]byte{byte(x >> 8), byte(x)})
	}
	for i := 0; i < 40*n; i++ {
		checkASCRange(steeredASC(r))
	}
	for i := 0; i < 40*n; i++ {
		checkADTSRange(steeredADTS(r))
	}
	fmt.Fprintf(out, "RANGE\t%d\t%d\n", rangeAccepted, rangeHeaders)
}
