// Harness for C18 (audio configuration codecs are exact over their whole domain).
//
//	c18 corr   -seed S -n N -tier quick|thorough : cases + implementation observables for the model diff
//	c18 search -seed S -n N -tier quick|thorough : evaluates the property itself on the implementation
package main

import (
	"bufio"
	"bytes"
	"flag"
	"fmt"
	"os"
	"strconv"
	"strings"

	"github.com/Eyevinn/mp4ff/aac"
	"github.com/Eyevinn/mp4ff/bits"
	"github.com/Eyevinn/mp4ff/mp4"
	"verifharness/hx"
)

var out = bufio.NewWriterSize(os.Stdout, 1<<20)

var tableFreqs = []int{96000, 88200, 64000, 48000, 44100, 32000, 24000, 22050, 16000, 12000, 11025, 8000, 7350}
var objTypes = []byte{2, 5, 29}

var caseNr int

func nextID(prefix string) string {
	caseNr++
	return prefix + strconv.Itoa(caseNr)
}

// ---------------------------------------------------------------- AudioSpecificConfig

func encodeASC(a *aac.AudioSpecificConfig) (cls string, b []byte) {
	var buf bytes.Buffer
	var err error
	p := hx.Try(func() { err = a.Encode(&buf) })
	if p != "" {
		return "panic", nil
	}
	if err != nil {
		return "err", nil
	}
	return "ok", buf.Bytes()
}

func decodeASC(b []byte) (cls string, a *aac.AudioSpecificConfig) {
	var err error
	p := hx.Try(func() { a, err = aac.DecodeAudioSpecificConfig(bytes.NewReader(hx.Exact(b))) })
	if p != "" {
		return "panic", nil
	}
	if err != nil {
		return "err", nil
	}
	return "ok", a
}

func b2i(b bool) int {
	if b {
		return 1
	}
	return 0
}

func ascObs(cls string, a *aac.AudioSpecificConfig) string {
	if cls != "ok" {
		return cls
	}
	return fmt.Sprintf("ok/%d/%d/%s/%s/%d/%d", a.ObjectType, a.ChannelConfiguration,
		hx.HexI(int64(a.SamplingFrequency)), hx.HexI(int64(a.ExtensionFrequency)), b2i(a.SBRPresentFlag), b2i(a.PSPresentFlag))
}

func emitAE(ot, ch byte, f, e int) []byte {
	a := &aac.AudioSpecificConfig{ObjectType: ot, ChannelConfiguration: ch, SamplingFrequency: f, ExtensionFrequency: e}
	cls, b := encodeASC(a)
	h := "-"
	if cls == "ok" {
		h = hx.Hex(b)
	}
	fmt.Fprintf(out, "AE\t%s\t%d\t%d\t%s\t%s\t%s\t%s\n", nextID("ae"), ot, ch, hx.HexI(int64(f)), hx.HexI(int64(e)), cls, h)
	return b
}

func emitAD(b []byte) {
	cls, a := decodeASC(b)
	fmt.Fprintf(out, "AD\t%s\t%s\t%s\n", nextID("ad"), hx.Hex(b), ascObs(cls, a))
}

// explicit (non-table) frequencies of interest + random ones
func explicitFreqs(r *hx.Rng, n int) []int {
	fs := []int{0, 1, 2, 7349, 7351, 7999, 8001, 44099, 44101, 47999, 48001, 65535, 65536, 88199, 88201, 95999, 96001,
		192000, 1 << 23, 1<<23 - 1, 1<<24 - 2, 1<<24 - 1}
	for i := 0; i < n; i++ {
		switch r.Intn(4) {
		case 0:
			fs = append(fs, r.Intn(1<<24))
		case 1:
			fs = append(fs, r.Intn(200000))
		case 2:
			fs = append(fs, tableFreqs[r.Intn(13)]+r.Range(-2, 2))
		default:
			fs = append(fs, 1<<uint(r.Intn(24))+r.Range(-1, 1))
		}
	}
	for i, f := range fs {
		if f < 0 {
			fs[i] = 0
		}
	}
	return fs
}

func corrASC(r *hx.Rng, n int, thorough bool) {
	var encs [][]byte
	// complete table part of the domain: 3 object types x 16 channel configurations x 13 x 13 frequencies
	for _, ot := range objTypes {
		for ch := 0; ch < 16; ch++ {
			for _, f := range tableFreqs {
				if ot == 2 {
					encs = append(encs, emitAE(ot, byte(ch), f, 0))
					continue
				}
				for _, e := range tableFreqs {
					encs = append(encs, emitAE(ot, byte(ch), f, e))
				}
			}
		}
	}
	// explicit frequencies (24-bit escape), all object types and channel configurations sampled
	fs := explicitFreqs(r, n)
	for i, f := range fs {
		for _, ot := range objTypes {
			ch := byte((i + int(ot)) % 16)
			e := 0
			if ot != 2 {
				switch i % 3 {
				case 0:
					e = 2 * f % (1 << 24)
				case 1:
					e = tableFreqs[i%13]
				default:
					e = fs[(i*7+3)%len(fs)]
				}
			}
			encs = append(encs, emitAE(ot, ch, f, e))
			if ot != 2 {
				encs = append(encs, emitAE(ot, ch, tableFreqs[i%13], f))
			}
		}
	}
	// outside the supported domain: other object types, wide channel values, frequencies that do not
	// fit 24 bits or are negative, extension frequency on AAC-LC
	for ot := 0; ot < 256; ot++ {
		emitAE(byte(ot), byte(ot%16), tableFreqs[ot%13], tableFreqs[(ot+1)%13])
	}
	for i := 0; i < n/4+8; i++ {
		ot := objTypes[r.Intn(3)]
		f := []int{-1, -48000, 1 << 24, 1<<24 + 48000, 1 << 40, -(1 << 40), 1<<63 - 1, -(1 << 62)}[r.Intn(8)] + r.Intn(3)
		emitAE(ot, byte(r.Intn(256)), f, r.Intn(1<<25)-1000)
		emitAE(2, byte(r.Intn(16)), tableFreqs[r.Intn(13)], r.Intn(100000))
	}
	// decoder on every produced encoding, its truncations and extensions
	seen := map[string]bool{}
	for i, b := range encs {
		k := string(b)
		if seen[k] {
			continue
		}
		seen[k] = true
		emitAD(b)
		if i%7 == 0 || len(b) > 4 {
			for l := 0; l < len(b); l++ {
				emitAD(b[:l])
			}
			emitAD(append(append([]byte{}, b...), byte(r.U64()), byte(r.U64())))
		}
	}
	// malformed stream: every 1-byte input, every 2-byte input (thorough) or a stride of them, random strings
	for x := 0; x < 256; x++ {
		emitAD([]byte{byte(x)})
	}
	step := 37
	if thorough {
		step = 1
	}
	for x := int(r.Intn(step)); x < 65536; x += step {
		emitAD([]byte{byte(x >> 8), byte(x)})
	}
	for i := 0; i < n; i++ {
		l := r.Range(0, 12)
		b := r.Bytes(l, nil)
		if l > 0 && r.Intn(3) > 0 {
			// steer the first 5 bits to a supported object type, often with the 0xf escape
			ot := objTypes[r.Intn(3)]
			b[0] = ot<<3 | b[0]&7
			if r.Bool() {
				b[0] |= 7
				if l > 1 {
					b[1] |= 0x80
				}
			}
		}
		emitAD(b)
	}
}

// ---------------------------------------------------------------- ADTS

func adtsFields(h *aac.ADTSHeader) string {
	return fmt.Sprintf("%d/%d/%d/%d/%d/%d/%d", h.ID, h.ObjectType, h.SamplingFrequencyIndex, h.ChannelConfig,
		h.HeaderLength, h.PayloadLength, h.BufferFullness)
}

func decodeADTS(b []byte) (cls string, h *aac.ADTSHeader, off int) {
	var err error
	p := hx.Try(func() { h, off, err = aac.DecodeADTSHeader(bytes.NewReader(hx.Exact(b))) })
	if p != "" {
		return "panic", nil, 0
	}
	if err != nil {
		return "err", nil, 0
	}
	return "ok", h, off
}

func emitHD(b []byte) {
	cls, h, off := decodeADTS(b)
	obs := cls
	if cls == "ok" {
		obs = fmt.Sprintf("ok/%s/%d", adtsFields(h), off)
	}
	fmt.Fprintf(out, "HD\t%s\t%s\t%s\n", nextID("hd"), hx.Hex(b), obs)
}

func emitHE(h aac.ADTSHeader) []byte {
	var b []byte
	p := hx.Try(func() { b = h.Encode() })
	if p != "" {
		b = []byte("panic")
	}
	fmt.Fprintf(out, "HE\t%s\t%d\t%d\t%d\t%d\t%d\t%d\t%d\t%s\n", nextID("he"), h.ID, h.ObjectType, h.SamplingFrequencyIndex,
		h.ChannelConfig, h.HeaderLength, h.PayloadLength, h.BufferFullness, hx.Hex(b))
	return b
}

const hmod = 2147483647

func hstep(h, b int) int { return (h*1000003 + b + 1) % hmod }

// rangeHash runs Encode and DecodeADTSHeader for every payload length lo..hi
func rangeHash(ot, sfi, ch byte, bf uint16, lo, hi int) int {
	h := 0
	for pl := lo; pl <= hi; pl++ {
		hd := aac.ADTSHeader{ObjectType: ot, SamplingFrequencyIndex: sfi, ChannelConfig: ch, HeaderLength: 7,
			PayloadLength: uint16(pl), BufferFullness: bf}
		b := hd.Encode()
		for _, x := range b {
			h = hstep(h, int(x))
		}
		d, off, err := aac.DecodeADTSHeader(bytes.NewReader(b))
		if err != nil {
			h = hstep(h, 1)
			continue
		}
		h = hstep(h, 0)
		for _, v := range []int{int(d.ID), int(d.ObjectType), int(d.SamplingFrequencyIndex), int(d.ChannelConfig),
			int(d.HeaderLength), int(d.PayloadLength), int(d.BufferFullness), off} {
			h = hstep(h, v)
		}
	}
	return h
}

var junkAlphabet = []byte{0x00, 0xff, 0xf1, 0xf0, 0xf9, 0xf7, 0xfe, 0x0f, 0x47, 0xfa}

// makeJunk: pattern p of length l
func makeJunk(r *hx.Rng, p, l int) []byte {
	j := make([]byte, l)
	switch p {
	case 0: // zeros
	case 1: // all ff
		for i := range j {
			j[i] = 0xff
		}
	case 2: // zeros ending in ff
		if l > 0 {
			j[l-1] = 0xff
		}
	case 3: // ff 00 ff 00 ...
		for i := range j {
			if i%2 == 0 {
				j[i] = 0xff
			}
		}
	case 4: // 00 ff 00 ff ... ending in a run of ff
		for i := range j {
			if i%2 == 1 || i >= l-3 {
				j[i] = 0xff
			}
		}
	case 5: // ff with non-sync second bytes (layer != 0)
		for i := range j {
			j[i] = []byte{0xff, 0xf7, 0xff, 0xfe, 0xfa, 0xff, 0xff, 0xf3}[i%8]
		}
	case 6: // random over the alphabet, syncs allowed
		j = r.Bytes(l, junkAlphabet)
	default: // fully random
		j = r.Bytes(l, nil)
	}
	return j
}

func isSync2(b byte) bool { return b>>4 == 0xf && (b>>1)&3 == 0 }

// firstSync: naive position-by-position scan (independent oracle)
func firstSync(b []byte) int {
	for i := 0; i+1 < len(b); i++ {
		if b[i] == 0xff && isSync2(b[i+1]) {
			return i
		}
	}
	return -1
}

// removeSyncs rewrites second bytes so that no sync word lies inside the junk (a trailing ff stays)
func removeSyncs(j []byte) []byte {
	j = append([]byte{}, j...)
	for i := 0; i+1 < len(j); i++ {
		if j[i] == 0xff && isSync2(j[i+1]) {
			j[i+1] |= 0x06
		}
	}
	return j
}

func randHeader(r *hx.Rng) aac.ADTSHeader {
	return aac.ADTSHeader{ObjectType: byte(r.Range(1, 4)), SamplingFrequencyIndex: byte(r.Intn(16)), ChannelConfig: byte(r.Intn(8)),
		HeaderLength: 7, PayloadLength: uint16(r.Pick(0, 1, 7, 8184, 8183, 4096, r.Intn(8185))), BufferFullness: uint16(r.Pick(0, 0x7ff, r.Intn(2048)))}
}

func corrADTS(r *hx.Rng, n int, thorough bool) {
	// NewADTSHeader
	for _, f := range append(append([]int{}, tableFreqs...), 0, 44000, 48001, -48000, 1<<32+48000) {
		for _, ot := range []byte{1, 2, 3, 5} {
			ch := byte(r.Intn(256))
			pl := uint16(r.U64())
			h, err := aac.NewADTSHeader(f, ch, ot, pl)
			obs := "err"
			if err == nil {
				obs = "ok/" + adtsFields(h) + "/" + strconv.Itoa(int(h.Frequency()))
			}
			fmt.Fprintf(out, "HN\t%s\t%s\t%d\t%d\t%d\t%s\n", nextID("hn"), hx.HexI(int64(f)), ch, ot, pl, obs)
		}
	}
	// the complete ADTS domain on both sides: every payload length 0..8184 for every frequency index x
	// channel configuration (object type 2, variable-bitrate fullness as NewADTSHeader sets them; the other
	// profiles and fullness values in the thorough tier), compared through a running hash
	ots := []byte{2}
	bfs := []uint16{0x7ff}
	if thorough {
		ots = []byte{1, 2, 3, 4}
		bfs = []uint16{0x7ff, 0, 0x555}
	}
	for _, ot := range ots {
		for _, bf := range bfs {
			for sfi := 0; sfi < 16; sfi++ {
				for ch := 0; ch < 8; ch++ {
					hsh := rangeHash(ot, byte(sfi), byte(ch), bf, 0, 8184)
					fmt.Fprintf(out, "HX\t%s\t%d\t%d\t%d\t%d\t%d\t%d\t%d\n", nextID("hx"), ot, sfi, ch, bf, 0, 8184, hsh)
				}
			}
		}
	}
	// Encode on canonical and non-canonical field values (wide fields are masked by the writer)
	var encs [][]byte
	for i := 0; i < n; i++ {
		h := randHeader(r)
		if i%3 == 0 {
			h = aac.ADTSHeader{ID: byte(r.Intn(2)), ObjectType: byte(r.Pick(0, 5, 255, r.Intn(256))), SamplingFrequencyIndex: byte(r.Intn(256)),
				ChannelConfig: byte(r.Intn(256)), HeaderLength: byte(r.Pick(7, 9, 0)), PayloadLength: uint16(r.Pick(8185, 8191, 65535, 65529, 65528, r.Intn(65536))),
				BufferFullness: uint16(r.Intn(65536))}
		}
		encs = append(encs, emitHE(h))
	}
	// decoder: leading junk of every length 0..187 (and a little beyond the 188-iteration window) x patterns
	for l := 0; l <= 200; l++ {
		for p := 0; p < 8; p++ {
			j := makeJunk(r, p, l)
			if p != 6 && p != 7 {
				j = removeSyncs(j)
			}
			h := randHeader(r)
			b := append(j, h.Encode()...)
			b = append(b, r.Bytes(r.Intn(4), nil)...)
			emitHD(b)
		}
	}
	// decoder: malformed / non-canonical headers: CRC present, MPEG-2 id, raw blocks != 0, short frame lengths,
	// truncations, random strings
	for i := 0; i < n; i++ {
		var b []byte
		switch r.Intn(5) {
		case 0:
			b = append([]byte{}, encs[r.Intn(len(encs))]...)
			b[1] = byte(r.Pick(0xf0, 0xf1, 0xf8, 0xf9, 0xf3, 0xff, 0xe1, int(b[1])))
			b = append(b, r.Bytes(r.Intn(4), nil)...)
		case 1:
			b = append([]byte{}, encs[r.Intn(len(encs))]...)
			b[6] |= byte(r.Intn(4))
			b[3+r.Intn(3)] = byte(r.U64())
		case 2:
			b = append([]byte{}, encs[r.Intn(len(encs))]...)
			b = b[:r.Intn(len(b)+1)]
			b = append(makeJunk(r, r.Intn(8), r.Intn(6)), b...)
		case 3:
			b = r.Bytes(r.Range(0, 16), junkAlphabet)
		default:
			b = r.Bytes(r.Range(0, 16), nil)
			if len(b) > 2 && r.Bool() {
				b[0] = 0xff
				b[1] = byte(r.Pick(0xf0, 0xf1, 0xf8, 0xf9))
			}
		}
		emitHD(b)
	}
	// decoder: every 2-byte tail after a sync start (short inputs), exhaustive second byte
	for x := 0; x < 256; x++ {
		emitHD([]byte{0xff, byte(x), 0x4c, 0x80, 0x01, 0x1f, 0xfc})
		emitHD([]byte{0xff, byte(x), 0x4c, 0x80, 0x01, 0x1f, 0xfc, 0x12, 0x34})
		emitHD([]byte{0xff, 0xff, byte(x), 0x4c, 0x80, 0x01, 0x1f, 0xfc, 0x00})
	}
}

// ---------------------------------------------------------------- bits.Writer / bits.Reader vs the bit-list reading

func corrBits(r *hx.Rng, n int) {
	widths := func() int {
		switch r.Intn(4) {
		case 0:
			return r.Pick(1, 2, 3, 4, 5, 11, 12, 13, 16, 24)
		case 1:
			return r.Range(0, 8)
		default:
			return r.Range(0, 32)
		}
	}
	for i := 0; i < n; i++ {
		k := r.Range(0, 12)
		var buf bytes.Buffer
		w := bits.NewWriter(&buf)
		ops := make([]string, 0, k)
		for j := 0; j < k; j++ {
			wd := widths()
			v := r.U64()
			if r.Bool() {
				v &= 1<<uint(wd) - 1
			}
			w.Write(uint(v), wd)
			ops = append(ops, hx.HexU(v)+":"+strconv.Itoa(wd))
		}
		fl := r.Intn(3) > 0
		if fl {
			w.Flush()
		}
		o := "-"
		if len(ops) > 0 {
			o = strings.Join(ops, ";")
		}
		fmt.Fprintf(out, "BW\t%s\t%s\t%d\t%s\n", nextID("bw"), o, b2i(fl), hx.Hex(buf.Bytes()))
	}
	for i := 0; i < n; i++ {
		data := r.Bytes(r.Range(0, 10), nil)
		rd := bits.NewReader(bytes.NewReader(data))
		k := r.Range(1, 14)
		ws := make([]int, k)
		obs := make([]string, k)
		for j := 0; j < k; j++ {
			ws[j] = widths()
			v := rd.Read(ws[j])
			obs[j] = hx.HexU(uint64(v)) + "/" + strconv.Itoa(b2i(rd.AccError() != nil))
		}
		fmt.Fprintf(out, "BR\t%s\t%s\t%s\t%s\n", nextID("br"), hx.Hex(data), hx.Csv(ws), strings.Join(obs, ","))
	}
}

// ---------------------------------------------------------------- sample entry (correspondence)

// buildEntry runs SetAACDescriptor on a fresh track and encodes the mp4a entry it added
func buildEntry(ot byte, f int) (cls string, b []byte) {
	var err error
	p := hx.Try(func() {
		init := mp4.CreateEmptyInit()
		init.AddEmptyTrack(uint32(48000), "audio", "und")
		trak := init.Moov.Trak
		if err = trak.SetAACDescriptor(ot, f); err != nil {
			return
		}
		var buf bytes.Buffer
		if err = trak.Mdia.Minf.Stbl.Stsd.Mp4a.Encode(&buf); err != nil {
			return
		}
		b = buf.Bytes()
	})
	if p != "" {
		return "panic", nil
	}
	if err != nil {
		return "err", nil
	}
	return "ok", b
}

// entryObs: mp4.DecodeBox (kind ED) / mp4.DecodeBoxSR (kind ES) on the bytes of an mp4a entry, projected
func entryObs(kind string, b []byte) string {
	var box mp4.Box
	var err error
	p := hx.Try(func() {
		if kind == "ED" {
			box, err = mp4.DecodeBox(0, bytes.NewReader(hx.Exact(b)))
		} else {
			box, err = mp4.DecodeBoxSR(0, bits.NewFixedSliceReader(hx.Exact(b)))
		}
	})
	switch {
	case p != "":
		return "panic"
	case err != nil:
		return "err"
	}
	e, ok := box.(*mp4.AudioSampleEntryBox)
	if !ok || e.Esds == nil || e.Esds.DecConfigDescriptor == nil || e.Esds.DecConfigDescriptor.DecSpecificInfo == nil {
		return "other"
	}
	dc := e.Esds.DecConfigDescriptor.DecSpecificInfo.DecConfig
	cls, a := decodeASC(dc)
	return fmt.Sprintf("ok/%d/%d/%d/%d/%s/%s", e.DataReferenceIndex, e.ChannelCount, e.SampleSize, e.SampleRate, hx.Hex(dc), ascObs(cls, a))
}

func emitED(b []byte) {
	for _, kind := range []string{"ED", "ES"} {
		fmt.Fprintf(out, "%s\t%s\t%s\t%s\n", kind, nextID(strings.ToLower(kind)), hx.Hex(b), entryObs(kind, b))
	}
}

func corrEntry(r *hx.Rng, n int, thorough bool) {
	var encs [][]byte
	fs := append(append([]int{}, tableFreqs...), explicitFreqs(r, n/4)...)
	fs = append(fs, -1, -48000, 1<<24, 1<<24+5, 1<<40+44100)
	for _, f := range fs {
		for _, ot := range []byte{2, 5, 29, 1, 0, 42} {
			cls, b := buildEntry(ot, f)
			h := "-"
			if cls == "ok" {
				h = hx.Hex(b)
				encs = append(encs, b)
			}
			fmt.Fprintf(out, "EN\t%s\t%d\t%s\t%s\t%s\n", nextID("en"), ot, hx.HexI(int64(f)), cls, h)
		}
	}
	for i, b := range encs {
		emitED(b)
		if i%5 == 0 {
			for l := 0; l < len(b); l += 1 + i%3 {
				emitED(b[:l])
			}
		}
	}
	// mutations that stay on (or fall just off) the modelled path: field bytes, size bytes, tags, the DecConfig
	for i := 0; i < n*4; i++ {
		b := append([]byte{}, encs[r.Intn(len(encs))]...)
		switch r.Intn(6) {
		case 0: // entry fields
			b[8+r.Intn(28)] = byte(r.U64())
		case 1: // DecConfig bytes and the trailing SLConfig
			b[len(b)-1-r.Intn(8)] = byte(r.U64())
		case 2: // any byte
			b[r.Intn(len(b))] = byte(r.U64())
		case 3: // size bytes / tags of boxes and descriptors
			pos := []int{3, 39, 48, 49, 53, 54, 68, 69, len(b) - 3, len(b) - 2}[r.Intn(10)]
			b[pos] = byte(int(b[pos]) + r.Range(-2, 2))
		case 4: // trailing bytes after the entry
			b = append(b, r.Bytes(r.Range(1, 9), nil)...)
		default: // flags of the ES descriptor (optional fields) with bytes inserted
			b[52] = byte(r.U64())
		}
		emitED(b)
	}
}

// ---------------------------------------------------------------- search: the property itself

var evals int

// distinct evaluated inputs: a set of 64-bit FNV-1a hashes of the input key; the bulk loops of the thorough tier
// (tuples distinct by construction, overlaps with the other loops skipped) are counted without storing them
var distinctSet = map[uint64]struct{}{}
var bulk bool
var bulkDistinct int

func noteInput(kind byte, nums []int, bs ...[]byte) {
	if bulk {
		bulkDistinct++
		return
	}
	h := uint64(14695981039346656037)
	mix := func(b byte) { h ^= uint64(b); h *= 1099511628211 }
	mix(kind)
	for _, n := range nums {
		for i := 0; i < 8; i++ {
			mix(byte(uint64(n) >> (8 * uint(i))))
		}
	}
	for _, b := range bs {
		mix(0xfe)
		for _, x := range b {
			mix(x)
		}
	}
	distinctSet[h] = struct{}{}
}

func inTable(f int) bool {
	for _, t := range tableFreqs {
		if t == f {
			return true
		}
	}
	return false
}

func fail(site, class, witness, desc string) {
	fmt.Fprintf(out, "FAIL\t%s\t%s\t%s\t%s\n", site, class, witness, desc)
}

func canonicalASC(ot, ch byte, f, e int) *aac.AudioSpecificConfig {
	a := &aac.AudioSpecificConfig{ObjectType: ot, ChannelConfiguration: ch, SamplingFrequency: f}
	if ot != 2 {
		a.ExtensionFrequency = e
		a.SBRPresentFlag = true
	}
	if ot == 29 {
		a.PSPresentFlag = true
	}
	return a
}

func checkASC(a *aac.AudioSpecificConfig) {
	evals++
	noteInput('a', []int{int(a.ObjectType), int(a.ChannelConfiguration), a.SamplingFrequency, a.ExtensionFrequency})
	w := fmt.Sprintf("ot=%d ch=%d f=%d e=%d", a.ObjectType, a.ChannelConfiguration, a.SamplingFrequency, a.ExtensionFrequency)
	cls, b := encodeASC(a)
	if cls != "ok" {
		fail("AudioSpecificConfig.Encode", cls, w, "Encode fails on a supported configuration")
		return
	}
	cls, d := decodeASC(b)
	if cls != "ok" {
		fail("DecodeAudioSpecificConfig", cls, w+" bytes="+hx.Hex(b), "decoder rejects the encoder's output")
		return
	}
	if *d != *a {
		fail("DecodeAudioSpecificConfig", "roundtrip", w+" bytes="+hx.Hex(b), fmt.Sprintf("decoded %+v", *d))
	}
	if hygCount++; !bulk || hygCount%4096 == 0 {
		hygASC(a, b, w) // cross-cutting oracles: hygiene.go
	}
}

var hygCount int

func searchASC(r *hx.Rng, n int, thorough bool) {
	for _, ot := range objTypes {
		for ch := 0; ch < 16; ch++ {
			for _, f := range tableFreqs {
				if ot == 2 {
					checkASC(canonicalASC(ot, byte(ch), f, 0))
					continue
				}
				for _, e := range tableFreqs {
					checkASC(canonicalASC(ot, byte(ch), f, e))
				}
			}
		}
	}
	if thorough {
		// every explicit 24-bit value as sampling frequency (AAC-LC) and as extension frequency (HE-AAC)
		for f := 0; f < 1<<24; f++ {
			bulk = !inTable(f) // the 13 table values are already counted in the table enumeration
			checkASC(canonicalASC(2, byte(f&15), f, 0))
			checkASC(canonicalASC(objTypes[1+f&1], byte((f>>4)&15), tableFreqs[f%13], f))
		}
		bulk = false
	}
	fs := explicitFreqs(r, n)
	for i, f := range fs {
		for _, ot := range objTypes {
			for ch := 0; ch < 16; ch++ {
				checkASC(canonicalASC(ot, byte(ch), f, fs[(i*5+1)%len(fs)]))
				checkASC(canonicalASC(ot, byte(ch), tableFreqs[(i+ch)%13], f))
			}
		}
	}
	// the readers on arbitrary bytes (hygiene.go)
	for i := 0; i < 40*n; i++ {
		hygASCBytes(r.Bytes(r.Intn(9), nil), "arbitrary bytes")
	}
}

func checkADTS(h aac.ADTSHeader, junk, rest []byte) {
	evals++
	noteInput('h', []int{int(h.ID), int(h.ObjectType), int(h.SamplingFrequencyIndex), int(h.ChannelConfig), int(h.HeaderLength),
		int(h.PayloadLength), int(h.BufferFullness)}, junk, rest)
	b := append(append(append([]byte{}, junk...), h.Encode()...), rest...)
	cls, d, off := decodeADTS(b)
	w := func() string {
		return fmt.Sprintf("hdr=%s junk=%s rest=%s", adtsFields(&h), hx.Hex(junk), hx.Hex(rest))
	}
	if cls != "ok" {
		fail("DecodeADTSHeader", cls, w(), "decoder rejects an encoded header")
		return
	}
	if *d != h {
		fail("DecodeADTSHeader", "roundtrip", w(), "decoded "+adtsFields(d))
		return
	}
	if off != len(junk) {
		fail("DecodeADTSHeader", "offset", w(), fmt.Sprintf("offset %d, sync word is at %d", off, len(junk)))
	}
	// cross-cutting oracles (hygiene.go): every case with junk, one in 16 (bulk loops: one in 1024) of the enumerations
	if hygCount++; len(junk) > 0 || (!bulk && hygCount%16 == 0) || hygCount%1024 == 0 {
		hygADTS(h, b, w)
	}
}

func searchADTS(r *hx.Rng, n int, thorough bool) {
	// complete: all 13 table frequencies through NewADTSHeader (+ the 3 reserved indices directly) x 8 channel
	// configurations x payload lengths 0..8184
	for sfi := 0; sfi < 16; sfi++ {
		for ch := 0; ch < 8; ch++ {
			for pl := 0; pl <= 8184; pl++ {
				var h aac.ADTSHeader
				if sfi < 13 {
					p, err := aac.NewADTSHeader(tableFreqs[sfi], byte(ch), 2, uint16(pl))
					if err != nil {
						fail("NewADTSHeader", "err", fmt.Sprintf("f=%d", tableFreqs[sfi]), "constructor rejects a table frequency")
						continue
					}
					if int(p.SamplingFrequencyIndex) != sfi {
						fail("NewADTSHeader", "index", fmt.Sprintf("f=%d", tableFreqs[sfi]), "wrong frequency index")
					}
					if int(p.Frequency()) != tableFreqs[sfi] && ch == 0 && pl == 0 { // one report per frequency
						fail("ADTSHeader.Frequency", "uint16-wrap", fmt.Sprintf("NewADTSHeader(%d, %d, 2, %d).Frequency()", tableFreqs[sfi], ch, pl),
							fmt.Sprintf("Frequency() returns %d for the table frequency %d (uint16 result)", p.Frequency(), tableFreqs[sfi]))
					}
					h = *p
				} else {
					h = aac.ADTSHeader{ObjectType: 2, SamplingFrequencyIndex: byte(sfi), ChannelConfig: byte(ch), HeaderLength: 7,
						PayloadLength: uint16(pl), BufferFullness: 0x7ff}
				}
				checkADTS(h, nil, nil)
			}
		}
	}
	if thorough {
		bulk = true
		for ot := 1; ot <= 4; ot++ {
			for _, bf := range []uint16{0, 1, 0x400, 0x7fe} {
				for sfi := 0; sfi < 16; sfi++ {
					for ch := 0; ch < 8; ch++ {
						for pl := 0; pl <= 8184; pl++ {
							checkADTS(aac.ADTSHeader{ObjectType: byte(ot), SamplingFrequencyIndex: byte(sfi), ChannelConfig: byte(ch),
								HeaderLength: 7, PayloadLength: uint16(pl), BufferFullness: bf}, nil, nil)
						}
					}
				}
			}
		}
		bulk = false
		for bf := 0; bf < 2048; bf++ {
			checkADTS(aac.ADTSHeader{ObjectType: 2, SamplingFrequencyIndex: 3, ChannelConfig: 2, HeaderLength: 7, PayloadLength: uint16(bf * 3), BufferFullness: uint16(bf)}, nil, nil)
		}
	}
	// junk of every length 0..187 without a sync word inside (the oracle is the naive scan firstSync)
	reps := 1
	if thorough {
		reps = 40
	}
	for rep := 0; rep < reps; rep++ {
		for l := 0; l <= 187; l++ {
			for p := 0; p < 8; p++ {
				j := removeSyncs(makeJunk(r, p, l))
				h := randHeader(r)
				rest := r.Bytes(r.Intn(5), nil)
				whole := append(append([]byte{}, j...), h.Encode()...)
				if firstSync(whole) != l {
					fail("harness", "generator", hx.Hex(j), "junk generator left a sync word inside the junk")
					continue
				}
				checkADTS(h, j, rest)
			}
		}
	}
	for i := 0; i < n; i++ {
		l := r.Range(0, 187)
		j := removeSyncs(r.Bytes(l, junkAlphabet[:r.Range(2, len(junkAlphabet))]))
		checkADTS(randHeader(r), j, r.Bytes(r.Intn(5), nil))
	}
	// the readers on arbitrary bytes (hygiene.go)
	for i := 0; i < 20*n; i++ {
		b := r.Bytes(r.Intn(24), junkAlphabet)
		hygADTSBytes(b, func() string { return "bytes=" + hx.Hex(b) })
	}
}

// sample entry: SetAACDescriptor -> mp4a/esds -> encode -> decode -> DecSpecificInfo -> DecodeAudioSpecificConfig
func checkEntry(ot byte, f int) {
	evals++
	noteInput('e', []int{int(ot), f})
	w := fmt.Sprintf("SetAACDescriptor(%d, %d)", ot, f)
	want := canonicalASC(ot, 2, f, 2*f)
	if ot == 29 {
		want.ChannelConfiguration = 1
	}
	var got [2]*aac.AudioSpecificConfig
	var rate [2]uint16
	var chans [2]uint16
	p := hx.Try(func() {
		init := mp4.CreateEmptyInit()
		init.AddEmptyTrack(uint32(48000), "audio", "und")
		trak := init.Moov.Trak
		if err := trak.SetAACDescriptor(ot, f); err != nil {
			panic("SetAACDescriptor: " + err.Error())
		}
		var buf bytes.Buffer
		if err := init.Encode(&buf); err != nil {
			panic("Encode: " + err.Error())
		}
		data := buf.Bytes()
		if uint64(len(data)) != init.Size() {
			panic("Size() differs from encoded length")
		}
		for k := 0; k < 2; k++ {
			var fl *mp4.File
			var err error
			if k == 0 {
				fl, err = mp4.DecodeFile(bytes.NewReader(data))
			} else {
				fl, err = mp4.DecodeFileSR(bits.NewFixedSliceReader(data))
			}
			if err != nil {
				panic("DecodeFile: " + err.Error())
			}
			e := fl.Init.Moov.Trak.Mdia.Minf.Stbl.Stsd.Mp4a
			if e == nil || e.Esds == nil || e.Esds.DecConfigDescriptor == nil || e.Esds.DecConfigDescriptor.DecSpecificInfo == nil {
				panic("decoded entry has no esds / DecSpecificInfo")
			}
			a, err := aac.DecodeAudioSpecificConfig(bytes.NewReader(e.Esds.DecConfigDescriptor.DecSpecificInfo.DecConfig))
			if err != nil {
				panic("DecodeAudioSpecificConfig: " + err.Error())
			}
			got[k] = a
			rate[k] = e.SampleRate
			chans[k] = e.ChannelCount
		}
	})
	if p != "" {
		fail("SetAACDescriptor", "entry-decode", w, p)
		return
	}
	for k := 0; k < 2; k++ {
		if *got[k] != *want {
			fail("SetAACDescriptor", "entry-config", w, fmt.Sprintf("decoded configuration %+v, built from %+v", *got[k], *want))
			return
		}
		if int(chans[k]) != int(want.ChannelConfiguration) {
			fail("SetAACDescriptor", "entry-channels", w, fmt.Sprintf("entry channel count %d", chans[k]))
		}
		if int(rate[k]) != f {
			fail("SetAACDescriptor", "entry-sample-rate", w, fmt.Sprintf("the entry's 16.16 sample-rate field holds %d, not %d (uint16 wrap)", rate[k], f))
			return
		}
	}
}

func searchEntry(r *hx.Rng, n int, thorough bool) {
	for _, ot := range objTypes {
		for _, f := range tableFreqs {
			checkEntry(ot, f)
		}
	}
	fs := explicitFreqs(r, n/10)
	for i, f := range fs {
		if f >= 1<<23 { // 2*f must fit the 24-bit escape for the HE types
			continue
		}
		checkEntry(objTypes[i%3], f)
	}
}

// replay re-evaluates one recorded witness on the current tree
func replay(site, witness string) {
	var a, b, c, d, e, f, g int
	var junk, rest string
	switch {
	case strings.HasPrefix(witness, "SetAACDescriptor("):
		if _, err := fmt.Sscanf(witness, "SetAACDescriptor(%d, %d)", &a, &b); err == nil {
			checkEntry(byte(a), b)
		}
	case strings.HasPrefix(witness, "NewADTSHeader("):
		if _, err := fmt.Sscanf(witness, "NewADTSHeader(%d, %d, 2, %d).Frequency()", &a, &b, &c); err == nil {
			evals++
			p, err := aac.NewADTSHeader(a, byte(b), 2, uint16(c))
			if err != nil || int(p.Frequency()) != a {
				fail("ADTSHeader.Frequency", "uint16-wrap", witness, "Frequency() differs from the requested table frequency")
			}
		}
	case strings.HasPrefix(witness, "ot="):
		if _, err := fmt.Sscanf(witness, "ot=%d ch=%d f=%d e=%d", &a, &b, &c, &d); err == nil {
			checkASC(canonicalASC(byte(a), byte(b), c, d))
		}
	case strings.HasPrefix(witness, "hdr="):
		if _, err := fmt.Sscanf(witness, "hdr=%d/%d/%d/%d/%d/%d/%d junk=%s rest=%s", &a, &b, &c, &d, &e, &f, &g, &junk, &rest); err == nil {
			checkADTS(aac.ADTSHeader{ID: byte(a), ObjectType: byte(b), SamplingFrequencyIndex: byte(c), ChannelConfig: byte(d),
				HeaderLength: byte(e), PayloadLength: uint16(f), BufferFullness: uint16(g)}, hx.UnHex(junk), hx.UnHex(rest))
		}
	case strings.HasPrefix(witness, "bytes="): // decoder-range witnesses (rangechk.go)
		if b := hx.UnHex(strings.TrimPrefix(witness, "bytes=")); site == "DecodeADTSHeader" {
			checkADTSRange(b)
		} else {
			checkASCRange(b)
		}
	case strings.HasPrefix(witness, "esds="):
		replayEsds(hx.UnHex(strings.TrimPrefix(witness, "esds=")))
	case strings.HasPrefix(witness, "B:"):
		checkHistory(parseOps(witness))
	case strings.HasPrefix(witness, "asc-stream="):
		var cfgs []*aac.AudioSpecificConfig
		for _, t := range strings.Split(strings.TrimPrefix(witness, "asc-stream="), ";") {
			p := strings.Split(t, "/")
			if len(p) == 4 {
				ot, _ := strconv.Atoi(p[0])
				ch, _ := strconv.Atoi(p[1])
				cfgs = append(cfgs, canonicalASC(byte(ot), byte(ch), int(hx.ParseHexI(p[2])), int(hx.ParseHexI(p[3]))))
			}
		}
		checkASCStream(cfgs)
	case strings.HasPrefix(witness, "adts-stream="):
		var items []hsItem
		for _, t := range strings.Split(strings.TrimPrefix(witness, "adts-stream="), ";") {
			p := strings.SplitN(t, ":", 2)
			if len(p) == 2 {
				if _, err := fmt.Sscanf(p[1], "%d/%d/%d/%d/%d/%d/%d", &a, &b, &c, &d, &e, &f, &g); err == nil {
					items = append(items, hsItem{hx.UnHex(p[0]), aac.ADTSHeader{ID: byte(a), ObjectType: byte(b), SamplingFrequencyIndex: byte(c),
						ChannelConfig: byte(d), HeaderLength: byte(e), PayloadLength: uint16(f), BufferFullness: uint16(g)}})
				}
			}
		}
		checkADTSStream(items)
	default:
		fmt.Fprintf(out, "cannot parse witness %q for site %s\n", witness, site)
	}
}

func main() {
	if len(os.Args) < 2 {
		fmt.Fprintln(os.Stderr, "usage: c18 corr|search -seed S -n N -tier quick|thorough")
		os.Exit(2)
	}
	fs := flag.NewFlagSet(os.Args[1], flag.ExitOnError)
	seed := fs.Uint64("seed", 0, "seed")
	n := fs.Int("n", 200, "number of random cases per stream")
	tier := fs.String("tier", "quick", "quick|thorough")
	part := fs.String("part", "all", "asc|adts|entry|all")
	site := fs.String("site", "", "replay: site of the recorded failing input")
	witness := fs.String("witness", "", "replay: witness of the recorded failing input")
	_ = fs.Parse(os.Args[2:])
	thorough := *tier == "thorough"
	defer out.Flush()
	switch os.Args[1] {
	case "corr":
		if *part == "all" || *part == "asc" {
			corrASC(hx.NewRng(*seed*4+1), *n, thorough)
		}
		if *part == "all" || *part == "adts" {
			corrADTS(hx.NewRng(*seed*4+2), *n, thorough)
		}
		if *part == "all" || *part == "entry" {
			corrEntry(hx.NewRng(*seed*4+3), *n, thorough)
		}
		if *part == "all" || *part == "bits" {
			corrBits(hx.NewRng(*seed*4+4), *n*10)
		}
		if *part == "all" || *part == "hist" {
			corrHistory(hx.NewRng(*seed*8+5), *n, thorough)
		}
		if *part == "all" || *part == "streams" {
			corrStreams(hx.NewRng(*seed*8+6), *n, thorough)
		}
		if *part == "all" || *part == "desc" {
			corrDesc(hx.NewRng(*seed*8+7), *n, thorough)
		}
		if *part == "all" || *part == "range" {
			corrRange(hx.NewRng(*seed*8+9), *n, thorough)
		}
	case "search":
		hygTablesStart()
		if *part == "all" || *part == "asc" {
			searchASC(hx.NewRng(*seed*4+1), *n, thorough)
			hygTablesEnd("asc")
			fmt.Fprintf(out, "PART\tasc\t%d\n", evals)
		}
		if *part == "all" || *part == "adts" {
			searchADTS(hx.NewRng(*seed*4+2), *n, thorough)
			hygTablesEnd("adts")
			fmt.Fprintf(out, "PART\tadts\t%d\n", evals)
		}
		if *part == "all" || *part == "entry" {
			searchEntry(hx.NewRng(*seed*4+3), *n, thorough)
			hygTablesEnd("entry")
			fmt.Fprintf(out, "PART\tentry\t%d\n", evals)
		}
		if *part == "all" || *part == "hist" {
			searchHistory(hx.NewRng(*seed*8+5), *n, thorough)
			hygTablesEnd("hist")
			fmt.Fprintf(out, "PART\thist\t%d\n", evals)
		}
		if *part == "all" || *part == "streams" {
			searchStreams(hx.NewRng(*seed*8+6), *n, thorough)
			hygTablesEnd("streams")
			fmt.Fprintf(out, "PART\tstreams\t%d\n", evals)
		}
		if *part == "all" || *part == "desc" {
			searchDesc(hx.NewRng(*seed*8+7), *n, thorough)
			hygTablesEnd("desc")
			fmt.Fprintf(out, "PART\tdesc\t%d\n", evals)
		}
		if *part == "all" || *part == "range" {
			searchRange(hx.NewRng(*seed*8+9), *n, thorough)
			hygTablesEnd("range")
			fmt.Fprintf(out, "PART\trange\t%d\n", evals)
		}
		fmt.Fprintf(out, "EVALS\t%d\n", evals)
		fmt.Fprintf(out, "DISTINCT\t%d\n", len(distinctSet)+bulkDistinct)
	case "replay":
		replay(*site, *witness)
		fmt.Fprintf(out, "EVALS\t%d\n", evals)
	default:
		fmt.Fprintln(os.Stderr, "unknown sub-command")
		os.Exit(2)
	}
}
