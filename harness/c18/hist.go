// Histories for C18: several sample entries / configurations / headers built and encoded one after the other
// (different tracks of one init segment, different init segments, one shared writer), interleaved with encodes,
// and only afterwards read back.  Every value must come back as its OWN configuration, whatever was built or
// encoded before or after it (an entry keeps a []byte; a codec may keep scratch state).
package main

import (
	"bytes"
	"encoding/binary"
	"fmt"
	"strconv"
	"strings"

	"github.com/Eyevinn/mp4ff/aac"
	"github.com/Eyevinn/mp4ff/bits"
	"github.com/Eyevinn/mp4ff/mp4"
	"verifharness/hx"
)

// ---------------------------------------------------------------- sample-entry histories

type hop struct {
	kind byte // 'B' build, 'E' encode entry idx, 'I' encode init ini
	ini  int
	trk  int
	idx  int
	ot   byte
	f    int
}

func (o hop) String() string {
	switch o.kind {
	case 'B':
		return fmt.Sprintf("B:%d:%d:%d:%s", o.ini, o.trk, o.ot, hx.HexI(int64(o.f)))
	case 'E':
		return fmt.Sprintf("E:%d", o.idx)
	default:
		return fmt.Sprintf("I:%d", o.ini)
	}
}

func opsString(ops []hop) string {
	ss := make([]string, len(ops))
	for i, o := range ops {
		ss[i] = o.String()
	}
	return strings.Join(ss, ";")
}

func parseOps(s string) []hop {
	var ops []hop
	for _, t := range strings.Split(s, ";") {
		p := strings.Split(t, ":")
		switch {
		case p[0] == "B" && len(p) == 5:
			ini, _ := strconv.Atoi(p[1])
			trk, _ := strconv.Atoi(p[2])
			ot, _ := strconv.Atoi(p[3])
			ops = append(ops, hop{kind: 'B', ini: ini, trk: trk, ot: byte(ot), f: int(hx.ParseHexI(p[4]))})
		case p[0] == "E" && len(p) == 2:
			idx, _ := strconv.Atoi(p[1])
			ops = append(ops, hop{kind: 'E', idx: idx})
		case p[0] == "I" && len(p) == 2:
			ini, _ := strconv.Atoi(p[1])
			ops = append(ops, hop{kind: 'I', ini: ini})
		}
	}
	return ops
}

func otSupported(ot byte) bool { return ot == 2 || ot == 5 || ot == 29 }

// genHistory: k = 1..4 builds over 1..3 init segments (new tracks, sometimes a second entry on an existing
// track), encodes of earlier entries and of whole init segments in between; at the end every entry and every
// init segment is encoded, and every entry once more.  cfg draws a configuration.
func genHistory(r *hx.Rng, cfg func() (byte, int)) []hop {
	k := r.Range(1, 4)
	nInits := r.Range(1, 3)
	if nInits > k {
		nInits = k
	}
	tracks := make([]int, nInits)
	var ops []hop
	built := 0
	for b := 0; b < k; b++ {
		ini := r.Intn(nInits)
		if b < nInits {
			ini = b // every init segment gets used
		}
		trk := tracks[ini]
		if trk > 0 && (trk == 4 || r.Intn(4) == 0) {
			trk = r.Intn(tracks[ini])
		}
		if trk == tracks[ini] {
			tracks[ini]++
		}
		ot, f := cfg()
		ops = append(ops, hop{kind: 'B', ini: ini, trk: trk, ot: ot, f: f})
		if otSupported(ot) {
			built++
		}
		for built > 0 && r.Intn(3) == 0 {
			ops = append(ops, hop{kind: 'E', idx: r.Intn(built)})
		}
		if r.Intn(3) == 0 {
			ops = append(ops, hop{kind: 'I', ini: r.Intn(nInits)})
		}
	}
	for i := 0; i < built; i++ {
		ops = append(ops, hop{kind: 'E', idx: i})
	}
	for i := 0; i < nInits; i++ {
		ops = append(ops, hop{kind: 'I', ini: i})
	}
	for i := built - 1; i >= 0; i-- {
		ops = append(ops, hop{kind: 'E', idx: i})
	}
	return ops
}

type builtEntry struct {
	e        *mp4.AudioSampleEntryBox
	ini, trk int
	ot       byte
	f        int
}

type hist struct {
	inits   []*mp4.InitSegment
	entries []builtEntry
}

// boxes directly inside b
type rawBox struct {
	name        string
	body, whole []byte
}

func childBoxes(b []byte) []rawBox {
	var res []rawBox
	for len(b) >= 8 {
		sz := int(binary.BigEndian.Uint32(b))
		if sz < 8 || sz > len(b) {
			break
		}
		res = append(res, rawBox{string(b[4:8]), b[8:sz], b[:sz]})
		b = b[sz:]
	}
	return res
}

func named(bs []rawBox, name string) []rawBox {
	var res []rawBox
	for _, b := range bs {
		if b.name == name {
			res = append(res, b)
		}
	}
	return res
}

// mp4aBoxes: the mp4a sample entries inside an encoded init segment, in file order (an independent walk
// moov/trak/mdia/minf/stbl/stsd over the bytes)
func mp4aBoxes(data []byte) [][]byte {
	var res [][]byte
	for _, moov := range named(childBoxes(data), "moov") {
		for _, trak := range named(childBoxes(moov.body), "trak") {
			level := []rawBox{trak}
			for _, nm := range []string{"mdia", "minf", "stbl", "stsd"} {
				var next []rawBox
				for _, b := range level {
					next = append(next, named(childBoxes(b.body), nm)...)
				}
				level = next
			}
			for _, stsd := range level {
				if len(stsd.body) < 8 {
					continue
				}
				for _, c := range named(childBoxes(stsd.body[8:]), "mp4a") {
					res = append(res, c.whole)
				}
			}
		}
	}
	return res
}

func encodeBox(b mp4.Box) ([]byte, error) {
	var buf bytes.Buffer
	if err := b.Encode(&buf); err != nil {
		return nil, err
	}
	return buf.Bytes(), nil
}

// apply runs one operation; the observation is "b" (built), "e" (SetAACDescriptor error), "n" (no such entry),
// "x" (an encoder failed) or "=" followed by the comma separated hex strings of the encoded mp4a boxes
func (h *hist) apply(o hop) (obs string, boxes [][]byte) {
	p := hx.Try(func() {
		switch o.kind {
		case 'B':
			for len(h.inits) <= o.ini {
				h.inits = append(h.inits, mp4.CreateEmptyInit())
			}
			init := h.inits[o.ini]
			for len(init.Moov.Traks) <= o.trk {
				init.AddEmptyTrack(uint32(48000), "audio", "und")
			}
			stsd := init.Moov.Traks[o.trk].Mdia.Minf.Stbl.Stsd
			before := len(stsd.Children)
			if err := init.Moov.Traks[o.trk].SetAACDescriptor(o.ot, o.f); err != nil {
				obs = "e"
				return
			}
			if len(stsd.Children) != before+1 {
				obs = "x"
				return
			}
			e, ok := stsd.Children[before].(*mp4.AudioSampleEntryBox)
			if !ok {
				obs = "x"
				return
			}
			h.entries = append(h.entries, builtEntry{e, o.ini, o.trk, o.ot, o.f})
			obs = "b"
		case 'E':
			if o.idx >= len(h.entries) {
				obs = "n"
				return
			}
			b, err := encodeBox(h.entries[o.idx].e)
			if err != nil {
				obs = "x"
				return
			}
			boxes = [][]byte{b}
		default:
			if o.ini >= len(h.inits) {
				boxes = [][]byte{}
				return
			}
			var buf bytes.Buffer
			if err := h.inits[o.ini].Encode(&buf); err != nil {
				obs = "x"
				return
			}
			boxes = mp4aBoxes(buf.Bytes())
			if boxes == nil {
				boxes = [][]byte{}
			}
		}
	})
	if p != "" {
		return "x", nil
	}
	if boxes != nil {
		ss := make([]string, len(boxes))
		for i, b := range boxes {
			ss[i] = hx.Hex(b)
		}
		obs = "=" + strings.Join(ss, ",")
	}
	return obs, boxes
}

func memDecConfig(e *mp4.AudioSampleEntryBox) []byte {
	if e.Esds == nil || e.Esds.DecConfigDescriptor == nil || e.Esds.DecConfigDescriptor.DecSpecificInfo == nil {
		return nil
	}
	return e.Esds.DecConfigDescriptor.DecSpecificInfo.DecConfig
}

// emitEH: one history as a correspondence case: the observation of every operation and, after the last one, for
// every entry two more encodes, the DecConfig bytes the in-memory entry holds, and both decoders on its bytes
func emitEH(ops []hop) {
	h := &hist{}
	obs := make([]string, len(ops))
	for i, o := range ops {
		obs[i], _ = h.apply(o)
	}
	fin := make([]string, len(h.entries))
	for i, be := range h.entries {
		a, _ := encodeBox(be.e)
		b, _ := encodeBox(be.e)
		fin[i] = strings.Join([]string{hx.Hex(a), hx.Hex(b), hx.Hex(memDecConfig(be.e)), entryObs("ED", a), entryObs("ES", a)}, ",")
	}
	f := "-"
	if len(fin) > 0 {
		f = strings.Join(fin, "|")
	}
	fmt.Fprintf(out, "EH\t%s\t%s\t%s\t%s\n", nextID("eh"), opsString(ops), strings.Join(obs, ";"), f)
}

func corrHistory(r *hx.Rng, n int, thorough bool) {
	fs := append(append([]int{}, tableFreqs...), explicitFreqs(r, 8)...)
	cfg := func() (byte, int) {
		ot := objTypes[r.Intn(3)]
		if r.Intn(12) == 0 {
			ot = byte(r.Pick(0, 1, 3, 4, 42, 255)) // SetAACDescriptor fails: nothing may be added
		}
		f := fs[r.Intn(len(fs))]
		if r.Intn(10) == 0 {
			f = r.Pick(-1, -48000, 1<<24, 1<<24+5, 1<<40+44100)
		}
		return ot, f
	}
	// every ordered pair of the 3 x 13 table configurations, each as a two-build history on two tracks of one
	// init segment (thorough) or a stride of them (quick)
	step := 23
	if thorough {
		step = 1
	}
	for x := r.Intn(step); x < 39*39; x += step {
		a, b := x/39, x%39
		ops := []hop{{kind: 'B', ini: 0, trk: 0, ot: objTypes[a/13], f: tableFreqs[a%13]},
			{kind: 'E', idx: 0},
			{kind: 'B', ini: x % 2, trk: 1 - x%2, ot: objTypes[b/13], f: tableFreqs[b%13]},
			{kind: 'E', idx: 0}, {kind: 'E', idx: 1}, {kind: 'I', ini: 0}, {kind: 'I', ini: 1}}
		emitEH(ops)
	}
	for i := 0; i < n; i++ {
		emitEH(genHistory(r, cfg))
	}
}

// ---------------------------------------------------------------- AudioSpecificConfig / ADTS streams

func ascKey(a *aac.AudioSpecificConfig) string {
	return fmt.Sprintf("%d/%d/%s/%s", a.ObjectType, a.ChannelConfiguration, hx.HexI(int64(a.SamplingFrequency)), hx.HexI(int64(a.ExtensionFrequency)))
}

// decodeASCStream: k calls of DecodeAudioSpecificConfig on ONE reader; per call the projected result and the
// number of bytes the reader still holds; stops after the first error
func decodeASCStream(buf []byte, k int) (obs []string, got []*aac.AudioSpecificConfig) {
	rd := bytes.NewReader(hx.Exact(buf))
	for i := 0; i < k; i++ {
		var a *aac.AudioSpecificConfig
		var err error
		p := hx.Try(func() { a, err = aac.DecodeAudioSpecificConfig(rd) })
		if p != "" {
			obs = append(obs, "panic")
			return
		}
		if err != nil {
			obs = append(obs, "err")
			return
		}
		obs = append(obs, ascObs("ok", a)+"@"+strconv.Itoa(rd.Len()))
		got = append(got, a)
	}
	return
}

func emitAS(cfgs []*aac.AudioSpecificConfig) {
	var buf bytes.Buffer
	keys := make([]string, len(cfgs))
	for i, a := range cfgs {
		keys[i] = ascKey(a)
		hx.Try(func() { _ = a.Encode(&buf) })
	}
	data := buf.Bytes()
	obs, _ := decodeASCStream(data, len(cfgs))
	fmt.Fprintf(out, "AS\t%s\t%d\t%s\t%s\t%s\n", nextID("as"), len(cfgs), strings.Join(keys, ";"), hx.Hex(data), strings.Join(obs, ";"))
}

func emitASRaw(data []byte, k int) {
	obs, _ := decodeASCStream(data, k)
	fmt.Fprintf(out, "AS\t%s\t%d\t-\t%s\t%s\n", nextID("as"), k, hx.Hex(data), strings.Join(obs, ";"))
}

type hsItem struct {
	junk []byte
	h    aac.ADTSHeader
}

func decodeADTSStream(buf []byte, k int) (obs []string, got []*aac.ADTSHeader, offs []int) {
	rd := bytes.NewReader(hx.Exact(buf))
	for i := 0; i < k; i++ {
		var h *aac.ADTSHeader
		var off int
		var err error
		p := hx.Try(func() { h, off, err = aac.DecodeADTSHeader(rd) })
		if p != "" {
			obs = append(obs, "panic")
			return
		}
		if err != nil {
			obs = append(obs, "err")
			return
		}
		obs = append(obs, fmt.Sprintf("ok/%s/%d@%d", adtsFields(h), off, rd.Len()))
		got = append(got, h)
		offs = append(offs, off)
	}
	return
}

// buildADTSStream encodes every header FIRST (keeping the returned slices) and assembles the stream afterwards,
// so an Encode that hands out shared scratch memory shows
func buildADTSStream(items []hsItem) []byte {
	kept := make([][]byte, len(items))
	for i, it := range items {
		kept[i] = it.h.Encode()
	}
	var data []byte
	for i, it := range items {
		data = append(data, it.junk...)
		data = append(data, kept[i]...)
	}
	return data
}

func emitHS(items []hsItem) {
	keys := make([]string, len(items))
	for i, it := range items {
		keys[i] = hx.Hex(it.junk) + ":" + adtsFields(&it.h)
	}
	data := buildADTSStream(items)
	obs, _, _ := decodeADTSStream(data, len(items))
	fmt.Fprintf(out, "HS\t%s\t%d\t%s\t%s\t%s\n", nextID("hs"), len(items), strings.Join(keys, ";"), hx.Hex(data), strings.Join(obs, ";"))
}

func emitHSRaw(data []byte, k int) {
	obs, _, _ := decodeADTSStream(data, k)
	fmt.Fprintf(out, "HS\t%s\t%d\t-\t%s\t%s\n", nextID("hs"), k, hx.Hex(data), strings.Join(obs, ";"))
}

func randCanonicalASC(r *hx.Rng, fs []int) *aac.AudioSpecificConfig {
	pick := func() int {
		if r.Intn(3) == 0 {
			return fs[r.Intn(len(fs))]
		}
		return tableFreqs[r.Intn(13)]
	}
	return canonicalASC(objTypes[r.Intn(3)], byte(r.Intn(16)), pick(), pick())
}

func randJunk(r *hx.Rng, maxLen int) []byte {
	if r.Intn(3) == 0 {
		return nil
	}
	return removeSyncs(makeJunk(r, r.Intn(8), r.Intn(maxLen+1)))
}

func corrStreams(r *hx.Rng, n int, thorough bool) {
	fs := explicitFreqs(r, 16)
	for i := 0; i < n; i++ {
		k := r.Range(1, 4)
		cfgs := make([]*aac.AudioSpecificConfig, k)
		for j := range cfgs {
			cfgs[j] = randCanonicalASC(r, fs)
			if r.Intn(16) == 0 { // an unsupported object type in the middle: Encode fails and writes nothing
				cfgs[j] = &aac.AudioSpecificConfig{ObjectType: byte(r.Pick(0, 1, 3, 31)), ChannelConfiguration: 2, SamplingFrequency: 48000}
			}
		}
		emitAS(cfgs)
	}
	// malformed streams: random bytes, steered first bytes, truncated / spliced encodings
	for i := 0; i < n; i++ {
		var data []byte
		switch r.Intn(3) {
		case 0:
			data = r.Bytes(r.Range(0, 24), nil)
		case 1:
			for j := r.Range(1, 4); j > 0; j-- {
				_, b := encodeASC(randCanonicalASC(r, fs))
				if r.Intn(3) == 0 && len(b) > 0 {
					b = b[:r.Intn(len(b))]
				}
				data = append(data, b...)
			}
		default:
			data = r.Bytes(r.Range(1, 24), nil)
			for j := 0; j < len(data); j += r.Range(2, 5) {
				data[j] = objTypes[r.Intn(3)]<<3 | data[j]&7
			}
		}
		emitASRaw(data, r.Range(1, 5))
	}
	for i := 0; i < n; i++ {
		k := r.Range(1, 4)
		items := make([]hsItem, k)
		for j := range items {
			items[j] = hsItem{randJunk(r, 40), randHeader(r)}
			if r.Intn(8) == 0 {
				items[j].junk = makeJunk(r, r.Range(6, 7), r.Intn(12)) // sync words inside the junk allowed
			}
		}
		emitHS(items)
	}
	for i := 0; i < n; i++ {
		var data []byte
		for j := r.Range(1, 4); j > 0; j-- {
			h := randHeader(r)
			b := h.Encode()
			switch r.Intn(5) {
			case 0:
				b[1] = byte(r.Pick(0xf0, 0xf1, 0xf8, 0xf9)) // CRC present / MPEG-2 id: 9-byte headers
				b = append(b, r.Bytes(2, nil)...)
			case 1:
				b = b[:r.Intn(len(b))]
			case 2:
				b[r.Intn(len(b))] = byte(r.U64())
			}
			data = append(append(data, makeJunk(r, r.Intn(8), r.Intn(6))...), b...)
		}
		emitHSRaw(data, r.Range(1, 5))
	}
}

// ---------------------------------------------------------------- search: the property over histories

// wantASC: the configuration SetAACDescriptor(ot, f) is specified to build
func wantASC(ot byte, f int) *aac.AudioSpecificConfig {
	want := canonicalASC(ot, 2, f, 2*f)
	if ot == 29 {
		want.ChannelConfiguration = 1
	}
	return want
}

func configOfEntryBytes(kind int, b []byte) (*aac.AudioSpecificConfig, string) {
	var box mp4.Box
	var err error
	if kind == 0 {
		box, err = mp4.DecodeBox(0, bytes.NewReader(hx.Exact(b)))
	} else {
		box, err = mp4.DecodeBoxSR(0, bits.NewFixedSliceReader(hx.Exact(b)))
	}
	if err != nil {
		return nil, "DecodeBox: " + err.Error()
	}
	e, ok := box.(*mp4.AudioSampleEntryBox)
	if !ok {
		return nil, "decoded box is not an audio sample entry"
	}
	return configOfEntry(e)
}

func configOfEntry(e *mp4.AudioSampleEntryBox) (*aac.AudioSpecificConfig, string) {
	dc := memDecConfig(e)
	if dc == nil {
		return nil, "entry has no esds / DecSpecificInfo"
	}
	a, err := aac.DecodeAudioSpecificConfig(bytes.NewReader(hx.Exact(dc)))
	if err != nil {
		return nil, "DecodeAudioSpecificConfig: " + err.Error()
	}
	return a, ""
}

// checkHistory: run the operations; every encode of an entry made at ANY time must give the same bytes; at the
// end every entry (read from memory, encoded and decoded by both decoders, and found in the decoded init segment)
// must carry the configuration it was built from
func checkHistory(ops []hop) {
	evals++
	w := opsString(ops)
	noteInput('H', nil, []byte(w))
	msg := ""
	class := "history-entry-config"
	p := hx.Try(func() {
		h := &hist{}
		seen := map[int][]byte{} // entry index -> first encoding observed
		note := func(idx int, b []byte, when string) bool {
			if prev, ok := seen[idx]; ok {
				if !bytes.Equal(prev, b) {
					class = "history-entry-bytes-changed"
					msg = fmt.Sprintf("entry %d encodes to %s %s, it encoded to %s before", idx, hx.Hex(b), when, hx.Hex(prev))
					return false
				}
				return true
			}
			seen[idx] = append([]byte{}, b...)
			return true
		}
		// the entries of init segment ini in file order
		entriesOf := func(ini int) []int {
			var res []int
			for t := 0; t < 8; t++ {
				for i, be := range h.entries {
					if be.ini == ini && be.trk == t {
						res = append(res, i)
					}
				}
			}
			return res
		}
		for step, o := range ops {
			obs, boxes := h.apply(o)
			when := fmt.Sprintf("at step %d (%s)", step, o.String())
			switch o.kind {
			case 'B':
				if obs != "b" {
					class, msg = "history-build", "SetAACDescriptor fails on a supported configuration "+when
					return
				}
			case 'E':
				if len(boxes) != 1 {
					class, msg = "history-encode", "entry does not encode "+when
					return
				}
				if !note(o.idx, boxes[0], when) {
					return
				}
			default:
				idxs := entriesOf(o.ini)
				if len(boxes) != len(idxs) {
					class, msg = "history-encode", fmt.Sprintf("encoded init segment holds %d mp4a entries, %d were built %s", len(boxes), len(idxs), when)
					return
				}
				for j, idx := range idxs {
					if !note(idx, boxes[j], when) {
						return
					}
				}
			}
		}
		for i, be := range h.entries {
			want := wantASC(be.ot, be.f)
			a1, _ := encodeBox(be.e)
			a2, _ := encodeBox(be.e)
			if !note(i, a1, "after the history") || !note(i, a2, "after the history (second encode)") {
				return
			}
			type rd struct {
				how string
				a   *aac.AudioSpecificConfig
				e   string
			}
			var reads []rd
			a, e := configOfEntry(be.e)
			reads = append(reads, rd{"in-memory entry", a, e})
			a, e = configOfEntryBytes(0, a1)
			reads = append(reads, rd{"Encode -> DecodeBox", a, e})
			a, e = configOfEntryBytes(1, a1)
			reads = append(reads, rd{"Encode -> DecodeBoxSR", a, e})
			for _, x := range reads {
				if x.e != "" {
					msg = fmt.Sprintf("entry %d (SetAACDescriptor(%d, %d)), %s: %s", i, be.ot, be.f, x.how, x.e)
					return
				}
				if *x.a != *want {
					msg = fmt.Sprintf("entry %d built by SetAACDescriptor(%d, %d) reads back (%s) as %+v", i, be.ot, be.f, x.how, *x.a)
					return
				}
			}
		}
		// the decoded init segments
		for ini, init := range h.inits {
			var buf bytes.Buffer
			if err := init.Encode(&buf); err != nil {
				class, msg = "history-encode", "init.Encode: "+err.Error()
				return
			}
			for k := 0; k < 2; k++ {
				var fl *mp4.File
				var err error
				if k == 0 {
					fl, err = mp4.DecodeFile(bytes.NewReader(buf.Bytes()))
				} else {
					fl, err = mp4.DecodeFileSR(bits.NewFixedSliceReader(buf.Bytes()))
				}
				if err != nil {
					class, msg = "history-decode", "DecodeFile: "+err.Error()
					return
				}
				var got []*mp4.AudioSampleEntryBox
				for _, trak := range fl.Init.Moov.Traks {
					for _, c := range trak.Mdia.Minf.Stbl.Stsd.Children {
						if e, ok := c.(*mp4.AudioSampleEntryBox); ok {
							got = append(got, e)
						}
					}
				}
				idxs := entriesOf(ini)
				if len(got) != len(idxs) {
					class, msg = "history-decode", fmt.Sprintf("decoded init segment %d holds %d audio entries, %d were built", ini, len(got), len(idxs))
					return
				}
				for j, idx := range idxs {
					be := h.entries[idx]
					a, e := configOfEntry(got[j])
					if e != "" {
						msg = fmt.Sprintf("entry %d in decoded init segment %d: %s", idx, ini, e)
						return
					}
					if *a != *wantASC(be.ot, be.f) {
						msg = fmt.Sprintf("entry %d built by SetAACDescriptor(%d, %d) reads back from the decoded init segment as %+v", idx, be.ot, be.f, *a)
						return
					}
				}
			}
		}
	})
	if p != "" {
		fail("SetAACDescriptor", "history-panic", w, p)
		return
	}
	if msg != "" {
		fail("SetAACDescriptor", class, w, msg)
	}
}

func checkASCStream(cfgs []*aac.AudioSpecificConfig) {
	evals++
	keys := make([]string, len(cfgs))
	for i, a := range cfgs {
		keys[i] = ascKey(a)
	}
	w := "asc-stream=" + strings.Join(keys, ";")
	noteInput('S', nil, []byte(w))
	var buf bytes.Buffer
	var alone []byte
	for _, a := range cfgs {
		if err := a.Encode(&buf); err != nil {
			fail("AudioSpecificConfig.Encode", "stream-err", w, "Encode fails on a supported configuration")
			return
		}
		_, b := encodeASC(a)
		alone = append(alone, b...)
	}
	if !bytes.Equal(buf.Bytes(), alone) {
		fail("AudioSpecificConfig.Encode", "stream-bytes", w, fmt.Sprintf("configurations encoded into one writer give %s, each on its own %s", hx.Hex(buf.Bytes()), hx.Hex(alone)))
		return
	}
	obs, got := decodeASCStream(buf.Bytes(), len(cfgs))
	if len(got) != len(cfgs) {
		fail("DecodeAudioSpecificConfig", "stream-"+obs[len(obs)-1], w, fmt.Sprintf("configuration %d of the stream %s does not decode", len(got), hx.Hex(buf.Bytes())))
		return
	}
	for i := range cfgs {
		if *got[i] != *cfgs[i] {
			fail("DecodeAudioSpecificConfig", "stream-roundtrip", w, fmt.Sprintf("configuration %d of the stream decodes as %+v", i, *got[i]))
			return
		}
	}
	if !strings.HasSuffix(obs[len(obs)-1], "@0") {
		fail("DecodeAudioSpecificConfig", "stream-consumed", w, "bytes are left in the reader after the last configuration: "+obs[len(obs)-1])
	}
}

func checkADTSStream(items []hsItem) {
	evals++
	keys := make([]string, len(items))
	for i, it := range items {
		keys[i] = hx.Hex(it.junk) + ":" + adtsFields(&it.h)
	}
	w := "adts-stream=" + strings.Join(keys, ";")
	noteInput('T', nil, []byte(w))
	data := buildADTSStream(items)
	var alone []byte
	for _, it := range items {
		alone = append(append(alone, it.junk...), it.h.Encode()...)
	}
	if !bytes.Equal(data, alone) {
		fail("ADTSHeader.Encode", "stream-bytes", w, fmt.Sprintf("headers encoded first and assembled afterwards give %s, encoded one at a time %s", hx.Hex(data), hx.Hex(alone)))
		return
	}
	obs, got, offs := decodeADTSStream(data, len(items))
	if len(got) != len(items) {
		fail("DecodeADTSHeader", "stream-"+obs[len(obs)-1], w, fmt.Sprintf("header %d of the stream does not decode", len(got)))
		return
	}
	for i, it := range items {
		if *got[i] != it.h {
			fail("DecodeADTSHeader", "stream-roundtrip", w, fmt.Sprintf("header %d of the stream decodes as %s", i, adtsFields(got[i])))
			return
		}
		if offs[i] != len(it.junk) {
			fail("DecodeADTSHeader", "stream-offset", w, fmt.Sprintf("header %d: offset %d, sync word is %d bytes after the previous header", i, offs[i], len(it.junk)))
			return
		}
	}
}

func searchHistory(r *hx.Rng, n int, thorough bool) {
	fs := explicitFreqs(r, 8)
	cfg := func() (byte, int) {
		ot := objTypes[r.Intn(3)]
		f := tableFreqs[r.Intn(13)]
		if r.Intn(3) == 0 {
			f = fs[r.Intn(len(fs))]
			for ot != 2 && f >= 1<<23 { // 2*f must fit the 24-bit escape for the HE types
				f = fs[r.Intn(len(fs))]
			}
		}
		return ot, f
	}
	// every ordered pair of table configurations: build A, build B (same init other track / other init), read A and B
	for a := 0; a < 39; a++ {
		for b := 0; b < 39; b++ {
			x := a*39 + b
			if !thorough && a != b && (x%5) != 0 {
				continue
			}
			checkHistory([]hop{{kind: 'B', ini: 0, trk: 0, ot: objTypes[a/13], f: tableFreqs[a%13]},
				{kind: 'E', idx: 0},
				{kind: 'B', ini: x % 2, trk: 1 - x%2, ot: objTypes[b/13], f: tableFreqs[b%13]},
				{kind: 'E', idx: 1}, {kind: 'I', ini: 0}})
		}
	}
	for i := 0; i < n; i++ {
		checkHistory(genHistory(r, cfg))
	}
}

func searchStreams(r *hx.Rng, n int, thorough bool) {
	fs := explicitFreqs(r, 16)
	// every ordered pair of (object type, table frequency) with table extension frequencies, back to back
	for a := 0; a < 39; a++ {
		for b := 0; b < 39; b++ {
			if !thorough && (a*39+b)%3 != 0 {
				continue
			}
			checkASCStream([]*aac.AudioSpecificConfig{
				canonicalASC(objTypes[a/13], byte((a+b)%16), tableFreqs[a%13], tableFreqs[(a+5)%13]),
				canonicalASC(objTypes[b/13], byte((a*b)%16), tableFreqs[b%13], tableFreqs[(b+7)%13])})
		}
	}
	for i := 0; i < n; i++ {
		k := r.Range(1, 4)
		cfgs := make([]*aac.AudioSpecificConfig, k)
		for j := range cfgs {
			cfgs[j] = randCanonicalASC(r, fs)
		}
		checkASCStream(cfgs)
	}
	for i := 0; i < n; i++ {
		k := r.Range(1, 4)
		items := make([]hsItem, k)
		for j := range items {
			items[j] = hsItem{randJunk(r, 187), randHeader(r)}
		}
		checkADTSStream(items)
	}
}
