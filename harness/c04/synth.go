// Byte-level synthesis of minimal boxes and of top-level box SHAPES (C04/C03 harness).
// Raw builders only: nothing here goes through the library's encoders.
package main

import (
	"encoding/binary"
	"fmt"
	"os"
	"path/filepath"
	"strings"
)

func u16(v uint16) []byte { b := make([]byte, 2); binary.BigEndian.PutUint16(b, v); return b }
func u32(v uint32) []byte { b := make([]byte, 4); binary.BigEndian.PutUint32(b, v); return b }
func u64(v uint64) []byte { b := make([]byte, 8); binary.BigEndian.PutUint64(b, v); return b }

func cat(parts ...[]byte) []byte {
	var o []byte
	for _, p := range parts {
		o = append(o, p...)
	}
	return o
}

// box builds size(4) name(4) payload.
func box(name string, payload ...[]byte) []byte {
	p := cat(payload...)
	return cat(u32(uint32(8+len(p))), []byte(name), p)
}

// lbox builds a box with the 16-byte large-size header.
func lbox(name string, payload ...[]byte) []byte {
	p := cat(payload...)
	return cat(u32(1), []byte(name), u64(uint64(16+len(p))), p)
}

func fullbox(name string, version byte, flags uint32, payload ...[]byte) []byte {
	return box(name, cat(u32(uint32(version)<<24|flags&0xffffff), cat(payload...)))
}

// rawChild returns the bytes of the first child box called name inside the payload of a container box
// (hdrSkip = number of payload bytes before the first child, e.g. 8 for stsd).
func rawChildren(container []byte, hdrSkip int) [][]byte {
	var out [][]byte
	p := 8 + hdrSkip
	for p+8 <= len(container) {
		sz := int(binary.BigEndian.Uint32(container[p:]))
		if sz < 8 || p+sz > len(container) {
			break
		}
		out = append(out, container[p:p+sz])
		p += sz
	}
	return out
}

func rawTop(data []byte) [][]byte {
	var out [][]byte
	p := 0
	for p+8 <= len(data) {
		sz := int(binary.BigEndian.Uint32(data[p:]))
		if sz == 1 && p+16 <= len(data) {
			sz = int(binary.BigEndian.Uint64(data[p+8:]))
		}
		if sz < 8 || p+sz > len(data) {
			break
		}
		out = append(out, data[p:p+sz])
		p += sz
	}
	return out
}

func rawFind(boxes [][]byte, name string) []byte {
	for _, b := range boxes {
		if string(b[4:8]) == name {
			return b
		}
	}
	return nil
}

func rawPath(data []byte, path string) []byte {
	cur := rawTop(data)
	var b []byte
	for _, n := range strings.Split(path, "/") {
		b = rawFind(cur, n)
		if b == nil {
			panic("synth: no " + n + " in " + path)
		}
		cur = rawChildren(b, 0)
	}
	return b
}

var testdataDir = func() string {
	if d := os.Getenv("VERIF_REPO"); d != "" {
		return filepath.Join(d, "mp4", "testdata")
	}
	return "/repo/mp4/testdata"
}()

func mustRead(name string) []byte {
	b, err := os.ReadFile(filepath.Join(testdataDir, name))
	if err != nil {
		panic(err)
	}
	return b
}

// ---- leaf parts harvested once from testdata/init.mp4 (a fragmented init segment)
type parts struct {
	ftyp, mvhd, tkhd, mdhd, hdlr, vmhd, dinf, stsd, stsc, stsz, stco, mvex []byte
}

var pp *parts

func getParts() *parts {
	if pp != nil {
		return pp
	}
	d := mustRead("init.mp4")
	pp = &parts{
		ftyp: rawPath(d, "ftyp"),
		mvhd: rawPath(d, "moov/mvhd"),
		tkhd: rawPath(d, "moov/trak/tkhd"),
		mdhd: rawPath(d, "moov/trak/mdia/mdhd"),
		hdlr: rawPath(d, "moov/trak/mdia/hdlr"),
		vmhd: rawPath(d, "moov/trak/mdia/minf/vmhd"),
		dinf: rawPath(d, "moov/trak/mdia/minf/dinf"),
		stsd: rawPath(d, "moov/trak/mdia/minf/stbl/stsd"),
		stsc: rawPath(d, "moov/trak/mdia/minf/stbl/stsc"),
		stsz: rawPath(d, "moov/trak/mdia/minf/stbl/stsz"),
		stco: rawPath(d, "moov/trak/mdia/minf/stbl/stco"),
		mvex: rawPath(d, "moov/mvex"),
	}
	return pp
}

// moovChain builds moov{mvhd, trak-chain cut at depth}: depth 0 = no trak, 1 = trak{tkhd}, 2 = +mdia{mdhd,hdlr},
// 3 = +minf{vmhd,dinf}, 4 = +stbl{stsd}, 5 = +stts (sttsEntries entries of (1,1)).
func moovChain(depth int, sttsEntries int) []byte {
	p := getParts()
	if depth == 0 {
		return box("moov", p.mvhd)
	}
	var stbl, minf, mdia []byte
	if depth >= 4 {
		kids := [][]byte{p.stsd}
		if depth >= 5 {
			var e []byte
			for i := 0; i < sttsEntries; i++ {
				e = cat(e, u32(1), u32(1))
			}
			kids = append(kids, fullbox("stts", 0, 0, u32(uint32(sttsEntries)), e))
		}
		stbl = box("stbl", kids...)
	}
	if depth >= 3 {
		minf = box("minf", p.vmhd, p.dinf, stbl)
	}
	if depth >= 2 {
		mdia = box("mdia", p.mdhd, p.hdlr, minf)
	}
	return box("moov", p.mvhd, box("trak", p.tkhd, mdia))
}

func mfhd(seq uint32) []byte { return fullbox("mfhd", 0, 0, u32(seq)) }
func tfhd(trackID uint32) []byte {
	return fullbox("tfhd", 0, 0x020000, u32(trackID))
}
func tfdt(t uint32) []byte { return fullbox("tfdt", 0, 0, u32(t)) }

// trun with one sample of size 4; flags: 0x1 data offset present, 0x200 sample size present
func trun(withOffset bool, dataOffset int32) []byte {
	if withOffset {
		return fullbox("trun", 0, 0x201, u32(1), u32(uint32(dataOffset)), u32(4))
	}
	return fullbox("trun", 0, 0x200, u32(1), u32(4))
}

func saio(offsets ...int32) []byte {
	var e []byte
	for _, o := range offsets {
		e = cat(e, u32(uint32(o)))
	}
	return fullbox("saio", 0, 0, u32(uint32(len(offsets))), e)
}

// senc: flags 0 (no subsamples); count samples; raw bytes of IV data
func senc(count uint32, raw []byte) []byte { return fullbox("senc", 0, 0, u32(count), raw) }

func styp() []byte { return box("styp", []byte("cmfc"), u32(0), []byte("cmfc")) }
func emsg() []byte {
	// version 1: timescale, presentation_time(8), duration, id, scheme\0, value\0
	return fullbox("emsg", 1, 0, u32(1000), u64(0), u32(1), u32(7), []byte("urn:x\x00"), []byte("v\x00"))
}
func free(n int) []byte { return box("free", make([]byte, n)) }
func mdat(n int) []byte {
	p := make([]byte, n)
	for i := range p {
		p[i] = 0xd0 + byte(i&7)
	}
	return box("mdat", p)
}

// sidx version 0, one track, refs of (type, size)
type sref struct {
	typ  uint32
	size uint32
}

func sidx(firstOffset uint32, refs []sref) []byte {
	var e []byte
	for _, r := range refs {
		e = cat(e, u32(r.typ<<31|r.size&0x7fffffff), u32(1000), u32(0x90000000))
	}
	return fullbox("sidx", 0, 0, u32(1), u32(1000), u32(0), u32(firstOffset), u16(0), u16(uint16(len(refs))), e)
}

func tfra(trackID uint32, moofOffsets []uint32) []byte {
	var e []byte
	for i, o := range moofOffsets {
		e = cat(e, u32(uint32(i)*1000), u32(o), []byte{1, 1, 1})
	}
	return fullbox("tfra", 0, 0, u32(trackID), u32(0), u32(uint32(len(moofOffsets))), e)
}

// tfraX: version 0/1 and any length-size block (traf/trun/sample number fields of 1..4 bytes each)
func tfraX(trackID uint32, moofOffsets []uint32, ver byte, lens byte) []byte {
	var e []byte
	nb := func(k byte) []byte { return make([]byte, 1+int(k&3)) }
	for i, o := range moofOffsets {
		if ver == 1 {
			e = cat(e, u64(uint64(i)*1000), u64(uint64(o)))
		} else {
			e = cat(e, u32(uint32(i)*1000), u32(o))
		}
		e = cat(e, nb(lens>>4), nb(lens>>2), nb(lens))
	}
	return fullbox("tfra", ver, 0, u32(trackID), u32(uint32(lens&0x3f)), u32(uint32(len(moofOffsets))), e)
}

func mfra(tfras ...[]byte) []byte {
	body := cat(tfras...)
	size := uint32(8 + len(body) + 16)
	return box("mfra", body, fullbox("mfro", 0, 0, u32(size)))
}

func hexdump(b []byte) string { return fmt.Sprintf("%x", b) }
