// Info of the table boxes (third extension round, part b): outcome class and number of lines written at every
// level string, against coq/c04/C04InfoModel.v (state_of_box + info_lines).
package main

import (
	"bytes"
	"encoding/binary"
	"fmt"
	"strings"

	mbits "github.com/Eyevinn/mp4ff/bits"
	"github.com/Eyevinn/mp4ff/mp4"
	"verifharness/hx"
)

var infoKinds = map[string]bool{"stsc": true, "trun": true, "senc": true, "tfra": true, "sidx": true, "saiz": true, "ctts": true,
	"stts": true, "sbgp": true, "saio": true, "stsz": true, "stss": true, "stco": true, "co64": true, "elst": true, "sdtp": true, "subs": true}

// infoSpecs: the specificBoxLevels strings for a box of type t
func infoSpecs(t string) []string {
	return []string{"", "all:0", "all:1", "all:2", t + ":1", t + ":2", "all:1," + t + ":0", t + ":x", "all:-1", ":1,all:1", t,
		"all:1,all:0", "zzzz:5,all:2," + t + ":0", t + ":1,all:0", "all:x," + t + ":3", "all:1,:0"}
}

// lineCounter counts Write calls: infoDumper.write does two Fprintf calls (indent, line) per line
type lineCounter struct{ writes int }

func (l *lineCounter) Write(p []byte) (int, error) {
	l.writes++
	return len(p), nil
}

func boxInfoLines(n int, b mp4.Box, spec string) string {
	var lc lineCounter
	var err error
	p, over, dt, da := measured(n, func() { err = b.Info(&lc, spec, "", "  ") })
	note(n, dt, da)
	c := cls(p, over, err)
	if c != "ok" {
		return c
	}
	return fmt.Sprint(lc.writes / 2)
}

// infoJob: decode ONE box on one path, Info at every spec: "<class>\t<n0>;<n1>;..."
func infoJob(data []byte, sr bool) string {
	n := len(data)
	var b mp4.Box
	var err error
	dec := func() {
		if sr {
			b, err = mp4.DecodeBoxSR(0, mbits.NewFixedSliceReader(data))
		} else {
			b, err = mp4.DecodeBox(0, bytes.NewReader(data))
		}
	}
	p, over, dt, da := measured(n, dec)
	note(n, dt, da)
	c := cls(p, over, err)
	if c != "ok" {
		return c + "\t-"
	}
	var ls []string
	for _, spec := range infoSpecs(b.Type()) {
		dec() // Info may change the box (senc sets a flag)
		if err != nil {
			return "err\t-"
		}
		ls = append(ls, boxInfoLines(n, b, spec))
	}
	return "ok\t" + strings.Join(ls, ";")
}

func infoCases(r *hx.Rng, nRandom int) []ccase {
	var sel []ccase
	for _, c := range countCases(false) {
		if len(c.data) >= 16 && infoKinds[string(c.data[4:8])] && !strings.Contains(c.desc, solveMark) {
			sel = append(sel, c)
		}
	}
	// tables of a few hundred entries (line counts proportional to the size)
	for _, v := range countVariants(300) {
		if infoKinds[v.box] && v.box != "subs" {
			sel = append(sel, ccase{fmt.Sprintf("%s/%s/k300", v.box, v.tag), v.bytes, v.nest})
		}
	}
	// stsc: sample description ids equal / switching at each position / zero
	for _, ids := range [][]uint32{{1}, {1, 1}, {1, 2}, {2, 2, 3}, {1, 2, 1}, {1, 1, 1, 2}, {1, 0}, {0}, {3, 3, 3}, {1, 2, 2, 2}, {5, 5, 0, 5}} {
		var e []byte
		for i, id := range ids {
			e = cat(e, u32(uint32(i+1)), u32(1), u32(id))
		}
		sel = append(sel, ccase{fmt.Sprintf("stsc/ids%v", ids), fullbox("stsc", 0, 0, u32(uint32(len(ids))), e), "moov/trak/mdia/minf/stbl"})
	}
	// trun: every flag combination x 0..2 samples; many samples without per-sample fields
	for fl := uint32(0); fl < 64; fl++ {
		flags := fl&1 | (fl>>1&1)<<2 | (fl>>2&15)<<8
		per := 0
		for k := uint(8); k < 12; k++ {
			if flags>>k&1 == 1 {
				per += 4
			}
		}
		for _, n := range []int{0, 1, 2} {
			body := cat(u32(uint32(n)))
			if flags&1 != 0 {
				body = cat(body, u32(100))
			}
			if flags&4 != 0 {
				body = cat(body, u32(0x2000000))
			}
			body = cat(body, make([]byte, n*per))
			sel = append(sel, ccase{fmt.Sprintf("trun/f%x/n%d", flags, n), fullbox("trun", 0, flags, body), "moof/traf"})
		}
	}
	for _, n := range []uint32{1024, 1025, 500} {
		sel = append(sel, ccase{fmt.Sprintf("trun/empty-samples/n%d", n), fullbox("trun", 0, 0, u32(n)), "moof/traf"})
	}
	// malformed stream
	base := append([]ccase(nil), sel...)
	for i := 0; i < nRandom; i++ {
		c := base[r.Intn(len(base))]
		if len(c.data) > 512 {
			continue
		}
		d := append([]byte(nil), c.data...)
		switch r.Intn(4) {
		case 0:
			d = d[:r.Intn(len(d)+1)]
		case 1:
			d[8+r.Intn(len(d)-8)] = byte(r.Pick(0, 1, 2, 0x7f, 0x80, 0xff, int(r.U64()&0xff)))
		case 2:
			binary.BigEndian.PutUint32(d, uint32(r.Pick(0, 1, 8, 12, 16, len(d)-1, len(d)+1, len(d)+8)))
		case 3:
			d = cat(d, r.Bytes(r.Range(1, 24), nil))
		}
		sel = append(sel, ccase{c.desc + "/malformed", d, c.nest})
	}
	return sel
}

// corrInfo: I lines
func corrInfo(r *hx.Rng, nRandom int) {
	sel := infoCases(r, nRandom)
	var jobs []job
	for _, c := range sel {
		jobs = append(jobs, job{kind: "J", cfg: "R", data: c.data}, job{kind: "J", cfg: "S", data: c.data})
	}
	res := runJobs(jobs, nprocs())
	for i, j := range jobs {
		c := sel[i/2]
		f := strings.SplitN(res[i], "\t", 2)
		for len(f) < 2 {
			f = append(f, "-")
		}
		name := "-"
		if len(j.data) >= 8 {
			name = hx.Hex(j.data[4:8])
		}
		// panic descriptions inside the list are projected to the class
		ls := strings.Split(f[1], ";")
		for k := range ls {
			ls[k] = projectClass(ls[k])
		}
		fmt.Fprintf(out, "I\ti%d\t%s\t%s\t%s\t%s\t%s\n", i, j.cfg, name, hx.Hex(j.data), projectClass(f[0]), strings.Join(ls, ";"))
		if strings.HasPrefix(f[0], "panic") || f[0] == "hang" || f[0] == "overalloc" {
			fmt.Fprintln(out, failLine("box="+f[0], "hex:"+hx.Hex(j.data), "Info case "+c.desc+" path="+j.cfg))
		}
		for k, l := range strings.Split(f[1], ";") {
			if strings.HasPrefix(l, "panic") || l == "hang" || l == "overalloc" {
				fmt.Fprintln(out, failLine("i="+l, "hex:"+hx.Hex(j.data), fmt.Sprintf("Info(%q) of %s path=%s", infoSpecs(string(j.data[4:8]))[k], c.desc, j.cfg)))
			}
		}
	}
}
