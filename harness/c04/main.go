// Harness for C04 (untrusted container input never crashes, hangs or balloons memory).
//
//	c04 corr   -seed S -n N -exh L : R (FixedSliceReader op histories), B (box trees on both decode paths) and
//	                                 A (shape lists x decode options x Info x encoders) cases with the
//	                                 implementation's observables, plus FAIL lines for direct property failures
//	c04 search -seed S -n N        : structured mutation fuzzing of the repo's testdata (files and boxes)
//	c04 worker                     : isolated executor of the hostile calls (spawned by corr/search)
package main

import (
	"bufio"
	"flag"
	"fmt"
	"os"
)

var out = bufio.NewWriterSize(os.Stdout, 1<<20)

func main() {
	defer out.Flush()
	if len(os.Args) < 2 {
		fmt.Fprintln(os.Stderr, "usage: c04 corr|search|worker|try ...")
		os.Exit(2)
	}
	fs := flag.NewFlagSet(os.Args[1], flag.ExitOnError)
	seed := fs.Uint64("seed", 0, "seed")
	n := fs.Int("n", 1000, "volume")
	exh := fs.Int("exh", 2, "exhaustive shape-list length")
	switch os.Args[1] {
	case "try":
		cmdTry()
	case "worker":
		cmdWorker()
	case "counts":
		// debug: run the count-inflation cases at box level, print the failing ones
		cmdCounts()
	case "corr":
		_ = fs.Parse(os.Args[2:])
		cmdCorr(*seed, *n, *exh)
	case "search":
		_ = fs.Parse(os.Args[2:])
		cmdSearch(*seed, *n)
	default:
		fmt.Fprintln(os.Stderr, "unknown sub-command")
		os.Exit(2)
	}
}
