// Count-field inflation: for every box type whose decoder sizes an allocation or a loop from a count or
// length field, minimal well-formed bodies under every combination of the version / flags that change the
// per-entry size (including per-entry size 0), with each count / length field set to 0, 1, exact, exact+1,
// 2^16, 2^22, 2^31-1, 2^32-1 (clipped to the field width), with a compact and a large-size header, on both
// decode paths, at box level and nested in a file.  Raw builders only.
package main

import (
	"bytes"
	"encoding/binary"
	"fmt"
	"math/bits"
	"os"
	"strings"
	"time"

	mbits "github.com/Eyevinn/mp4ff/bits"
	"github.com/Eyevinn/mp4ff/mp4"
	"verifharness/hx"
)

type cfield struct {
	off   int // offset from the start of the box (compact header)
	width int // bytes
	what  string
}

// cvariant: one well-formed box (compact header) with `entries` real entries and the count / length fields in it
type cvariant struct {
	box    string
	tag    string
	bytes  []byte
	fields []cfield
	nest   string // parent chain used when nested in a file
}

func rep(n int, e []byte) []byte {
	var o []byte
	for i := 0; i < n; i++ {
		o = append(o, e...)
	}
	return o
}

func vf(version byte, flags uint32) []byte { return u32(uint32(version)<<24 | flags&0xffffff) }

// entry filler: non-zero, valid small values
func e32(n int) []byte { return rep(n, u32(1)) }

// countVariants builds the variants with k real entries
func countVariants(k int) []cvariant {
	var vs []cvariant
	add := func(box, tag, nest string, body []byte, fields ...cfield) {
		vs = append(vs, cvariant{box: box, tag: tag, bytes: cat(u32(uint32(8+len(body))), []byte(box), body), fields: fields, nest: nest})
	}
	cnt := func(off int) cfield { return cfield{off, 4, "count"} }
	// trun: every combination of the six flags
	for _, v := range []byte{0, 1} {
		for m := 0; m < 64; m++ {
			if v == 1 && m%7 != 3 {
				continue
			}
			var fl uint32
			for i, f := range []uint32{0x1, 0x4, 0x100, 0x200, 0x400, 0x800} {
				if m>>uint(i)&1 == 1 {
					fl |= f
				}
			}
			per := bits.OnesCount32(fl & 0xf00)
			body := cat(vf(v, fl), u32(uint32(k)))
			if fl&1 != 0 {
				body = cat(body, u32(100))
			}
			if fl&4 != 0 {
				body = cat(body, u32(0x02000000))
			}
			body = cat(body, rep(k, e32(per)))
			add("trun", fmt.Sprintf("v%df%03x", v, fl), "moof/traf", body, cnt(12))
		}
	}
	add("stts", "v0", "stbl", cat(vf(0, 0), u32(uint32(k)), rep(k, e32(2))), cnt(12))
	for _, v := range []byte{0, 1} {
		add("ctts", fmt.Sprintf("v%d", v), "stbl", cat(vf(v, 0), u32(uint32(k)), rep(k, e32(2))), cnt(12))
	}
	{
		var e []byte
		for i := 0; i < k; i++ {
			e = cat(e, u32(uint32(i+1)), u32(1), u32(1))
		}
		add("stsc", "v0", "stbl", cat(vf(0, 0), u32(uint32(k)), e), cnt(12))
		e = nil
		for i := 0; i < k; i++ {
			e = cat(e, u32(uint32(i+1)), u32(1), u32(uint32(1+i%2)))
		}
		add("stsc", "v0sdi", "stbl", cat(vf(0, 0), u32(uint32(k)), e), cnt(12))
	}
	add("stsz", "u0", "stbl", cat(vf(0, 0), u32(0), u32(uint32(k)), e32(k)), cnt(16), cfield{12, 4, "uniform"})
	add("stsz", "u7", "stbl", cat(vf(0, 0), u32(7), u32(uint32(k))), cnt(16)) // per-entry size 0
	add("stco", "v0", "stbl", cat(vf(0, 0), u32(uint32(k)), e32(k)), cnt(12))
	add("co64", "v0", "stbl", cat(vf(0, 0), u32(uint32(k)), e32(2*k)), cnt(12))
	add("stss", "v0", "stbl", cat(vf(0, 0), u32(uint32(k)), e32(k)), cnt(12))
	add("sdtp", "v0", "stbl", cat(vf(0, 0), rep(k, []byte{0x20})))
	for _, fl := range []uint32{0, 1} {
		aux := []byte(nil)
		if fl == 1 {
			aux = cat([]byte("cenc"), u32(0))
		}
		add("saiz", fmt.Sprintf("f%dd0", fl), "moof/traf", cat(vf(0, fl), aux, []byte{0}, u32(uint32(k)), rep(k, []byte{8})), cnt(13+8*int(fl)), cfield{12 + 8*int(fl), 1, "default"})
		add("saiz", fmt.Sprintf("f%dd8", fl), "moof/traf", cat(vf(0, fl), aux, []byte{8}, u32(uint32(k))), cnt(13+8*int(fl))) // per-entry size 0
		for _, v := range []byte{0, 1} {
			add("saio", fmt.Sprintf("v%df%d", v, fl), "moof/traf", cat(vf(v, fl), aux, u32(uint32(k)), e32(k*(1+int(v)))), cnt(12+8*int(fl)))
		}
	}
	// senc: no IV / 8-byte IVs / 8-byte IVs + one subsample each / subsamples without IVs
	add("senc", "f0iv0", "moof/traf", cat(vf(0, 0), u32(uint32(k))), cnt(12)) // per-entry size 0
	add("senc", "f0iv8", "moof/traf", cat(vf(0, 0), u32(uint32(k)), rep(k, make([]byte, 8))), cnt(12))
	add("senc", "f2iv8", "moof/traf", cat(vf(0, 2), u32(uint32(k)), rep(k, cat(make([]byte, 8), u16(1), u16(1), u32(2)))), cnt(12), cfield{24, 2, "subsamples"})
	add("senc", "f2iv0", "moof/traf", cat(vf(0, 2), u32(uint32(k)), rep(k, cat(u16(1), u16(1), u32(2)))), cnt(12), cfield{16, 2, "subsamples"})
	add("senc", "v1", "moof/traf", cat(vf(1, 0), u32(uint32(k)), rep(k, make([]byte, 8))), cnt(12))
	for _, v := range []byte{0, 1} {
		p := []byte(nil)
		if v == 1 {
			p = u32(0)
		}
		add("sbgp", fmt.Sprintf("v%d", v), "moof/traf", cat(vf(v, 0), []byte("roll"), p, u32(uint32(k)), rep(k, cat(u32(1), u32(1)))), cnt(16+4*int(v)))
	}
	// sgpd: version x grouping type x default length (0 = a length per entry)
	type sg struct {
		gt    string
		entry []byte
	}
	seig := cat([]byte{0, 0, 1, 8}, make([]byte, 16))
	for _, g := range []sg{{"roll", []byte{0xff, 0xff}}, {"rap ", []byte{0x80}}, {"seig", seig},
		{"alst", cat(u16(1), u16(0), u32(5))}, {"alst", cat(u16(0), u16(0))}, {"alst", cat(u16(1), u16(0), u32(5), u16(1), u16(2))}, {"zzzz", []byte{1, 2, 3}}} {
		l := uint32(len(g.entry))
		add("sgpd", fmt.Sprintf("v1%s%d", strings.TrimSpace(g.gt), l), "stbl", cat(vf(1, 0), []byte(g.gt), u32(l), u32(uint32(k)), rep(k, g.entry)), cnt(20), cfield{16, 4, "default_length"})
		add("sgpd", fmt.Sprintf("v1%s%dvar", strings.TrimSpace(g.gt), l), "stbl", cat(vf(1, 0), []byte(g.gt), u32(0), u32(uint32(k)), rep(k, cat(u32(l), g.entry))), cnt(20), cfield{24, 4, "description_length"})
		add("sgpd", fmt.Sprintf("v2%s%d", strings.TrimSpace(g.gt), l), "stbl", cat(vf(2, 0), []byte(g.gt), u32(l), u32(1), u32(uint32(k)), rep(k, g.entry)), cnt(24), cfield{16, 4, "default_length"})
		if g.gt == "alst" {
			add("sgpd", fmt.Sprintf("v1alst%droll", l), "stbl", cat(vf(1, 0), []byte(g.gt), u32(l), u32(uint32(k)), rep(k, g.entry)), cfield{24, 2, "roll_count"})
		}
	}
	add("sgpd", "v0roll", "stbl", cat(vf(0, 0), []byte("roll"), u32(uint32(k)), rep(k, []byte{0, 1})), cnt(16))
	for _, v := range []byte{0, 1} {
		ss := cat(u16(3), []byte{0, 0}, u32(0))
		if v == 1 {
			ss = cat(u32(3), []byte{0, 0}, u32(0))
		}
		add("subs", fmt.Sprintf("v%d", v), "stbl", cat(vf(v, 0), u32(uint32(k)), rep(k, cat(u32(1), u16(1), ss))), cnt(12), cfield{20, 2, "subsample_count"})
		add("subs", fmt.Sprintf("v%dnosub", v), "stbl", cat(vf(v, 0), u32(uint32(k)), rep(k, cat(u32(1), u16(0)))), cnt(12), cfield{20, 2, "subsample_count"})
	}
	for _, v := range []byte{0, 1, 2} {
		e := cat(u32(10), u32(0), u16(1), u16(0))
		if v == 1 {
			e = cat(u64(10), u64(0), u16(1), u16(0))
		}
		add("elst", fmt.Sprintf("v%d", v), "trak/edts", cat(vf(v, 0), u32(uint32(k)), rep(k, e)), cnt(12))
	}
	for _, v := range []byte{0, 1} {
		for _, sz := range []uint32{0x00, 0x3f, 0x1b, 0x24} {
			e := make([]byte, 8+8*int(v)+3+int(sz>>4&3)+int(sz>>2&3)+int(sz&3))
			e[len(e)-1] = 1
			add("tfra", fmt.Sprintf("v%ds%02x", v, sz), "mfra", cat(vf(v, 0), u32(1), u32(sz), u32(uint32(k)), rep(k, e)), cnt(20), cfield{16, 4, "sizes"})
		}
	}
	for _, v := range []byte{0, 1} {
		h := cat(vf(v, 0), u32(1), u32(1000), u32(0), u32(0))
		off := 30
		if v == 1 {
			h = cat(vf(v, 0), u32(1), u32(1000), u64(0), u64(0))
			off = 38
		}
		add("sidx", fmt.Sprintf("v%d", v), "", cat(h, u16(0), u16(uint16(k)), rep(k, cat(u32(100), u32(1000), u32(0x90000000)))), cfield{off, 2, "count"})
	}
	add("pssh", "v0", "moov", cat(vf(0, 0), make([]byte, 16), u32(4), []byte{1, 2, 3, 4}), cfield{28, 4, "data_length"})
	add("pssh", "v1", "moov", cat(vf(1, 0), make([]byte, 16), u32(uint32(k)), rep(k, make([]byte, 16)), u32(4), []byte{1, 2, 3, 4}), cnt(28), cfield{32 + 16*k, 4, "data_length"})
	add("ssix", "v0", "", cat(vf(0, 0), u32(uint32(k)), rep(k, cat(u32(2), u32(0x01000010), u32(0x02000020)))), cnt(12), cfield{16, 4, "range_count"})
	add("leva", "v0", "moov/mvex", cat(vf(0, 0), []byte{byte(k)}, rep(k, cat(u32(1), []byte{0}, u32(0x726f6c6c)))), cfield{12, 1, "count"})
	add("hint", "v0", "trak/tref", e32(k))
	add("cdsc", "v0", "trak/tref", e32(k))
	// uuid: tfrf (fragment count is 8 bit), tfxd, piff senc
	tfrfUUID := []byte{0xd4, 0x80, 0x7e, 0xf2, 0xca, 0x39, 0x46, 0x95, 0x8e, 0x54, 0x26, 0xcb, 0x9e, 0x46, 0xa7, 0x9f}
	tfxdUUID := []byte{0x6d, 0x1d, 0x9b, 0x05, 0x42, 0xd5, 0x44, 0xe6, 0x80, 0xe2, 0x14, 0x1d, 0xaf, 0xf7, 0x57, 0xb2}
	piffUUID := []byte{0xa2, 0x39, 0x4f, 0x52, 0x5a, 0x9b, 0x4f, 0x14, 0xa2, 0x44, 0x6c, 0x42, 0x7c, 0x64, 0x8d, 0xf4}
	for _, v := range []byte{0, 1} {
		add("uuid", fmt.Sprintf("tfrfv%d", v), "moof/traf", cat(tfrfUUID, vf(v, 0), []byte{byte(k)}, rep(k, e32(2*(1+int(v))))), cfield{28, 1, "count"})
		add("uuid", fmt.Sprintf("tfxdv%d", v), "moof/traf", cat(tfxdUUID, vf(v, 0), e32(2*(1+int(v)))))
	}
	add("uuid", "piff", "moof/traf", cat(piffUUID, vf(0, 0), u32(uint32(k)), rep(k, make([]byte, 8))), cnt(28))
	add("uuid", "piff2", "moof/traf", cat(piffUUID, vf(0, 2), u32(uint32(k)), rep(k, cat(make([]byte, 8), u16(1), u16(1), u32(2)))), cnt(28), cfield{40, 2, "subsamples"})
	add("uuid", "other", "moov", cat(make([]byte, 16), e32(k)))
	// loudness: base count (6 bit) and measurement count (8 bit)
	for _, v := range []byte{0, 1} {
		base := cat(u16(0), []byte{0, 0, 0}, []byte{0x11}, []byte{1}, []byte{1, 2, 0x11})
		if v == 1 {
			add("tlou", "v1", "udta/ludt", cat(vf(1, 0), []byte{byte(k & 0x3f)}, rep(k, cat([]byte{0}, base))), cfield{12, 1, "count"}, cfield{20, 1, "measurements"})
		} else {
			add("tlou", "v0", "udta/ludt", cat(vf(0, 0), base), cfield{18, 1, "measurements"})
		}
	}
	add("emsg", "v1", "", cat(vf(1, 0), u32(1000), u64(0), u32(1), u32(7), []byte("urn:x\x00"), []byte("v\x00"), e32(k)))
	add("emsg", "v0", "", cat(vf(0, 0), []byte("urn:x\x00"), []byte("v\x00"), u32(1000), u32(0), u32(1), u32(7), e32(k)))
	add("ftyp", "b", "", cat([]byte("isom"), u32(0), rep(k, []byte("iso6"))))
	add("styp", "b", "", cat([]byte("msdh"), u32(0), rep(k, []byte("msdh"))))
	// harvested from the testdata: stsd / dref entry counts, avcC / hvcC arrays, esds descriptor lengths, ilst data
	h := harvested()
	if b := h["stsd"]; b != nil {
		vs = append(vs, cvariant{"stsd", "real", b, []cfield{cnt(12)}, "stbl"})
	}
	if b := h["dref"]; b != nil {
		vs = append(vs, cvariant{"dref", "real", b, []cfield{cnt(12)}, "moov"})
	}
	if b := h["avcC"]; b != nil && len(b) > 16 {
		spsLen := int(binary.BigEndian.Uint16(b[14:]))
		fs := []cfield{{13, 1, "num_sps"}, {14, 2, "sps_length"}}
		if 16+spsLen+3 <= len(b) {
			fs = append(fs, cfield{16 + spsLen, 1, "num_pps"}, cfield{17 + spsLen, 2, "pps_length"})
		}
		vs = append(vs, cvariant{"avcC", "real", b, fs, "udta"})
	}
	if b := h["hvcC"]; b != nil && len(b) > 36 {
		vs = append(vs, cvariant{"hvcC", "real", b, []cfield{{30, 1, "num_arrays"}, {32, 2, "num_nalus"}, {34, 2, "nalu_length"}}, "udta"})
	}
	if b := h["esds"]; b != nil && len(b) > 20 {
		var fs []cfield
		for o := 13; o < len(b) && o < 40; o++ {
			fs = append(fs, cfield{o, 1, fmt.Sprintf("byte%d", o)})
		}
		vs = append(vs, cvariant{"esds", "real", b, fs, "udta"})
	}
	if b := h["ilst"]; b != nil && len(b) > 24 {
		vs = append(vs, cvariant{"ilst", "real", b, []cfield{{8, 4, "item_size"}, {16, 4, "data_size"}}, "udta/meta"})
	}
	return vs
}

var harv map[string][]byte

// harvested: the first (smallest) stsd / dref / avcC / hvcC / esds / ilst box of the testdata files
func harvested() map[string][]byte {
	if harv != nil {
		return harv
	}
	harv = map[string][]byte{}
	for _, b := range harvestPool() {
		n := string(b[4:8])
		switch n {
		case "stsd", "dref", "avcC", "hvcC", "esds", "ilst":
			if old, ok := harv[n]; !ok || len(b) < len(old) {
				harv[n] = b
			}
		}
	}
	return harv
}

func inflationValues(width, exact int) []uint64 {
	var vals []uint64
	max := uint64(1)<<(8*uint(width)) - 1
	for _, v := range []uint64{0, 1, uint64(exact), uint64(exact) + 1, 2, 1024, 1025, 1 << 16, 1 << 22, 1<<31 - 1, 1 << 31, 1<<32 - 1, 1<<32 - 4} {
		if v > max {
			v = max
		}
		dup := false
		for _, w := range vals {
			dup = dup || w == v
		}
		if !dup {
			vals = append(vals, v)
		}
	}
	return vals
}

func putField(b []byte, f cfield, v uint64) []byte {
	c := append([]byte(nil), b...)
	if f.off+f.width > len(c) {
		return c
	}
	for i := 0; i < f.width; i++ {
		c[f.off+f.width-1-i] = byte(v >> (8 * uint(i)))
	}
	return c
}

// toLarge rewrites a compact-header box as a large-size-header box of the same payload
func toLarge(b []byte) []byte {
	return cat(u32(1), b[4:8], u64(uint64(len(b)+8)), b[8:])
}

// ---------------------------------------------------------------- counts solving the size guard modulo 2^K
// A guard `hdr.Size != h + count*e` bounds the count only while the right-hand side is computed without
// wrap-around.  If the product / sum is carried out in a narrower type (uint16, int32, uint32) before it is
// widened, every count c with (h + c*e) mod 2^K == hdr.Size passes and the table is allocated from c.
// For each variant: e = the length difference between the bodies with 3 and with 2 real entries (so the per-entry
// size that flags / versions / default lengths select is measured, not assumed), h = L - 2e; target sizes
// S = L (consistent box) and L+-4, L+8 (residues that no honest count reaches); K = 16, 31, 32.
// e*c = S-h (mod 2^K) has solutions iff g = gcd(e, 2^K) divides S-h; then c = c0 + j*2^K/g.
// For the other 16/32-bit fields (default lengths, per-entry sizes: the other factor of a nested product) and for
// counts with per-entry size 0 the multiplier is not known: the values cur + j*2^(K-v), v = 0..4, keep
// h + value*e unchanged modulo 2^K for every e with 2-adic valuation <= v.
const solveMark = "/solve:"

// invOdd: inverse of the odd a modulo 2^64 (Newton iteration)
func invOdd(a uint64) uint64 {
	x := a
	for i := 0; i < 6; i++ {
		x *= 2 - a*x
	}
	return x
}

// progression: members of {c0 + j*m} below 2^(8*width): all when at most 6, else the smallest, the largest and two in between
func progression(c0, m uint64, width int) []uint64 {
	lim := uint64(1) << (8 * uint(width))
	if m == 0 || c0 >= lim {
		return nil
	}
	n := (lim - 1 - c0) / m // j = 0..n
	if n < 6 {
		var o []uint64
		for j := uint64(0); j <= n; j++ {
			o = append(o, c0+j*m)
		}
		return o
	}
	return []uint64{c0, c0 + (n/3)*m, c0 + (2*n/3)*m, c0 + n*m}
}

func solveCases(v cvariant, e int, emit func(desc string, d []byte)) {
	L := len(v.bytes)
	resize := func(S int) []byte {
		d := append([]byte(nil), v.bytes...)
		for len(d) < S {
			d = append(d, 0, 0, 0, 1)
		}
		d = d[:S]
		binary.BigEndian.PutUint32(d, uint32(S))
		return d
	}
	for _, f := range v.fields {
		if f.width < 2 || f.off+f.width > L {
			continue
		}
		cur := uint64(0)
		for i := 0; i < f.width; i++ {
			cur = cur<<8 | uint64(v.bytes[f.off+i])
		}
		known := f.what == "count" && e > 0
		for _, K := range []uint{16, 31, 32} {
			if K > 8*uint(f.width) {
				continue
			}
			if known {
				h := L - int(cur)*e
				tz := uint(bits.TrailingZeros64(uint64(e)))
				if tz > K {
					tz = K
				}
				for _, S := range []int{L, L + 4, L + 8, L - 4} {
					if S < f.off+f.width || S-h < 0 || uint64(S-h)&(1<<tz-1) != 0 {
						continue // too short to hold the field / gcd(e, 2^K) does not divide the residue: no solution
					}
					m := uint64(1) << (K - tz)
					c0 := (uint64(S-h) >> tz) * invOdd(uint64(e)>>tz) & (m - 1)
					if S == L && c0 == cur {
						c0 += m // the honest count itself: start at the next solution
					}
					base := resize(S)
					for _, c := range progression(c0, m, f.width) {
						d := putField(base, f, c)
						emit(fmt.Sprintf("%s=%d/size%+d/mod2^%d", f.what, c, S-L, K), d)
						if K == 32 {
							emit(fmt.Sprintf("%s=%d/size%+d/mod2^%d/large", f.what, c, S-L, K), toLarge(d))
						}
					}
				}
				continue
			}
			for tz := uint(0); tz <= 4; tz++ {
				m := uint64(1) << (K - tz)
				c0 := cur & (m - 1)
				if c0 == cur {
					c0 += m
				}
				for _, c := range progression(c0, m, f.width) {
					if c != cur {
						emit(fmt.Sprintf("%s=%d/keeps-mod2^%d/e~2^%d", f.what, c, K, tz), putField(v.bytes, f, c))
					}
				}
			}
		}
	}
}

// solveGroup: cases of this stream carry a group (box type): once three inputs of a group have failed on a job
// kind the remaining ones of that group and kind are skipped (each costs up to a 6 GiB allocation and a worker restart)
func solveGroup(c ccase) string {
	if strings.Contains(c.desc, solveMark) && len(c.data) >= 8 {
		return fmt.Sprintf("solve-%x", c.data[4:8])
	}
	return ""
}

type ccase struct {
	desc string
	data []byte
	nest string
}

// countCases: the whole stream.  k = number of real entries of the "exact" bodies.
func countCases(big bool) []ccase {
	var out []ccase
	seen := map[string]bool{}
	emit := func(desc string, d []byte, nest string) {
		if !seen[string(d)] {
			seen[string(d)] = true
			out = append(out, ccase{desc, d, nest})
		}
	}
	v3 := countVariants(3)
	for _, k := range []int{2, 0, 1, 3} {
		for i, v := range countVariants(k) {
			d0 := fmt.Sprintf("%s/%s/k%d", v.box, v.tag, k)
			emit(d0, v.bytes, v.nest)
			emit(d0+"/large", toLarge(v.bytes), v.nest)
			emit(d0+"/trailing", cat(v.bytes, free(8)), v.nest)
			if k != 2 {
				continue
			}
			// all count / length fields of the variant inflated together
			if len(v.fields) > 1 {
				for _, val := range []uint64{0, 255, 1 << 16, 1 << 22, 1<<32 - 1} {
					m := v.bytes
					for _, f := range v.fields {
						x := val
						if max := uint64(1)<<(8*uint(f.width)) - 1; x > max {
							x = max
						}
						m = putField(m, f, x)
					}
					emit(fmt.Sprintf("%s/all=%d", d0, val), m, v.nest)
				}
			}
			// boundary values of the size guards: counts just below / above (payload - d) / e
			for _, f := range v.fields {
				if f.width != 4 {
					continue
				}
				L := len(v.bytes)
				for _, e := range []int{1, 2, 4, 8} {
					for _, d := range []int{0, 8} {
						for _, plus := range []int{0, 1} {
							val := (L-16-d)/e + plus
							if val < 0 {
								continue
							}
							m := putField(v.bytes, f, uint64(val))
							emit(fmt.Sprintf("%s/%s~%d", d0, f.what, val), m, v.nest)
							emit(fmt.Sprintf("%s/%s~%d/large", d0, f.what, val), toLarge(m), v.nest)
						}
					}
				}
			}
			// counts that SOLVE the size guard in truncated arithmetic (see solveCases)
			if i < len(v3) && v3[i].box == v.box && v3[i].tag == v.tag {
				solveCases(v, len(v3[i].bytes)-len(v.bytes), func(desc string, d []byte) { emit(d0+solveMark+desc, d, v.nest) })
			}
			for _, f := range v.fields {
				cur := 0
				for i := 0; i < f.width && f.off+i < len(v.bytes); i++ {
					cur = cur<<8 | int(v.bytes[f.off+i])
				}
				for _, val := range inflationValues(f.width, cur) {
					m := putField(v.bytes, f, val)
					d := fmt.Sprintf("%s/%s=%d", d0, f.what, val)
					emit(d, m, v.nest)
					if val == 1<<22 || val == uint64(cur)+1 || val == 1<<32-1 {
						emit(d+"/large", toLarge(m), v.nest)
						emit(d+"/trailing", cat(m, make([]byte, 64)), v.nest)
					}
				}
			}
		}
	}
	if big {
		// large exact tables (one variant per box type): the allocation really is proportional to the input
		done := map[string]bool{}
		for _, v := range countVariants(16384) {
			if len(v.bytes) >= 16384 && !done[v.box] && v.box != "stsc" && v.box != "subs" && v.box != "leva" && v.box != "tlou" && v.box != "uuid" && v.box != "sgpd" {
				done[v.box] = true
				emit(fmt.Sprintf("%s/%s/k16384", v.box, v.tag), v.bytes, v.nest)
			}
		}
		for _, v := range countVariants(1024) {
			if v.box == "stsc" || (v.box == "trun" && v.tag == "v0f000") {
				emit(fmt.Sprintf("%s/%s/k1024", v.box, v.tag), v.bytes, v.nest)
			}
		}
		// the fuel-loop models (subs, sgpd) re-measure the body at every read: keep their tables short
		for _, v := range countVariants(96) {
			if v.box == "subs" || v.box == "sgpd" {
				emit(fmt.Sprintf("%s/%s/k96", v.box, v.tag), v.bytes, v.nest)
			}
		}
	}
	return out
}

// fullMoov: a complete moov (one video track, no samples) with extra children at three levels
func fullMoov(inMoov, inTrak, inStbl []byte) []byte {
	p := getParts()
	return box("moov", p.mvhd, inMoov, box("trak", p.tkhd, inTrak, box("mdia", p.mdhd, p.hdlr, box("minf", p.vmhd, p.dinf,
		box("stbl", p.stsd, fullbox("stts", 0, 0, u32(0)), inStbl)))))
}

// nestIn wraps a box into its parent chain and a minimal file that decodes when the box does
func nestIn(b []byte, chain string) []byte {
	p := getParts()
	switch chain {
	case "stbl":
		return cat(p.ftyp, fullMoov(nil, nil, b))
	case "moof/traf":
		return cat(p.ftyp, moovChain(5, 0), box("moof", mfhd(1), box("traf", tfhd(1), b)), mdat(4))
	case "mfra":
		return cat(box("moof", mfhd(1), box("traf", tfhd(1))), mdat(4), box("mfra", b, fullbox("mfro", 0, 0, u32(uint32(8+len(b)+16)))))
	case "":
		return cat(p.ftyp, b, box("moof", mfhd(1), box("traf", tfhd(1), trun(true, 100))), mdat(4))
	}
	parts := strings.Split(chain, "/")
	w := b
	for i := len(parts) - 1; i >= 1; i-- {
		if parts[i] == "meta" {
			w = box("meta", u32(0), w)
		} else {
			w = box(parts[i], w)
		}
	}
	switch parts[0] {
	case "trak":
		return cat(p.ftyp, fullMoov(nil, w, nil))
	case "moov":
		return cat(p.ftyp, fullMoov(w, nil, nil))
	}
	return cat(p.ftyp, fullMoov(box(parts[0], w), nil, nil))
}

// ---------------------------------------------------------------- worker side: kind "C"
// entryCount: the length of the decoded table (the observable the Coq prologue models predict)
func entryCount(b mp4.Box) int {
	switch t := b.(type) {
	case *mp4.TrunBox:
		return len(t.Samples)
	case *mp4.SttsBox:
		return len(t.SampleCount)
	case *mp4.CttsBox:
		return len(t.SampleOffset)
	case *mp4.StscBox:
		return len(t.Entries)
	case *mp4.StszBox:
		return len(t.SampleSize)
	case *mp4.StcoBox:
		return len(t.ChunkOffset)
	case *mp4.Co64Box:
		return len(t.ChunkOffset)
	case *mp4.StssBox:
		return len(t.SampleNumber)
	case *mp4.SdtpBox:
		return len(t.Entries)
	case *mp4.SaizBox:
		return len(t.SampleInfo)
	case *mp4.SaioBox:
		return len(t.Offset)
	case *mp4.SencBox:
		return int(t.SampleCount)
	case *mp4.SbgpBox:
		return len(t.SampleCounts)
	case *mp4.SubsBox:
		return len(t.Entries)
	case *mp4.ElstBox:
		return len(t.Entries)
	case *mp4.TfraBox:
		return len(t.Entries)
	case *mp4.SidxBox:
		return len(t.SidxRefs)
	case *mp4.SgpdBox:
		return len(t.SampleGroupEntries)
	case *mp4.PsshBox:
		return len(t.KIDs)
	case *mp4.SsixBox:
		return len(t.SubSegments)
	case *mp4.TrefTypeBox:
		return len(t.TrackIDs)
	case *mp4.LevaBox:
		return len(t.Levels)
	case *mp4.UUIDBox:
		if t.Tfrf != nil {
			return len(t.Tfrf.FragmentAbsoluteTimes)
		}
		if t.Senc != nil {
			return int(t.Senc.SampleCount)
		}
		return 0
	case *mp4.HvcCBox:
		return len(t.NaluArrays)
	case *mp4.LoudnessBaseBox:
		return len(t.LoudnessBases)
	case *mp4.AvcCBox:
		return len(t.SPSnalus) + len(t.PPSnalus)
	case *mp4.FtypBox:
		return len(t.CompatibleBrands())
	case *mp4.StypBox:
		return len(t.CompatibleBrands())
	}
	return -1
}

// countJob: decode on ONE path; result "<class>\t<entry count>\t<log2 bucket of the bytes allocated>"
func countJob(data []byte, sr bool) string {
	n := len(data)
	var b mp4.Box
	var err error
	p, over, dt, da := measured(n, func() {
		if sr {
			b, err = mp4.DecodeBoxSR(0, mbits.NewFixedSliceReader(data))
		} else {
			b, err = mp4.DecodeBox(0, bytes.NewReader(data))
		}
	})
	note(n, dt, da)
	c := cls(p, over, err)
	cnt := -1
	if c == "ok" {
		cnt = entryCount(b)
	}
	return fmt.Sprintf("%s\t%d\t%d", c, cnt, bits.Len64(da))
}

var modelled = map[string]bool{"trun": true, "stts": true, "ctts": true, "stsc": true, "stsz": true, "stco": true, "co64": true,
	"stss": true, "sdtp": true, "saiz": true, "saio": true, "senc": true, "sbgp": true, "subs": true, "elst": true, "tfra": true, "sidx": true, "sgpd": true,
	"pssh": true, "ssix": true, "hint": true, "leva": true, "uuid": true, "ftyp": true, "styp": true, "hvcC": true, "tlou": true, "avcC": true}

func isModelled(c ccase) bool {
	return len(c.data) >= 16 && modelled[string(c.data[4:8])]
}

// sencJob: decode a senc box on one path, then the second phase ParseReadBox(iv, nil);
// result "<decode class>\t<parse class>\t<len(IVs)>\t<len(SubSamples)>\t<log2 bucket of the bytes allocated by the parse>"
func sencJob(data []byte, cfg string) string {
	n := len(data)
	sr := cfg[0] == 'S'
	iv := 0
	fmt.Sscanf(cfg[1:], "%d", &iv)
	var b mp4.Box
	var err error
	p, over, dt, da := measured(n, func() {
		if sr {
			b, err = mp4.DecodeBoxSR(0, mbits.NewFixedSliceReader(data))
		} else {
			b, err = mp4.DecodeBox(0, bytes.NewReader(data))
		}
	})
	note(n, dt, da)
	c := cls(p, over, err)
	senc, isSenc := b.(*mp4.SencBox)
	if c != "ok" || !isSenc {
		return fmt.Sprintf("%s\t-\t0\t0\t0", c)
	}
	p, over, dt, da = measured(n, func() { err = senc.ParseReadBox(byte(iv), nil) })
	note(n, dt, da)
	pc := cls(p, over, err)
	return fmt.Sprintf("%s\t%s\t%d\t%d\t%d", c, pc, len(senc.IVs), len(senc.SubSamples), bits.Len64(da))
}

// corrSenc: Q lines (both phases of senc against senc_box of C04AllocModel.v)
func corrSenc() {
	var jobs []job
	var sel []ccase
	for _, c := range countCases(false) {
		if len(c.data) >= 16 && string(c.data[4:8]) == "senc" {
			for _, iv := range []int{0, 8, 16, 1} {
				for _, path := range []string{"R", "S"} {
					jobs = append(jobs, job{kind: "Q", cfg: fmt.Sprintf("%s%d", path, iv), data: c.data, grp: solveGroup(c)})
					sel = append(sel, c)
				}
			}
		}
	}
	res := runJobs(jobs, nprocs())
	for i, j := range jobs {
		if res[i] == skipped {
			continue
		}
		f := strings.Split(res[i], "\t")
		for len(f) < 5 {
			f = append(f, "0")
		}
		fmt.Fprintf(out, "Q\tq%d\t%s\t%s\t%s\t%s\t%s\t%s\t%s\n", i, j.cfg, hx.Hex(j.data), projectClass(f[0]), projectClass(f[1]), f[2], f[3], f[4])
		for k, st := range []string{"box", "parse"} {
			if strings.HasPrefix(f[k], "panic") || f[k] == "hang" || f[k] == "overalloc" {
				fmt.Fprintln(out, failLine(st+"="+f[k], "hex:"+hx.Hex(j.data), "senc count-field inflation "+sel[i].desc+" cfg="+j.cfg+" (ParseReadBox)"))
			}
		}
	}
}

// corrCounts: C lines (cases the Coq prologue models predict) + FAIL lines for direct property failures
func corrCounts(r *hx.Rng, nRandom int) {
	cases := countCases(true)
	var sel []ccase
	for _, c := range cases {
		if isModelled(c) {
			sel = append(sel, c)
		}
	}
	// malformed stream: random corruption / truncation / junk count bytes of the modelled variants
	base := append([]ccase(nil), sel...)
	for i := 0; i < nRandom && len(base) > 0; i++ {
		c := base[r.Intn(len(base))]
		if len(c.data) > 512 {
			continue
		}
		d := append([]byte(nil), c.data...)
		switch r.Intn(5) {
		case 0:
			d = d[:r.Intn(len(d)+1)]
		case 1:
			d[8+r.Intn(len(d)-8)] = byte(r.Pick(0, 1, 0x7f, 0x80, 0xff, int(r.U64()&0xff)))
		case 2:
			binary.BigEndian.PutUint32(d, uint32(r.Pick(0, 1, 7, 8, 12, 16, len(d)-1, len(d)+1, len(d)+8, 1<<31-1)))
		case 3:
			o := 8 + r.Intn(len(d)-8)
			for j := o; j < len(d) && j < o+4; j++ {
				d[j] = byte(r.U64())
			}
		case 4:
			d = cat(d, r.Bytes(r.Range(1, 24), nil))
		}
		sel = append(sel, ccase{c.desc + "/malformed", d, c.nest})
	}
	var jobs []job
	for _, c := range sel {
		jobs = append(jobs, job{kind: "C", cfg: "R", data: c.data, grp: solveGroup(c)}, job{kind: "C", cfg: "S", data: c.data, grp: solveGroup(c)})
	}
	res := runJobs(jobs, nprocs())
	for i, j := range jobs {
		c := sel[i/2]
		if res[i] == skipped {
			continue
		}
		f := strings.Split(res[i], "\t")
		for len(f) < 3 {
			f = append(f, "-1")
		}
		fmt.Fprintf(out, "C\tc%d\t%s\t%s\t%s\t%s\t%s\n", i, j.cfg, hx.Hex(j.data), projectClass(f[0]), f[1], f[2])
		if strings.HasPrefix(f[0], "panic") || f[0] == "hang" || f[0] == "overalloc" {
			fmt.Fprintln(out, failLine("box="+f[0], "hex:"+hx.Hex(j.data), "count-field inflation "+c.desc+" path="+j.cfg))
		}
	}
	corrSenc()
}

// searchCounts: every case at box level through the full box pipeline (decode both paths, Info x3, both encoders)
// and nested in a minimal file through the file pipeline on both paths; plus the catch-all stream: every
// registered box type with a zero body and a 32-bit word at each of the first offsets inflated
func searchCounts(r *hx.Rng, n int, jobs *[]job, descs *[]string) {
	for _, c := range countCases(true) {
		*jobs = append(*jobs, job{kind: "X", cfg: "-", data: c.data, grp: solveGroup(c)})
		*descs = append(*descs, "count-inflation:"+c.desc)
		// (of the solved counts only those modulo 2^31 / 2^32 are also nested: the 16-bit ones stay at box level)
		if len(c.data) <= 512 && !(strings.Contains(c.desc, solveMark) && strings.Contains(c.desc, "mod2^16")) {
			nd := nestIn(c.data, c.nest)
			cfgs := []string{"RN0", "SN0"}
			switch c.nest {
			case "mfra":
				cfgs = append(cfgs, "RN1", "SN1") // DecISMFlag: findAndReadMfra / tfra-driven segmentation
			case "moof/traf", "":
				cfgs = append(cfgs, "RL0", "RN2") // lazy mdat, start-segment-on-moof
			}
			for _, cfg := range cfgs {
				*jobs = append(*jobs, job{kind: "P", cfg: cfg, data: nd, grp: solveGroup(c)})
				*descs = append(*descs, "count-inflation-nested:"+c.desc+" cfg="+cfg)
			}
		}
	}
	names := registeredNames()
	type ga struct {
		name     string
		blen, o  int
		v        uint32
		ver, fl3 byte
	}
	var all []ga
	for _, nm := range names {
		for _, blen := range []int{16, 40} {
			for o := 8; o+4 <= 8+blen && o <= 36; o += 4 {
				for _, v := range []uint32{0xffff, 1 << 22, 0x7fffffff, 0xffffffff} {
					for _, ver := range []byte{0, 1} {
						all = append(all, ga{nm, blen, o, v, ver, byte(len(all) % 4)})
					}
				}
			}
		}
	}
	budget := n / 4
	step := 1
	if len(all) > budget && budget > 0 {
		step = len(all)/budget + 1
	}
	for i := r.Intn(step); i < len(all); i += step {
		g := all[i]
		body := make([]byte, g.blen)
		body[0] = g.ver
		body[3] = g.fl3
		d := cat(u32(uint32(8+g.blen)), []byte(g.name), body)
		binary.BigEndian.PutUint32(d[g.o:], g.v)
		if g.o == 8 { // keep the version byte small
			d[8] = g.ver
		}
		*jobs = append(*jobs, job{kind: "X", cfg: "-", data: d})
		*descs = append(*descs, fmt.Sprintf("count-inflation-generic:%x len%d word@%d=%d v%d", g.name, g.blen, g.o, g.v, g.ver))
	}
}

// cmdCounts (debug aid): count cases whose description contains os.Args[2], one worker job at a time, with wall time
func cmdCounts() {
	filter := ""
	if len(os.Args) > 2 {
		filter = os.Args[2]
	}
	if filter == "nest" {
		// the unmodified variants nested in a file: do they decode?
		for _, v := range countVariants(2) {
			res := runJobs([]job{{kind: "P", cfg: "RN0", data: nestIn(v.bytes, v.nest)}, {kind: "X", cfg: "-", data: v.bytes}}, 1)
			fmt.Fprintf(out, "%s/%s\tnest=%s\t%s\t%s\n", v.box, v.tag, v.nest, res[0], res[1])
		}
		return
	}
	cases := countCases(true)
	fmt.Fprintf(out, "%d cases\n", len(cases))
	if filter == "list" {
		// descriptions (and the first bytes) of the cases whose description contains os.Args[3]
		for _, c := range cases {
			if len(os.Args) > 3 && strings.Contains(c.desc, os.Args[3]) {
				fmt.Fprintf(out, "%s\t%s\n", c.desc, hx.Hex(c.data[:minInt(len(c.data), 48)]))
			}
		}
		return
	}
	for _, c := range cases {
		if !strings.Contains(c.desc, filter) {
			continue
		}
		t0 := time.Now()
		res := runJobs([]job{{kind: "X", cfg: "-", data: c.data}}, 1)
		dt := time.Since(t0)
		fs := failuresOfBox(res[0])
		if len(fs) > 0 || dt > 300*time.Millisecond {
			fmt.Fprintf(out, "%s\t%v\t%v\t%s\n", c.desc, dt, fs, hx.Hex(c.data[:minInt(len(c.data), 80)]))
			out.Flush()
		}
	}
}

func minInt(a, b int) int {
	if a < b {
		return a
	}
	return b
}
