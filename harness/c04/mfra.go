// Trailing-index machinery (mfro -> mfra look-back of File.findAndReadMfra under DecISMFlag): shape lists that
// end with every kind of mfro / mfra / tfra combination, rendered to files.  The model side is
// coq/c04/C04MfraModel.v (find_and_read_mfra_x over extended shapes).
package main

import (
	"bytes"
	"fmt"

	"verifharness/hx"
)

type tfraCfg struct {
	id   uint32
	cnt  int
	mode byte // 'm' real moof positions (beyond the last moof: last+1000*k), 'z' zeros, 'd' like m, last entry +1, 'x' random
	ver  byte
	lens byte
}

type tailCfg struct {
	tfras []tfraCfg
	wrap  bool // the mfra sits inside an mdat payload, after pre bytes
	pre   int
	mfro  string
}

var mfroModes = []string{"ok", "none", "-1", "-8", "16", "0", "1", "+1", "huge", "L", "L+1", "prev", "in4", "standalone", "standalone16"}

func cloneList(l []*shape) []*shape {
	o := make([]*shape, len(l))
	for i, s := range l {
		o[i] = cloneShape(s)
	}
	return o
}

// buildTrail appends the trailing index described by tc to ctx and resolves positions (two renderings: sizes
// do not depend on the values filled in afterwards).
func buildTrail(ctx []*shape, tc tailCfg, r *hx.Rng) []*shape {
	l := cloneList(ctx)
	a := &shape{kind: 'A'}
	if tc.wrap {
		a.kind, a.pre = 'W', tc.pre
	}
	for _, t := range tc.tfras {
		a.tfras = append(a.tfras, tfraShape{trackID: t.id, offs: make([]uint32, t.cnt), ver: t.ver, lens: t.lens})
	}
	standalone := tc.mfro == "standalone" || tc.mfro == "standalone16"
	switch {
	case tc.mfro == "none" || standalone:
		a.mfroMode = 'n'
	case tc.mfro == "ok" && !tc.wrap:
		a.mfroMode = 0
	default:
		a.mfroMode = 'v'
	}
	l = append(l, a)
	var sa *shape
	if standalone {
		sa = &shape{kind: 'R'}
		l = append(l, sa)
	}
	renderList(l)
	pos, aStart, prevStart := 0, 0, 0
	var moofPos []uint32
	for _, s := range l {
		if s.kind == 'O' {
			moofPos = append(moofPos, uint32(pos))
		}
		if s == a {
			aStart = pos
		} else if sa == nil || s != sa {
			prevStart = pos
		}
		pos += s.size
	}
	total := pos
	mfraStart := aStart
	if tc.wrap {
		mfraStart = aStart + 8 + a.pre
	}
	for i, t := range tc.tfras {
		offs := a.tfras[i].offs
		for j := range offs {
			switch t.mode {
			case 'z':
				offs[j] = 0
			case 'x':
				offs[j] = uint32(r.Pick(0, 8, 24, 36, 68, 80, 1000))
			default:
				if j < len(moofPos) {
					offs[j] = moofPos[j]
				} else if len(moofPos) > 0 {
					offs[j] = moofPos[len(moofPos)-1] + uint32(1000*(j-len(moofPos)+1))
				} else {
					offs[j] = uint32(1000 * (j + 1))
				}
			}
		}
		if t.mode == 'd' && len(offs) > 0 {
			offs[len(offs)-1]++
		}
	}
	back := uint32(total - mfraStart)
	var v uint32
	switch tc.mfro {
	case "ok", "standalone":
		v = back
	case "-1":
		v = back - 1
	case "-8":
		v = back - 8
	case "in4":
		v = back - 4
	case "16", "standalone16":
		v = 16
	case "0":
		v = 0
	case "1":
		v = 1
	case "+1":
		v = back + 1
	case "huge":
		v = 0xffffffff
	case "L":
		v = uint32(total)
	case "L+1":
		v = uint32(total) + 1
	case "prev":
		v = uint32(total - prevStart)
	}
	if sa != nil {
		sa.mfroVal = v
	} else {
		a.mfroVal = v
	}
	return l
}

// assertTrail checks the renderer's promises the model relies on: the byte string "mfra" follows a 4-byte
// field exactly where the shapes say an mfra box starts, and the last 16 bytes are an mfro box exactly
// when the last shape says so.  A violation is a bug of this generator, not of the library.
func assertTrail(l []*shape, data []byte) {
	known := map[int]bool{}
	pos := 0
	for _, s := range l {
		switch s.kind {
		case 'A':
			known[pos] = true
		case 'W':
			known[pos+8+s.pre] = true
		}
		pos += s.size
	}
	for i := 0; i+8 <= len(data); i++ {
		if bytes.Equal(data[i+4:i+8], []byte("mfra")) != known[i] {
			panic(fmt.Sprintf("generator: mfra name at %d disagrees with the shapes %s", i, listString(l)))
		}
	}
	byteTail := len(data) >= 16 && bytes.Equal(data[len(data)-16:len(data)-8], []byte{0, 0, 0, 16, 'm', 'f', 'r', 'o'})
	shapeTail := false
	if len(l) > 0 {
		s := l[len(l)-1]
		switch s.kind {
		case 'A':
			shapeTail = s.mfroMode != 'n'
		case 'W':
			shapeTail = s.mfroMode == 'v'
		case 'R':
			shapeTail = true
		}
	}
	if byteTail != shapeTail {
		panic("generator: trailing mfro disagrees with the shapes " + listString(l))
	}
}

func fullMoof() *shape { return &shape{kind: 'O', trafs: []trafShape{tr(true, 0, 0, 2)}} }

func trailContexts() [][]*shape {
	md := func() *shape { return &shape{kind: 'D', payload: 4} }
	return [][]*shape{
		{},
		{fullMoof(), md()},
		{{kind: 'F'}, {kind: 'M', depth: 5, stts: 0}, fullMoof(), md(), fullMoof(), md()},
		{{kind: 'S'}, fullMoof(), md(), {kind: 'S'}, fullMoof(), md()},
		{fullMoof(), md(), fullMoof(), md(), fullMoof(), md()},
		{{kind: 'U'}},
	}
}

func tc(id uint32, cnt int, mode byte) tfraCfg { return tfraCfg{id: id, cnt: cnt, mode: mode} }

func trailTfraSets() [][]tfraCfg {
	return [][]tfraCfg{
		{},
		{tc(1, 1, 'm')},
		{tc(1, 0, 'm'), tc(2, 1, 'm')}, // first without entries, second with one
		{tc(1, 1, 'm'), tc(2, 0, 'm')},
		{tc(1, 2, 'm'), tc(2, 2, 'm')},
		{tc(1, 2, 'm'), tc(2, 3, 'm')},
		{tc(1, 3, 'm'), tc(2, 2, 'm')},
		{tc(1, 2, 'm'), tc(1, 2, 'm')},
		{tc(1, 2, 'm'), tc(2, 2, 'd')},
		{tc(1, 2, 'z'), tc(2, 2, 'm')},
		{tc(1, 2, 'm'), tc(2, 2, 'm'), tc(3, 3, 'm')},
		{tc(1, 1, 'm'), tc(2, 1, 'm'), tc(3, 1, 'm'), tc(4, 2, 'm')},
		{tc(1, 3, 'm'), tc(2, 3, 'm'), tc(1, 3, 'm')},
		{tc(2, 2, 'm'), tc(3, 2, 'm'), tc(3, 2, 'm')},
	}
}

// genTrailLists: (1) every combination of entry counts 0..3 for 0..3 tfra boxes after 1 and after 3 fragments,
// (2) the product tfra sets x mfro variants (also mdat-wrapped) x contexts, (3) nRandom random ones.
func genTrailLists(r *hx.Rng, nRandom int) [][]*shape {
	var out [][]*shape
	ctxs := trailContexts()
	k := 0
	vary := func(ts []tfraCfg) []tfraCfg {
		o := append([]tfraCfg(nil), ts...)
		for i := range o {
			k++
			o[i].ver = byte(k % 2)
			o[i].lens = byte((k*21 + 7) & 0x3f)
		}
		return o
	}
	var rec func(prefix []tfraCfg, left int)
	rec = func(prefix []tfraCfg, left int) {
		for _, ci := range []int{1, 4} {
			out = append(out, buildTrail(ctxs[ci], tailCfg{tfras: vary(prefix), mfro: "ok"}, r))
		}
		if left == 0 {
			return
		}
		for c := 0; c <= 3; c++ {
			rec(append(append([]tfraCfg(nil), prefix...), tc(uint32(len(prefix)+1), c, 'm')), left-1)
		}
	}
	rec(nil, 3)
	for _, ts := range trailTfraSets() {
		for _, ctx := range ctxs {
			for _, m := range mfroModes {
				out = append(out, buildTrail(ctx, tailCfg{tfras: vary(ts), mfro: m}, r))
			}
			for _, m := range []string{"ok", "none", "-1"} {
				out = append(out, buildTrail(ctx, tailCfg{tfras: vary(ts), mfro: m, wrap: true, pre: []int{0, 4, 9}[k%3]}, r))
			}
		}
	}
	for i := 0; i < nRandom; i++ {
		out = append(out, randomTrail(r))
	}
	return out
}

func randomTrail(r *hx.Rng) []*shape {
	var ctx []*shape
	if r.Intn(3) == 0 {
		ctx = trailContexts()[r.Intn(6)]
	} else {
		ctx = randomList(r)
		// a trailing index of its own is appended below
		for len(ctx) > 0 && (ctx[len(ctx)-1].kind == 'A') {
			ctx = ctx[:len(ctx)-1]
		}
	}
	nMoof := 0
	for _, s := range ctx {
		if s.kind == 'O' {
			nMoof++
		}
	}
	var ts []tfraCfg
	for n := r.Intn(5); n > 0; n-- {
		cnt := r.Pick(0, 1, 2, 3, nMoof, nMoof+1, nMoof, nMoof)
		if cnt > 6 {
			cnt = 6
		}
		ts = append(ts, tfraCfg{id: uint32(r.Pick(1, 2, 3, 4, len(ts)+1, len(ts)+1)), cnt: cnt,
			mode: "mmmmmzdx"[r.Intn(8)], ver: byte(r.Intn(2)), lens: byte(r.Intn(64))})
	}
	c := tailCfg{tfras: ts, mfro: mfroModes[r.Intn(len(mfroModes))]}
	if r.Intn(3) == 0 {
		c.mfro = "ok"
	}
	if r.Intn(6) == 0 {
		c.wrap, c.pre = true, r.Intn(12)
		if c.mfro == "standalone" || c.mfro == "standalone16" {
			c.mfro = "ok"
		}
	}
	return buildTrail(ctx, c, r)
}

var trailCfgs = []string{"RN1", "RL1", "RN3", "RL3", "RN0", "SN1"}

// corrTrail: T cases (same format as A cases)
func corrTrail(r *hx.Rng, nRandom int) {
	lists := genTrailLists(r, nRandom)
	var jobs []job
	var shapes []string
	for _, l := range lists {
		data := renderList(l)
		assertTrail(l, data)
		ls := listString(l)
		for _, c := range trailCfgs {
			jobs = append(jobs, job{kind: "A", cfg: c, data: data})
			shapes = append(shapes, ls)
		}
	}
	res := runJobs(jobs, nprocs())
	for i := range jobs {
		fmt.Fprintf(out, "T\tt%d\t%s\t%s\t%s\n", i, jobs[i].cfg, shapes[i], projectResult(res[i]))
		for _, f := range failuresOf(res[i]) {
			fmt.Fprintln(out, failLine(f, "cfg:"+jobs[i].cfg+" shapes:"+shapes[i]+" hex:"+hx.Hex(jobs[i].data), "synthesized trailing index (mfro/mfra/tfra)"))
		}
	}
}

// searchTrail: the same family under the ISM configurations, property only
func searchTrail(r *hx.Rng, n int, jobs *[]job, descs *[]string) {
	for _, l := range genTrailLists(r, n) {
		data := renderList(l)
		assertTrail(l, data)
		ls := listString(l)
		for _, c := range []string{"RN1", "RL1", "RN3"} {
			*jobs = append(*jobs, job{kind: "P", cfg: c, data: data})
			*descs = append(*descs, "trailing index "+ls+" cfg="+c)
		}
	}
}
