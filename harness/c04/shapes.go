// Top-level box SHAPES: the abstract alphabet of the assembly model, rendered to real bytes.
package main

import (
	"fmt"
	"strings"

	"verifharness/hx"
)

type trafShape struct {
	tfhd  bool
	senc  int   // 0 none, 1 = s0 parsed (count 0), 2 = s1 unparsed, parses, 3 = s2 unparsed, parse error
	saio  int   // 0 none, 1 = a0 no offsets, 2 = a1 matching offset, 3 = a2 mismatching offset
	truns []int // 0 = t0 no data-offset flag, 1 = t1 flag + zero offset, 2 = t2 flag + non-zero offset
}

type tfraShape struct {
	trackID uint32
	offs    []uint32
	ver     byte // rendering only (the model sees track id and moof offsets): tfra version 0 / 1
	lens    byte // rendering only: the 6-bit length-size block (traf / trun / sample number fields of 1..4 bytes)
}

type shape struct {
	kind    byte // F M S X E O D A U
	depth   int  // M
	stts    int  // M
	first   uint32
	refs    []sref
	trafs   []trafShape
	payload int
	tfras   []tfraShape
	// layout directives resolved by render: 'm' = tfra offsets of all moofs / sidx ref sizes of following boxes
	auto byte
	size int // filled by layout
	// trailing index (kinds A, R, W): mfroMode 0 = mfro child whose ParentSize is the mfra size (the old letter A),
	// 'n' = no mfro child, 'v' = mfro with ParentSize mfroVal.  R = stand-alone top-level mfro (ParentSize mfroVal),
	// W = mdat whose payload is pre bytes followed by a whole mfra box
	mfroMode byte
	mfroVal  uint32
	pre      int
}

func (t trafShape) String() string {
	var a []string
	if t.tfhd {
		a = append(a, "h")
	}
	if t.saio > 0 {
		a = append(a, fmt.Sprintf("a%d", t.saio-1))
	}
	if t.senc > 0 {
		a = append(a, fmt.Sprintf("s%d", t.senc-1))
	}
	for _, tr := range t.truns {
		a = append(a, fmt.Sprintf("t%d", tr))
	}
	if len(a) == 0 {
		return "-"
	}
	return strings.Join(a, "+")
}

func (s *shape) String() string {
	switch s.kind {
	case 'M':
		return fmt.Sprintf("M%d.%d", s.depth, s.stts)
	case 'X':
		var r []string
		for _, x := range s.refs {
			r = append(r, fmt.Sprintf("%d.%d", x.typ, x.size))
		}
		return fmt.Sprintf("X%d:%s", s.first, strings.Join(r, ","))
	case 'O':
		if len(s.trafs) == 0 {
			return "O"
		}
		var r []string
		for _, t := range s.trafs {
			r = append(r, t.String())
		}
		return "O:" + strings.Join(r, "/")
	case 'D':
		return fmt.Sprintf("D%d", s.payload)
	case 'A', 'W':
		var r []string
		for _, t := range s.tfras {
			var o []string
			for _, x := range t.offs {
				o = append(o, fmt.Sprint(x))
			}
			tok := fmt.Sprintf("%d=%s", t.trackID, strings.Join(o, ","))
			if t.ver != 0 || t.lens != 0 {
				tok += fmt.Sprintf("~v%dl%d", t.ver, t.lens) // ignored by the model
			}
			r = append(r, tok)
		}
		mf := "n"
		if s.mfroMode == 'v' {
			mf = fmt.Sprint(s.mfroVal)
		}
		if s.kind == 'W' {
			return fmt.Sprintf("W%d.%s:%s", s.pre, mf, strings.Join(r, "|"))
		}
		if s.mfroMode != 0 {
			return fmt.Sprintf("B%s:%s", mf, strings.Join(r, "|"))
		}
		if len(s.tfras) == 0 {
			return "A"
		}
		return "A:" + strings.Join(r, "|")
	case 'R':
		return fmt.Sprintf("R%d", s.mfroVal)
	}
	return string(s.kind)
}

func renderTraf(t trafShape, offsetInMoof int) []byte {
	var parts [][]byte
	pos := offsetInMoof + 8
	if t.tfhd {
		b := tfhd(1)
		parts = append(parts, b)
		pos += len(b)
	}
	if t.saio > 0 {
		var b []byte
		switch t.saio {
		case 1:
			b = saio()
		case 2:
			b = saio(0) // patched below: needs the senc position
		case 3:
			b = saio(0)
		}
		sencPos := pos + len(b)
		if t.saio == 2 {
			b = saio(int32(sencPos + 16))
		} else if t.saio == 3 {
			b = saio(int32(sencPos + 17))
		}
		parts = append(parts, b)
		pos += len(b)
	}
	switch t.senc {
	case 1:
		parts = append(parts, senc(0, nil))
	case 2:
		parts = append(parts, senc(1, []byte{1, 2, 3, 4, 5, 6, 7, 8}))
	case 3:
		parts = append(parts, senc(1, []byte{1, 2, 3}))
	}
	for _, tr := range t.truns {
		switch tr {
		case 0:
			parts = append(parts, trun(false, 0))
		case 1:
			parts = append(parts, trun(true, 0))
		case 2:
			parts = append(parts, trun(true, 100))
		}
	}
	return box("traf", parts...)
}

func (s *shape) renderFixed() []byte {
	switch s.kind {
	case 'F':
		return getParts().ftyp
	case 'M':
		return moovChain(s.depth, s.stts)
	case 'S':
		return styp()
	case 'X':
		return sidx(s.first, s.refs)
	case 'E':
		return emsg()
	case 'O':
		parts := [][]byte{mfhd(1)}
		off := 8 + 16
		for _, t := range s.trafs {
			b := renderTraf(t, off)
			parts = append(parts, b)
			off += len(b)
		}
		return box("moof", parts...)
	case 'D':
		return mdat(s.payload)
	case 'A':
		return s.renderMfra()
	case 'W':
		junk := make([]byte, s.pre)
		for i := range junk {
			junk[i] = 0xd0 + byte(i&7)
		}
		return box("mdat", junk, s.renderMfra())
	case 'R':
		return fullbox("mfro", 0, 0, u32(s.mfroVal))
	case 'U':
		return free(0)
	}
	panic("bad shape kind")
}

func (s *shape) renderMfra() []byte {
	var t [][]byte
	for _, x := range s.tfras {
		t = append(t, tfraX(x.trackID, x.offs, x.ver, x.lens))
	}
	switch s.mfroMode {
	case 'n':
		return box("mfra", t...)
	case 'v':
		return box("mfra", cat(t...), fullbox("mfro", 0, 0, u32(s.mfroVal)))
	}
	return mfra(t...)
}

// layout resolves the auto directives (they only change field values, not sizes, except tfra 'm'
// whose entry count is the number of moofs) and renders the list.
func renderList(l []*shape) []byte {
	// pass 1: sizes
	nMoof := 0
	for _, s := range l {
		if s.kind == 'O' {
			nMoof++
		}
	}
	for i, s := range l {
		if s.kind == 'A' && s.auto == 'm' {
			s.tfras = []tfraShape{tf(1, make([]uint32, nMoof))}
		}
		if s.kind == 'X' && s.auto == 'm' {
			s.refs = nil
			for j, k := i+1, 0; k < 2 && j < len(l); j, k = j+2, k+1 {
				s.refs = append(s.refs, sref{})
			}
		}
		s.size = len(s.renderFixed())
	}
	// pass 2: positions
	var moofPos []uint32
	pos := 0
	for _, s := range l {
		if s.kind == 'O' {
			moofPos = append(moofPos, uint32(pos))
		}
		pos += s.size
	}
	for i, s := range l {
		if s.kind == 'A' && s.auto == 'm' {
			s.tfras = []tfraShape{tf(1, moofPos)}
		}
		if s.kind == 'X' && s.auto == 'm' {
			// reference sizes = sizes of the following boxes pairwise (moof+mdat style), at most 2 refs
			s.refs = nil
			j := i + 1
			for k := 0; k < 2 && j < len(l); k++ {
				sz := l[j].size
				if j+1 < len(l) {
					sz += l[j+1].size
				}
				s.refs = append(s.refs, sref{0, uint32(sz)})
				j += 2
			}
			// the number of refs must not change the size computed in pass 1
		}
	}
	var out []byte
	for _, s := range l {
		b := s.renderFixed()
		s.size = len(b)
		out = append(out, b...)
	}
	return out
}

func listString(l []*shape) string {
	if len(l) == 0 {
		return "-"
	}
	ss := make([]string, len(l))
	for i, s := range l {
		ss[i] = fmt.Sprintf("%s@%d", s.String(), s.size)
	}
	return strings.Join(ss, ";")
}

func tf(id uint32, offs []uint32) tfraShape { return tfraShape{trackID: id, offs: offs} }

func tr(tfhd bool, saio, senc int, truns ...int) trafShape {
	return trafShape{tfhd: tfhd, saio: saio, senc: senc, truns: truns}
}

// alphabet returns fresh copies of the letters used for exhaustive enumeration.
func alphabet() []*shape {
	return []*shape{
		{kind: 'F'},
		{kind: 'M', depth: 0}, {kind: 'M', depth: 3}, {kind: 'M', depth: 5, stts: 0}, {kind: 'M', depth: 5, stts: 1},
		{kind: 'S'},
		{kind: 'X'}, {kind: 'X', refs: []sref{{0, 100}}}, {kind: 'X', first: 1, refs: []sref{{0, 100}}},
		{kind: 'X', refs: []sref{{1, 100}}},
		{kind: 'E'},
		{kind: 'O'},
		{kind: 'O', trafs: []trafShape{tr(false, 0, 0)}},
		{kind: 'O', trafs: []trafShape{tr(true, 0, 0, 2)}},
		{kind: 'O', trafs: []trafShape{tr(true, 0, 0, 1)}},
		{kind: 'O', trafs: []trafShape{tr(true, 0, 0, 2), tr(true, 0, 0, 1)}},
		{kind: 'O', trafs: []trafShape{tr(false, 0, 2)}},
		{kind: 'O', trafs: []trafShape{tr(true, 1, 2)}},
		{kind: 'O', trafs: []trafShape{tr(true, 2, 2, 2)}},
		{kind: 'O', trafs: []trafShape{tr(true, 3, 2)}},
		{kind: 'O', trafs: []trafShape{tr(true, 0, 3)}},
		{kind: 'O', trafs: []trafShape{tr(true, 1, 1)}},
		{kind: 'D', payload: 0}, {kind: 'D', payload: 4},
		{kind: 'A'}, {kind: 'A', tfras: []tfraShape{tf(1, nil)}}, {kind: 'A', auto: 'm'},
		{kind: 'A', tfras: []tfraShape{tf(1, []uint32{0})}},
		{kind: 'U'},
	}
}

func cloneShape(s *shape) *shape {
	c := *s
	c.refs = append([]sref(nil), s.refs...)
	c.trafs = append([]trafShape(nil), s.trafs...)
	c.tfras = append([]tfraShape(nil), s.tfras...)
	return &c
}

// randomList draws a longer, mostly plausible list: optional ftyp/moov prefix, then segments.
func randomList(r *hx.Rng) []*shape {
	al := alphabet()
	var l []*shape
	n := r.Range(3, 9)
	if r.Intn(3) > 0 {
		l = append(l, &shape{kind: 'F'})
	}
	if r.Intn(3) > 0 {
		l = append(l, &shape{kind: 'M', depth: 5, stts: r.Intn(2)})
	}
	for len(l) < n {
		switch r.Intn(10) {
		case 0, 1, 2:
			// moof + mdat pair with random traf structure
			nt := r.Intn(3)
			var ts []trafShape
			for i := 0; i < nt; i++ {
				t := trafShape{tfhd: r.Intn(4) > 0, saio: r.Pick(0, 0, 1, 2, 3), senc: r.Pick(0, 0, 1, 2, 3)}
				for k := r.Intn(3); k > 0; k-- {
					t.truns = append(t.truns, r.Intn(3))
				}
				ts = append(ts, t)
			}
			l = append(l, &shape{kind: 'O', trafs: ts})
			if r.Intn(5) > 0 {
				l = append(l, &shape{kind: 'D', payload: r.Pick(0, 4, 4)})
			}
		case 3:
			x := &shape{kind: 'X', first: uint32(r.Pick(0, 0, 0, 1))}
			if r.Bool() {
				x.auto = 'm'
			} else {
				for k := r.Intn(3); k > 0; k-- {
					x.refs = append(x.refs, sref{uint32(r.Pick(0, 0, 0, 1)), uint32(r.Pick(12, 24, 100, 132))})
				}
			}
			l = append(l, x)
		default:
			l = append(l, cloneShape(al[r.Intn(len(al))]))
		}
	}
	if r.Intn(4) == 0 {
		a := &shape{kind: 'A'}
		switch r.Intn(4) {
		case 0:
			a.auto = 'm'
		case 1:
			a.tfras = []tfraShape{tf(1, []uint32{0}), tf(uint32(r.Pick(1, 2)), []uint32{uint32(r.Pick(0, 8))})}
		case 2:
			a.tfras = []tfraShape{tf(1, nil)}
		}
		l = append(l, a)
	}
	return l
}
