package main

import (
	"encoding/binary"
	"fmt"
	"runtime"
	"strings"

	"github.com/Eyevinn/mp4ff/bits"
	"verifharness/hx"
)

// ---------------------------------------------------------------- R: FixedSliceReader op histories
type rop struct {
	k    string
	a, b int64
}

func (o rop) String() string {
	switch o.k {
	case "fs", "zs", "pz", "rb", "sk", "sp":
		return o.k + ":" + hx.HexI(o.a)
	case "la":
		return fmt.Sprintf("la:%s:%d", hx.HexI(o.a), o.b)
	}
	return o.k
}

func hexb(b []byte) string { return hx.Hex(b) }

func runRop(s *bits.FixedSliceReader, o rop) string {
	switch o.k {
	case "u8":
		return hx.HexU(uint64(s.ReadUint8()))
	case "u16":
		return hx.HexU(uint64(s.ReadUint16()))
	case "i16":
		return hx.HexI(int64(s.ReadInt16()))
	case "u24":
		return hx.HexU(uint64(s.ReadUint24()))
	case "u32":
		return hx.HexU(uint64(s.ReadUint32()))
	case "i32":
		return hx.HexI(int64(s.ReadInt32()))
	case "u64":
		return hx.HexU(s.ReadUint64())
	case "i64":
		v := s.ReadInt64()
		if v == -1<<63 {
			return "-8000000000000000"
		}
		return hx.HexI(v)
	case "fs":
		return hexb([]byte(s.ReadFixedLengthString(int(o.a))))
	case "zs":
		return hexb([]byte(s.ReadZeroTerminatedString(int(o.a))))
	case "pz":
		str, ok := s.ReadPossiblyZeroTerminatedString(int(o.a))
		return hexb([]byte(str)) + ":" + string(boolc(ok))
	case "rb":
		return hexb(s.ReadBytes(int(o.a)))
	case "rem":
		return hexb(s.RemainingBytes())
	case "nr":
		return hx.HexI(int64(s.NrRemainingBytes()))
	case "sk":
		s.SkipBytes(int(o.a))
		return "u"
	case "sp":
		s.SetPos(int(o.a))
		return "u"
	case "gp":
		return hx.HexI(int64(s.GetPos()))
	case "len":
		return hx.HexI(int64(s.Length()))
	case "la":
		d := make([]byte, o.b)
		if err := s.LookAhead(int(o.a), d); err != nil {
			return "E"
		}
		return "L" + hexb(d)
	case "ae":
		return string(boolc(s.AccError() != nil))
	}
	panic("bad rop")
}

func hexPos(p int) string {
	if int64(p) == -1<<63 {
		return "-8000000000000000"
	}
	return hx.HexI(int64(p))
}

func rCase(id string, buf []byte, ops []rop) string {
	s := bits.NewFixedSliceReader(hx.Exact(buf))
	var obs []string
	for _, o := range ops {
		var v string
		p := hx.Try(func() { v = runRop(s, o) })
		if p != "" {
			obs = append(obs, "P")
			break
		}
		obs = append(obs, fmt.Sprintf("%s/%s/%c", v, hexPos(s.GetPos()), boolc(s.AccError() != nil)))
	}
	os := make([]string, len(ops))
	for i, o := range ops {
		os[i] = o.String()
	}
	return fmt.Sprintf("R\t%s\t%s\t%s\t%s", id, hx.Hex(buf), strings.Join(os, ";"), strings.Join(obs, ","))
}

var ropKinds = []string{"u8", "u16", "i16", "u24", "u32", "i32", "u64", "i64", "fs", "zs", "pz", "rb", "rem", "nr", "sk", "sp", "gp", "len", "la", "ae"}

func randArg(r *hx.Rng, n int, hostile bool) int64 {
	if hostile && r.Intn(4) == 0 {
		return []int64{-1, -2, -1 << 63, 1<<63 - 1, 1<<63 - 2, -(1 << 62), 1 << 62, int64(n) + 1, int64(n) + 2, -int64(n)}[r.Intn(10)]
	}
	return int64(r.Intn(n + 2))
}

func genRCases(r *hx.Rng, n int, emit func(string)) {
	// exhaustive: every op kind with every small argument on every position of two small buffers
	id := 0
	bufs := [][]byte{{}, {0}, {7}, {1, 0, 2}, {1, 2, 3, 4, 5, 6, 7, 8, 9}, {0xff, 0x80, 0, 0, 0xfe, 0, 1, 2, 0x80, 0, 0, 0, 0, 0, 0, 0, 9}}
	for _, b := range bufs {
		for p := 0; p <= len(b); p++ {
			for _, k := range ropKinds {
				args := []int64{0}
				switch k {
				case "fs", "zs", "pz", "rb", "sk", "sp", "la":
					args = []int64{-2, -1, 0, 1, 2, 3, int64(len(b)), int64(len(b)) + 1, 1<<63 - 1, -1 << 63}
				}
				for _, a := range args {
					ops := []rop{{"sp", int64(p), 0}, {k, a, 2}, {"u8", 0, 0}, {"gp", 0, 0}}
					emit(rCase(fmt.Sprintf("rx%d", id), b, ops))
					id++
				}
			}
		}
	}
	for i := 0; i < n; i++ {
		ln := r.Intn(20)
		buf := make([]byte, ln)
		for j := range buf {
			if r.Intn(3) == 0 {
				buf[j] = 0
			} else {
				buf[j] = byte(r.U64())
			}
		}
		hostile := i%2 == 1
		nops := r.Range(1, 7)
		ops := make([]rop, nops)
		for j := range ops {
			k := ropKinds[r.Intn(len(ropKinds))]
			ops[j] = rop{k, randArg(r, ln, hostile), int64(r.Intn(5))}
		}
		emit(rCase(fmt.Sprintf("r%d", i), buf, ops))
	}
}

// ---------------------------------------------------------------- B: box trees decoded on both paths
type node struct {
	raw     []byte // a pre-rendered leaf (table boxes of the G stream)
	name    string
	kids    []*node
	payload int
	large   bool
	cont    bool
}

var contNames = []string{"moov", "moof", "traf", "mfra", "udta", "dinf"}
var leafNames = []string{"free", "skip", "mdat", "zzzz", "abcd", "mdat", "free"}

func genNode(r *hx.Rng, depth int) *node {
	if depth > 0 && r.Intn(3) == 0 {
		n := &node{name: contNames[r.Intn(len(contNames))], cont: true, large: r.Intn(12) == 0}
		for k := r.Intn(4); k > 0; k-- {
			n.kids = append(n.kids, genNode(r, depth-1))
		}
		return n
	}
	return &node{name: leafNames[r.Intn(len(leafNames))], payload: r.Pick(0, 0, 1, 4, 9), large: r.Intn(8) == 0}
}

// encodeNode returns bytes and records the offsets of all size fields
func encodeNode(n *node, base int, sizeOffs *[]int) []byte {
	if n.raw != nil {
		*sizeOffs = append(*sizeOffs, base)
		return n.raw
	}
	var body []byte
	hl := 8
	if n.large {
		hl = 16
	}
	if n.cont {
		for _, k := range n.kids {
			body = append(body, encodeNode(k, base+hl+len(body), sizeOffs)...)
		}
	} else {
		body = make([]byte, n.payload)
		for i := range body {
			body[i] = byte(0xa0 + i)
		}
	}
	*sizeOffs = append(*sizeOffs, base)
	if n.large {
		return cat(u32(1), []byte(n.name), u64(uint64(16+len(body))), body)
	}
	return cat(u32(uint32(8+len(body))), []byte(n.name), body)
}

func mutateBox(r *hx.Rng, data []byte, sizeOffs []int) []byte {
	d := append([]byte(nil), data...)
	switch r.Intn(8) {
	case 0, 1: // unmutated
	case 2: // truncate
		d = d[:r.Intn(len(d)+1)]
	case 3, 4: // corrupt a 32-bit size field
		o := sizeOffs[r.Intn(len(sizeOffs))]
		old := binary.BigEndian.Uint32(d[o:])
		nv := []uint32{0, 1, 7, 8, 9, old + 1, old - 1, old + 8, old - 8, 0xffffffff, 0x7fffffff, uint32(len(d)), 16}[r.Intn(13)]
		binary.BigEndian.PutUint32(d[o:], nv)
	case 5: // corrupt / create a large size
		o := sizeOffs[r.Intn(len(sizeOffs))]
		if binary.BigEndian.Uint32(d[o:]) == 1 && o+16 <= len(d) {
			old := binary.BigEndian.Uint64(d[o+8:])
			nv := []uint64{0, 8, 15, 16, 17, old + 1, old - 1, 1 << 63, 1<<63 - 1, 0xfffffffffffffff0, 0xffffffffffffffff, 1 << 32}[r.Intn(12)]
			binary.BigEndian.PutUint64(d[o+8:], nv)
		} else {
			binary.BigEndian.PutUint32(d[o:], 1)
		}
	case 6: // append junk or a sibling
		if r.Bool() {
			d = append(d, free(r.Intn(3))...)
		} else {
			d = append(d, r.Bytes(r.Range(1, 9), nil)...)
		}
	case 7: // truncate at a box boundary +-1
		o := sizeOffs[r.Intn(len(sizeOffs))] + r.Pick(-1, 0, 1, 4, 8)
		if o >= 0 && o <= len(d) {
			d = d[:o]
		}
	}
	return d
}

func genBInputs(r *hx.Rng, n int) [][]byte {
	var out [][]byte
	// fixed seeds: header edge cases, the empty-container-plus-sibling case, large-size children
	out = append(out,
		[]byte{}, []byte{0, 0, 0}, u32(8), cat(u32(8), []byte("free")), cat(u32(1), []byte("free")),
		cat(u32(1), []byte("free"), u64(16)), cat(u32(1), []byte("free"), u64(15)), cat(u32(0), []byte("free")),
		cat(u32(7), []byte("free")), cat(box("udta"), free(1)), box("udta", box("udta"), free(1)),
		box("moof", box("traf"), free(0)), box("udta", lbox("zzzz", []byte{1, 2})), lbox("udta", free(0)),
		box("moof", cat(u32(0xffff), []byte("mdat"))), box("udta", cat(u32(0xffff), []byte("mdat"))),
		lbox("mdat", []byte{1}), box("moov", lbox("free", []byte{1})), cat(u32(1), []byte("mdat"), u64(1<<63)),
		cat(u32(1), []byte("zzzz"), u64(1<<63), []byte{1, 2, 3}), cat(u32(1), []byte("moof"), u64(0xfffffffffffffff8)),
	)
	for i := 0; i < n; i++ {
		var offs []int
		t := genNode(r, 3)
		d := encodeNode(t, 0, &offs)
		out = append(out, mutateBox(r, d, offs))
	}
	return out
}

// ---------------------------------------------------------------- G: box trees whose leaves include the table boxes
// (coq/c04/C04TreeModel.v: the prologue models composed with the container loops)
func tableLeaf(r *hx.Rng) []byte {
	n := r.Pick(0, 1, 2, 3, 5)
	ent := func(k int, v uint32) []byte {
		var e []byte
		for i := 0; i < n*k; i++ {
			e = cat(e, u32(v))
		}
		return e
	}
	var b []byte
	switch r.Intn(17) {
	case 14: // sidx: no size guard; reference_count (16 bit) may say more or less than the box holds
		ver := byte(r.Intn(2))
		cnt := []int{n, n, n + 1, n - 1, 0, 2 * n, 65535}[r.Intn(7)]
		if cnt < 0 {
			cnt = 0
		}
		var refs []byte
		for i := 0; i < n; i++ {
			refs = cat(refs, u32(100), u32(1000), u32(0x90000000))
		}
		if ver == 0 {
			return fullbox("sidx", 0, 0, u32(1), u32(1000), u32(0), u32(0), u16(0), u16(uint16(cnt)), refs)
		}
		return fullbox("sidx", 1, 0, u32(1), u32(1000), u64(0), u64(0), u16(0), u16(uint16(cnt)), refs)
	case 15: // subs: entry_count and subsample_count against the bytes present
		ver := byte(r.Intn(2))
		ecnt := []int{n, n, n + 1, n - 1, 0, 1 << 20}[r.Intn(6)]
		if ecnt < 0 {
			ecnt = 0
		}
		var es []byte
		for i := 0; i < n; i++ {
			ns := r.Pick(0, 1, 2)
			said := ns
			if r.Intn(5) == 0 {
				said = r.Pick(0, ns+1, 65535)
			}
			es = cat(es, u32(1), u16(uint16(said)))
			for j := 0; j < ns; j++ {
				if ver == 1 {
					es = cat(es, u32(10))
				} else {
					es = cat(es, u16(10))
				}
				es = cat(es, []byte{1, 0}, u32(0))
			}
		}
		return fullbox("subs", ver, 0, u32(uint32(ecnt)), es)
	case 16: // pssh: KID count (version 1) and data length against the bytes present
		ver := byte(r.Intn(2))
		sys := make([]byte, 16)
		dl := r.Pick(0, 1, 5)
		said := dl
		if r.Intn(4) == 0 {
			said = r.Pick(0, dl+1, dl-1, 1<<30)
			if said < 0 {
				said = 0
			}
		}
		if ver == 1 {
			kc := []int{n, n, n + 1, 0, 1 << 24}[r.Intn(5)]
			return fullbox("pssh", 1, 0, sys, u32(uint32(kc)), make([]byte, 16*n), u32(uint32(said)), make([]byte, dl))
		}
		return fullbox("pssh", 0, 0, sys, u32(uint32(said)), make([]byte, dl))
	case 0:
		b = fullbox("stts", 0, 0, u32(uint32(n)), ent(2, 1))
	case 1:
		b = fullbox("ctts", byte(r.Intn(2)), 0, u32(uint32(n)), ent(2, 1))
	case 2:
		b = fullbox("stsc", 0, 0, u32(uint32(n)), ent(3, 1))
	case 3:
		if r.Bool() {
			b = fullbox("stsz", 0, 0, u32(0), u32(uint32(n)), ent(1, 4))
		} else {
			b = fullbox("stsz", 0, 0, u32(7), u32(uint32(n)))
		}
	case 4:
		b = fullbox("stco", 0, 0, u32(uint32(n)), ent(1, 9))
	case 5:
		b = fullbox("co64", 0, 0, u32(uint32(n)), ent(2, 9))
	case 6:
		b = fullbox("stss", 0, 0, u32(uint32(n)), ent(1, 1))
	case 7:
		b = trun(r.Bool(), 100)
	case 8:
		b = tfraX(1, make([]uint32, n), byte(r.Intn(2)), byte(r.Intn(64)))
	case 9:
		b = fullbox("saio", byte(r.Intn(2)*0), 0, u32(uint32(n)), ent(1, 8))
	case 10:
		if r.Bool() {
			b = fullbox("elst", 0, 0, u32(uint32(n)), ent(3, 1))
		} else {
			b = fullbox("elst", 1, 0, u32(uint32(n)), ent(5, 1))
		}
	case 11:
		b = fullbox("sbgp", 0, 0, []byte("roll"), u32(uint32(n)), ent(2, 1))
	case 12:
		b = fullbox("saiz", 0, 0, []byte{0}, u32(uint32(n)), make([]byte, n))
	case 13:
		b = fullbox("sdtp", 0, 0, make([]byte, n))
	}
	switch r.Intn(8) {
	case 0: // count / first payload word inflated or deflated
		if len(b) >= 16 {
			old := binary.BigEndian.Uint32(b[12:])
			binary.BigEndian.PutUint32(b[12:], []uint32{0, old + 1, old - 1, 1024, 1025, 0x7fffffff, 0xffffffff}[r.Intn(7)])
		}
	case 1: // a trailing byte inside the box
		b = append(b, 0)
		binary.BigEndian.PutUint32(b, uint32(len(b)))
	case 2: // 16-byte header
		b = cat(u32(1), b[4:8], u64(uint64(len(b)+8)), b[8:])
	}
	return b
}

func genGNode(r *hx.Rng, depth int) *node {
	if depth > 0 && r.Intn(3) == 0 {
		n := &node{name: contNames[r.Intn(len(contNames))], cont: true, large: r.Intn(12) == 0}
		for k := r.Intn(4); k > 0; k-- {
			n.kids = append(n.kids, genGNode(r, depth-1))
		}
		return n
	}
	if r.Intn(3) > 0 {
		return &node{raw: tableLeaf(r)}
	}
	return &node{name: leafNames[r.Intn(len(leafNames))], payload: r.Pick(0, 0, 1, 4, 9), large: r.Intn(8) == 0}
}

func genGInputs(r *hx.Rng, n int) [][]byte {
	var out [][]byte
	for i := 0; i < n; i++ {
		var offs []int
		t := genGNode(r, 3)
		d := encodeNode(t, 0, &offs)
		out = append(out, mutateBox(r, d, offs))
	}
	return out
}

// ---------------------------------------------------------------- A: shape lists
var allCfgs = []string{"RN0", "RN1", "RN2", "RL0", "RL1", "RL2", "SN0", "SN1", "SN2", "SL0"}

func projectClass(c string) string {
	if strings.HasPrefix(c, "panic") {
		return "panic"
	}
	return c
}

// projectResult maps panic descriptions to the class "panic" inside a pipeline result
func projectResult(res string) string {
	parts := strings.Split(res, "|")
	for i, p := range parts {
		eq := strings.Index(p, "=")
		if eq < 0 {
			continue
		}
		key, val := p[:eq], p[eq+1:]
		switch {
		case key == "dec":
			parts[i] = key + "=" + projectClass(val)
		case key == "i" || key == "e0" || key == "e1":
			// classes separated by commas; a panic description may itself contain commas: re-split on known prefixes
			parts[i] = key + "=" + projectList(val)
		}
	}
	return strings.Join(parts, "|")
}

func projectList(v string) string {
	var out []string
	cur := ""
	for _, tok := range strings.Split(v, ",") {
		if tok == "ok" || tok == "err" || tok == "hang" || tok == "overalloc" || strings.HasPrefix(tok, "panic:") {
			if cur != "" {
				out = append(out, projectClass(cur))
			}
			cur = tok
		} else {
			cur += "," + tok
		}
	}
	if cur != "" {
		out = append(out, projectClass(cur))
	}
	return strings.Join(out, ",")
}

// failuresOf extracts the property failures (panic / hang / overalloc) of a pipeline result
func failuresOf(res string) []string {
	var out []string
	for _, p := range strings.Split(res, "|") {
		eq := strings.Index(p, "=")
		if eq < 0 {
			continue
		}
		key, val := p[:eq], p[eq+1:]
		if key != "dec" && key != "i" && key != "e0" && key != "e1" {
			continue
		}
		cur := ""
		flush := func() {
			if strings.HasPrefix(cur, "panic") || cur == "hang" || cur == "overalloc" {
				out = append(out, key+"="+cur)
			}
		}
		for _, tok := range strings.Split(val, ",") {
			if tok == "ok" || tok == "err" || tok == "hang" || tok == "overalloc" || strings.HasPrefix(tok, "panic:") {
				flush()
				cur = tok
			} else {
				cur += "," + tok
			}
		}
		flush()
	}
	return out
}

// failLine formats one failing input. site = top frame for panics, stage otherwise.
func failLine(stageAndClass, witness, what string) string {
	eq := strings.Index(stageAndClass, "=")
	stage, c := stageAndClass[:eq], stageAndClass[eq+1:]
	site, class := stage, c
	if strings.HasPrefix(c, "panic:") {
		class = "panic"
		if at := strings.LastIndex(c, "@"); at >= 0 {
			site = c[at+1:]
		}
	}
	desc := strings.ReplaceAll(fmt.Sprintf("%s: %s (%s)", what, c, stage), "\t", " ")
	return fmt.Sprintf("FAIL\t%s\t%s\t%s\t%s", site, class, witness, desc)
}

func nprocs() int {
	n := runtime.NumCPU()
	if n > 12 {
		n = 12
	}
	return n
}

func cmdCorr(seed uint64, n int, exh int) {
	r := hx.NewRng(seed)
	// R
	genRCases(r, n, func(l string) { fmt.Fprintln(out, l) })
	// B
	bin := genBInputs(r, n)
	jobs := make([]job, len(bin))
	for i, d := range bin {
		jobs[i] = job{kind: "B", cfg: "-", data: d}
	}
	res := runJobs(jobs, nprocs())
	for i, d := range bin {
		fmt.Fprintf(out, "B\tb%d\t%s\t%s\n", i, hx.Hex(d), projectB(res[i]))
		for _, half := range strings.Split(res[i], "\t") {
			if strings.HasPrefix(half, "panic") || half == "hang" || half == "overalloc" {
				fmt.Fprintln(out, failLine("box="+half, "hex:"+hx.Hex(d), "DecodeBox/DecodeBoxSR on a mutated box tree"))
			}
		}
	}
	// G: trees with table leaves
	gin := genGInputs(r, n)
	gjobs := make([]job, len(gin))
	for i, d := range gin {
		gjobs[i] = job{kind: "B", cfg: "-", data: d}
	}
	gres := runJobs(gjobs, nprocs())
	for i, d := range gin {
		fmt.Fprintf(out, "G\tg%d\t%s\t%s\n", i, hx.Hex(d), projectB(gres[i]))
		for _, half := range strings.Split(gres[i], "\t") {
			if strings.HasPrefix(half, "panic") || half == "hang" || half == "overalloc" {
				fmt.Fprintln(out, failLine("box="+half, "hex:"+hx.Hex(d), "DecodeBox/DecodeBoxSR on a box tree with table leaves"))
			}
		}
	}
	// A: exhaustive lists up to length exh, then n/4 random longer ones
	var lists [][]*shape
	al := alphabet()
	var rec func(prefix []*shape, left int)
	rec = func(prefix []*shape, left int) {
		if len(prefix) > 0 {
			l := make([]*shape, len(prefix))
			for i, s := range prefix {
				l[i] = cloneShape(s)
			}
			lists = append(lists, l)
		}
		if left == 0 {
			return
		}
		for _, s := range al {
			rec(append(prefix, s), left-1)
		}
	}
	rec(nil, exh)
	for i := 0; i < n/4; i++ {
		lists = append(lists, randomList(r))
	}
	jobs = jobs[:0]
	type meta struct {
		shapes string
		cfg    string
	}
	var metas []meta
	for li, l := range lists {
		data := renderList(l)
		assertTrail(l, data)
		ls := listString(l)
		cfgs := allCfgs
		if len(l) >= 3 && li >= 0 && exh >= 3 && len(lists) > 20000 {
			// length-3 exhaustive lists: the configurations that differ on shapes
			cfgs = []string{"RN0", "RN1", "RN2", "SN0", "RL0"}
		}
		for _, c := range cfgs {
			jobs = append(jobs, job{kind: "A", cfg: c, data: data})
			metas = append(metas, meta{ls, c})
		}
	}
	res = runJobs(jobs, nprocs())
	for i, m := range metas {
		fmt.Fprintf(out, "A\ta%d\t%s\t%s\t%s\n", i, m.cfg, m.shapes, projectResult(res[i]))
		for _, f := range failuresOf(res[i]) {
			fmt.Fprintln(out, failLine(f, "cfg:"+m.cfg+" shapes:"+m.shapes+" hex:"+hx.Hex(jobs[i].data), "synthesized shape list"))
		}
	}
	// T: the trailing index (mfro -> mfra -> tfra look-back under the ISM flag)
	corrTrail(r, n/8)
	// X: cross references of the second senc pass (coq/c04/C04XrefModel.v)
	corrXref(r, n/10)
	// I: Info of the table boxes at every level string (coq/c04/C04InfoModel.v)
	corrInfo(r, n/4)
	// C: count-field inflation of the table boxes (the prologues modelled in coq/c04/C04AllocModel.v)
	corrCounts(r, n/2)
	fmt.Fprintf(out, "STATS\t%d\t%d\t%d\t%d\n", rstats.ns, rstats.n, rstats.alloc, rstats.restarts)
}

func projectB(res string) string {
	h := strings.Split(res, "\t")
	for i := range h {
		h[i] = projectClass(h[i])
	}
	return strings.Join(h, "\t")
}
