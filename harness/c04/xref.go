// Cross-reference machinery (third extension round).
//
// corr stream X: synthesized encrypted fragments (optionally behind an init segment with chosen traks) whose
// traf carries sbgp / sgpd / saio / senc boxes with chosen contents; the model side is
// coq/c04/C04XrefModel.v (moof_senc_pass_x: the track lookup in moov, the saio position check, the seig
// group lookup of TrafBox.ParseReadSenc, SencBox.ParseReadBox).  Every index / reference field takes the
// values xrefValues(N) relative to the length N of the table it refers to.
//
// search: the same files, plus every INDEX / REFERENCE field of the repository's real files (found by a raw
// walk) set to xrefValues(N), decoded as FILES under all options, Info at all levels, both encoders.
package main

import (
	"encoding/binary"
	"fmt"
	"io"
	"sort"
	"strings"

	"github.com/Eyevinn/mp4ff/bits"
	"github.com/Eyevinn/mp4ff/mp4"
	"verifharness/hx"
)

// xrefValues: the values an index into a table of n entries is set to (global 1-based and fragment-local
// 65536+ numbering, off-by-one on both sides, sign and width boundaries)
func xrefValues(n int) []uint32 {
	N := uint32(n)
	vs := []uint32{0, 1, N - 1, N, N + 1, N + 2, 65535, 65536, 65537, 65536 + N, 65536 + N + 1, 65536 + N + 2, 1 << 31, 0xffffffff}
	seen := map[uint32]bool{}
	var out []uint32
	for _, v := range vs {
		if !seen[v] {
			seen[v] = true
			out = append(out, v)
		}
	}
	return out
}

// ---------------------------------------------------------------- intent of a synthesized encrypted fragment
type xSenc struct {
	piff  bool
	flags uint32
	count uint32
	raw   []byte
	off   int // filled by render: start of the box in the file
}

type xSbgp struct {
	typ     string
	ver     byte
	entries [][2]uint32 // sample_count, group_description_index
}

type xSgpd struct {
	typ string
	ver byte
	ivs []int // seig entries: per-sample IV size 8 / 16, 0 = unprotected, -8 = protected with an 8-byte constant IV; roll entries: any
}

type xSaio struct {
	ver  byte
	mode string // match, +1, -1, 0, big, neg, wrap (version 1: match + 2^32), empty, second (mismatch, match)
}

type xTraf struct {
	tfhd  int64 // -1: no tfhd
	saio  *xSaio
	sbgps []xSbgp
	sgpds []xSgpd
	sencs []xSenc
	saioV []uint64 // filled by render
}

type xTrak struct {
	tkhd  int64  // -1: no tkhd
	entry string // n (empty stsd) | c | e (no sinf) | cN | eN (tenc with DefaultPerSampleIVSize N) | es (sinf without schi) | et (schi without tenc)
}

type xCase struct {
	hasMoov bool
	traks   []xTrak
	trafs   []xTraf
	pre     int // free bytes before the moof (moves moof.StartPos)
}

// sencData renders count samples with IVs of ivSize bytes; with subsamples every sample has i%3 sub-samples
func sencData(flags uint32, count int, ivSize int) []byte {
	var d []byte
	for i := 0; i < count; i++ {
		for k := 0; k < ivSize; k++ {
			d = append(d, byte(0x10+i))
		}
		if flags&2 != 0 {
			ns := i % 3
			d = append(d, u16(uint16(ns))...)
			for j := 0; j < ns; j++ {
				d = cat(d, u16(uint16(10+j)), u32(uint32(100+j)))
			}
		}
	}
	return d
}

func mkSenc(piff bool, flags uint32, count, ivSize int) xSenc {
	return xSenc{piff: piff, flags: flags, count: uint32(count), raw: sencData(flags, count, ivSize)}
}

var piffSencUUID = []byte{0xa2, 0x39, 0x4f, 0x52, 0x5a, 0x9b, 0x4f, 0x14, 0xa2, 0x44, 0x6c, 0x42, 0x7c, 0x64, 0x8d, 0xf4}

func (s xSenc) render() []byte {
	body := cat(u32(s.flags&0xffffff), u32(s.count), s.raw)
	if s.piff {
		return box("uuid", piffSencUUID, body)
	}
	return box("senc", body)
}

func (b xSbgp) render() []byte {
	var e []byte
	for _, x := range b.entries {
		e = cat(e, u32(x[0]), u32(x[1]))
	}
	if b.ver == 1 {
		return fullbox("sbgp", 1, 0, []byte(b.typ), u32(0), u32(uint32(len(b.entries))), e)
	}
	return fullbox("sbgp", 0, 0, []byte(b.typ), u32(uint32(len(b.entries))), e)
}

var kid16 = []byte{0x91, 0x4e, 0x69, 0xf4, 0x0a, 0xb3, 0x45, 0x34, 0x9e, 0x9f, 0x98, 0x53, 0x61, 0x5e, 0x26, 0xf6}

func seigEntry(iv int) []byte {
	switch {
	case iv == 0:
		return cat([]byte{0, 0, 0, 0}, kid16)
	case iv < 0:
		return cat([]byte{0, 0, 1, 0}, kid16, []byte{byte(-iv)}, make([]byte, -iv))
	}
	return cat([]byte{0, 0, 1, byte(iv)}, kid16)
}

func (g xSgpd) render() []byte {
	var ents [][]byte
	for _, iv := range g.ivs {
		if g.typ == "seig" {
			ents = append(ents, seigEntry(iv))
		} else {
			ents = append(ents, u16(uint16(iv))) // roll distance
		}
	}
	same := true
	for _, e := range ents {
		if len(e) != len(ents[0]) {
			same = false
		}
	}
	ver := g.ver
	if ver == 0 {
		ver = 1
	}
	var p []byte
	p = cat(p, []byte(g.typ))
	if same && len(ents) > 0 {
		p = cat(p, u32(uint32(len(ents[0]))))
	} else if len(ents) == 0 {
		p = cat(p, u32(20))
	} else {
		p = cat(p, u32(0))
	}
	if ver >= 2 {
		p = cat(p, u32(1))
	}
	p = cat(p, u32(uint32(len(ents))))
	for _, e := range ents {
		if !same {
			p = cat(p, u32(uint32(len(e))))
		}
		p = cat(p, e)
	}
	return fullbox("sgpd", ver, 0, p)
}

func (a *xSaio) render(vals []uint64) []byte {
	var e []byte
	for _, v := range vals {
		if a.ver == 1 {
			e = cat(e, u64(v))
		} else {
			e = cat(e, u32(uint32(v)))
		}
	}
	return fullbox("saio", a.ver, 1, []byte("cenc"), u32(0), u32(uint32(len(vals))), e)
}

func (a *xSaio) nvals() int {
	switch a.mode {
	case "empty":
		return 0
	case "second":
		return 2
	}
	return 1
}

// values of the saio offsets given the moof-relative position of the picked senc's data (StartPos+16-moofStart)
func (a *xSaio) values(rel int64) []uint64 {
	var v int64
	switch a.mode {
	case "empty":
		return nil
	case "match":
		v = rel
	case "+1":
		v = rel + 1
	case "-1":
		v = rel - 1
	case "0":
		v = 0
	case "big":
		v = 0x7fffffff
	case "neg":
		v = -1
	case "wrap":
		v = rel + (1 << 32)
	case "second":
		if a.ver == 1 {
			return []uint64{uint64(rel + 7), uint64(rel)}
		}
		return []uint64{uint64(uint32(rel + 7)), uint64(uint32(rel))}
	}
	if a.ver == 1 {
		return []uint64{uint64(v)}
	}
	// version 0 stores int32: the decoder sign-extends
	return []uint64{uint64(int64(int32(uint32(v))))}
}

type encvParts struct{ ftyp, mvhd, tkhd, mdhd, hdlr, vmhd, dinf, hdr78, avcC, frma, schm, stsc, stsz, stco []byte }

var ep *encvParts

func getEncv() *encvParts {
	if ep != nil {
		return ep
	}
	d := mustRead("init_cenc.cmfv")
	stsd := rawPath(d, "moov/trak/mdia/minf/stbl/stsd")
	encv := rawChildren(stsd, 8)[0]
	kids := rawChildren(encv, 78)
	sinf := rawFind(kids, "sinf")
	sk := rawChildren(sinf, 0)
	ep = &encvParts{
		ftyp: rawPath(d, "ftyp"), mvhd: rawPath(d, "moov/mvhd"), tkhd: rawPath(d, "moov/trak/tkhd"),
		mdhd: rawPath(d, "moov/trak/mdia/mdhd"), hdlr: rawPath(d, "moov/trak/mdia/hdlr"),
		vmhd: rawPath(d, "moov/trak/mdia/minf/vmhd"), dinf: rawPath(d, "moov/trak/mdia/minf/dinf"),
		hdr78: encv[8:86], avcC: rawFind(kids, "avcC"), frma: rawFind(sk, "frma"), schm: rawFind(sk, "schm"),
		stsc: rawPath(d, "moov/trak/mdia/minf/stbl/stsc"), stsz: rawPath(d, "moov/trak/mdia/minf/stbl/stsz"),
		stco: rawPath(d, "moov/trak/mdia/minf/stbl/stco"),
	}
	return ep
}

func tencBox(iv int) []byte {
	if iv == 0 {
		return fullbox("tenc", 0, 0, []byte{0, 0, 0, 0}, kid16)
	}
	return fullbox("tenc", 0, 0, []byte{0, 0, 1, byte(iv)}, kid16)
}

func (t xTrak) render() []byte {
	p := getEncv()
	var entry []byte
	e := t.entry
	switch {
	case e == "n":
	case e == "c":
		entry = box("avc1", p.hdr78, p.avcC)
	case e == "e":
		entry = box("encv", p.hdr78, p.avcC)
	case e == "es":
		entry = box("encv", p.hdr78, p.avcC, box("sinf", p.frma, p.schm))
	case e == "et":
		entry = box("encv", p.hdr78, p.avcC, box("sinf", p.frma, p.schm, box("schi")))
	default:
		var iv int
		fmt.Sscanf(e[1:], "%d", &iv)
		name := "encv"
		if e[0] == 'c' {
			name = "avc1"
		}
		entry = box(name, p.hdr78, p.avcC, box("sinf", p.frma, p.schm, box("schi", tencBox(iv))))
	}
	n := uint32(0)
	if entry != nil {
		n = 1
	}
	stsd := fullbox("stsd", 0, 0, u32(n), entry)
	stbl := box("stbl", stsd, fullbox("stts", 0, 0, u32(0)), p.stsc, p.stsz, p.stco)
	mdia := box("mdia", p.mdhd, p.hdlr, box("minf", p.vmhd, p.dinf, stbl))
	if t.tkhd < 0 {
		return box("trak", mdia)
	}
	tk := append([]byte(nil), p.tkhd...)
	binary.BigEndian.PutUint32(tk[20:], uint32(t.tkhd))
	return box("trak", tk, mdia)
}

// render: the file bytes; fills the senc offsets and the saio values (two passes: sizes do not depend on them)
func (c *xCase) render() (data []byte, moofStart int) {
	var init []byte
	if c.hasMoov {
		var tr [][]byte
		tr = append(tr, getEncv().mvhd)
		for _, t := range c.traks {
			tr = append(tr, t.render())
		}
		init = cat(getEncv().ftyp, box("moov", tr...))
	}
	if c.pre > 0 {
		init = cat(init, free(c.pre-8))
	}
	moofStart = len(init)
	// the senc sets are shared between cases and trafs: every traf gets its own copy before offsets are filled in
	for ti := range c.trafs {
		c.trafs[ti].sencs = append([]xSenc(nil), c.trafs[ti].sencs...)
	}
	var moof []byte
	for pass := 0; pass < 2; pass++ {
		pos := moofStart + 8
		mf := mfhd(1)
		pos += len(mf)
		parts := [][]byte{mf}
		for ti := range c.trafs {
			t := &c.trafs[ti]
			var kids [][]byte
			kpos := pos + 8
			add := func(b []byte) {
				kids = append(kids, b)
				kpos += len(b)
			}
			if t.tfhd >= 0 {
				add(tfhd(uint32(t.tfhd)))
			}
			add(tfdt(0))
			for _, g := range t.sgpds {
				add(g.render())
			}
			for _, b := range t.sbgps {
				add(b.render())
			}
			if t.saio != nil {
				vals := t.saioV
				if pass == 0 {
					vals = make([]uint64, t.saio.nvals())
				}
				add(t.saio.render(vals))
			}
			add(trun(true, 100))
			for si := range t.sencs {
				t.sencs[si].off = kpos
				add(t.sencs[si].render())
			}
			if pass == 0 && t.saio != nil {
				// the senc ParseReadSenc picks: the last plain one, else the last PIFF one
				pick := -1
				for si, s := range t.sencs {
					if !s.piff {
						pick = si
					}
				}
				if pick < 0 {
					for si, s := range t.sencs {
						if s.piff {
							pick = si
						}
					}
				}
				rel := int64(0)
				if pick >= 0 {
					sp := t.sencs[pick].off
					if t.sencs[pick].piff {
						sp += 16
					}
					rel = int64(sp + 16 - moofStart)
				}
				t.saioV = t.saio.values(rel)
			}
			tb := box("traf", kids...)
			parts = append(parts, tb)
			pos += len(tb)
		}
		moof = box("moof", parts...)
	}
	return cat(init, moof, mdat(8)), moofStart
}

// the model's view of the case (what C04XrefModel.moof_senc_pass_x takes)
func (c *xCase) modelStrings() (moov string, trafs string) {
	moov = "-"
	if c.hasMoov {
		var ts []string
		for _, t := range c.traks {
			id := "n"
			if t.tkhd >= 0 {
				id = fmt.Sprint(t.tkhd)
			}
			e := t.entry
			switch e {
			case "es", "et":
				e = "e"
			}
			ts = append(ts, id+"."+e)
		}
		moov = "m" + strings.Join(ts, ";")
	}
	var tl []string
	for _, t := range c.trafs {
		var f []string
		if t.tfhd >= 0 {
			f = append(f, fmt.Sprintf("h%d", t.tfhd))
		} else {
			f = append(f, "h-")
		}
		if t.saio != nil {
			var vs []string
			for _, v := range t.saioV {
				vs = append(vs, hx.HexU(v))
			}
			f = append(f, "a:"+strings.Join(vs, ","))
		} else {
			f = append(f, "a-")
		}
		if n := len(t.sbgps); n > 0 {
			b := t.sbgps[n-1]
			var es []string
			for _, x := range b.entries {
				es = append(es, fmt.Sprintf("%d.%d", x[0], x[1]))
			}
			f = append(f, fmt.Sprintf("b:%c:%s", boolc(b.typ == "seig"), strings.Join(es, ",")))
		} else {
			f = append(f, "b-")
		}
		if n := len(t.sgpds); n > 0 {
			g := t.sgpds[n-1]
			var es []string
			for _, iv := range g.ivs {
				if g.typ == "seig" {
					if iv < 0 {
						iv = 0
					}
					es = append(es, fmt.Sprintf("s%d", iv))
				} else {
					es = append(es, "o")
				}
			}
			f = append(f, fmt.Sprintf("g:%c:%s", boolc(g.typ == "seig"), strings.Join(es, ",")))
		} else {
			f = append(f, "g-")
		}
		var ss []string
		for _, s := range t.sencs {
			ss = append(ss, fmt.Sprintf("%c.%d.%d.%d.%s", boolc(s.piff), s.off, s.flags, s.count, hx.Hex(s.raw)))
		}
		f = append(f, "s:"+strings.Join(ss, ";"))
		tl = append(tl, strings.Join(f, "|"))
	}
	return moov, strings.Join(tl, "/")
}

// ---------------------------------------------------------------- the generator
func baseTraf(n int, idx uint32, sgN int) xTraf {
	ivs := make([]int, sgN)
	for i := range ivs {
		ivs[i] = []int{8, 16, 8, 0}[i%4]
	}
	return xTraf{tfhd: 1, saio: &xSaio{mode: "match"},
		sbgps: []xSbgp{{typ: "seig", entries: [][2]uint32{{uint32(n), idx}}}},
		sgpds: []xSgpd{{typ: "seig", ivs: ivs}},
		sencs: []xSenc{mkSenc(false, 2, n, 8)}}
}

func encMoov(iv string) []xTrak { return []xTrak{{1, "e" + iv}} }

func genXCases(r *hx.Rng, nRandom int) []*xCase {
	var out []*xCase
	add := func(c *xCase) { out = append(out, c) }
	// 1. the group_description_index against sgpd tables of 0..3 entries, without / with an init segment
	for sgN := 0; sgN <= 3; sgN++ {
		for _, idx := range xrefValues(sgN) {
			add(&xCase{trafs: []xTraf{baseTraf(3, idx, sgN)}})
			add(&xCase{hasMoov: true, traks: encMoov("8"), trafs: []xTraf{baseTraf(3, idx, sgN)}})
		}
	}
	// 2. number of sbgp entries, the index in a later entry, versions
	for _, es := range [][][2]uint32{{}, {{3, 65537}, {1, 65538}}, {{1, 65538}, {2, 65537}}, {{1, 1}, {1, 2}, {1, 65537}}} {
		for _, ver := range []byte{0, 1} {
			t := baseTraf(3, 65537, 2)
			t.sbgps[0].entries, t.sbgps[0].ver = es, ver
			add(&xCase{trafs: []xTraf{t}})
		}
	}
	// 3. grouping types, absent boxes, duplicates (AddChild keeps the last one)
	for _, bt := range []string{"seig", "roll", ""} {
		for _, gt := range []string{"seig", "roll", ""} {
			for _, idx := range []uint32{65537, 65538, 0} {
				t := baseTraf(2, idx, 1)
				t.sbgps[0].typ, t.sgpds[0].typ = bt, gt
				if bt == "" {
					t.sbgps = nil
				}
				if gt == "" {
					t.sgpds = nil
				}
				add(&xCase{trafs: []xTraf{t}})
			}
		}
	}
	for _, first := range []uint32{65537, 65538} {
		for _, last := range []uint32{65537, 65538} {
			t := baseTraf(2, first, 1)
			t.sbgps = append(t.sbgps, xSbgp{typ: "seig", entries: [][2]uint32{{2, last}}})
			add(&xCase{trafs: []xTraf{t}})
			t2 := baseTraf(2, first, 2)
			t2.sgpds = append(t2.sgpds, xSgpd{typ: "seig", ivs: []int{16}, ver: byte(1 + (first+last)%2)})
			add(&xCase{trafs: []xTraf{t2}})
		}
	}
	// 4. sgpd entry kinds (IV sizes incl. constant IV, per-entry lengths), senc built for another IV size
	for _, ivs := range [][]int{{8}, {16}, {0}, {-8}, {8, -8}, {-8, 8}, {16, 8, 0}, {4}} {
		for _, built := range []int{0, 8, 16} {
			for _, fl := range []uint32{0, 2} {
				t := baseTraf(3, 65537, 1)
				t.sgpds[0].ivs = ivs
				t.sencs = []xSenc{mkSenc(false, fl, 3, built)}
				add(&xCase{trafs: []xTraf{t}})
			}
		}
	}
	// 5. saio against the senc position: plain / PIFF / two senc boxes, moved moof
	for _, mode := range []string{"match", "+1", "-1", "0", "big", "neg", "wrap", "empty", "second"} {
		for _, ver := range []byte{0, 1} {
			for k := 0; k < 4; k++ {
				t := baseTraf(2, 65537, 1)
				t.saio = &xSaio{ver: ver, mode: mode}
				switch k {
				case 1:
					t.sencs = []xSenc{mkSenc(true, 2, 2, 8)}
				case 2:
					t.sencs = []xSenc{mkSenc(false, 2, 2, 8), mkSenc(true, 2, 2, 8)}
				case 3:
					t.sencs = []xSenc{mkSenc(true, 2, 2, 8), mkSenc(false, 2, 2, 8), mkSenc(false, 0, 2, 8)}
				}
				add(&xCase{trafs: []xTraf{t}, pre: []int{0, 16}[k%2]})
			}
		}
	}
	// 6. senc kinds: count 0 (parsed at once), no data, first senc parsed and second not, and the reverse
	sencSets := [][]xSenc{
		{}, {mkSenc(false, 0, 0, 0)}, {mkSenc(false, 2, 0, 0)}, {mkSenc(false, 0, 3, 0)}, {mkSenc(true, 0, 0, 0)},
		{mkSenc(false, 0, 0, 0), mkSenc(false, 2, 2, 8)}, {mkSenc(false, 2, 2, 8), mkSenc(false, 0, 0, 0)},
		{mkSenc(true, 2, 2, 8), mkSenc(true, 0, 0, 0)}, {mkSenc(true, 0, 0, 0), mkSenc(false, 2, 2, 16)},
		{mkSenc(false, 0, 2, 16)}, {mkSenc(false, 2, 1, 0)}, {mkSenc(false, 0, 5, 8)},
	}
	for _, ss := range sencSets {
		for _, withSaio := range []bool{false, true} {
			for _, grp := range []bool{false, true} {
				t := baseTraf(2, 65537, 1)
				t.sencs = ss
				if !withSaio {
					t.saio = nil
				}
				if !grp {
					t.sbgps, t.sgpds = nil, nil
				}
				add(&xCase{trafs: []xTraf{t}})
				add(&xCase{hasMoov: true, traks: encMoov("16"), trafs: []xTraf{t}})
			}
		}
	}
	// damaged senc data: one byte short / long (the first phase still accepts it)
	for _, d := range []int{-1, 1, 6} {
		for _, fl := range []uint32{0, 2} {
			t := baseTraf(3, 65537, 1)
			s := mkSenc(false, fl, 3, 8)
			if d < 0 {
				s.raw = s.raw[:len(s.raw)+d]
			} else {
				s.raw = append(s.raw, make([]byte, d)...)
			}
			t.sencs = []xSenc{s}
			add(&xCase{trafs: []xTraf{t}})
		}
	}
	// 7. tfhd.track_ID against the traks of the moov: ids, missing tkhd, entry kinds, first matching trak without entry
	trakSets := [][]xTrak{
		{{1, "e8"}}, {{1, "c"}}, {{1, "e"}}, {{1, "es"}}, {{1, "et"}}, {{1, "n"}}, {{1, "c8"}}, {{1, "e0"}}, {{1, "e16"}}, {{1, "e4"}},
		{{-1, "e8"}}, {{2, "e8"}}, {{1, "c"}, {2, "e8"}}, {{1, "n"}, {1, "e16"}}, {{-1, "c"}, {1, "e8"}}, {{1, "c"}, {1, "e8"}},
		{{0, "e8"}}, {{1, "e8"}, {2, "e16"}, {3, "c"}}, {{0xffffffff, "e8"}}, {{65537, "e16"}},
	}
	for _, ts := range trakSets {
		ids := []int64{-1, 0, 1, 2, 3, 4, 65536, 65537, 0xffffffff}
		for _, id := range ids {
			for _, grp := range []bool{false, true} {
				t := baseTraf(2, 65537, 1)
				t.tfhd = id
				if !grp {
					t.sbgps, t.sgpds = nil, nil
				}
				add(&xCase{hasMoov: true, traks: ts, trafs: []xTraf{t}})
			}
		}
	}
	// 8. two trafs in one moof: the second one's references
	for _, idx := range xrefValues(1) {
		t1 := baseTraf(2, 65537, 1)
		t2 := baseTraf(2, idx, 1)
		t2.tfhd = 2
		add(&xCase{trafs: []xTraf{t1, t2}})
		add(&xCase{hasMoov: true, traks: []xTrak{{1, "e8"}, {2, "e8"}}, trafs: []xTraf{t2, t1}})
	}
	// 9. random combinations
	for i := 0; i < nRandom; i++ {
		c := &xCase{}
		if r.Intn(2) == 0 {
			c.hasMoov = true
			c.traks = trakSets[r.Intn(len(trakSets))]
		}
		c.pre = r.Pick(0, 0, 8, 24)
		for k := r.Range(1, 2); k > 0; k-- {
			sgN := r.Intn(4)
			vs := xrefValues(sgN)
			t := baseTraf(r.Range(1, 4), vs[r.Intn(len(vs))], sgN)
			t.tfhd = int64(r.Pick(-1, 0, 1, 1, 1, 2))
			for j := range t.sgpds[0].ivs {
				t.sgpds[0].ivs[j] = r.Pick(8, 16, 0, -8, 8)
			}
			t.sgpds[0].ver = byte(r.Pick(1, 1, 2))
			if r.Intn(4) == 0 {
				t.sbgps[0].entries = append(t.sbgps[0].entries, [2]uint32{1, vs[r.Intn(len(vs))]})
			}
			if r.Intn(6) == 0 {
				t.sbgps[0].typ = "roll"
			}
			if r.Intn(6) == 0 {
				t.sgpds[0].typ = "roll"
			}
			if r.Intn(8) == 0 {
				t.sbgps = nil
			}
			if r.Intn(8) == 0 {
				t.sgpds = nil
			}
			t.saio = &xSaio{ver: byte(r.Intn(2)), mode: []string{"match", "match", "match", "+1", "empty", "second", "wrap", "neg"}[r.Intn(8)]}
			if r.Intn(4) == 0 {
				t.saio = nil
			}
			t.sencs = sencSets[r.Intn(len(sencSets))]
			if r.Intn(2) == 0 {
				t.sencs = []xSenc{mkSenc(r.Intn(4) == 0, uint32(r.Pick(0, 2)), r.Range(1, 4), r.Pick(0, 8, 16, 8))}
			}
			c.trafs = append(c.trafs, t)
		}
		add(c)
	}
	return out
}

var xCfgs = []string{"RN0", "SN0", "RL0", "RN3", "SN2", "RL1"}

// xrefJob: decode as a file, the state of the senc each traf's second pass would pick, then Info and the encoders
func xrefJob(data []byte, c decCfg) string {
	n := len(data)
	var f *mp4.File
	var err error
	p, over, dt, da := measured(n, func() { f, err = decodeFile(data, c) })
	note(n, dt, da)
	res := "dec=" + cls(p, over, err)
	if p != "" || over != "" || err != nil {
		return res
	}
	var ts []string
	for _, ch := range f.Children {
		moof, ok := ch.(*mp4.MoofBox)
		if !ok {
			continue
		}
		for _, tr := range moof.Trafs {
			s := tr.Senc
			if s == nil && tr.UUIDSenc != nil {
				s = tr.UUIDSenc.Senc
			}
			if s == nil {
				ts = append(ts, "-")
			} else {
				st := fmt.Sprintf("%c:%d:%d", boolc(s.ReadButNotParsed()), len(s.IVs), len(s.SubSamples))
				for _, spec := range []string{"", "senc:1", "all:2,senc:0", "all:1"} {
					st += ":" + projectClass(boxInfoLines(n, s, spec))
				}
				ts = append(ts, st)
			}
		}
	}
	res += "|t=" + strings.Join(ts, ",")
	return res + postOps(data, c, infoLevelsX)
}

var infoLevelsX = []string{"", "all:1", "all:2", "senc:2,sbgp:1,sgpd:2,saio:1,saiz:1,trun:1,stsc:1,sidx:1"}

// postOps: Info at the given levels and both encoders in both modes, each on a fresh decode
func postOps(data []byte, c decCfg, levels []string) string {
	n := len(data)
	redo := func() *mp4.File {
		g, e := decodeFile(data, c)
		if e != nil {
			panic("non-deterministic decode")
		}
		return g
	}
	var is []string
	var err error
	for _, lv := range levels {
		g := redo()
		p, over, dt, da := measured(n, func() { err = g.Info(io.Discard, lv, "", "  ") })
		note(n, dt, da)
		is = append(is, cls(p, over, err))
	}
	res := "|i=" + strings.Join(is, ",")
	for _, mode := range []mp4.EncFragFileMode{mp4.EncModeSegment, mp4.EncModeBoxTree} {
		g := redo()
		g.FragEncMode = mode
		p, over, dt, da := measured(n, func() { err = g.Encode(io.Discard) })
		note(n, dt, da)
		w := cls(p, over, err)
		g = redo()
		g.FragEncMode = mode
		p, over, dt, da = measured(n, func() {
			sw := bits.NewFixedSliceWriter(2*n + 4096)
			err = g.EncodeSW(sw)
		})
		note(n, dt, da)
		res += fmt.Sprintf("|e%d=%s,%s", mode, w, cls(p, over, err))
	}
	return res
}

// corrXref emits the X cases
func corrXref(r *hx.Rng, nRandom int) {
	cases := genXCases(r, nRandom)
	var jobs []job
	type meta struct{ cfg, moov, trafs string; ms int }
	var metas []meta
	for i, c := range cases {
		data, ms := c.render()
		moov, trafs := c.modelStrings()
		cfgs := []string{"RN0", "SN0", xCfgs[2+i%4]}
		for _, cfg := range cfgs {
			jobs = append(jobs, job{kind: "Y", cfg: cfg, data: data})
			metas = append(metas, meta{cfg, moov, trafs, ms})
		}
	}
	res := runJobs(jobs, nprocs())
	for i, m := range metas {
		full := projectResult(res[i])
		// the model predicts the decode class and the senc states; Info / encoders are checked by the property only
		obs := full
		if k := strings.Index(obs, "|i="); k >= 0 {
			obs = obs[:k]
		}
		fmt.Fprintf(out, "X\tx%d\t%s\t%s\t%d\t%s\t%s\n", i, m.cfg, m.moov, m.ms, m.trafs, obs)
		for _, f := range failuresOf(res[i]) {
			fmt.Fprintln(out, failLine(f, "cfg:"+m.cfg+" hex:"+hx.Hex(jobs[i].data), "synthesized encrypted fragment (cross references)"))
		}
	}
}

// ---------------------------------------------------------------- search: reference fields of real files
type refField struct {
	off, width int
	n          int // length of the referenced table
	what       string
}

func be(d []byte, off, width int) uint64 {
	var v uint64
	for i := 0; i < width; i++ {
		v = v<<8 | uint64(d[off+i])
	}
	return v
}

func putBE(d []byte, off, width int, v uint64) {
	for i := width - 1; i >= 0; i-- {
		d[off+i] = byte(v)
		v >>= 8
	}
}

// entry counts of the tables other fields refer to, per file
type refCtx struct {
	nTraks, nStsd, nSgpdMoov, nSgpdTraf, nSamples, nChunks, nTopBoxes int
}

func countCtx(data []byte, boxes []rawBox) refCtx {
	var c refCtx
	for _, b := range boxes {
		p := b.off + b.hdr
		switch b.name {
		case "trak":
			c.nTraks++
		case "stsd":
			if c.nStsd == 0 && p+8 <= b.off+b.size {
				c.nStsd = int(binary.BigEndian.Uint32(data[p+4:]))
			}
		case "sgpd":
			if p+12 <= b.off+b.size {
				ver := data[p]
				o := p + 8
				if ver >= 1 {
					o += 4
				}
				if ver >= 2 {
					o += 4
				}
				if o+4 <= b.off+b.size {
					n := int(binary.BigEndian.Uint32(data[o:]))
					inTraf := false
					for _, pp := range b.parents {
						if string(data[pp+4:pp+8]) == "traf" {
							inTraf = true
						}
					}
					if inTraf {
						c.nSgpdTraf = n
					} else {
						c.nSgpdMoov = n
					}
				}
			}
		case "stsz":
			if p+12 <= b.off+b.size && c.nSamples == 0 {
				c.nSamples = int(binary.BigEndian.Uint32(data[p+8:]))
			}
		case "trun":
			if p+8 <= b.off+b.size && c.nSamples == 0 {
				c.nSamples = int(binary.BigEndian.Uint32(data[p+4:]))
			}
		case "stco", "co64":
			if p+8 <= b.off+b.size && c.nChunks == 0 {
				c.nChunks = int(binary.BigEndian.Uint32(data[p+4:]))
			}
		}
		if b.depth == 0 {
			c.nTopBoxes++
		}
	}
	return c
}

// refFieldsOf: the index / reference / cross-checked count fields of one box (offsets absolute in data)
func refFieldsOf(data []byte, b rawBox, c refCtx) []refField {
	var out []refField
	p := b.off + b.hdr
	end := b.off + b.size
	add := func(off, width, n int, what string) {
		if off >= p && off+width <= end {
			out = append(out, refField{off, width, n, b.name + "." + what})
		}
	}
	if p+4 > end {
		return nil
	}
	ver := data[p]
	flags := int(be(data, p+1, 3))
	cnt := func(off int) int {
		if off+4 <= end {
			n := int(binary.BigEndian.Uint32(data[off:]))
			if n > 64 {
				n = 64
			}
			return n
		}
		return 0
	}
	maxE := 3 // entries patched per table: first, second, last
	ents := func(n int) []int {
		if n <= maxE {
			r := make([]int, n)
			for i := range r {
				r[i] = i
			}
			return r
		}
		return []int{0, 1, n - 1}
	}
	switch b.name {
	case "sbgp":
		o := p + 8
		if ver == 1 {
			o += 4
		}
		n := cnt(o)
		sg := c.nSgpdMoov
		for _, pp := range b.parents {
			if string(data[pp+4:pp+8]) == "traf" {
				sg = c.nSgpdTraf
			}
		}
		add(o, 4, n, "entry_count")
		for _, i := range ents(n) {
			add(o+4+8*i, 4, c.nSamples, "sample_count")
			add(o+8+8*i, 4, sg, "group_description_index")
		}
	case "sgpd":
		o := p + 8
		if ver >= 1 {
			add(o, 4, 20, "default_length")
			o += 4
		}
		if ver >= 2 {
			add(o, 4, c.nSgpdTraf+c.nSgpdMoov, "default_group_description_index")
			o += 4
		}
		add(o, 4, cnt(o), "entry_count")
	case "stsc":
		n := cnt(p + 4)
		for _, i := range ents(n) {
			add(p+8+12*i, 4, c.nChunks, "first_chunk")
			add(p+12+12*i, 4, c.nSamples, "samples_per_chunk")
			add(p+16+12*i, 4, c.nStsd, "sample_description_index")
		}
	case "tfhd":
		add(p+4, 4, c.nTraks, "track_ID")
		o := p + 8
		if flags&1 != 0 {
			add(o, 8, len(data), "base_data_offset")
			o += 8
		}
		if flags&2 != 0 {
			add(o, 4, c.nStsd, "sample_description_index")
		}
	case "trex":
		add(p+4, 4, c.nTraks, "track_ID")
		add(p+8, 4, c.nStsd, "default_sample_description_index")
	case "tkhd":
		o := p + 12
		if ver == 1 {
			o = p + 20
		}
		add(o, 4, c.nTraks, "track_ID")
	case "mvhd":
		o := p + 4 + 96 - 4
		if ver == 1 {
			o = p + 4 + 108 - 4
		}
		add(o, 4, c.nTraks, "next_track_ID")
	case "saio":
		o := p + 4
		if flags&1 != 0 {
			o += 8
		}
		n := cnt(o)
		add(o, 4, n, "entry_count")
		w := 4
		if ver == 1 {
			w = 8
		}
		for _, i := range ents(n) {
			add(o+4+w*i, w, len(data), "offset")
		}
	case "saiz":
		o := p + 4
		if flags&1 != 0 {
			o += 8
		}
		add(o, 1, 16, "default_sample_info_size")
		add(o+1, 4, c.nSamples, "sample_count")
	case "senc":
		add(p+4, 4, c.nSamples, "sample_count")
		// the sub-sample count of the first samples for IV sizes 0 / 8 / 16
		if flags&2 != 0 {
			for _, iv := range []int{0, 8, 16} {
				add(p+8+iv, 2, 1, fmt.Sprintf("subsample_count(iv%d)", iv))
			}
		}
	case "trun":
		add(p+4, 4, c.nSamples, "sample_count")
		if flags&1 != 0 {
			add(p+8, 4, len(data), "data_offset")
		}
	case "stsz":
		add(p+8, 4, c.nSamples, "sample_count")
	case "stz2":
		add(p+8, 4, c.nSamples, "sample_count")
	case "stts", "ctts":
		n := cnt(p + 4)
		add(p+4, 4, n, "entry_count")
		for _, i := range ents(n) {
			add(p+8+8*i, 4, c.nSamples, "sample_count")
		}
	case "stss":
		n := cnt(p + 4)
		for _, i := range ents(n) {
			add(p+8+4*i, 4, c.nSamples, "sample_number")
		}
	case "stco":
		n := cnt(p + 4)
		add(p+4, 4, n, "entry_count")
		for _, i := range ents(n) {
			add(p+8+4*i, 4, len(data), "chunk_offset")
		}
	case "co64":
		n := cnt(p + 4)
		for _, i := range ents(n) {
			add(p+8+8*i, 8, len(data), "chunk_offset")
		}
	case "dref", "stsd":
		add(p+4, 4, cnt(p+4), "entry_count")
	case "url ", "urn ":
		add(p+1, 3, 1, "flags(self-contained)")
	case "hint", "cdsc", "font", "hind", "vdep", "vplx", "subt", "sync", "chap", "tmcd":
		// tref children: track ids (no version / flags)
		for i := 0; p+4*i+4 <= end && i < 3; i++ {
			add(p+4*i, 4, c.nTraks, "track_ID")
		}
	case "sidx":
		add(p+4, 4, c.nTraks, "reference_ID")
		o := p + 12
		if ver == 0 {
			add(o+4, 4, len(data), "first_offset")
			o += 8
		} else {
			add(o+8, 8, len(data), "first_offset")
			o += 16
		}
		n := 0
		if o+4 <= end {
			n = int(binary.BigEndian.Uint16(data[o+2:]))
		}
		add(o+2, 2, n, "reference_count")
		for _, i := range ents(minInt(n, 64)) {
			add(o+4+12*i, 4, len(data), "referenced_size")
		}
	case "prft":
		add(p+4, 4, c.nTraks, "reference_track_ID")
	case "emsg":
		if ver == 1 {
			add(p+4, 4, 1000, "timescale")
			add(p+16, 4, 1000, "event_duration")
		}
	case "hdlr":
		add(p+8, 4, 0, "handler_type")
	case "mfhd":
		add(p+4, 4, c.nTopBoxes, "sequence_number")
	case "elst":
		n := cnt(p + 4)
		add(p+4, 4, n, "entry_count")
	case "tfra":
		add(p+4, 4, c.nTraks, "track_ID")
		add(p+8, 4, 0x3f, "length_sizes")
		n := cnt(p + 12)
		add(p+12, 4, n, "number_of_entry")
		w := 4
		if ver == 1 {
			w = 8
		}
		for _, i := range ents(n) {
			es := 2*w + 3 + int(data[p+11]>>4&3) + int(data[p+11]>>2&3) + int(data[p+11]&3)
			add(p+16+es*i+w, w, len(data), "moof_offset")
		}
	case "mfro":
		add(p+4, 4, len(data), "parent_size")
	case "subs":
		n := cnt(p + 4)
		add(p+4, 4, n, "entry_count")
		add(p+8, 4, c.nSamples, "sample_delta")
		add(p+12, 2, 1, "subsample_count")
	case "stsh":
		n := cnt(p + 4)
		for _, i := range ents(n) {
			add(p+8+8*i, 4, c.nSamples, "shadowed_sample_number")
			add(p+12+8*i, 4, c.nSamples, "sync_sample_number")
		}
	case "sdtp":
	case "trep", "leva":
		add(p+4, 4, c.nTraks, "track_ID")
	case "iref", "iloc", "pitm", "ipma":
		add(p+4, 2, 1, "item")
	}
	return out
}

var handlerTypes = []string{"vide", "soun", "subt", "text", "meta", "hint", "\x00\x00\x00\x00", "sbtl", "clcp", "mdir"}

// xrefMutants: every reference field of data x xrefValues
func xrefMutants(name string, data []byte, emit func(desc string, gen func() []byte)) {
	var boxes []rawBox
	walkRaw(data, 0, len(data), 0, nil, &boxes)
	ctx := countCtx(data, boxes)
	for _, b := range boxes {
		for _, f := range refFieldsOf(data, b, ctx) {
			f := f
			if f.what == "hdlr.handler_type" {
				for _, h := range handlerTypes {
					h := h
					emit(fmt.Sprintf("%s:xref(%s@%d)=%x", name, f.what, f.off, h), func() []byte {
						c := append([]byte(nil), data...)
						copy(c[f.off:], h)
						return c
					})
				}
				continue
			}
			old := be(data, f.off, f.width)
			vals := map[uint64]bool{}
			for _, v := range xrefValues(f.n) {
				vals[uint64(v)] = true
			}
			for _, v := range []uint64{old + 1, old - 1, old + 65536, 1 << 32, 1<<63 - 1, 1 << 63, 0xffffffffffffffff} {
				vals[v] = true
			}
			var vs []uint64
			for v := range vals {
				if f.width < 8 {
					v &= 1<<(8*uint(f.width)) - 1
				}
				if v != old {
					vs = append(vs, v)
				}
			}
			sort.Slice(vs, func(i, j int) bool { return vs[i] < vs[j] })
			last := uint64(1) << 63
			for _, v := range vs {
				if v == last {
					continue
				}
				last = v
				v := v
				emit(fmt.Sprintf("%s:xref(%s@%d)=%d", name, f.what, f.off, v), func() []byte {
					c := append([]byte(nil), data...)
					putBE(c, f.off, f.width, v)
					return c
				})
			}
		}
	}
}

// xrefFiles: the real files decoded as files (init + fragment pairs give the second pass its moov context)
func xrefFiles() (names []string, datas [][]byte) {
	addf := func(n string, d []byte) {
		names = append(names, n)
		datas = append(datas, d)
	}
	for _, fn := range testdataFiles() {
		d := mustRead(fn)
		if len(d) > 400000 {
			// large progressive files: keep everything but the media data
			var keep []byte
			for _, b := range rawTop(d) {
				if string(b[4:8]) == "mdat" && len(b) > 4096 {
					keep = cat(keep, mdat(16))
				} else {
					keep = cat(keep, b)
				}
			}
			d = keep
		}
		addf(fn, d)
	}
	pair := func(a, b string) {
		addf(a+"+"+b, cat(mustRead(a), mustRead(b)))
	}
	// reference boxes that no testdata file carries: tref (cdsc / hint track ids), co64, stsh, subs in stbl and in traf,
	// prft and emsg before the moof, tfhd with base_data_offset and sample_description_index
	{
		p := getParts()
		tref := box("tref", box("cdsc", u32(1), u32(2)), box("hint", u32(1)))
		stblExtra := cat(fullbox("co64", 0, 0, u32(1), u64(40)), fullbox("stsh", 0, 0, u32(1), u32(1), u32(1)),
			fullbox("subs", 0, 0, u32(1), u32(1), u16(1), u16(10), []byte{1, 0}, u32(0)))
		moov := fullMoov(p.mvex, tref, stblExtra)
		tf := fullbox("tfhd", 0, 0x000003, u32(1), u64(0), u32(1))
		subsT := fullbox("subs", 1, 0, u32(1), u32(1), u16(2), u32(10), []byte{1, 0}, u32(0), u32(12), []byte{0, 1}, u32(0))
		moof := box("moof", mfhd(1), box("traf", tf, tfdt(0), trun(true, 100), subsT))
		prft := fullbox("prft", 0, 0, u32(1), u64(0x83aa7e8000000000), u32(0))
		addf("synthetic-refs", cat(p.ftyp, moov, styp(), prft, emsg(), moof, mdat(8)))
	}
	pair("init_cenc.cmfv", "moof_enc.m4s")
	pair("init.mp4", "1.m4s")
	pair("aac_init.mp4", "aac_1.m4s")
	pair("hvc1_init.mp4", "hvc1_seg_1.m4s")
	pair("init.mp4", "moof_enc.m4s")
	return
}

func searchXref(r *hx.Rng, n int, jobs *[]job, descs *[]string) {
	// the unmutated files must decode (a synthesized file that is rejected as a whole would exercise nothing)
	{
		names, datas := xrefFiles()
		for i, name := range names {
			if strings.HasPrefix(name, "synthetic") {
				if _, err := decodeFile(datas[i], decCfg{}); err != nil {
					panic("xref: " + name + " does not decode: " + err.Error())
				}
			}
		}
	}
	// the synthesized encrypted fragments under every configuration
	for i, c := range genXCases(r, n/200) {
		data, _ := c.render()
		for _, cfg := range []string{"RN0", "SN0", xCfgs[2+i%4]} {
			*jobs = append(*jobs, job{kind: "Y", cfg: cfg, data: data})
			*descs = append(*descs, fmt.Sprintf("xref-synth#%d cfg=%s", i, cfg))
		}
	}
	names, datas := xrefFiles()
	k := 0
	fieldHits := map[string]int{}
	defer func() {
		var ks []string
		for w := range fieldHits {
			ks = append(ks, w)
		}
		sort.Strings(ks)
		var parts []string
		for _, w := range ks {
			parts = append(parts, fmt.Sprintf("%s=%d", w, fieldHits[w]))
		}
		fmt.Fprintf(out, "XREF_FIELDS\t%s\n", strings.Join(parts, ","))
	}()
	for i, name := range names {
		data := datas[i]
		var ms []mutant
		xrefMutants(name, data, func(desc string, gen func() []byte) { ms = append(ms, mutant{desc, gen}) })
		budget := n / 25
		if budget < 60 {
			budget = 60
		}
		// deterministic subsample: the index fields into sgpd / stsd / trak tables always, the rest by stride
		var prio, rest []mutant
		for _, m := range ms {
			if strings.Contains(m.desc, "_index)") || strings.Contains(m.desc, "track_ID)") {
				prio = append(prio, m)
			} else {
				rest = append(rest, m)
			}
		}
		step := 1
		if len(rest) > budget {
			step = (len(rest) + budget - 1) / budget
		}
		start := 0
		if step > 1 {
			start = r.Intn(step)
		}
		for j := start; j < len(rest); j += step {
			prio = append(prio, rest[j])
		}
		for _, m := range prio {
			if a := strings.Index(m.desc, ":xref("); a >= 0 {
				w := m.desc[a+6:]
				if b := strings.Index(w, "@"); b >= 0 {
					fieldHits[w[:b]]++
				}
			}
			// both paths alternate under the default options, plus one rotating other configuration
			for _, cfg := range []string{xCfgs[k%2], xCfgs[2+k%4]} {
				*jobs = append(*jobs, job{kind: "Y", cfg: cfg, gen: m.gen})
				*descs = append(*descs, m.desc+" cfg="+cfg)
			}
			k++
		}
	}
}
