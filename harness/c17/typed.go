// Typed SEI messages (time code, AVC picture timing, mastering display, content light level)
// and pass-through decoders: case generation for the correspondence and the round-trip search.
package main

import (
	"bytes"
	"fmt"
	"strings"

	"github.com/Eyevinn/mp4ff/avc"
	"github.com/Eyevinn/mp4ff/hevc"
	"github.com/Eyevinn/mp4ff/sei"
	"verifharness/hx"
)

func b01(b bool) string {
	if b {
		return "1"
	}
	return "0"
}

func hu(v uint64) string { return hx.HexU(v) }

// ---------------------------------------------------------------- encodings of values
func clockString(c sei.ClockTS) string {
	return strings.Join([]string{b01(c.ClockTimeStampFlag), b01(c.UnitsFieldBasedFlag), hu(uint64(c.CountingType)),
		b01(c.FullTimeStampFlag), b01(c.DiscontinuityFlag), b01(c.CntDroppedFlag), hu(uint64(c.NFrames)),
		b01(c.SecondsFlag), hu(uint64(c.Seconds)), b01(c.MinutesFlag), hu(uint64(c.Minutes)),
		b01(c.HoursFlag), hu(uint64(c.Hours)), hu(uint64(c.TimeOffsetLength)), hu(uint64(c.TimeOffsetValue))}, ",")
}

func clocksString(cs []sei.ClockTS) string {
	if len(cs) == 0 {
		return "-"
	}
	ss := make([]string, len(cs))
	for i, c := range cs {
		ss[i] = clockString(c)
	}
	return strings.Join(ss, "|")
}

func clockAvcString(c sei.ClockTSAvc) string {
	return strings.Join([]string{b01(c.ClockTimeStampFlag), hu(uint64(c.CtType)), b01(c.NuitFieldBasedFlag),
		hu(uint64(c.CountingType)), b01(c.FullTimeStampFlag), b01(c.DiscontinuityFlag), b01(c.CntDroppedFlag),
		hu(uint64(c.NFrames)), b01(c.SecondsFlag), hu(uint64(c.Seconds)), b01(c.MinutesFlag), hu(uint64(c.Minutes)),
		b01(c.HoursFlag), hu(uint64(c.Hours)), hu(uint64(c.TimeOffsetLength)), hx.HexI(int64(c.TimeOffsetValue))}, ",")
}

func clocksAvcString(cs []sei.ClockTSAvc) string {
	if len(cs) == 0 {
		return "-"
	}
	ss := make([]string, len(cs))
	for i, c := range cs {
		ss[i] = clockAvcString(c)
	}
	return strings.Join(ss, "|")
}

func hrdString(h *sei.CbpDbpDelay) string {
	if h == nil {
		return "-"
	}
	return strings.Join([]string{hu(uint64(h.CpbRemovalDelay)), hu(uint64(h.DpbOutputDelay)),
		hu(uint64(h.InitialCpbRemovalDelayLengthMinus1)), hu(uint64(h.CpbRemovalDelayLengthMinus1)),
		hu(uint64(h.DpbOutputDelayLengthMinus1))}, ",")
}

func ptString(m *sei.PicTimingAvcSEI) string {
	return hrdString(m.CbpDbpDelay) + ";" + hu(uint64(m.TimeOffsetLength)) + ";" + hu(uint64(m.PictStruct)) + ";" + clocksAvcString(m.Clocks)
}

func mdcvString(m *sei.MasteringDisplayColourVolumeSEI) string {
	return strings.Join([]string{hu(uint64(m.DisplayPrimariesX[0])), hu(uint64(m.DisplayPrimariesY[0])),
		hu(uint64(m.DisplayPrimariesX[1])), hu(uint64(m.DisplayPrimariesY[1])),
		hu(uint64(m.DisplayPrimariesX[2])), hu(uint64(m.DisplayPrimariesY[2])),
		hu(uint64(m.WhitePointX)), hu(uint64(m.WhitePointY)),
		hu(uint64(m.MaxDisplayMasteringLuminance)), hu(uint64(m.MinDisplayMasteringLuminance))}, ",")
}

// ---------------------------------------------------------------- generators
func pickU(r *hx.Rng, max uint64) uint64 {
	switch r.Intn(5) {
	case 0:
		return 0
	case 1:
		return max
	case 2:
		return 1 % (max + 1)
	}
	return r.U64() % (max + 1)
}

// hms fills the hh:mm:ss part. canonical: absent fields zero, present ones within their width.
func genHMS(r *hx.Rng, canonical bool) (full, sf, mf, hf bool, s, m, h byte) {
	full = r.Intn(3) == 0
	if full {
		s, m, h = byte(pickU(r, 63)), byte(pickU(r, 63)), byte(pickU(r, 31))
	} else {
		sf = r.Intn(4) != 0
		if sf {
			s = byte(pickU(r, 63))
			mf = r.Intn(4) != 0
			if mf {
				m = byte(pickU(r, 63))
				hf = r.Intn(3) != 0
				if hf {
					h = byte(pickU(r, 31))
				}
			}
		}
	}
	if !canonical {
		switch r.Intn(4) {
		case 0:
			s, m, h = byte(r.U64()), byte(r.U64()), byte(r.U64())
		case 1:
			sf, mf, hf = r.Bool(), r.Bool(), r.Bool()
		case 2:
			h = byte(pickU(r, 255))
		}
	}
	return
}

func genClock(r *hx.Rng, canonical bool) sei.ClockTS {
	c := sei.ClockTS{}
	c.ClockTimeStampFlag = r.Intn(5) != 0
	if c.ClockTimeStampFlag {
		c.UnitsFieldBasedFlag = r.Bool()
		c.CountingType = byte(pickU(r, 31))
		c.DiscontinuityFlag = r.Bool()
		c.CntDroppedFlag = r.Bool()
		c.NFrames = uint16(pickU(r, 511))
		c.FullTimeStampFlag, c.SecondsFlag, c.MinutesFlag, c.HoursFlag, c.Seconds, c.Minutes, c.Hours = genHMS(r, canonical)
		c.TimeOffsetLength = byte(pickU(r, 31))
		if c.TimeOffsetLength > 0 {
			c.TimeOffsetValue = uint32(pickU(r, (uint64(1)<<c.TimeOffsetLength)-1))
		}
	}
	if !canonical {
		switch r.Intn(5) {
		case 0:
			c.NFrames = uint16(r.U64())
		case 1:
			c.CountingType = byte(r.U64())
		case 2:
			c.TimeOffsetValue = uint32(r.U64())
		case 3:
			c.Seconds, c.UnitsFieldBasedFlag, c.TimeOffsetLength = byte(r.U64()), r.Bool(), byte(r.Intn(57))
		}
	}
	return c
}

func genTimeCode(r *hx.Rng, canonical bool) *sei.TimeCodeSEI {
	n := r.Intn(4)
	if !canonical && r.Intn(4) == 0 {
		n = r.Range(4, 6)
	}
	tc := &sei.TimeCodeSEI{}
	for i := 0; i < n; i++ {
		tc.Clocks = append(tc.Clocks, genClock(r, canonical))
	}
	return tc
}

func genClockAvc(r *hx.Rng, tolen byte, canonical bool) sei.ClockTSAvc {
	c := sei.ClockTSAvc{TimeOffsetLength: tolen}
	c.ClockTimeStampFlag = r.Intn(5) != 0
	if c.ClockTimeStampFlag {
		c.CtType = byte(pickU(r, 3))
		c.NuitFieldBasedFlag = r.Bool()
		c.CountingType = byte(pickU(r, 31))
		c.DiscontinuityFlag = r.Bool()
		c.CntDroppedFlag = r.Bool()
		c.NFrames = byte(pickU(r, 255))
		c.FullTimeStampFlag, c.SecondsFlag, c.MinutesFlag, c.HoursFlag, c.Seconds, c.Minutes, c.Hours = genHMS(r, canonical)
		if tolen > 0 {
			lo := -(int64(1) << (tolen - 1))
			hi := (int64(1) << (tolen - 1)) - 1
			switch r.Intn(5) {
			case 0:
				c.TimeOffsetValue = int(lo)
			case 1:
				c.TimeOffsetValue = int(hi)
			case 2:
				c.TimeOffsetValue = -1
			case 3:
				c.TimeOffsetValue = 0
			default:
				c.TimeOffsetValue = int(lo + int64(r.U64()%uint64(hi-lo+1)))
			}
		}
	}
	if !canonical {
		switch r.Intn(5) {
		case 0:
			c.TimeOffsetValue = int(int64(r.U64()))
		case 1:
			c.CountingType, c.CtType = byte(r.U64()), byte(r.U64())
		case 2:
			c.TimeOffsetLength = byte(r.Intn(57))
		case 3:
			c.Seconds, c.NuitFieldBasedFlag = byte(r.U64()), r.Bool()
		}
	}
	return c
}

func numClockTS(pict uint8) int {
	switch {
	case pict <= 2:
		return 1
	case pict <= 4:
		return 2
	case pict <= 8:
		return 3
	}
	return -1
}

func genPicTiming(r *hx.Rng, canonical bool, withHrd bool, tolen byte) *sei.PicTimingAvcSEI {
	m := &sei.PicTimingAvcSEI{TimeOffsetLength: tolen, PictStruct: uint8(r.Intn(9))}
	if withHrd {
		h := &sei.CbpDbpDelay{InitialCpbRemovalDelayLengthMinus1: byte(r.Intn(32)),
			CpbRemovalDelayLengthMinus1: byte(pickU(r, 31)), DpbOutputDelayLengthMinus1: byte(pickU(r, 31))}
		h.CpbRemovalDelay = uint(pickU(r, (uint64(1)<<(h.CpbRemovalDelayLengthMinus1+1))-1))
		h.DpbOutputDelay = uint(pickU(r, (uint64(1)<<(h.DpbOutputDelayLengthMinus1+1))-1))
		if !canonical && r.Intn(3) == 0 {
			h.CpbRemovalDelay = uint(r.U64())
		}
		m.CbpDbpDelay = h
	}
	n := numClockTS(m.PictStruct)
	if !canonical {
		switch r.Intn(4) {
		case 0:
			m.PictStruct = uint8(r.Intn(16))
			n = r.Intn(4)
		case 1:
			n = r.Intn(5)
		}
	}
	for i := 0; i < n; i++ {
		m.Clocks = append(m.Clocks, genClockAvc(r, tolen, canonical))
	}
	return m
}

func genMdcv(r *hx.Rng) *sei.MasteringDisplayColourVolumeSEI {
	m := &sei.MasteringDisplayColourVolumeSEI{}
	for i := 0; i < 3; i++ {
		m.DisplayPrimariesX[i] = uint16(pickU(r, 65535))
		m.DisplayPrimariesY[i] = uint16(pickU(r, 65535))
	}
	m.WhitePointX, m.WhitePointY = uint16(pickU(r, 65535)), uint16(pickU(r, 65535))
	m.MaxDisplayMasteringLuminance = uint32(pickU(r, 0xffffffff))
	m.MinDisplayMasteringLuminance = uint32(pickU(r, 0xffffffff))
	if r.Intn(3) == 0 { // bytes that need emulation prevention in the NAL unit
		m.DisplayPrimariesX[1], m.DisplayPrimariesY[1], m.MinDisplayMasteringLuminance = 0, uint16(r.Intn(4)), uint32(r.Intn(4))
	}
	return m
}

// ---------------------------------------------------------------- running the implementation
func tryPayload(m sei.SEIMessage) (size uint, pl []byte, class string) {
	p := hx.Try(func() { size = m.Size(); pl = m.Payload() })
	if p != "" {
		return 0, nil, "panic"
	}
	return size, pl, "ok"
}

func decClass(p string, err error) string {
	switch {
	case p != "":
		return "panic"
	case err != nil:
		return "err"
	}
	return "ok"
}

func decodeTC(pl []byte) (string, string, *sei.TimeCodeSEI) {
	var m sei.SEIMessage
	var err error
	p := hx.Try(func() { m, err = sei.DecodeTimeCodeSEI(sei.NewSEIData(sei.SEITimeCodeType, hx.Exact(pl))) })
	c := decClass(p, err)
	if c != "ok" {
		return c, "-", nil
	}
	tc := m.(*sei.TimeCodeSEI)
	return c, clocksString(tc.Clocks), tc
}

func decodePT(pl []byte, hrd *sei.CbpDbpDelay, tolen byte) (string, string, *sei.PicTimingAvcSEI) {
	var m sei.SEIMessage
	var err error
	var ext *sei.CbpDbpDelay
	if hrd != nil { // only the length fields are inputs of the decoder
		ext = &sei.CbpDbpDelay{InitialCpbRemovalDelayLengthMinus1: hrd.InitialCpbRemovalDelayLengthMinus1,
			CpbRemovalDelayLengthMinus1: hrd.CpbRemovalDelayLengthMinus1, DpbOutputDelayLengthMinus1: hrd.DpbOutputDelayLengthMinus1}
	}
	p := hx.Try(func() {
		m, err = sei.DecodePicTimingAvcSEIHRD(sei.NewSEIData(sei.SEIPicTimingType, hx.Exact(pl)), ext, tolen)
	})
	c := decClass(p, err)
	if c != "ok" {
		return c, "-", nil
	}
	pt := m.(*sei.PicTimingAvcSEI)
	return c, ptString(pt), pt
}

func decodeMdcv(pl []byte) (string, string, *sei.MasteringDisplayColourVolumeSEI) {
	var m sei.SEIMessage
	var err error
	p := hx.Try(func() {
		m, err = sei.DecodeMasteringDisplayColourVolumeSEI(sei.NewSEIData(sei.SEIMasteringDisplayColourVolumeType, hx.Exact(pl)))
	})
	c := decClass(p, err)
	if c != "ok" {
		return c, "-", nil
	}
	mm := m.(*sei.MasteringDisplayColourVolumeSEI)
	return c, mdcvString(mm), mm
}

func decodeCll(pl []byte) (string, string, *sei.ContentLightLevelInformationSEI) {
	var m sei.SEIMessage
	var err error
	p := hx.Try(func() {
		m, err = sei.DecodeContentLightLevelInformationSEI(sei.NewSEIData(sei.SEIContentLightLevelInformationType, hx.Exact(pl)))
	})
	c := decClass(p, err)
	if c != "ok" {
		return c, "-", nil
	}
	mm := m.(*sei.ContentLightLevelInformationSEI)
	return c, hu(uint64(mm.MaxContentLightLevel)) + "," + hu(uint64(mm.MaxPicAverageLightLevel)), mm
}

// pass-through decoders: class, kind, payload kept, size
func passString(m sei.SEIMessage) string {
	kind := "?"
	switch v := m.(type) {
	case *sei.RegisteredSEI:
		kind = "reg"
	case *sei.CEA608sei:
		kind = "608:" + hx.Hex(v.Field1) + ":" + hx.Hex(v.Field2)
	case *sei.UnregisteredSEI:
		kind = "unreg:" + hx.Hex(v.UUID)
	case *sei.PicTimingHevcSEI:
		kind = "pth"
	}
	return kind + "\t" + hx.Hex(m.Payload()) + "\t" + hu(uint64(m.Size()))
}

func decodePass(which string, pl []byte, par sei.HEVCPicTimingParams) (string, string, sei.SEIMessage) {
	var m sei.SEIMessage
	var err error
	p := hx.Try(func() {
		switch which {
		case "P4":
			m, err = sei.DecodeUserDataRegisteredSEI(sei.NewSEIData(4, hx.Exact(pl)))
		case "P5":
			m, err = sei.DecodeUserDataUnregisteredSEI(sei.NewSEIData(5, hx.Exact(pl)))
		case "P1H":
			m, err = sei.DecodePicTimingHevcSEI(sei.NewSEIData(1, hx.Exact(pl)), par)
		}
	})
	c := decClass(p, err)
	if c != "ok" {
		return c, "-\t-\t-", nil
	}
	return c, passString(m), m
}

func hevcParString(p sei.HEVCPicTimingParams) string {
	return strings.Join([]string{b01(p.FrameFieldInfoPresentFlag), b01(p.CpbDpbDelaysPresentFlag), b01(p.SubPicHrdParamsPresentFlag),
		b01(p.SubPicCpbParamsInPicTimingSeiFlag), hu(uint64(p.AuCbpRemovalDelayLengthMinus1)), hu(uint64(p.DpbOutputDelayLengthMinus1)),
		hu(uint64(p.DpbOutputDelayDuLengthMinus1)), hu(uint64(p.DuCpbRemovalDelayIncrementLengthMinus1))}, ",")
}

func genHevcPar(r *hx.Rng) sei.HEVCPicTimingParams {
	return sei.HEVCPicTimingParams{FrameFieldInfoPresentFlag: r.Bool(), CpbDpbDelaysPresentFlag: r.Bool(),
		SubPicHrdParamsPresentFlag: r.Intn(3) == 0, SubPicCpbParamsInPicTimingSeiFlag: r.Intn(3) == 0,
		AuCbpRemovalDelayLengthMinus1: uint8(r.Intn(32)), DpbOutputDelayLengthMinus1: uint8(r.Intn(32)),
		DpbOutputDelayDuLengthMinus1: uint8(r.Intn(32)), DuCpbRemovalDelayIncrementLengthMinus1: uint8(r.Intn(32))}
}

var cea608Header = []byte{0xb5, 0x00, 0x31, 0x47, 0x41, 0x39, 0x34, 0x03}

func genRegistered(r *hx.Rng) []byte {
	switch r.Intn(6) {
	case 0: // short
		return r.Bytes(r.Intn(9), nil)
	case 1: // other registered data
		return append(r.Bytes(8, nil), r.Bytes(r.Intn(12), escAlphabet)...)
	case 2: // header only / one byte more
		return append(append([]byte{}, cea608Header...), r.Bytes(r.Intn(2), nil)...)
	}
	// CEA-608: cc_count, reserved, triples, marker
	n := r.Intn(5)
	pl := append([]byte{}, cea608Header...)
	pl = append(pl, byte(0xc0|n), 0xff)
	k := n
	if r.Intn(4) == 0 && n > 0 {
		k = n - 1 // not enough data
	}
	for i := 0; i < k; i++ {
		pl = append(pl, byte(0xf8|r.Intn(8)), byte(r.Pick(0, 0x80, 0x94, int(byte(r.U64())))), byte(r.Pick(0, 0x80, 0x2c, int(byte(r.U64())))))
	}
	if r.Bool() {
		pl = append(pl, 0xff)
	}
	return pl
}

// ---------------------------------------------------------------- corr
func corrTyped(r *hx.Rng, id *int, n int) {
	for i := 0; i < n; i++ {
		tag := fmt.Sprintf("t%d", *id)
		*id++
		canonical := r.Intn(4) != 0
		switch i % 8 {
		case 0, 1:
			tc := genTimeCode(r, canonical)
			sz, pl, wc := tryPayload(tc)
			dc, ds, _ := decodeTC(pl)
			fmt.Fprintf(out, "T136\t%s\t%s\t%s\t%s\t%s\t%s\t%s\n", tag, clocksString(tc.Clocks), wc, hu(uint64(sz)), hx.Hex(pl), dc, ds)
		case 2, 3:
			tolen := byte(pickU(r, 31))
			pt := genPicTiming(r, canonical, r.Bool(), tolen)
			sz, pl, wc := tryPayload(pt)
			dc, ds, _ := decodePT(pl, pt.CbpDbpDelay, tolen)
			fmt.Fprintf(out, "T1\t%s\t%s\t%s\t%s\t%s\t%s\t%s\n", tag, ptString(pt), wc, hu(uint64(sz)), hx.Hex(pl), dc, ds)
		case 4:
			if r.Bool() {
				m := genMdcv(r)
				sz, pl, wc := tryPayload(m)
				dc, ds, _ := decodeMdcv(pl)
				fmt.Fprintf(out, "T137\t%s\t%s\t%s\t%s\t%s\t%s\t%s\n", tag, mdcvString(m), wc, hu(uint64(sz)), hx.Hex(pl), dc, ds)
			} else {
				m := &sei.ContentLightLevelInformationSEI{MaxContentLightLevel: uint16(pickU(r, 65535)), MaxPicAverageLightLevel: uint16(pickU(r, 65535))}
				sz, pl, wc := tryPayload(m)
				dc, ds, _ := decodeCll(pl)
				fmt.Fprintf(out, "T144\t%s\t%s,%s\t%s\t%s\t%s\t%s\t%s\n", tag, hu(uint64(m.MaxContentLightLevel)), hu(uint64(m.MaxPicAverageLightLevel)), wc, hu(uint64(sz)), hx.Hex(pl), dc, ds)
			}
		case 5: // decoders on arbitrary payloads
			pl := r.Bytes(r.Pick(0, 1, 2, 3, 4, 5, 8, 12, 23, 24, 25), nil)
			if r.Bool() {
				pl = r.Bytes(len(pl), []byte{0, 0xff, 0x80, 0x7f})
			}
			switch r.Intn(4) {
			case 0:
				dc, ds, _ := decodeTC(pl)
				fmt.Fprintf(out, "D136\t%s\t%s\t%s\t%s\n", tag, hx.Hex(pl), dc, ds)
			case 1:
				var h *sei.CbpDbpDelay
				if r.Bool() {
					h = &sei.CbpDbpDelay{InitialCpbRemovalDelayLengthMinus1: byte(r.Intn(32)), CpbRemovalDelayLengthMinus1: byte(r.Intn(32)), DpbOutputDelayLengthMinus1: byte(r.Intn(32))}
				}
				tolen := byte(r.Intn(32))
				dc, ds, _ := decodePT(pl, h, tolen)
				fmt.Fprintf(out, "D1\t%s\t%s\t%s\t%s\t%s\t%s\n", tag, hrdString(h), hu(uint64(tolen)), hx.Hex(pl), dc, ds)
			case 2:
				dc, ds, _ := decodeMdcv(pl)
				fmt.Fprintf(out, "D137\t%s\t%s\t%s\t%s\n", tag, hx.Hex(pl), dc, ds)
			case 3:
				dc, ds, _ := decodeCll(pl)
				fmt.Fprintf(out, "D144\t%s\t%s\t%s\t%s\n", tag, hx.Hex(pl), dc, ds)
			}
		case 6:
			if r.Bool() {
				pl := genRegistered(r)
				dc, ds, _ := decodePass("P4", pl, sei.HEVCPicTimingParams{})
				fmt.Fprintf(out, "P4\t%s\t%s\t%s\t%s\n", tag, hx.Hex(pl), dc, ds)
			} else {
				pl := r.Bytes(r.Pick(0, 1, 15, 16, 17, 20, 40), escAlphabet)
				dc, ds, _ := decodePass("P5", pl, sei.HEVCPicTimingParams{})
				fmt.Fprintf(out, "P5\t%s\t%s\t%s\t%s\n", tag, hx.Hex(pl), dc, ds)
			}
		case 7:
			par := genHevcPar(r)
			pl := r.Bytes(r.Intn(14), nil)
			if r.Intn(3) == 0 {
				pl = r.Bytes(len(pl), []byte{0, 0, 3, 1})
			}
			dc, ds, _ := decodePass("P1H", pl, par)
			fmt.Fprintf(out, "P1H\t%s\t%s\t%s\t%s\t%s\n", tag, hevcParString(par), hx.Hex(pl), dc, ds)
		}
	}
}

// ---------------------------------------------------------------- search
func clocksEqual(a, b []sei.ClockTS) bool {
	if len(a) != len(b) {
		return false
	}
	for i := range a {
		if a[i] != b[i] {
			return false
		}
	}
	return true
}

func ptEqual(a, b *sei.PicTimingAvcSEI) bool {
	if (a.CbpDbpDelay == nil) != (b.CbpDbpDelay == nil) || a.TimeOffsetLength != b.TimeOffsetLength ||
		a.PictStruct != b.PictStruct || len(a.Clocks) != len(b.Clocks) {
		return false
	}
	if a.CbpDbpDelay != nil && *a.CbpDbpDelay != *b.CbpDbpDelay {
		return false
	}
	for i := range a.Clocks {
		if a.Clocks[i] != b.Clocks[i] {
			return false
		}
	}
	return true
}

// checkTyped: decode(payload m) = m and Size() = len(Payload()) on the implementation
func checkTyped(r *hx.Rng, i int) {
	evals++
	switch i % 4 {
	case 0:
		tc := genTimeCode(r, true)
		w := clocksString(tc.Clocks)
		sz, pl, wc := tryPayload(tc)
		if wc != "ok" {
			fail("sei.TimeCodeSEI.Payload", "panic", w, "Payload() panics on a canonical time code")
			return
		}
		if sz != uint(len(pl)) {
			fail("sei.TimeCodeSEI.Size", "size-differs", w, fmt.Sprintf("Size()=%d but Payload() has %d bytes", sz, len(pl)))
		}
		dc, ds, got := decodeTC(pl)
		if dc != "ok" || !clocksEqual(got.Clocks, tc.Clocks) {
			fail("sei.DecodeTimeCodeSEI", "roundtrip-differs", w, "decode(payload m) = "+dc+" "+ds+" payload "+hx.Hex(pl))
		}
		hygPayload("136", pl, nil, 0, sei.HEVCPicTimingParams{})
		hygPayload("136", malformed(pl), nil, 0, sei.HEVCPicTimingParams{})
		// ANY value (C17_size_any_value): fields wider than their code, junk in absent fields, 4-6 clocks
		nc := genTimeCode(r, false)
		if sz, pl, wc := tryPayload(nc); wc != "ok" || sz != uint(len(pl)) {
			fail("sei.TimeCodeSEI.Size", "size-differs-any-value", clocksString(nc.Clocks), fmt.Sprintf("Size()=%d, Payload(): %s, %d bytes", sz, wc, len(pl)))
		}
	case 1:
		tolen := byte(pickU(r, 31))
		pt := genPicTiming(r, true, r.Bool(), tolen)
		w := ptString(pt)
		sz, pl, wc := tryPayload(pt)
		if wc != "ok" {
			fail("sei.PicTimingAvcSEI.Payload", "panic", w, "Payload() panics on a canonical picture timing")
			return
		}
		if sz != uint(len(pl)) {
			fail("sei.PicTimingAvcSEI.Size", "size-differs", w, fmt.Sprintf("Size()=%d but Payload() has %d bytes", sz, len(pl)))
		}
		dc, ds, got := decodePT(pl, pt.CbpDbpDelay, tolen)
		if dc != "ok" || !ptEqual(got, pt) {
			fail("sei.DecodePicTimingAvcSEIHRD", "roundtrip-differs", w, "decode(payload m) = "+dc+" "+ds+" payload "+hx.Hex(pl))
		}
		hygPayload("1", pl, pt.CbpDbpDelay, tolen, sei.HEVCPicTimingParams{})
		hygPayload("1", malformed(pl), pt.CbpDbpDelay, tolen, sei.HEVCPicTimingParams{})
		// ANY value (C17_size_any_value): any pict_struct / clock count, clocks with another time-offset length, wide delays
		nc := genPicTiming(r, false, r.Bool(), byte(pickU(r, 31)))
		if sz, pl, wc := tryPayload(nc); wc != "ok" || sz != uint(len(pl)) {
			fail("sei.PicTimingAvcSEI.Size", "size-differs-any-value", ptString(nc), fmt.Sprintf("Size()=%d, Payload(): %s, %d bytes", sz, wc, len(pl)))
		}
	case 2:
		m := genMdcv(r)
		sz, pl, wc := tryPayload(m)
		dc, ds, got := decodeMdcv(pl)
		if wc != "ok" || sz != uint(len(pl)) || dc != "ok" || *got != *m {
			fail("sei.MasteringDisplayColourVolumeSEI", "roundtrip-differs", mdcvString(m), "decode(payload m) = "+dc+" "+ds)
		}
		hygPayload("137", pl, nil, 0, sei.HEVCPicTimingParams{})
		hygPayload("137", malformed(pl), nil, 0, sei.HEVCPicTimingParams{})
		c := &sei.ContentLightLevelInformationSEI{MaxContentLightLevel: uint16(pickU(r, 65535)), MaxPicAverageLightLevel: uint16(pickU(r, 65535))}
		sz, pl, wc = tryPayload(c)
		dc, ds, gc := decodeCll(pl)
		if wc != "ok" || sz != uint(len(pl)) || dc != "ok" || *gc != *c {
			fail("sei.ContentLightLevelInformationSEI", "roundtrip-differs", ds, "decode(payload m) = "+dc+" "+ds)
		}
		hygPayload("144", pl, nil, 0, sei.HEVCPicTimingParams{})
		hygPayload("144", malformed(pl), nil, 0, sei.HEVCPicTimingParams{})
	case 3:
		// pass-through: whenever the decoder returns a message, Payload() is the input and Size() its length
		var pl []byte
		which := []string{"P4", "P5", "P1H"}[r.Intn(3)]
		par := sei.HEVCPicTimingParams{}
		switch which {
		case "P4":
			pl = genRegistered(r)
		case "P5":
			pl = r.Bytes(r.Pick(16, 17, 20, 40, 300), escAlphabet)
		case "P1H":
			par = genHevcPar(r)
			pl = r.Bytes(r.Range(1, 14), nil)
		}
		dc, _, m := decodePass(which, pl, par)
		if dc == "ok" && (!bytes.Equal(m.Payload(), pl) || m.Size() != uint(len(pl))) {
			fail("sei pass-through "+which, "payload-changed", hx.Hex(pl), "decoded message does not return its payload unchanged")
		}
		hygPayload(which, pl, nil, 0, par)
		hygPayload(which, malformed(pl), nil, 0, par)
	}
}

// checkTypedList: typed messages through WriteSEIMessages and the codec wrappers
func checkTypedList(r *hx.Rng) {
	evals++
	// HEVC: time code, mastering display, content light level, generic data
	var ms []sei.SEIMessage
	var desc []string
	k := r.Range(1, 4)
	for i := 0; i < k; i++ {
		switch r.Intn(4) {
		case 0:
			tc := genTimeCode(r, true)
			for len(tc.Clocks) == 0 { // String() of the wrapper's result is not called, but keep it sane
				tc = genTimeCode(r, true)
			}
			ms = append(ms, tc)
			desc = append(desc, "136:"+clocksString(tc.Clocks))
		case 1:
			m := genMdcv(r)
			ms = append(ms, m)
			desc = append(desc, "137:"+mdcvString(m))
		case 2:
			c := &sei.ContentLightLevelInformationSEI{MaxContentLightLevel: uint16(pickU(r, 65535)), MaxPicAverageLightLevel: uint16(pickU(r, 65535))}
			ms = append(ms, c)
			desc = append(desc, "144")
		case 3:
			d := sei.NewSEIData(uint(r.Pick(0, 6, 128, 255, 300)), genPayload(r, r.Intn(6)))
			ms = append(ms, d)
			desc = append(desc, "raw")
		}
	}
	w := strings.Join(desc, ";")
	var buf bytes.Buffer
	if err := sei.WriteSEIMessages(&buf, ms); err != nil {
		fail("sei.WriteSEIMessages", "write-fails", w, "error on typed messages")
		return
	}
	hygWrite(w, ms, nil)
	hygStream(buf.Bytes())
	nalu := append([]byte{0x4e, 0x01}, buf.Bytes()...)
	var got []sei.SEIMessage
	var err error
	p := hx.Try(func() { got, err = hevc.ParseSEINalu(hx.Exact(nalu), nil) })
	if p != "" || err != nil || len(got) != len(ms) {
		fail("hevc.ParseSEINalu", "typed-roundtrip-fails", w, fmt.Sprintf("ParseSEINalu(write typed msgs): %v %s on %s", err, p, hx.Hex(nalu)))
		return
	}
	for i := range ms {
		ok := got[i].Type() == ms[i].Type() && bytes.Equal(got[i].Payload(), ms[i].Payload()) && got[i].Size() == ms[i].Size()
		if tc, is := ms[i].(*sei.TimeCodeSEI); is {
			g, is2 := got[i].(*sei.TimeCodeSEI)
			ok = ok && is2 && clocksEqual(g.Clocks, tc.Clocks)
		}
		if !ok {
			fail("hevc.ParseSEINalu", "typed-roundtrip-differs", w, "message "+fmt.Sprint(i)+" differs after write/parse: "+hx.Hex(nalu))
		}
	}
	// AVC: picture timing without HRD (what ParseSEINalu decodes without an SPS) + generic data
	pt := genPicTiming(r, true, false, 0)
	am := []sei.SEIMessage{pt, sei.NewSEIData(uint(r.Pick(0, 6, 255)), genPayload(r, r.Intn(5)))}
	buf.Reset()
	_ = sei.WriteSEIMessages(&buf, am)
	nalu = append([]byte{0x06}, buf.Bytes()...)
	p = hx.Try(func() { got, err = avc.ParseSEINalu(hx.Exact(nalu), nil) })
	w = ptString(pt)
	if p != "" || err != nil || len(got) != 2 {
		fail("avc.ParseSEINalu", "typed-roundtrip-fails", w, fmt.Sprintf("ParseSEINalu(write typed msgs): %v %s on %s", err, p, hx.Hex(nalu)))
		return
	}
	g, is := got[0].(*sei.PicTimingAvcSEI)
	if !is || !ptEqual(g, pt) || !bytes.Equal(got[1].Payload(), am[1].Payload()) {
		fail("avc.ParseSEINalu", "typed-roundtrip-differs", w, "picture timing differs after write/parse: "+hx.Hex(nalu))
	}
}
