// Harness for C17 (SEI messages survive write/parse round trips).
//
//	c17 corr   -seed S -n N -nt T -nh H -exh L   : cases + implementation observables for the model diff
//	c17 search -seed S -n N -nt T -nh H -exh L   : evaluates the property itself on the implementation
//	(n: message lists, nt: typed message values, nh: typed message HISTORIES, see history.go)
package main

import (
	"bufio"
	"bytes"
	"errors"
	"flag"
	"fmt"
	"io"
	"os"
	"strings"

	"github.com/Eyevinn/mp4ff/avc"
	"github.com/Eyevinn/mp4ff/hevc"
	"github.com/Eyevinn/mp4ff/sei"
	"verifharness/hx"
)

var out = bufio.NewWriterSize(os.Stdout, 1<<20)

// rawMsg is an SEIMessage whose Size() is independent of its payload (the writer trusts Size()).
type rawMsg struct {
	t, sz uint
	pl    []byte
}

func (m *rawMsg) Type() uint      { return m.t }
func (m *rawMsg) Size() uint      { return m.sz }
func (m *rawMsg) String() string  { return "raw" }
func (m *rawMsg) Payload() []byte { return m.pl }

func msgsString(ms []*rawMsg) string {
	if len(ms) == 0 {
		return "-"
	}
	ss := make([]string, len(ms))
	for i, m := range ms {
		ss[i] = hx.HexU(uint64(m.t)) + ":" + hx.HexU(uint64(m.sz)) + ":" + hx.Hex(m.pl)
	}
	return strings.Join(ss, ";")
}

func writeMsgs(ms []*rawMsg) (b []byte, class string) {
	var buf bytes.Buffer
	l := make([]sei.SEIMessage, len(ms))
	for i, m := range ms {
		l[i] = m
	}
	var err error
	p := hx.Try(func() { err = sei.WriteSEIMessages(&buf, l) })
	switch {
	case p != "":
		return nil, "panic"
	case err != nil:
		return buf.Bytes(), "err"
	}
	return buf.Bytes(), "ok"
}

// extract runs ExtractSEIData; class ok | missing | err | panic, then the (type,payload) list
func extract(data []byte) (class string, list string, sds []sei.SEIData) {
	var err error
	p := hx.Try(func() { sds, err = sei.ExtractSEIData(bytes.NewReader(hx.Exact(data))) })
	switch {
	case p != "":
		return "panic", "-", nil
	case err != nil && errors.Is(err, sei.ErrRbspTrailingBitsMissing):
		class = "missing"
	case err != nil:
		return "err", "-", nil
	default:
		class = "ok"
	}
	if len(sds) == 0 {
		return class, "-", sds
	}
	ss := make([]string, len(sds))
	for i := range sds {
		ss[i] = hx.HexU(uint64(sds[i].Type())) + ":" + hx.Hex(sds[i].Payload())
	}
	return class, strings.Join(ss, ";"), sds
}

// quirkRS is an io.ReadSeeker that is NOT an io.ByteReader and uses the freedom the io.Reader contract leaves:
// mode 0 returns the last bytes together with io.EOF in the same call, mode 1 returns one byte per call, mode 2 at most
// half of what was asked for (at least one byte).
type quirkRS struct {
	data []byte
	pos  int64
	mode int
}

func (q *quirkRS) Read(p []byte) (int, error) {
	if len(p) == 0 {
		return 0, nil
	}
	if q.pos >= int64(len(q.data)) {
		return 0, io.EOF
	}
	n := len(p)
	switch q.mode {
	case 1:
		n = 1
	case 2:
		n = (n + 1) / 2
	}
	if rest := int(int64(len(q.data)) - q.pos); n > rest {
		n = rest
	}
	copy(p, q.data[q.pos:q.pos+int64(n)])
	q.pos += int64(n)
	if q.mode == 0 && q.pos == int64(len(q.data)) {
		return n, io.EOF
	}
	return n, nil
}

func (q *quirkRS) Seek(off int64, whence int) (int64, error) {
	var abs int64
	switch whence {
	case io.SeekStart:
		abs = off
	case io.SeekCurrent:
		abs = q.pos + off
	case io.SeekEnd:
		abs = int64(len(q.data)) + off
	}
	if abs < 0 {
		return 0, errors.New("negative position")
	}
	q.pos = abs
	return abs, nil
}

// extractQuirk: ExtractSEIData through the reader kinds of quirkRS; the outcome may not depend on the kind of reader.
func extractQuirk(data []byte, mode int) (class string, list string) {
	var err error
	var sds []sei.SEIData
	p := hx.Try(func() { sds, err = sei.ExtractSEIData(&quirkRS{data: hx.Exact(data), mode: mode}) })
	switch {
	case p != "":
		return "panic", "-"
	case err != nil && errors.Is(err, sei.ErrRbspTrailingBitsMissing):
		class = "missing"
	case err != nil:
		return "err", "-"
	default:
		class = "ok"
	}
	if len(sds) == 0 {
		return class, "-"
	}
	ss := make([]string, len(sds))
	for i := range sds {
		ss[i] = hx.HexU(uint64(sds[i].Type())) + ":" + hx.Hex(sds[i].Payload())
	}
	return class, strings.Join(ss, ";")
}

// ---------------------------------------------------------------- generators
var escAlphabet = []byte{0, 0, 1, 2, 3, 0x80, 0xff}
var typeSet = []int{0, 1, 3, 4, 5, 6, 128, 136, 137, 144, 254, 255, 256, 509, 510, 511, 765, 1000, 70000}
var sizeSet = []int{0, 0, 1, 1, 2, 3, 4, 16, 24}
var bigSizeSet = []int{254, 255, 256, 509, 510, 511, 765, 1000}

// payloads beyond the buffer sizes an implementation might read or grow in (4 KiB pages, 64 KiB): rare (about one
// message in 175); the extracted model's list functions are slow on them, so they stay rare and below 10 KiB
var hugeSizeSet = []int{4095, 4096, 4097, 5000}

// mostly small sizes; the 0xFF-run boundaries of the size code about one message in seven
func genSize(r *hx.Rng) int {
	switch r.Intn(14) {
	case 0, 1:
		if r.Intn(40) == 0 {
			return hugeSizeSet[r.Intn(len(hugeSizeSet))]
		}
		return bigSizeSet[r.Intn(len(bigSizeSet))]
	case 2, 3:
		return r.Intn(40)
	}
	return sizeSet[r.Intn(len(sizeSet))]
}

func genPayload(r *hx.Rng, n int) []byte {
	switch r.Intn(4) {
	case 0:
		return r.Bytes(n, nil)
	case 1:
		return r.Bytes(n, []byte{0}) // all zero
	default:
		return r.Bytes(n, escAlphabet)
	}
}

func genType(r *hx.Rng) uint {
	if r.Intn(8) == 0 {
		return uint(r.Intn(3000))
	}
	return uint(typeSet[r.Intn(len(typeSet))])
}

func genMsgs(r *hx.Rng, lo, hi int, consistent bool) []*rawMsg {
	k := r.Range(lo, hi)
	ms := make([]*rawMsg, k)
	for i := range ms {
		n := genSize(r)
		m := &rawMsg{t: genType(r), pl: genPayload(r, n)}
		m.sz = uint(n)
		if !consistent && r.Intn(2) == 0 {
			m.sz = uint(genSize(r))
		}
		ms[i] = m
	}
	return ms
}

// all byte strings over alpha with length <= maxLen
func allStrings(alpha []byte, maxLen int, f func([]byte)) {
	var rec func(cur []byte)
	rec = func(cur []byte) {
		f(cur)
		if len(cur) == maxLen {
			return
		}
		for _, a := range alpha {
			rec(append(cur, a))
		}
	}
	rec([]byte{})
}

func mutate(r *hx.Rng, b []byte) []byte {
	c := append([]byte{}, b...)
	switch r.Intn(6) {
	case 0: // truncate
		if len(c) > 0 {
			c = c[:r.Intn(len(c))]
		}
	case 1: // drop the trailing byte
		if len(c) > 0 {
			c = c[:len(c)-1]
		}
	case 2: // overwrite some bytes
		for i := 0; i < 1+r.Intn(3) && len(c) > 0; i++ {
			c[r.Intn(len(c))] = escAlphabet[r.Intn(len(escAlphabet))]
		}
	case 3: // append
		c = append(c, r.Bytes(r.Range(1, 4), escAlphabet)...)
	case 4: // insert
		if len(c) > 0 {
			p := r.Intn(len(c))
			c = append(c[:p], append(r.Bytes(r.Range(1, 3), escAlphabet), c[p:]...)...)
		}
	case 5: // zero tail
		c = append(c, make([]byte, r.Range(1, 3))...)
	}
	return c
}

// ---------------------------------------------------------------- corr
func emitL(id int, ms []*rawMsg) {
	b, wc := writeMsgs(ms)
	xc, xl, _ := extract(b)
	fmt.Fprintf(out, "L\tl%d\t%s\t%s\t%s\t%s\t%s\n", id, msgsString(ms), wc, hx.Hex(b), xc, xl)
}

func emitX(id int, data []byte) {
	xc, xl, _ := extract(data)
	fmt.Fprintf(out, "X\tx%d\t%s\t%s\t%s\n", id, hx.Hex(data), xc, xl)
}

func corr(seed uint64, n, nt, nh, nn, exh int) {
	id := 0
	// exhaustive small scope: one message, every payload over the escape alphabet up to exh bytes
	for _, t := range []uint{0, 3, 128, 255} {
		allStrings([]byte{0, 1, 3, 0x80, 0xff}, exh, func(p []byte) {
			emitL(id, []*rawMsg{{t: t, sz: uint(len(p)), pl: append([]byte{}, p...)}})
			id++
		})
	}
	// two messages, payloads up to 1 byte, boundary types
	for _, t1 := range []uint{0, 0x80, 254, 255, 256, 510} {
		for _, t2 := range []uint{0, 0x80, 255} {
			allStrings([]byte{0, 3, 0x80}, 1, func(p1 []byte) {
				p1 = append([]byte{}, p1...)
				allStrings([]byte{0, 3, 0x80}, 1, func(p2 []byte) {
					emitL(id, []*rawMsg{{t: t1, sz: uint(len(p1)), pl: p1}, {t: t2, sz: uint(len(p2)), pl: append([]byte{}, p2...)}})
					id++
				})
			})
		}
	}
	// every extractor input over the alphabet up to exh+1 bytes (mostly malformed)
	allStrings([]byte{0, 1, 3, 0x80, 0xff}, exh+1, func(p []byte) {
		emitX(id, p)
		id++
	})
	r := hx.NewRng(seed ^ 0xC17)
	for i := 0; i < n; i++ {
		switch {
		case i%5 == 4: // Size() != len(Payload()): the writer trusts Size()
			emitL(id, genMsgs(r, 0, 4, false))
		case i%5 == 3: // malformed extractor input
			b, _ := writeMsgs(genMsgs(r, 1, 4, true))
			if r.Intn(4) == 0 {
				b = r.Bytes(r.Range(0, 12), escAlphabet)
			} else {
				b = mutate(r, b)
			}
			emitX(id, b)
		default:
			emitL(id, genMsgs(r, 0, 6, true))
		}
		id++
	}
	corrTyped(hx.NewRng(seed^0x7C17), &id, nt)
	corrHistory(hx.NewRng(seed^0x417C17), &id, nh)
	corrNalu(hx.NewRng(seed^0x9A17C17), &id, nn)
}

// ---------------------------------------------------------------- search
var evals int

func fail(site, class, witness, desc string) {
	fmt.Fprintf(out, "FAIL\t%s\t%s\t%s\t%s\n", site, class, witness, desc)
}

// independent oracle for the written bytes: naive emulation prevention of the plain serialisation
func naiveFF(v uint) []byte {
	var b []byte
	for v >= 255 {
		b = append(b, 0xff)
		v -= 255
	}
	return append(b, byte(v))
}

func naiveEscape(in []byte) []byte {
	var o []byte
	z := 0
	for _, b := range in {
		if z == 2 && b <= 3 {
			o = append(o, 3)
			z = 0
		}
		o = append(o, b)
		if b == 0 {
			z++
		} else {
			z = 0
		}
	}
	return o
}

func hasForbidden(b []byte) bool {
	for i := 0; i+2 < len(b); i++ {
		if b[i] == 0 && b[i+1] == 0 && b[i+2] <= 2 {
			return true
		}
	}
	return false
}

func sameList(ms []*rawMsg, sds []sei.SEIData) bool {
	if len(ms) != len(sds) {
		return false
	}
	for i := range ms {
		if ms[i].t != sds[i].Type() || !bytes.Equal(ms[i].pl, sds[i].Payload()) || sds[i].Size() != uint(len(ms[i].pl)) {
			return false
		}
	}
	return true
}

func genericType(t uint) bool {
	switch t {
	case 1, 4, 5, 136, 137, 144:
		return false
	}
	return true
}

func checkList(ms []*rawMsg) {
	evals++
	l := make([]sei.SEIMessage, len(ms))
	var plain []byte
	for i, m := range ms {
		l[i] = sei.NewSEIData(m.t, m.pl)
		plain = append(plain, naiveFF(m.t)...)
		plain = append(plain, naiveFF(uint(len(m.pl)))...)
		plain = append(plain, m.pl...)
	}
	plain = append(plain, 0x80)
	var buf bytes.Buffer
	var err error
	p := hx.Try(func() { err = sei.WriteSEIMessages(&buf, l) })
	w := msgsString(ms)
	if p != "" || err != nil {
		fail("sei.WriteSEIMessages", "write-fails", w, "WriteSEIMessages panics or returns an error: "+p)
		return
	}
	b := buf.Bytes()
	if !bytes.Equal(b, naiveEscape(plain)) {
		fail("sei.WriteSEIMessages", "bytes", w, "written bytes differ from the emulation-prevented plain serialisation: "+hx.Hex(b))
	}
	if hasForbidden(b) {
		fail("sei.WriteSEIMessages", "forbidden-triple", w, "written NAL unit payload contains 00 00 0x (x<=2): "+hx.Hex(b))
	}
	xc, xl, sds := extract(b)
	if xc != "ok" {
		fail("sei.ExtractSEIData", "roundtrip-"+xc, w, "extract(write msgs) ends with "+xc+" on "+hx.Hex(b))
		return
	}
	if !sameList(ms, sds) {
		fail("sei.ExtractSEIData", "roundtrip-differs", w, "extract(write msgs) = "+xl)
		return
	}
	for mode := 0; mode < 3; mode++ {
		if qc, ql := extractQuirk(b, mode); qc != xc || ql != xl {
			fail("sei.ExtractSEIData", "depends-on-reader-kind", w, fmt.Sprintf("through a ReadSeeker of kind %d (0: last bytes together with EOF, 1: one byte per Read, 2: short reads) extract(write msgs) ends with %s %s, through bytes.Reader with %s on %s", mode, qc, ql, xc, hx.Hex(b)))
			return
		}
	}
	// cross-cutting oracles (hygiene.go): guard bytes, capacity, caller re-using its buffers, malformed input in between,
	// messages unchanged by writing
	hygStream(b)
	hygWrite(w, nil, ms)
	// the codec wrappers (generic message types only; the typed decoders are checked on their own)
	gen := true
	for _, m := range ms {
		gen = gen && genericType(m.t)
	}
	if !gen {
		return
	}
	for _, c := range []string{"avc", "hevc"} {
		var got []sei.SEIMessage
		var err error
		var nalu []byte
		p := hx.Try(func() {
			if c == "avc" {
				nalu = append([]byte{0x06}, b...)
				got, err = avc.ParseSEINalu(hx.Exact(nalu), nil)
			} else {
				nalu = append([]byte{0x4e, 0x01}, b...)
				got, err = hevc.ParseSEINalu(hx.Exact(nalu), nil)
			}
		})
		site := c + ".ParseSEINalu"
		if p != "" || err != nil {
			fail(site, "roundtrip-fails", w, fmt.Sprintf("ParseSEINalu(header + write msgs) fails: %v %s", err, p))
			continue
		}
		ok := len(got) == len(ms)
		for i := 0; ok && i < len(ms); i++ {
			ok = got[i].Type() == ms[i].t && bytes.Equal(got[i].Payload(), ms[i].pl) && got[i].Size() == uint(len(ms[i].pl))
		}
		if !ok {
			fail(site, "roundtrip-differs", w, "ParseSEINalu(header + write msgs) returns other messages")
		}
	}
}

func search(seed uint64, n, nt, nh, nn, exh int) {
	// small scope first (so that a failing input, if any, is reported with a minimal witness):
	// all pairs of messages over boundary types with payloads up to 2 bytes
	for _, t1 := range []uint{0, 3, 0x80, 255} {
		for _, t2 := range []uint{0, 1, 3, 0x80, 255} {
			allStrings([]byte{0, 3, 0x80}, 2, func(p1 []byte) {
				p1 = append([]byte{}, p1...)
				allStrings([]byte{0, 3, 0x80}, 2, func(p2 []byte) {
					checkList([]*rawMsg{{t: t1, pl: p1}, {t: t2, pl: append([]byte{}, p2...)}})
				})
			})
		}
	}
	for _, t := range []uint{0, 2, 0x80, 254, 255, 256} {
		allStrings([]byte{0, 1, 3, 0x80, 0xff}, exh, func(p []byte) {
			checkList([]*rawMsg{{t: t, pl: append([]byte{}, p...)}})
		})
	}
	r := hx.NewRng(seed ^ 0x5EA17)
	for i := 0; i < n; i++ {
		if i%3 == 1 {
			// an earlier, unrelated call whose io.Writer failed after k bytes must not influence this one (writer
			// objects recycled between calls, sticky error state ...): the list check below runs right after it
			faultyWrite(r, genMsgs(r, 1, 4, true))
		}
		checkList(genMsgs(r, 1, 6, true))
	}
	rt := hx.NewRng(seed ^ 0x7EA17)
	for i := 0; i < nt; i++ {
		checkTyped(rt, i)
		if i%4 == 0 {
			checkTypedList(rt)
		}
	}
	rh := hx.NewRng(seed ^ 0x4EA17)
	for i := 0; i < nh; i++ {
		checkHistory(rh, i)
	}
	rn := hx.NewRng(seed ^ 0x9EA17)
	for i := 0; i < nn; i++ {
		checkNalu(rn)
	}
	fmt.Fprintf(out, "EVALS\t%d\n", evals)
}

func main() {
	if len(os.Args) < 2 {
		fmt.Fprintln(os.Stderr, "usage: c17 corr|search -seed S -n N -exh L")
		os.Exit(2)
	}
	fs := flag.NewFlagSet(os.Args[1], flag.ExitOnError)
	seed := fs.Uint64("seed", 0, "")
	n := fs.Int("n", 1000, "")
	exh := fs.Int("exh", 3, "")
	nt := fs.Int("nt", 1000, "")
	nh := fs.Int("nh", 1000, "")
	nn := fs.Int("nn", 1000, "")
	_ = fs.Parse(os.Args[2:])
	defer out.Flush()
	switch os.Args[1] {
	case "corr":
		corr(*seed, *n, *nt, *nh, *nn, *exh)
	case "search":
		search(*seed, *n, *nt, *nh, *nn, *exh)
	default:
		fmt.Fprintln(os.Stderr, "unknown sub-command")
		out.Flush()
		os.Exit(2)
	}
}

// failAfter is an io.Writer that accepts k bytes and then fails.
type failAfter struct{ k int }

func (f *failAfter) Write(p []byte) (int, error) {
	if len(p) <= f.k {
		f.k -= len(p)
		return len(p), nil
	}
	n := f.k
	f.k = 0
	return n, fmt.Errorf("injected write fault")
}

// faultyWrite: WriteSEIMessages into a writer that fails early; the outcome must be an error (or a short success),
// never a panic - and, above all, the NEXT call must behave as if this one had never happened.
func faultyWrite(r *hx.Rng, ms []*rawMsg) {
	l := make([]sei.SEIMessage, len(ms))
	for i, m := range ms {
		l[i] = m
	}
	evals++
	if p := hx.Try(func() { _ = sei.WriteSEIMessages(&failAfter{k: r.Intn(6)}, l) }); p != "" {
		fail("sei.WriteSEIMessages", "panic-on-write-fault", msgsString(ms), "panic when the io.Writer fails: "+p)
	}
}
