// Typed SEI messages reached through a HISTORY: build | decode (direct decoder, DecodeSEIMessage,
// avc/hevc.ParseSEINalu) -> k steps (edit exported fields to other canonical values; copy the struct
// and edit the copy; call the serialiser, drop the result, edit; serialise + re-decode) -> Size() / Payload() / WriteSEIMessages -> decode.
// The observables of the final value are compared with the model computed from the FINAL exported
// field values (correspondence), and the property itself is evaluated on it (search): whatever a
// message value has been through, Payload()/Size() are a function of its exported fields.
package main

import (
	"bytes"
	"fmt"
	"strings"

	"github.com/Eyevinn/mp4ff/avc"
	"github.com/Eyevinn/mp4ff/hevc"
	"github.com/Eyevinn/mp4ff/sei"
	"verifharness/hx"
)

const (
	kTC = iota
	kPT
	kMD
	kCL
)

// hval is one typed message value under test (exactly one pointer is set)
type hval struct {
	kind int
	tc   *sei.TimeCodeSEI
	pt   *sei.PicTimingAvcSEI
	md   *sei.MasteringDisplayColourVolumeSEI
	cl   *sei.ContentLightLevelInformationSEI
}

func (h *hval) msg() sei.SEIMessage {
	switch h.kind {
	case kTC:
		return h.tc
	case kPT:
		return h.pt
	case kMD:
		return h.md
	}
	return h.cl
}

func kindTag(k int) string { return []string{"136", "1", "137", "144"}[k] }

// fields: the EXPORTED fields only, in the encoding the model driver parses
func (h *hval) fields() string {
	switch h.kind {
	case kTC:
		return clocksString(h.tc.Clocks)
	case kPT:
		return ptString(h.pt)
	case kMD:
		return mdcvString(h.md)
	}
	return hu(uint64(h.cl.MaxContentLightLevel)) + "," + hu(uint64(h.cl.MaxPicAverageLightLevel))
}

// fresh: a struct literal carrying the same exported field values and nothing else (deep copy)
func (h *hval) fresh() *hval {
	switch h.kind {
	case kTC:
		return &hval{kind: kTC, tc: &sei.TimeCodeSEI{Clocks: append([]sei.ClockTS(nil), h.tc.Clocks...)}}
	case kPT:
		n := &sei.PicTimingAvcSEI{TimeOffsetLength: h.pt.TimeOffsetLength, PictStruct: h.pt.PictStruct,
			Clocks: append([]sei.ClockTSAvc(nil), h.pt.Clocks...)}
		if h.pt.CbpDbpDelay != nil {
			d := sei.CbpDbpDelay{CpbRemovalDelay: h.pt.CbpDbpDelay.CpbRemovalDelay, DpbOutputDelay: h.pt.CbpDbpDelay.DpbOutputDelay,
				InitialCpbRemovalDelayLengthMinus1: h.pt.CbpDbpDelay.InitialCpbRemovalDelayLengthMinus1,
				CpbRemovalDelayLengthMinus1:        h.pt.CbpDbpDelay.CpbRemovalDelayLengthMinus1,
				DpbOutputDelayLengthMinus1:         h.pt.CbpDbpDelay.DpbOutputDelayLengthMinus1}
			n.CbpDbpDelay = &d
		}
		return &hval{kind: kPT, pt: n}
	case kMD:
		return &hval{kind: kMD, md: &sei.MasteringDisplayColourVolumeSEI{DisplayPrimariesX: h.md.DisplayPrimariesX,
			DisplayPrimariesY: h.md.DisplayPrimariesY, WhitePointX: h.md.WhitePointX, WhitePointY: h.md.WhitePointY,
			MaxDisplayMasteringLuminance: h.md.MaxDisplayMasteringLuminance, MinDisplayMasteringLuminance: h.md.MinDisplayMasteringLuminance}}
	}
	return &hval{kind: kCL, cl: &sei.ContentLightLevelInformationSEI{MaxContentLightLevel: h.cl.MaxContentLightLevel,
		MaxPicAverageLightLevel: h.cl.MaxPicAverageLightLevel}}
}

// ---------------------------------------------------------------- canonical predicates (mirror coq *_canonical)
func hmsCanon(full, sf, mf, hf bool, s, m, h byte) bool {
	switch {
	case full:
		return !sf && !mf && !hf && s < 64 && m < 64 && h < 32
	case sf:
		if s >= 64 {
			return false
		}
		if mf {
			if hf {
				return m < 64 && h < 32
			}
			return m < 64 && h == 0
		}
		return m == 0 && !hf && h == 0
	}
	return s == 0 && !mf && m == 0 && !hf && h == 0
}

func clockCanon(c sei.ClockTS) bool {
	if !c.ClockTimeStampFlag {
		return c == sei.ClockTS{}
	}
	return c.CountingType < 32 && c.NFrames < 512 &&
		hmsCanon(c.FullTimeStampFlag, c.SecondsFlag, c.MinutesFlag, c.HoursFlag, c.Seconds, c.Minutes, c.Hours) &&
		c.TimeOffsetLength < 32 && uint64(c.TimeOffsetValue) < uint64(1)<<c.TimeOffsetLength
}

func clockAvcCanon(c sei.ClockTSAvc, tolen byte) bool {
	if c.TimeOffsetLength != tolen {
		return false
	}
	if !c.ClockTimeStampFlag {
		return c == sei.ClockTSAvc{TimeOffsetLength: tolen}
	}
	ok := c.CtType < 4 && c.CountingType < 32 &&
		hmsCanon(c.FullTimeStampFlag, c.SecondsFlag, c.MinutesFlag, c.HoursFlag, c.Seconds, c.Minutes, c.Hours)
	if tolen > 0 {
		lo := -(int64(1) << (tolen - 1))
		hi := int64(1) << (tolen - 1)
		return ok && int64(c.TimeOffsetValue) >= lo && int64(c.TimeOffsetValue) < hi
	}
	return ok && c.TimeOffsetValue == 0
}

func (h *hval) canonical() bool {
	switch h.kind {
	case kTC:
		if len(h.tc.Clocks) > 3 {
			return false
		}
		for _, c := range h.tc.Clocks {
			if !clockCanon(c) {
				return false
			}
		}
		return true
	case kPT:
		m := h.pt
		if d := m.CbpDbpDelay; d != nil {
			if d.CpbRemovalDelayLengthMinus1 >= 32 || d.DpbOutputDelayLengthMinus1 >= 32 ||
				uint64(d.CpbRemovalDelay) >= uint64(1)<<(d.CpbRemovalDelayLengthMinus1+1) ||
				uint64(d.DpbOutputDelay) >= uint64(1)<<(d.DpbOutputDelayLengthMinus1+1) {
				return false
			}
		}
		if m.TimeOffsetLength >= 32 || numClockTS(m.PictStruct) != len(m.Clocks) {
			return false
		}
		for _, c := range m.Clocks {
			if !clockAvcCanon(c, m.TimeOffsetLength) {
				return false
			}
		}
		return true
	}
	return true
}

// ---------------------------------------------------------------- origins
func genVal(r *hx.Rng, kind int, canonical bool) *hval {
	switch kind {
	case kTC:
		return &hval{kind: kTC, tc: genTimeCode(r, canonical)}
	case kPT:
		return &hval{kind: kPT, pt: genPicTiming(r, canonical, r.Bool(), byte(pickU(r, 31)))}
	case kMD:
		return &hval{kind: kMD, md: genMdcv(r)}
	}
	return &hval{kind: kCL, cl: &sei.ContentLightLevelInformationSEI{MaxContentLightLevel: uint16(pickU(r, 65535)),
		MaxPicAverageLightLevel: uint16(pickU(r, 65535))}}
}

func wrapMsg(m sei.SEIMessage) *hval {
	switch v := m.(type) {
	case *sei.TimeCodeSEI:
		return &hval{kind: kTC, tc: v}
	case *sei.PicTimingAvcSEI:
		return &hval{kind: kPT, pt: v}
	case *sei.MasteringDisplayColourVolumeSEI:
		return &hval{kind: kMD, md: v}
	case *sei.ContentLightLevelInformationSEI:
		return &hval{kind: kCL, cl: v}
	}
	return nil
}

// decodeDirect: the typed decoder on a payload, the external parameters taken from like
func decodeDirect(like *hval, pl []byte) *hval {
	switch like.kind {
	case kTC:
		if c, _, m := decodeTC(pl); c == "ok" {
			return &hval{kind: kTC, tc: m}
		}
	case kPT:
		if c, _, m := decodePT(pl, like.pt.CbpDbpDelay, like.pt.TimeOffsetLength); c == "ok" {
			return &hval{kind: kPT, pt: m}
		}
	case kMD:
		if c, _, m := decodeMdcv(pl); c == "ok" {
			return &hval{kind: kMD, md: m}
		}
	case kCL:
		if c, _, m := decodeCll(pl); c == "ok" {
			return &hval{kind: kCL, cl: m}
		}
	}
	return nil
}

func spsFor(pt *sei.PicTimingAvcSEI, vcl bool) *avc.SPS {
	if pt.CbpDbpDelay == nil {
		return nil
	}
	hp := &avc.HrdParameters{CpbRemovalDelayLengthMinus1: uint(pt.CbpDbpDelay.CpbRemovalDelayLengthMinus1),
		DpbOutputDelayLengthMinus1: uint(pt.CbpDbpDelay.DpbOutputDelayLengthMinus1), TimeOffsetLength: uint(pt.TimeOffsetLength)}
	vui := &avc.VUIParameters{PicStructPresentFlag: true}
	if vcl {
		vui.VclHrdParametersPresentFlag, vui.VclHrdParameters = true, hp
	} else {
		vui.NalHrdParametersPresentFlag, vui.NalHrdParameters = true, hp
	}
	return &avc.SPS{VUI: vui}
}

// decodeVia: the payload goes through one of the library's decoding paths; nil if that path cannot
// carry the external parameters of like (or fails)
func decodeVia(r *hx.Rng, like *hval, pl []byte, path int) (v *hval, how string) {
	var m sei.SEIMessage
	var err error
	switch path {
	case 0:
		return decodeDirect(like, pl), "dec"
	case 1: // sei.DecodeSEIMessage
		codec := sei.HEVC
		if like.kind == kPT {
			if like.pt.CbpDbpDelay != nil || like.pt.TimeOffsetLength != 0 {
				return decodeDirect(like, pl), "dec"
			}
			codec = sei.AVC
		}
		p := hx.Try(func() { m, err = sei.DecodeSEIMessage(sei.NewSEIData(like.msg().Type(), hx.Exact(pl)), codec) })
		if p != "" || err != nil {
			return nil, "decmsg"
		}
		return wrapMsg(m), "decmsg"
	default: // a NAL unit through the codec wrapper, between other messages
		var ms []sei.SEIMessage
		pre := r.Intn(2)
		for i := 0; i < pre; i++ {
			ms = append(ms, sei.NewSEIData(uint(r.Pick(0, 6, 255)), genPayload(r, r.Intn(4))))
		}
		ms = append(ms, sei.NewSEIData(like.msg().Type(), pl))
		if r.Bool() {
			ms = append(ms, sei.NewSEIData(uint(r.Pick(0, 6, 300)), genPayload(r, r.Intn(4))))
		}
		var buf bytes.Buffer
		if sei.WriteSEIMessages(&buf, ms) != nil {
			return nil, "nalu"
		}
		var got []sei.SEIMessage
		if like.kind == kPT {
			if like.pt.CbpDbpDelay == nil && like.pt.TimeOffsetLength != 0 {
				return decodeDirect(like, pl), "dec"
			}
			sps := spsFor(like.pt, r.Bool())
			nalu := append([]byte{0x06}, buf.Bytes()...)
			p := hx.Try(func() { got, err = avc.ParseSEINalu(hx.Exact(nalu), sps) })
			if p != "" || err != nil || len(got) != len(ms) {
				return nil, "nalu"
			}
		} else {
			nalu := append([]byte{0x4e, 0x01}, buf.Bytes()...)
			p := hx.Try(func() { got, err = hevc.ParseSEINalu(hx.Exact(nalu), nil) })
			if p != "" || err != nil || len(got) != len(ms) {
				return nil, "nalu"
			}
		}
		return wrapMsg(got[pre]), "nalu"
	}
}

// ---------------------------------------------------------------- edits (each keeps a canonical value canonical)
func setHMS(r *hx.Rng) (full, sf, mf, hf bool, s, m, h byte) { return genHMS(r, true) }

func editClock(r *hx.Rng, c *sei.ClockTS) string {
	if !c.ClockTimeStampFlag || r.Intn(6) == 0 {
		*c = genClock(r, true)
		return "clock"
	}
	switch r.Intn(8) {
	case 0:
		c.UnitsFieldBasedFlag = !c.UnitsFieldBasedFlag
		return "units"
	case 1:
		c.CountingType = (c.CountingType + byte(r.Range(1, 31))) % 32
		return "counting"
	case 2:
		c.DiscontinuityFlag = !c.DiscontinuityFlag
		return "disc"
	case 3:
		c.CntDroppedFlag = !c.CntDroppedFlag
		return "dropped"
	case 4:
		c.NFrames = (c.NFrames + uint16(r.Range(1, 511))) % 512
		return "nframes"
	case 5:
		c.FullTimeStampFlag, c.SecondsFlag, c.MinutesFlag, c.HoursFlag, c.Seconds, c.Minutes, c.Hours = setHMS(r)
		return "hms"
	case 6:
		c.TimeOffsetLength = byte(pickU(r, 31))
		c.TimeOffsetValue = 0
		if c.TimeOffsetLength > 0 {
			c.TimeOffsetValue = uint32(pickU(r, (uint64(1)<<c.TimeOffsetLength)-1))
		}
		return "tolen"
	}
	if c.TimeOffsetLength > 0 {
		c.TimeOffsetValue = (c.TimeOffsetValue + 1 + uint32(r.U64())) & uint32((uint64(1)<<c.TimeOffsetLength)-1)
		return "toval"
	}
	c.ClockTimeStampFlag = false
	*c = sei.ClockTS{}
	return "flagoff"
}

func toRange(r *hx.Rng, tolen byte) int {
	if tolen == 0 {
		return 0
	}
	lo := -(int64(1) << (tolen - 1))
	hi := (int64(1) << (tolen - 1)) - 1
	switch r.Intn(4) {
	case 0:
		return int(lo)
	case 1:
		return int(hi)
	case 2:
		return -1
	}
	return int(lo + int64(r.U64()%uint64(hi-lo+1)))
}

func editClockAvc(r *hx.Rng, c *sei.ClockTSAvc, tolen byte) string {
	if !c.ClockTimeStampFlag || r.Intn(6) == 0 {
		*c = genClockAvc(r, tolen, true)
		return "clock"
	}
	switch r.Intn(9) {
	case 0:
		c.CtType = (c.CtType + byte(r.Range(1, 3))) % 4
		return "cttype"
	case 1:
		c.NuitFieldBasedFlag = !c.NuitFieldBasedFlag
		return "nuit"
	case 2:
		c.CountingType = (c.CountingType + byte(r.Range(1, 31))) % 32
		return "counting"
	case 3:
		c.DiscontinuityFlag = !c.DiscontinuityFlag
		return "disc"
	case 4:
		c.CntDroppedFlag = !c.CntDroppedFlag
		return "dropped"
	case 5:
		c.NFrames += byte(r.Range(1, 255))
		return "nframes"
	case 6:
		c.FullTimeStampFlag, c.SecondsFlag, c.MinutesFlag, c.HoursFlag, c.Seconds, c.Minutes, c.Hours = setHMS(r)
		return "hms"
	case 7:
		if tolen > 0 {
			old := c.TimeOffsetValue
			for i := 0; i < 4 && c.TimeOffsetValue == old; i++ {
				c.TimeOffsetValue = toRange(r, tolen)
			}
			return "toval"
		}
	}
	*c = sei.ClockTSAvc{TimeOffsetLength: tolen}
	return "flagoff"
}

// edit changes exported fields of v in place (through the pointer v holds) and names what it did
func edit(r *hx.Rng, v *hval) string {
	switch v.kind {
	case kTC:
		m := v.tc
		n := len(m.Clocks)
		switch c := r.Intn(6); {
		case c == 0 && n < 3:
			m.Clocks = append(m.Clocks, genClock(r, true))
			return "append"
		case c == 1 && n > 0:
			m.Clocks = m.Clocks[:n-1]
			return "truncate"
		case c == 2 && n > 0: // a new slice, one clock replaced
			cs := append([]sei.ClockTS(nil), m.Clocks...)
			i := r.Intn(n)
			cs[i] = genClock(r, true)
			m.Clocks = cs
			return fmt.Sprintf("newclocks[%d]", i)
		case n > 0:
			i := r.Intn(n)
			return fmt.Sprintf("c%d.%s", i, editClock(r, &m.Clocks[i]))
		}
		m.Clocks = append(m.Clocks, genClock(r, true))
		return "append"
	case kPT:
		m := v.pt
		n := len(m.Clocks)
		switch r.Intn(9) {
		case 0: // pict_struct within the same clock count
			if k := numClockTS(m.PictStruct); k >= 1 {
				cands := [][]uint8{{0, 1, 2}, {3, 4}, {5, 6, 7, 8}}[k-1]
				m.PictStruct = cands[(r.Intn(len(cands)))]
				return "pict"
			}
		case 1: // pict_struct with another clock count
			m.PictStruct = uint8(r.Intn(9))
			k := numClockTS(m.PictStruct)
			for len(m.Clocks) < k {
				m.Clocks = append(m.Clocks, genClockAvc(r, m.TimeOffsetLength, true))
			}
			m.Clocks = m.Clocks[:k]
			return "pict+clocks"
		case 2:
			if d := m.CbpDbpDelay; d != nil { // through the shared pointer
				d.CpbRemovalDelay = uint(pickU(r, (uint64(1)<<(d.CpbRemovalDelayLengthMinus1+1))-1))
				d.DpbOutputDelay = uint(pickU(r, (uint64(1)<<(d.DpbOutputDelayLengthMinus1+1))-1))
				return "delays"
			}
		case 3:
			if d := m.CbpDbpDelay; d != nil { // a new CbpDbpDelay with other lengths
				nd := *d
				nd.CpbRemovalDelayLengthMinus1, nd.DpbOutputDelayLengthMinus1 = byte(pickU(r, 31)), byte(pickU(r, 31))
				nd.CpbRemovalDelay = uint(pickU(r, (uint64(1)<<(nd.CpbRemovalDelayLengthMinus1+1))-1))
				nd.DpbOutputDelay = uint(pickU(r, (uint64(1)<<(nd.DpbOutputDelayLengthMinus1+1))-1))
				m.CbpDbpDelay = &nd
				return "hrdlens"
			}
		case 4:
			if m.CbpDbpDelay != nil {
				m.CbpDbpDelay = nil
				return "hrd=nil"
			}
			d := &sei.CbpDbpDelay{CpbRemovalDelayLengthMinus1: byte(pickU(r, 31)), DpbOutputDelayLengthMinus1: byte(pickU(r, 31))}
			d.CpbRemovalDelay = uint(pickU(r, (uint64(1)<<(d.CpbRemovalDelayLengthMinus1+1))-1))
			m.CbpDbpDelay = d
			return "hrd=new"
		case 5: // the time-offset length of the message and of every clock
			tl := byte(pickU(r, 31))
			m.TimeOffsetLength = tl
			cs := append([]sei.ClockTSAvc(nil), m.Clocks...)
			for i := range cs {
				cs[i].TimeOffsetLength = tl
				cs[i].TimeOffsetValue = 0
				if cs[i].ClockTimeStampFlag {
					cs[i].TimeOffsetValue = toRange(r, tl)
				}
			}
			m.Clocks = cs
			return "tolen"
		case 6:
			if n > 0 { // a new slice, one clock replaced
				cs := append([]sei.ClockTSAvc(nil), m.Clocks...)
				i := r.Intn(n)
				cs[i] = genClockAvc(r, m.TimeOffsetLength, true)
				m.Clocks = cs
				return fmt.Sprintf("newclocks[%d]", i)
			}
		}
		if n > 0 {
			i := r.Intn(n)
			return fmt.Sprintf("c%d.%s", i, editClockAvc(r, &m.Clocks[i], m.TimeOffsetLength))
		}
		m.PictStruct = uint8(r.Intn(3))
		m.Clocks = []sei.ClockTSAvc{genClockAvc(r, m.TimeOffsetLength, true)}
		return "pict+clocks"
	case kMD:
		m := v.md
		switch r.Intn(5) {
		case 0:
			i := r.Intn(3)
			m.DisplayPrimariesX[i] += uint16(r.Range(1, 65535))
			return "x"
		case 1:
			i := r.Intn(3)
			m.DisplayPrimariesY[i] = uint16(pickU(r, 65535)) ^ 1
			return "y"
		case 2:
			m.WhitePointX, m.WhitePointY = m.WhitePointY+1, m.WhitePointX
			return "wp"
		case 3:
			m.MaxDisplayMasteringLuminance += uint32(r.Range(1, 1<<30))
			return "max"
		}
		m.MinDisplayMasteringLuminance = uint32(r.Intn(4)) // bytes needing emulation prevention in the NAL unit
		m.DisplayPrimariesX[1] = 0
		return "min"
	}
	if r.Bool() {
		v.cl.MaxContentLightLevel += uint16(r.Range(1, 65535))
		return "max"
	}
	v.cl.MaxPicAverageLightLevel = uint16(pickU(r, 65535)) ^ 0x100
	return "avg"
}

// junk: an out-of-domain edit (correspondence only: the model covers every field value)
func junk(r *hx.Rng, v *hval) string {
	switch v.kind {
	case kTC:
		if n := len(v.tc.Clocks); n > 0 && r.Intn(3) != 0 {
			i := r.Intn(n)
			v.tc.Clocks[i] = genClock(r, false)
			return fmt.Sprintf("junk.c%d", i)
		}
		v.tc.Clocks = append(v.tc.Clocks, genClock(r, false))
		return "junk.append"
	case kPT:
		switch n := len(v.pt.Clocks); {
		case n > 0 && r.Intn(3) != 0:
			i := r.Intn(n)
			v.pt.Clocks[i] = genClockAvc(r, v.pt.TimeOffsetLength, false)
			return fmt.Sprintf("junk.c%d", i)
		case r.Bool():
			v.pt.PictStruct = uint8(r.Intn(16))
			return "junk.pict"
		case v.pt.CbpDbpDelay != nil:
			v.pt.CbpDbpDelay.CpbRemovalDelay = uint(r.U64())
			return "junk.delay"
		}
		v.pt.TimeOffsetLength = byte(r.Intn(32))
		return "junk.tolen"
	}
	return edit(r, v)
}

func copyVal(v *hval) *hval {
	switch v.kind {
	case kTC:
		c := *v.tc
		return &hval{kind: kTC, tc: &c}
	case kPT:
		c := *v.pt
		return &hval{kind: kPT, pt: &c}
	case kMD:
		c := *v.md
		return &hval{kind: kMD, md: &c}
	}
	c := *v.cl
	return &hval{kind: kCL, cl: &c}
}

// runHistory: origin, then k steps. canonicalOnly: no out-of-domain origin or edit.
func runHistory(r *hx.Rng, kind int, canonicalOnly bool) (*hval, string) {
	var log []string
	g := genVal(r, kind, canonicalOnly || r.Intn(5) != 0)
	v := g
	origin := r.Intn(5)
	switch {
	case origin == 0:
		log = append(log, "build")
	case origin == 4 && !canonicalOnly: // a decoder on arbitrary bytes
		pl := r.Bytes(r.Pick(1, 2, 3, 4, 5, 8, 12, 24), nil)
		if d := decodeDirect(g, pl); d != nil {
			v = d
			log = append(log, "decraw")
		} else {
			log = append(log, "build")
		}
	default:
		_, pl, wc := tryPayload(g.msg())
		var d *hval
		how := "build"
		if wc == "ok" {
			d, how = decodeVia(r, g, pl, r.Intn(3))
		}
		if d != nil && d.kind == kind {
			v = d
			log = append(log, how)
		} else {
			log = append(log, "build")
		}
	}
	k := r.Pick(0, 1, 1, 1, 2, 2, 3)
	for i := 0; i < k; i++ {
		switch r.Intn(8) {
		case 0, 1: // copy the struct, edit the copy
			v = copyVal(v)
			log = append(log, "copy", edit(r, v))
		case 2: // edit, serialise, decode again, go on with the decoded value
			log = append(log, edit(r, v))
			if _, pl, wc := tryPayload(v.msg()); wc == "ok" {
				if d, how := decodeVia(r, v, pl, r.Intn(3)); d != nil && d.kind == kind {
					v = d
					log = append(log, "re"+how)
				}
			}
		case 3:
			if !canonicalOnly {
				log = append(log, junk(r, v))
				break
			}
			fallthrough
		case 4: // use the value (Size/Payload/String/WriteSEIMessages), drop the result, then edit it
			hx.Try(func() {
				_ = v.msg().Size()
				_ = v.msg().Payload()
				_ = v.msg().String()
				_ = sei.WriteSEIMessages(&bytes.Buffer{}, []sei.SEIMessage{v.msg()})
			})
			log = append(log, "observe", edit(r, v))
		default:
			log = append(log, edit(r, v))
		}
	}
	return v, strings.Join(log, ">")
}

func writeOne(m sei.SEIMessage) (string, []byte) {
	var buf bytes.Buffer
	var err error
	p := hx.Try(func() { err = sei.WriteSEIMessages(&buf, []sei.SEIMessage{m}) })
	switch {
	case p != "":
		return "panic", nil
	case err != nil:
		return "err", buf.Bytes()
	}
	return "ok", buf.Bytes()
}

// ---------------------------------------------------------------- corr: H lines
// H<type> id history fields wclass size payload written dclass dfields
func corrHistory(r *hx.Rng, id *int, n int) {
	for i := 0; i < n; i++ {
		tag := fmt.Sprintf("h%d", *id)
		*id++
		if i%8 == 7 {
			corrPassHistory(r, tag)
			continue
		}
		kind := []int{kTC, kPT, kPT, kTC, kMD, kPT, kCL}[i%8]
		v, hist := runHistory(r, kind, false)
		f := v.fields() // read before serialising: exported fields of the final value
		sz, pl, wc := tryPayload(v.msg())
		wr := "-"
		if wc == "ok" {
			var wb []byte
			wc, wb = writeOne(v.msg())
			wr = hx.Hex(wb)
		}
		var dc, ds string
		switch kind {
		case kTC:
			dc, ds, _ = decodeTC(pl)
		case kPT:
			dc, ds, _ = decodePT(pl, v.pt.CbpDbpDelay, v.pt.TimeOffsetLength)
		case kMD:
			dc, ds, _ = decodeMdcv(pl)
		case kCL:
			dc, ds, _ = decodeCll(pl)
		}
		fmt.Fprintf(out, "H%s\t%s\t%s\t%s\t%s\t%s\t%s\t%s\t%s\t%s\n", kindTag(kind), tag, hist, f, wc, hu(uint64(sz)), hx.Hex(pl), wr, dc, ds)
	}
}

// pass-through history: decode, edit the exported fields of the decoded message, Payload()/Size()
func editPass(r *hx.Rng, m sei.SEIMessage) (sei.SEIMessage, string) {
	switch v := m.(type) {
	case *sei.CEA608sei:
		if r.Bool() {
			c := *v
			c.Field1 = []byte{0x94, 0x2c}
			return &c, "copy>field1"
		}
		v.Field1, v.Field2 = v.Field2, append(v.Field1, 0x80)
		return v, "fields"
	case *sei.RegisteredSEI:
		v.ITUTData.CountryCode ^= 0xff
		v.ITUTData.UserIdentifier++
		return v, "itut"
	case *sei.UnregisteredSEI:
		if r.Bool() {
			c := *v
			c.UUID = bytes.Repeat([]byte{0x5a}, 16)
			return &c, "copy>uuid"
		}
		v.UUID = nil
		return v, "uuid=nil"
	case *sei.PicTimingHevcSEI:
		if r.Bool() {
			c := *v
			c.AuCpbRemovalDelayMinus1++
			c.FrameFieldInfo = &sei.HEVCFrameFieldInfo{PicStruct: 3}
			return &c, "copy>fields"
		}
		v.ExternalParams.CpbDpbDelaysPresentFlag = !v.ExternalParams.CpbDpbDelaysPresentFlag
		v.PicDpbOutputDelay += 7
		v.NumNalusInDuMinus1 = append(v.NumNalusInDuMinus1, 1)
		return v, "fields"
	}
	return m, "none"
}

func genPass(r *hx.Rng) (which string, pl []byte, par sei.HEVCPicTimingParams) {
	which = []string{"P4", "P5", "P1H"}[r.Intn(3)]
	switch which {
	case "P4":
		pl = genRegistered(r)
	case "P5":
		pl = r.Bytes(r.Pick(15, 16, 17, 20, 40), escAlphabet)
	case "P1H":
		par = genHevcPar(r)
		pl = r.Bytes(r.Range(1, 14), nil)
	}
	return
}

// HP id which history par payload class finalPayload finalSize
func corrPassHistory(r *hx.Rng, tag string) {
	which, pl, par := genPass(r)
	dc, _, m := decodePass(which, pl, par)
	hist, fp, fs := "dec", "-", "-"
	if dc == "ok" {
		k := r.Intn(3)
		for i := 0; i < k; i++ {
			var h string
			m, h = editPass(r, m)
			hist += ">" + h
		}
		fp, fs = hx.Hex(m.Payload()), hu(uint64(m.Size()))
	}
	fmt.Fprintf(out, "HP\t%s\t%s\t%s\t%s\t%s\t%s\t%s\t%s\n", tag, which, hist, hevcParString(par), hx.Hex(pl), dc, fp, fs)
}

// ---------------------------------------------------------------- search: the property on the final value of a history
func siteOf(kind int) string {
	return []string{"sei.TimeCodeSEI", "sei.PicTimingAvcSEI", "sei.MasteringDisplayColourVolumeSEI", "sei.ContentLightLevelInformationSEI"}[kind]
}

func checkHistory(r *hx.Rng, i int) {
	evals++
	if i%8 == 7 {
		which, pl, par := genPass(r)
		dc, _, m := decodePass(which, pl, par)
		if dc != "ok" {
			return
		}
		hist := "dec"
		for j, k := 0, r.Intn(3); j < k; j++ {
			var h string
			m, h = editPass(r, m)
			hist += ">" + h
		}
		if !bytes.Equal(m.Payload(), pl) || m.Size() != uint(len(pl)) {
			fail("sei pass-through "+which, "payload-changed-after-edit", hx.Hex(pl)+" "+hist,
				"a decoded pass-through message does not return its payload unchanged after its exported fields were edited")
		}
		return
	}
	kind := []int{kPT, kTC, kPT, kMD, kPT, kTC, kCL}[i%8]
	v, hist := runHistory(r, kind, true)
	f := v.fields()
	w := hist + " => " + f
	site := siteOf(kind)
	if !v.canonical() {
		fail("harness c17", "generator-not-canonical", w, "a canonical-only history produced a non-canonical value (generator defect)")
		return
	}
	sz, pl, wc := tryPayload(v.msg())
	if wc != "ok" {
		fail(site+".Payload", "panic", w, "Payload()/Size() panics on a canonical value")
		return
	}
	if sz != uint(len(pl)) {
		fail(site+".Size", "size-differs", w, fmt.Sprintf("Size()=%d but Payload() has %d bytes", sz, len(pl)))
	}
	// Payload()/Size() are a function of the exported fields: a struct literal with the same exported
	// field values serialises to the same bytes
	fr := v.fresh()
	fsz, fpl, fwc := tryPayload(fr.msg())
	if fwc != "ok" || fsz != sz || !bytes.Equal(fpl, pl) {
		fail(site+".Payload", "payload-depends-on-history", w,
			fmt.Sprintf("Payload()=%s Size()=%d, but a struct literal with the same exported fields gives %s / %d", hx.Hex(pl), sz, hx.Hex(fpl), fsz))
	}
	// serialise + decode returns an equal message: exported fields AND the bytes of Payload()
	d := decodeDirect(v, pl)
	if d == nil {
		fail(site, "roundtrip-differs", w, "decode(Payload()) fails on "+hx.Hex(pl))
		return
	}
	if d.fields() != f || !bytes.Equal(d.msg().Payload(), pl) || d.msg().Size() != sz {
		fail(site, "roundtrip-differs", w, "decode(Payload()) = "+d.fields()+" with payload "+hx.Hex(d.msg().Payload())+" from "+hx.Hex(pl))
	}
	if v.fields() != f {
		fail(site, "fields-changed-by-serialising", w, "Payload()/Size() changed the exported fields to "+v.fields())
	}
	// the same through WriteSEIMessages and the codec wrapper
	if i%2 == 0 {
		wcl, wb := writeOne(v.msg())
		if wcl != "ok" {
			fail("sei.WriteSEIMessages", "write-fails", w, "error on a typed message")
			return
		}
		var plain []byte
		plain = append(append(append(plain, naiveFF(v.msg().Type())...), naiveFF(uint(len(fpl)))...), fpl...)
		if !bytes.Equal(wb, naiveEscape(append(plain, 0x80))) {
			fail("sei.WriteSEIMessages", "typed-bytes", w, "written bytes "+hx.Hex(wb)+" are not the serialisation of the exported fields")
		}
		if kind == kPT && v.pt.CbpDbpDelay == nil && v.pt.TimeOffsetLength != 0 {
			return // the wrapper cannot be given a time-offset length without HRD parameters
		}
		var got []sei.SEIMessage
		var err error
		p := hx.Try(func() {
			if kind == kPT {
				got, err = avc.ParseSEINalu(hx.Exact(append([]byte{0x06}, wb...)), spsFor(v.pt, false))
			} else {
				got, err = hevc.ParseSEINalu(hx.Exact(append([]byte{0x4e, 0x01}, wb...)), nil)
			}
		})
		if p != "" || err != nil || len(got) != 1 {
			fail(site+" in NAL unit", "typed-roundtrip-fails", w, fmt.Sprintf("ParseSEINalu(WriteSEIMessages [m]): %v %s on %s", err, p, hx.Hex(wb)))
			return
		}
		g := wrapMsg(got[0])
		exp := f
		if kind == kPT && v.pt.CbpDbpDelay != nil { // the wrapper does not know InitialCpbRemovalDelayLengthMinus1
			c := v.fresh()
			c.pt.CbpDbpDelay.InitialCpbRemovalDelayLengthMinus1 = 0
			exp = c.fields()
		}
		if g == nil || g.kind != kind || g.fields() != exp || !bytes.Equal(got[0].Payload(), fpl) {
			fail(site+" in NAL unit", "typed-roundtrip-differs", w, "message differs after WriteSEIMessages + ParseSEINalu: "+hx.Hex(wb))
		}
	}
}
